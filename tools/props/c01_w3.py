"""C01, third wave: input classes the earlier streams did not reach.
  chain          multi-step history  tensor(array in any memory layout, copy flag) -> to_tenmat -> tenmat(data in that layout) ->
                 to_tensor -> to_sptensor -> to_sptenmat -> to_sptensor -> full, every intermediate object observed raw
  spz            a sparse tensor with explicitly STORED ZEROS (plain constructor; also copy=False with subs / vals of other memory
                 layouts, and the shape-only constructor when nothing is stored) handed to full / to_tensor / double /
                 to_sptenmat (+ back, + full) / spmatrix
  stm_nocopy     sptenmat(subs, vals, rdims, cdims, tshape, copy=False): the guards run, the arguments are stored UNCHANGED
                 (unsorted, stored zeros kept) — handed to to_sptensor / full / double
  sptenmat_big   sparse tensors whose unfolding has more than 32767 (2^15) rows or columns, nonzeros at high indices
Imported by props/c01.py."""
import math
from vcheck import Case, gnlist, gnmat, gzlist
import tgen
from props.c01_conv import (np_dtype, mk_dense_grown, LAYOUTS, relayout, ordered_partitions, _arr, _obs_tenmat, _obs_sptenmat, _obs_coo, _sub, _gopt_nlist, _gcy,
                            _gtm, _gstm2, _gcoo, _ints_dense, _lin, _resolve, _valid_request)

OPS3 = {"chain", "spz", "stm_nocopy", "sptenmat_big"}


# ---------------------------------------------------------------------------------------- generators
def _rand_part(rng, N):
    r, c = rng.choice(ordered_partitions(N))
    if rng.random() < 0.25:                      # fully vectorised: N x 1 / 1 x N
        allm = rng.sample(range(N), N)
        r, c = (allm, []) if rng.random() < 0.5 else ([], allm)
    return r, c


def _zero_vals(rng, vals, kind):
    vals = list(vals)
    if not vals:
        return vals
    if kind == "allzero":
        return [0] * len(vals)
    for _ in range(rng.randint(1, max(1, len(vals) // 2))):
        vals[rng.randrange(len(vals))] = 0
    return vals


def gen_cases_w3(rng, tier):
    big = tier == "thorough"
    cases = []
    # ---------------- chain
    shapes = [[3], [1], [2, 3], [3, 1], [1, 4], [2, 3, 4], [2, 1, 3], [3, 2, 2], [2, 3, 2, 2]]
    shapes += [tgen.rand_shape(rng, maxn=4, maxcells=48) for _ in range(60 if big else 14)]
    for shp in shapes:
        for lay in (LAYOUTS + ["F"] if (big or len(shp) <= 2) else [rng.choice(LAYOUTS), rng.choice(LAYOUTS + ["F"])]):
            n = math.prod(shp)
            fill = rng.choice([0.0, 0.3, 0.6, 1.0, 1.0])
            data = tgen.rand_dense(rng, shp, fill)
            if fill == 0.3 and n > 1:            # exactly one nonzero
                data = [0] * n
                data[rng.randrange(n)] = rng.choice([-2, 3])
            r, c = _rand_part(rng, len(shp))
            r2, c2 = _rand_part(rng, len(shp))
            # via: the data handed over in ANOTHER array shape (flat vector / matrix d0 x rest, F-order content) together with
            # the shape argument, so that the constructor's F-order reshape acts on an array of the given memory layout
            via = rng.choice([None, None, "flat", "mat"])
            cases.append(Case("chain", {"shape": shp, "data": data, "lay": lay, "copy": rng.random() < 0.5, "via": via,
                                        "give_shape": via is not None or rng.random() < 0.5, "rd": r, "cd": c, "rd2": r2, "cd2": c2},
                              n > 1 and any(data)))
    # ---------------- stored zeros in a sparse tensor
    for _ in range(160 if big else 40):
        shp = tgen.rand_shape(rng, maxn=4, maxcells=36)
        n = math.prod(shp)
        data = tgen.rand_dense(rng, shp, rng.choice([0.3, 0.6, 1.0]))
        subs, vals = tgen.dense_to_sparse(shp, data, rng, rng.choice(["sorted", "reversed", "random"]))
        kind = rng.choice(["some", "some", "allzero", "none", "empty"])
        if kind == "empty":
            subs, vals = [], []
        elif kind != "none":
            vals = _zero_vals(rng, vals, kind)
        r, c = _rand_part(rng, len(shp))
        ctor = rng.choice(["copy", "copy", "nocopy"])
        a = {"shape": shp, "subs": subs, "vals": vals, "rd": r, "cd": c, "ctor": ctor}
        if ctor == "nocopy":
            a["slay"], a["vlay"] = rng.choice(LAYOUTS + ["F"]), rng.choice(["C", "slice", "neg"])
        if not subs and rng.random() < 0.5:
            a["ctor"] = "shape_only"
        cases.append(Case("spz", a, n > 1 and any(vals)))
    # ---------------- sptenmat(..., copy=False)
    for _ in range(160 if big else 40):
        tshape = tgen.rand_shape(rng, maxn=4, maxcells=36)
        N = len(tshape)
        r, c = _rand_part(rng, N)
        R, C = math.prod(tshape[k] for k in r), math.prod(tshape[k] for k in c)
        k = rng.randint(0, min(8, R * C))
        cells = rng.sample([(i, j) for i in range(R) for j in range(C)], k)
        vals = [rng.choice([-3, -2, -1, 1, 2, 3, 4]) for _ in cells]
        kind = rng.choice(["ok", "ok", "zeros", "sortedrows", "badrow", "badcol", "baddims"])
        if kind == "zeros":
            vals = _zero_vals(rng, vals, rng.choice(["some", "allzero"]))
        if kind == "sortedrows":
            cells.sort()
        a = {"tshape": tshape, "rd": r, "cd": c, "subs": [list(x) for x in cells], "vals": vals, "kind": kind}
        if kind == "badrow" and cells:
            a["subs"][rng.randrange(k)][0] = R + rng.choice([0, 1])
        elif kind == "badcol" and cells:
            a["subs"][rng.randrange(k)][1] = C + rng.choice([0, 2])
        elif kind == "baddims":
            a["rd"], a["cd"] = [rng.randint(0, N) for _ in range(rng.randint(0, N))], [rng.randint(0, N - 1) for _ in range(rng.randint(0, N))]
            if sorted(a["rd"] + a["cd"]) == list(range(N)):
                a["rd"] = a["rd"] + [0]
        cases.append(Case("stm_nocopy", a, kind in ("ok", "zeros", "sortedrows") and k > 1))
    # ---------------- large extents: unfoldings beyond 2^15 rows / columns
    bigs = [([300, 300], [], [0, 1], None), ([300, 300], [1, 0], [], None), ([64, 32, 32], [], [2, 0, 1], None),
            ([2, 200, 200], [0], None, "fc"), ([200, 2, 200], [1], None, "bc"), ([200, 200, 2], [2], None, "t"),
            ([190, 180], [0], [1], None), ([40, 30, 35], [1, 2, 0], [], None)]
    for shp, r, c, cy in (bigs if big else rng.sample(bigs, 5)):
        for _rep in range(2 if big else 1):
            k = rng.randint(2, 6)
            subs = []
            while len(subs) < k:
                # high subscripts (the last cells of the unfolding) and uniformly drawn ones
                s = [d - 1 - rng.randint(0, 1) if rng.random() < 0.5 else rng.randrange(d) for d in shp]
                if s not in subs:
                    subs.append(s)
            vals = [rng.choice([-3, -2, -1, 1, 2, 3, 4]) for _ in subs]
            cases.append(Case("sptenmat_big", {"shape": shp, "subs": subs, "vals": vals, "rd": r, "cd": c, "cy": cy}, True))
    return cases


# ---------------------------------------------------------------------------------------- pyttb side
def _mk_sp(ttb, np, a):
    shp = tuple(a["shape"])
    if a.get("ctor") == "shape_only":
        return ttb.sptensor(shape=shp)
    s = np.array(a["subs"], dtype=int).reshape((len(a["subs"]), len(shp))).astype(np_dtype(np, a.get("sdt") or "i8"))
    v = np.array(a["vals"], dtype=float).reshape((len(a["vals"]), 1)).astype(np_dtype(np, a.get("vdt")))
    if a.get("ctor") == "nocopy":
        return ttb.sptensor(relayout(np, s, a.get("slay")), relayout(np, v, a.get("vlay")), shp, copy=False)
    return ttb.sptensor(s, v, shp, copy=True)


def run_w3(c):
    import logging
    import numpy as np
    import pyttb as ttb
    a = c.args
    logging.disable(logging.WARNING)             # "selected no copy but must copy" warnings of the constructors
    try:
        if c.op == "chain":
            A = tgen.np_dense(np, a["shape"], a["data"]).astype(np_dtype(np, a.get("dt")))    # fourth wave: element type
            if a.get("via") == "flat":
                A = np.reshape(A, (A.size,), order="F")
            elif a.get("via") == "mat":
                A = np.reshape(A, (a["shape"][0], A.size // a["shape"][0]), order="F")
            A = relayout(np, A, a["lay"])
            keep = A.copy()
            if a.get("grow"):                    # fourth wave: the history starts from a tensor GROWN by out-of-bounds assignments
                T = mk_dense_grown(ttb, np, a["shape"], a["data"], a["grow"])
            else:
                T = ttb.tensor(A, tuple(a["shape"]) if a["give_shape"] else None, copy=a["copy"])
            o = {"t": tgen.obs_dense(np, T)}
            M = T.to_tenmat(_arr(np, a["rd"]), _arr(np, a["cd"]))
            o["tm"] = _obs_tenmat(np, M)
            Mc = ttb.tenmat(relayout(np, M.data.copy(), a["lay"]), M.rindices.copy(), M.cindices.copy(), tuple(M.tshape), copy=a["copy"])
            o["tmc"] = _obs_tenmat(np, Mc)
            T2 = Mc.to_tensor()
            o["t2"] = tgen.obs_dense(np, T2)
            S = T2.to_sptensor()
            o["s"] = tgen.obs_sparse(np, S)
            SM = S.to_sptenmat(_arr(np, a["rd2"]), _arr(np, a["cd2"]))
            o["sm"] = _obs_sptenmat(np, SM)
            S2 = SM.to_sptensor()
            o["s2"] = tgen.obs_sparse(np, S2)
            o["d"] = tgen.obs_dense(np, S2.full())
            o["input_kept"] = bool(np.array_equal(A, keep))
            o["t_after"] = tgen.obs_dense(np, T)
            return o
        if c.op == "spz":
            S = _mk_sp(ttb, np, a)
            o = {"s": tgen.obs_sparse(np, S), "full": _sub(lambda: tgen.obs_dense(np, S.full())),
                 "tt": _sub(lambda: tgen.obs_dense(np, S.to_tensor())), "dbl": _sub(lambda: tgen.obs_dense(np, S.double()))}
            SM = S.to_sptenmat(_arr(np, a["rd"]), _arr(np, a["cd"]))
            o["sm"] = _obs_sptenmat(np, SM)
            o["back"] = _sub(lambda: tgen.obs_sparse(np, SM.to_sptensor()))
            o["smfull"] = _sub(lambda: _obs_tenmat(np, SM.full()))
            if len(a["shape"]) == 2:
                o["coo"] = _sub(lambda: _obs_coo(np, S.spmatrix()))
                o["cooarr"] = _sub(lambda: tgen.obs_dense(np, S.spmatrix().toarray()))
            o["s_after"] = tgen.obs_sparse(np, S)
            return o
        if c.op == "stm_nocopy":
            subs = np.array(a["subs"], dtype=int).reshape((len(a["subs"]), 2)).astype(np_dtype(np, a.get("sdt") or "i8"))
            vals = np.array(a["vals"], dtype=float).reshape((len(a["vals"]), 1)).astype(np_dtype(np, a.get("vdt")))
            if a.get("slay") or a.get("vlay"):
                subs, vals = relayout(np, subs, a.get("slay")), relayout(np, vals, a.get("vlay"))
            M = ttb.sptenmat(subs, vals, _arr(np, a["rd"]), _arr(np, a["cd"]), tuple(a["tshape"]), copy=False)
            return {"ok": _obs_sptenmat(np, M), "back": _sub(lambda: tgen.obs_sparse(np, M.to_sptensor())),
                    "full": _sub(lambda: _obs_tenmat(np, M.full())), "coo": _sub(lambda: _obs_coo(np, M.double())),
                    "cooarr": _sub(lambda: tgen.obs_dense(np, M.double().toarray()))}
        if c.op == "sptenmat_big":
            S = _mk_sp(ttb, np, a)
            M = S.to_sptenmat(_arr(np, a["rd"]), _arr(np, a["cd"]), a["cy"])
            return {"ok": _obs_sptenmat(np, M), "back": _sub(lambda: tgen.obs_sparse(np, M.to_sptensor()))}
    except Exception as ex:
        return {"exc": type(ex).__name__, "msg": str(ex)[:200]}
    finally:
        logging.disable(logging.NOTSET)
    raise ValueError(c.op)


# ---------------------------------------------------------------------------------------- model side
def _nonneg_rows(rows):
    return all(x >= 0 for r in rows for x in r)


def _sp_ok(ob):
    return isinstance(ob, dict) and "subs" in ob and tgen.all_int(ob["vals"]) and _nonneg_rows(ob["subs"])


def _gsp(ob):
    return tgen.gsparse(ob["shape"], ob["subs"], ob["vals"])


def _gd(ob):
    return tgen.gdense(ob["shape"], ob["data"])


def check_w3(c, o):
    a = c.args
    if c.op == "chain":
        if "exc" in o:
            return "false"                       # every request generated here is admissible
        if not all(_ints_dense(o[k]) for k in ("t", "t2", "d", "t_after")) or not all(_ints_dense(o[k]["data"]) for k in ("tm", "tmc")):
            return "false"
        if not _sp_ok(o["s"]) or not _sp_ok(o["s2"]) or not tgen.all_int(o["sm"]["vals"]) or not _nonneg_rows(o["sm"]["subs"]):
            return "false"
        if not o["input_kept"] or o["t_after"] != o["t"]:
            return "false"
        if o["s"]["nnz"] != len(o["s"]["subs"]) or o["s2"]["nnz"] != len(o["s2"]["subs"]) or o["sm"]["nnz"] != len(o["sm"]["subs"]):
            return "false"
        T = tgen.gdense(a["shape"], a["data"])
        S = _gsp(o["s"])
        rd, cd = f"(Some {gnlist(a['rd'])})", f"(Some {gnlist(a['cd'])})"
        rd2, cd2 = f"(Some {gnlist(a['rd2'])})", f"(Some {gnlist(a['cd2'])})"
        sm = _gstm2(o["sm"])
        return (f"dense_eqb {_gd(o['t'])} {T} && tm_ok (zto_tenmat {T} {rd} {cd} None) (Some {_gtm(o['tm'])}) {T} {_gd(o['t2'])} && "
                f"tm_eqb {_gtm(o['tm'])} {_gtm(o['tmc'])} && "
                f"sp_denotes {S} {T} && Nat.eqb (nnz {S}) (nnz (to_sptensor 0%Z zisz {T})) && "
                f"stm_ok (zto_sptenmat {S} {rd2} {cd2} None) (Some {sm}) {S} {gnlist(o['sm']['shape'])} {o['sm']['nnz']} && "
                f"stm_sorted_ok (zto_sptenmat_sorted {S} {rd2} {cd2} None) (Some {sm}) && "
                f"stm_back_ok (zto_sptenmat {S} {rd2} {cd2} None) {S} (Some {_gsp(o['s2'])}) && "
                f"sp_denotes {_gsp(o['s2'])} {T} && dense_eqb {_gd(o['d'])} {T}")
    if c.op == "spz":
        if "exc" in o:
            return "false"
        Sin = tgen.gsparse(a["shape"], a["subs"], a["vals"])
        for k in ("full", "tt", "dbl"):
            if not _ints_dense(o[k]):
                return "false"
        if not _sp_ok(o["s"]) or not _sp_ok(o["back"]) or o["s_after"] != o["s"] or not tgen.all_int(o["sm"]["vals"]):
            return "false"
        if not _nonneg_rows(o["sm"]["subs"]) or o["sm"]["nnz"] != len(o["sm"]["subs"]) or o["back"]["nnz"] != len(o["back"]["subs"]):
            return "false"
        if not isinstance(o["smfull"], dict) or "data" not in o["smfull"] or not _ints_dense(o["smfull"]["data"]):
            return "false"
        rd, cd = f"(Some {gnlist(a['rd'])})", f"(Some {gnlist(a['cd'])})"
        sm = _gstm2(o["sm"])
        chk = (f"sp_raw_eqb {Sin} {_gsp(o['s'])} && dense_eqb (full 0%Z {Sin}) {_gd(o['full'])} && dense_eqb (full 0%Z {Sin}) {_gd(o['tt'])} && "
               f"dense_eqb (full 0%Z {Sin}) {_gd(o['dbl'])} && "
               f"stm_z_ok (zto_sptenmat_sorted {Sin} {rd} {cd} None) {sm} {Sin} {gnlist(o['sm']['shape'])} && "
               f"sp_denotes {_gsp(o['back'])} (full 0%Z {Sin}) && sp_raw_eqb (sptenmat_to_sptensor {sm}) {_gsp(o['back'])} && "
               f"tm_eqb (sptenmat_full 0%Z {sm}) {_gtm(o['smfull'])} && tm_denotes {_gtm(o['smfull'])} (full 0%Z {Sin})")
        if "coo" in o:
            if not isinstance(o["coo"], dict) or "vals" not in o["coo"] or not tgen.all_int(o["coo"]["vals"]) or not _ints_dense(o["cooarr"]):
                return "false"
            chk += f" && spmatrix_ok {Sin} (Some {_gcoo(o['coo'])}) {_gd(o['cooarr'])}"
        return chk
    if c.op == "stm_nocopy":
        call = (f"(zstm_ctor_nocopy {gnmat(a['subs'])} {gzlist(a['vals'])} (Some {gnlist(a['rd'])}) (Some {gnlist(a['cd'])}) "
                f"{gnlist(a['tshape'])})")
        if "exc" in o:
            return f"stm_nocopy_ok {call} None None None"
        ob = o["ok"]
        if not tgen.all_int(ob["vals"]) or not _nonneg_rows(ob["subs"]):
            return "false"
        if not _sp_ok(o["back"]) or not isinstance(o["full"], dict) or "data" not in o["full"] or not _ints_dense(o["full"]["data"]):
            return "false"
        if not isinstance(o["coo"], dict) or "vals" not in o["coo"] or not tgen.all_int(o["coo"]["vals"]) or not _ints_dense(o["cooarr"]):
            return "false"
        return (f"stm_nocopy_ok {call} (Some {_gstm2(ob)}) (Some {_gsp(o['back'])}) (Some {_gtm(o['full'])}) && "
                f"stm_double_ok {_gstm2(ob)} {_gcoo(o['coo'])} {_gd(o['cooarr'])}")
    if c.op == "sptenmat_big":
        S = tgen.gsparse(a["shape"], a["subs"], a["vals"])
        if "exc" in o:
            return "false"
        ob = o["ok"]
        if not tgen.all_int(ob["vals"]) or not _nonneg_rows(ob["subs"]) or ob["nnz"] != len(ob["subs"]) or not _sp_ok(o["back"]):
            return "false"
        scall = f"(zto_sptenmat_sorted {S} {_gopt_nlist(a['rd'])} {_gopt_nlist(a['cd'])} {_gcy(a['cy'])})"
        return (f"stm_big_ok {scall} {_gstm2(ob)} {gnlist(ob['shape'])} {S} {_gsp(o['back'])}")
    raise ValueError(c.op)


# ---------------------------------------------------------------------------------------- brute-force oracle
def _den_of(subs, vals):
    d = {}
    for s, v in zip(subs, vals):
        d[tuple(s)] = v
    return d


def _stm_image(shape, r, c_, subs, vals):
    rs, cs = [shape[k] for k in r], [shape[k] for k in c_]
    return {(_lin(rs, [s[k] for k in r]), _lin(cs, [s[k] for k in c_])): v for s, v in zip(subs, vals) if v != 0}, math.prod(rs), math.prod(cs)


def oracle_w3(c, o):
    a = c.args
    if c.op == "stm_nocopy":
        ts = a["tshape"]
        N = len(ts)
        ok = sorted(a["rd"] + a["cd"]) == list(range(N))
        if ok:
            R, C = math.prod(ts[k] for k in a["rd"]), math.prod(ts[k] for k in a["cd"])
            ok = all(0 <= i < R and 0 <= j < C for i, j in a["subs"])
        if not ok:
            return None if "exc" in o else "a sptenmat with out-of-range indices or without a mode partition was accepted"
        if "exc" in o:
            return f"admissible sptenmat(copy=False) call raised {o['exc']}: {o.get('msg')}"
        want = {(i, j): v for (i, j), v in zip(a["subs"], a["vals"]) if v != 0}
        rs, cs = [ts[k] for k in a["rd"]], [ts[k] for k in a["cd"]]
        bk = o["back"]
        if "exc" in bk or "exc" in o["full"] or "exc" in o["cooarr"]:
            return "a conversion of an accepted sptenmat raised"
        img = {(_lin(rs, [s[k] for k in a["rd"]]), _lin(cs, [s[k] for k in a["cd"]])): v for s, v in zip(bk["subs"], bk["vals"]) if v != 0}
        if img != want or bk["shape"] != ts:
            return "to_sptensor() of a sptenmat(copy=False) does not denote the same array"
        dense = [want.get((k % R, k // R), 0) for k in range(R * C)]
        if o["full"]["data"]["data"] != dense or o["cooarr"]["data"] != dense:
            return "full() / double() of a sptenmat(copy=False) does not denote the same array"
        return None
    if "exc" in o:
        return f"admissible conversion raised {o['exc']}: {o.get('msg')}"
    shp = a["shape"]
    if c.op == "chain":
        if not o["input_kept"] or o["t_after"] != o["t"]:
            return "an operand changed during the conversions"
        for k in ("t", "t2", "d"):
            if o[k]["data"] != a["data"] or o[k]["shape"] != shp:
                return f"step {k} of the chain does not denote the input array"
        for k in ("tm", "tmc"):
            ob = o[k]
            r, c_ = a["rd"], a["cd"]
            rs, cs = [shp[m] for m in r], [shp[m] for m in c_]
            R, C = math.prod(rs), math.prod(cs)
            if ob["data"]["shape"] != [R, C] or ob["r"] != r or ob["c"] != c_ or ob["tshape"] != shp:
                return f"{k}: reported rows / cols / modes wrong"
            for i in tgen.all_subs(shp):
                if ob["data"]["data"][_lin(rs, [i[m] for m in r]) + R * _lin(cs, [i[m] for m in c_])] != a["data"][_lin(shp, i)]:
                    return f"{k}: matrix entry is not tensor entry {i}"
        want = {tuple(s): v for s, v in zip(tgen.all_subs(shp), a["data"]) if v != 0}
        for k in ("s", "s2"):
            ob = o[k]
            if len(ob["subs"]) != len(want) or _den_of(ob["subs"], ob["vals"]) != want or ob["nnz"] != len(want) or ob["shape"] != shp:
                return f"sparse step {k} of the chain does not denote the input array / wrong nnz"
        img, R, C = _stm_image(shp, a["rd2"], a["cd2"], list(want.keys()), list(want.values()))
        ob = o["sm"]
        if _den_of(ob["subs"], ob["vals"]) != img or len(ob["subs"]) != len(img) or ob["nnz"] != len(img) or ob["shape"] != [R, C]:
            return "sptenmat step of the chain does not denote the input array / wrong nnz or shape"
        return None
    if c.op == "spz":
        den = _den_of(a["subs"], a["vals"])
        dense = [den.get(tuple(i), 0) for i in tgen.all_subs(shp)]
        for k in ("full", "tt", "dbl"):
            if "exc" in o[k] or o[k]["data"] != dense or o[k]["shape"] != shp:
                return f"{k}() of a sparse tensor with stored zeros is not the array it denotes"
        img, R, C = _stm_image(shp, a["rd"], a["cd"], a["subs"], a["vals"])
        ob = o["sm"]
        if _den_of(ob["subs"], ob["vals"]) != img or len(ob["subs"]) != len(img) or ob["nnz"] != len(img) or ob["shape"] != [R, C]:
            return "to_sptenmat of a sparse tensor with stored zeros: wrong triples / nnz / shape"
        bk = o["back"]
        nz = {k: v for k, v in den.items() if v != 0}
        if "exc" in bk or _den_of(bk["subs"], bk["vals"]) != nz or len(bk["subs"]) != len(nz) or bk["nnz"] != len(nz) or bk["shape"] != shp:
            return "to_sptensor(to_sptenmat(S)) does not denote S / wrong nnz"
        mat = [0] * (R * C)
        for (i, j), v in img.items():
            mat[i + R * j] = v
        if "exc" in o["smfull"] or o["smfull"]["data"]["data"] != mat:
            return "full() of the sptenmat is not the matricised array"
        if "cooarr" in o and ("exc" in o["cooarr"] or o["cooarr"]["data"] != dense):
            return "spmatrix() differs from the sparse tensor"
        return None
    if c.op == "sptenmat_big":
        N = len(shp)
        r, c_ = _resolve(a, N)
        img, R, C = _stm_image(shp, r, c_, a["subs"], a["vals"])
        ob = o["ok"]
        if _den_of(ob["subs"], ob["vals"]) != img or len(ob["subs"]) != len(img) or ob["nnz"] != len(img) or ob["shape"] != [R, C]:
            return f"sptenmat triples {ob['subs']} are not the (row, column) positions {sorted(img)} of the stored entries"
        bk = o["back"]
        if "exc" in bk or _den_of(bk["subs"], bk["vals"]) != _den_of(a["subs"], a["vals"]) or bk["shape"] != shp:
            return "to_sptensor(to_sptenmat(S)) is not S"
        return None
    return None
