(* Base/Index.v — F-order (first index fastest) index arithmetic over nat lists.
   Stdlib only. Everything here is the theory behind numpy's
   ravel_multi_index / unravel_index with order="F" and F-order reshape. *)
From Coq Require Import List Arith Lia Bool.
Import ListNotations.

Definition shape := list nat.
Definition idx := list nat.

Definition size (s : shape) : nat := fold_right Nat.mul 1 s.

Fixpoint inb (s : shape) (i : idx) : bool :=
  match s, i with
  | [], [] => true
  | d :: s', x :: i' => (x <? d) && inb s' i'
  | _, _ => false
  end.

Fixpoint sub2ind (s : shape) (i : idx) : nat :=
  match s, i with
  | d :: s', x :: i' => x + d * sub2ind s' i'
  | _, _ => 0
  end.

Fixpoint ind2sub (s : shape) (k : nat) : idx :=
  match s with
  | [] => []
  | d :: s' => (k mod d) :: ind2sub s' (k / d)
  end.

Definition allsubs (s : shape) : list idx := map (ind2sub s) (seq 0 (size s)).

Lemma size_cons d s : size (d :: s) = d * size s.
Proof. reflexivity. Qed.

Lemma size_app s1 s2 : size (s1 ++ s2) = size s1 * size s2.
Proof. induction s1 as [|d s1 IH]; [cbn [app]; change (size []) with 1; lia|]. cbn [app]. rewrite !size_cons, IH. lia. Qed.

Lemma inb_length s i : inb s i = true -> length i = length s.
Proof.
  revert i; induction s as [|d s IH]; intros [|x i] H; cbn in *; try discriminate; auto.
  apply andb_true_iff in H as [_ H]. f_equal; auto.
Qed.

Lemma ind2sub_length s k : length (ind2sub s k) = length s.
Proof. revert k; induction s as [|d s IH]; intros k; cbn; auto. Qed.

Lemma sub2ind_lt s i : inb s i = true -> sub2ind s i < size s.
Proof.
  revert i; induction s as [|d s IH]; intros [|x i] H; cbn [inb] in H; try discriminate.
  - cbn. lia.
  - apply andb_true_iff in H as [Hx Hi]. apply Nat.ltb_lt in Hx.
    specialize (IH _ Hi). cbn [sub2ind]. rewrite size_cons. nia.
Qed.

Lemma ind2sub_sub2ind s i : inb s i = true -> ind2sub s (sub2ind s i) = i.
Proof.
  revert i; induction s as [|d s IH]; intros [|x i] H; cbn [inb] in H; try discriminate; auto.
  apply andb_true_iff in H as [Hx Hi]. apply Nat.ltb_lt in Hx.
  cbn [sub2ind ind2sub].
  replace (x + d * sub2ind s i) with (x + sub2ind s i * d) by lia.
  rewrite Nat.mod_add by lia. rewrite Nat.div_add by lia.
  rewrite Nat.mod_small by lia. rewrite Nat.div_small by lia. cbn [Nat.add].
  f_equal. auto.
Qed.

Lemma inb_ind2sub s k : k < size s -> inb s (ind2sub s k) = true.
Proof.
  revert k; induction s as [|d s IH]; intros k H; cbn [ind2sub inb]; auto.
  rewrite size_cons in H.
  assert (Hd : d <> 0) by (intro; subst; lia).
  apply andb_true_iff; split.
  - apply Nat.ltb_lt. apply Nat.mod_upper_bound; auto.
  - apply IH. apply Nat.div_lt_upper_bound; auto.
Qed.

Lemma sub2ind_ind2sub s k : k < size s -> sub2ind s (ind2sub s k) = k.
Proof.
  revert k; induction s as [|d s IH]; intros k H; cbn [ind2sub sub2ind].
  - cbn in H. lia.
  - rewrite size_cons in H.
    assert (Hd : d <> 0) by (intro; subst; lia).
    rewrite IH by (apply Nat.div_lt_upper_bound; auto).
    pose proof (Nat.div_mod k d Hd). lia.
Qed.

(* first index varies fastest *)
Lemma sub2ind_first_fastest d s x i :
  sub2ind (d :: s) (S x :: i) = S (sub2ind (d :: s) (x :: i)).
Proof. cbn [sub2ind]. lia. Qed.

Lemma sub2ind_app s1 s2 i1 i2 : length i1 = length s1 ->
  sub2ind (s1 ++ s2) (i1 ++ i2) = sub2ind s1 i1 + size s1 * sub2ind s2 i2.
Proof.
  revert i1; induction s1 as [|d s1 IH]; intros [|x i1] H; cbn in H; try discriminate.
  - cbn. lia.
  - cbn [app sub2ind]. rewrite IH by lia. rewrite size_cons. nia.
Qed.

Lemma inb_app s1 s2 i1 i2 : length i1 = length s1 ->
  inb (s1 ++ s2) (i1 ++ i2) = inb s1 i1 && inb s2 i2.
Proof.
  revert i1; induction s1 as [|d s1 IH]; intros [|x i1] H; cbn in H; try discriminate.
  - reflexivity.
  - cbn [app inb]. rewrite IH by lia. now rewrite andb_assoc.
Qed.

Lemma sub2ind_inj s i j : inb s i = true -> inb s j = true -> sub2ind s i = sub2ind s j -> i = j.
Proof.
  intros Hi Hj E. rewrite <- (ind2sub_sub2ind s i Hi), <- (ind2sub_sub2ind s j Hj). now rewrite E.
Qed.

Lemma ind2sub_inj s k l : k < size s -> l < size s -> ind2sub s k = ind2sub s l -> k = l.
Proof.
  intros Hk Hl E. rewrite <- (sub2ind_ind2sub s k Hk), <- (sub2ind_ind2sub s l Hl). now rewrite E.
Qed.

Lemma allsubs_length s : length (allsubs s) = size s.
Proof. unfold allsubs. now rewrite map_length, seq_length. Qed.

Lemma in_allsubs s i : In i (allsubs s) <-> inb s i = true.
Proof.
  unfold allsubs. rewrite in_map_iff. split.
  - intros (k & <- & Hk). apply in_seq in Hk. apply inb_ind2sub. lia.
  - intros H. exists (sub2ind s i). split; [now apply ind2sub_sub2ind|].
    apply in_seq. pose proof (sub2ind_lt s i H). lia.
Qed.

Lemma allsubs_NoDup s : NoDup (allsubs s).
Proof.
  unfold allsubs. assert (H : forall l, NoDup l -> (forall k, In k l -> k < size s) -> NoDup (map (ind2sub s) l)).
  { induction l as [|k l IH]; intros Hn Hb; cbn; constructor.
    - inversion Hn as [|? ? Hk Hn']; subst. rewrite in_map_iff. intros (l0 & E & Hl0).
      apply ind2sub_inj in E; [subst; contradiction| |]; apply Hb; cbn; auto.
    - inversion Hn; subst. apply IH; auto. intros; apply Hb; cbn; auto. }
  apply H; [apply seq_NoDup|]. intros k Hk. apply in_seq in Hk. lia.
Qed.

Lemma nth_allsubs s k : k < size s -> nth k (allsubs s) [] = ind2sub s k.
Proof.
  intros H. unfold allsubs.
  rewrite (nth_indep _ [] (ind2sub s 0)) by (now rewrite map_length, seq_length).
  rewrite (map_nth (ind2sub s)). now rewrite seq_nth.
Qed.

(* the bijection statement in one place *)
Theorem sub2ind_bijection s :
  (forall i, inb s i = true -> sub2ind s i < size s /\ ind2sub s (sub2ind s i) = i) /\
  (forall k, k < size s -> inb s (ind2sub s k) = true /\ sub2ind s (ind2sub s k) = k).
Proof.
  split; intros; split; auto using sub2ind_lt, ind2sub_sub2ind, inb_ind2sub, sub2ind_ind2sub.
Qed.
