"""C08 — Kruskal re-parameterisations preserve the tensor and reach their normal form (DESIGN §C08).

Correspondence design (choice stated as the brief asks): the Kruskal tensors fed to pyttb have small INTEGER entries whose
column norms are exactly representable (1-norm: any integer column; 2-norm: columns whose sum of squares is a perfect
square, e.g. (3,4), (1,2,2), (0,k)); for weight_factor='all' / tolist() the weights are chosen so that the N-th roots are
rational.  The Coq model is run over Qc with EXACT oracles (exact sqrt / N-th root of perfect powers) and pyttb's float
results (converted with float.as_integer_ratio) must lie within 1e-9 (relative) of the exact rationals; the denoted array of
pyttb's result is recomputed in Coq by the model's den_k (never by pyttb's full()).  Operations without division
(arrange(permutation), extract, permute, redistribute, fixsigns(), +,-,neg,*, tovec/from_vector/update) run over Z, exactly.
"""
import itertools
import math
from fractions import Fraction

from vcheck import Case, gnlist, gq, gz, gzlist
import tgen
from props import c08_hist

PROP = "C08"
LEVEL = "proof"
# (wave 4) `INCLUDE = ["w4gen"]` (w4-translator's differential stream of the generated ktensor methods) was tested here and passed
# (66/66 theorems, 8917 cases) but w4gen.py is still changing (04:55: its cases use `isvector` without importing Gen.GenUtils3), so the
# stream is NOT included; C08 claims the translator's C08_gen_* THEOREM FILES directly (Props/W4C08.v, W4C08b.v, W4C08c.v in THEOREM_FILES / COQ_TARGETS).
INCLUDE = ['w4gen']   # wave 4 (lead, integration): differential stream + laws of the ktensor / sptensor methods the translator generates (Gen/GenKtensor4*.v, GenSptensor4*.v)
GEN_UNITS = ["GenMethods3", "GenKtensor4", "GenKtensor4b"]     # Props/C08d.v: redistribute over the GENERATED ktensor_redistribute; Props/C08f.v: arrange (absorb branch); Props/C08g.v: update
COQ_TARGETS = ["Props/W4C08.vo", "Props/W4C08b.vo", "Props/W4C08c.vo", "Props/C08.vo", "Props/C08b.vo", "Props/C08c.vo", "Props/C08d.vo", "Props/C08e.vo", "Props/C08f.vo", "Props/C08g.vo", "Props/C08h.vo", "Props/C08i.vo", "Props/C08j.vo", "Props/C08k.vo", "Model/C08Update.vo", "Proofs/C08Gen3.vo", "Props/W4C08d.vo", "Model/C08Inst4.vo", "Proofs/C08Gen.vo", "Model/C08Inst.vo", "Model/C08Inst2.vo", "Model/C08Inst3.vo", "Model/Harness.vo"]
THEOREM_FILES = ["Props/C08.v", "Props/C08b.v", "Props/C08c.v", "Props/C08d.v", "Props/C08e.v", "Props/C08f.v", "Props/C08g.v", "Props/C08h.v", "Props/C08i.v", "Props/C08j.v", "Props/C08k.v",
                 "Props/W4C08.v", "Props/W4C08b.v", "Props/W4C08c.v", "Props/W4C08d.v"]   # w4-translator: C08_gen_permute_* / _extract_* / _arrange_* / _tovec_* / _update_* (Gen/GenKtensor4.v), C08_gen_from_vector_* (Gen/GenKtensor4b.v)
COQ_IMPORTS = ("From Coq Require Import List ZArith QArith Qcanon Bool.\n"
               "From PV Require Import Base.Index Base.Perm Model.Repr Model.Harness Model.C08Kruskal Model.C08Inst Model.C08More Model.C08Inst2 Model.C08Loop Model.C08Inst3 Model.C08Loop2 Model.C08Inst4 Model.C08Update Proofs.C08Gen Proofs.C08Gen3.\n")
RULE = ("Kruskal tensors with 1-4 modes (1-way included), mode sizes 1-4, ranks 1-4, integer factor columns with exactly "
        "representable norms (zero columns included), weights of either sign and zero; every weight_factor (None, each mode, "
        "'all'), sort on/off, both norm types, mode=; every component permutation for R<=4 (thorough; sampled in quick) and "
        "subsets; fixsigns(other) against references realising every sign pattern of the per-mode correlations (2^N); "
        "non-trivial = rank>=2 or more than one cell, not all weights zero; distinct = distinct (op,args). About half of the "
        "single-step cases run on factors the user assigned as C-contiguous arrays or non-contiguous views. HISTORIES (op 'hist'): "
        "2-3 steps over the whole op alphabet (every ordered pair occurs; normalize in all variants, arrange, redistribute, fixsigns, "
        "-K, c*K, K*c, +, -, extract, permute, copy, tovec->from_vector, update, layout re-assignment; terminal: tolist, symmetrize, "
        "score, fixsigns(other)), inputs general / already unit-norm columns with signed weights / symmetric up to column signs; after "
        "every step raw weights+factors (or vector/list) are compared with the chained model state, the denoted array and the normal "
        "form are re-evaluated on pyttb's result, and every object a step must not touch (receiver of a non-mutating op, second "
        "operands, and the fresh result when the history continues with the old object) is compared with its snapshot; mask(W). MAGNITUDES: ~35 % of "
        "the histories and ~25 % of the single-step normalize / arrange / tolist / fixsigns(other) / score cases run on data scaled by powers of two "
        "(weights and / or single factors times 2^-24 .. 2^24; for exact N-th roots 2^-N*j), compared with purely relative (raw entries) and "
        "max-relative (sums) tolerances. fixsigns(other): pyttb is compared with the literal column loop (Model/C08Loop.v) and the loop with the "
        "one-shot model exactly; references with FEWER, AS MANY and MORE components than the receiver (former finding C08-N2, repaired). UPDATE REQUESTS "
        "(op update_req): admissible requests (also [] and surplus data) and every way the validation pass refuses one — a mode that does not exist after valid "
        "blocks / first, data too short for a later / the first block, a repeated mode, descending modes, negative modes other than -1; the receiver is observed "
        "AFTER the call in both cases (a rejected update must leave it as it was), compared with the state machine py_update and with the generated method")
CORRESPONDENCE_ONLY = ["score: the congruence / penalty matrix (np.abs(A.T @ B), products, 1 - |la-lb|/max) is an executable Qc model compared per "
                       "case (best_perm and best_score, whenever the greedy choice is pinned = no tie among free cells); the THEOREMS cover the "
                       "greedy loop on an arbitrary matrix (permutation, greedy choice, score sum) and the final arrange(permutation); that the "
                       "entries of the MODEL matrix exceed -10 is proved since wave 5 (Props/C08j.v: C08_score_matrix_nonneg, _above_sentinel, "
                       "C08_score_best_perm_is_perm_end_to_end) — that pyttb's float matrix equals the model matrix stays correspondence-only",
                       "ktensor.symmetrize END TO END through normalize('all') on inputs whose factors differ by more than column signs: compared per "
                       "case incl. histories (C08's transliteration k_symmetrize_core after qk_normalize WAll). PROVED since wave 4: "
                       "k_symmetrize_core = C15's k15_core on every well-formed cubic input (C08_symmetrize_bridge), the result is symmetric "
                       "(C08_symmetrize_symmetric), factors identical up to column signs keep the value (C08_symmetrize_keeps, _Qc) — the body after "
                       "normalize('all'); the composition with normalize('all') for identical factors is C15_ksym_identical_input_keeps",
                       "magnitudes: data scaled by 2^-24 .. 2^24 is exercised by the correspondence stream only (relative tolerances)",
                       "multi-step histories, memory layouts (F, C, matmul result as left by normalize(weight_factor=..), strided C / F views, transposed "
                       "views, negative strides; assigned or through the constructor with copy=True/False) and operand aliasing: compared per case "
                       "(model state chained through the steps); numpy memory order is not modelled in Coq",
                       "tolist (hand transliteration: tied by the correspondence stream only; tovec / from_vector / update are ALSO bridged from their generated versions: "
                       "C08_gen_tovec_model (Props/W4C08b.v), C08_gen_from_vector_model / C08_gen_vec_roundtrip (Props/W4C08d.v), C08_gen_update_state (Props/C08g.v)), the "
                       "sign / absorb / sort steps of normalize (array operations in the source, modelled as such): tied by the correspondence stream",
                       "normal form w.r.t. numpy's own norm: the theorems assume the norm oracle satisfies nrm_spec (positively homogeneous, even, "
                       "zero on zero columns; instantiated and proved for the exact 1-norm over Qc); np.linalg.norm itself is tied by the "
                       "per-case evaluation of unit columns / zero weights on pyttb's result"]
NOTES = ["ktensor.update follows /repo b9311d6 (finding C19-N25, repaired): the whole request is validated before the first in-place store and the modes must be "
         "STRICTLY ascending; Model/C08Update.v is the repaired two-pass code, the one-pass loop survives only as py_update_one_pass (Example: it leaves a partly "
         "rewritten receiver); the former witnesses are ordinary cases of the op update_req stream (kinds bad_later_mode, short_later, repeat, negative)",
         "C08-N2 (fixsigns(other) with a reference of MORE components than the receiver: IndexError) is repaired in /repo 8ac87f0: the loop "
         "model runs over range(min(RA, RB)), the loop theorems have no rank hypothesis, such references are sent on every run unattributed",
         "A-29 (fixsigns(other) odd flips), A-22 (fixsigns(other) normalised `other` in place) and A-45 (arrange accepted non-permutations) are "
         "repaired in /repo: the model IS the repaired pairing rule, fixsigns(other) must leave `other` untouched (compared per case), no trigger "
         "or witness remains; theorem C08_invariant_arrange_perm requires is_perm, the generator only sends permutations"]
ASSUMPTIONS = ["normal-form theorems assume the norm oracle is a norm (nrm_scale, nrm_flip, nrm_zero, pos_inv) — numpy's np.linalg.norm itself is not verified",
               "tolist(): the oracles must satisfy sgn(w) * root(|w|)^N = w (np.sign / np.fabs / np.power are not verified)",
               "floating-point rounding is not modelled: pyttb's results are compared with the exact rational model within 1e-9 relative"]
EXPLANATION = ("Invariance theorems hold for every norm oracle that is positive on non-zero columns; normal-form theorems (unit or zero "
               "columns, weight 0 for zero columns, all-one absorbed weights, descending order via the argsort permutation, no negative "
               "weight, sign agreement after fixsigns(other)) hold for every oracle meeting nrm_spec; permute / update / from_vector / "
               "tolist / score's arrange are theorems on the same model. The correspondence stream ties the executable model (exact "
               "oracles over Qc / Z) to pyttb/ktensor.py on generated inputs and re-evaluates every normal-form clause on pyttb's result.")


# ----------------------------------------------------------------------------------------------------------------
# no open finding: A-29 and C08-N2 are repaired in /repo (6e8137b, 8ac87f0); their witnesses are ordinary regression cases
# (REGRESSION below), nothing is attributed any more
# ----------------------------------------------------------------------------------------------------------------
TRIGGERS = {}
WITNESSES = {}
# former witnesses, sent on every run (op, args)
REGRESSION = [
    # C08-N2: rank-1 receiver, rank-2 reference (IndexError before 8ac87f0)
    ("fixsigns_other", {"w": [1], "f": [[[3], [4]], [[3], [4]]], "w2": [1, 2], "f2": [[[4, -4], [3, 3]], [[-3, 4], [-4, -3]]]}),
    ("fixsigns_other", {"w": [1], "f": [[[3], [4]], [[3], [4]]], "w2": [1, 2], "f2": [[[-3, -4], [-4, 3]], [[-4, 4], [-3, -3]]],
                        "lay": ["C", "V"], "lay2": ["C", "C"]}),
    # A-29: identity factors against their negatives, three negative correlations per component
    ("fixsigns_other", {"w": [1, 1], "f": [[[1, 0], [0, 1]]] * 3, "w2": [1, 1], "f2": [[[-1, 0], [0, -1]]] * 3}),
]


# ----------------------------------------------------------------------------------------------------------------
# generators
# ----------------------------------------------------------------------------------------------------------------
_POOL = {}


def _is_square(n):
    r = math.isqrt(n)
    return r * r == n


def sq_pool(m):
    """integer vectors of length m, entries in [-4,4] (m<=3) / [-2,2]+ (m=4), nonzero, whose sum of squares is a perfect square"""
    if m not in _POOL:
        rng_ = range(-4, 5) if m <= 3 else range(-3, 4)
        _POOL[m] = [list(v) for v in itertools.product(rng_, repeat=m) if any(v) and _is_square(sum(x * x for x in v))]
    return _POOL[m]


def rand_col(rng, m, normtype, pzero=0.12):
    if rng.random() < pzero:
        return [0] * m
    if normtype == 2:
        return list(rng.choice(sq_pool(m)))
    while True:
        v = [rng.randint(-3, 3) for _ in range(m)]
        if any(v):
            return v


def rand_k(rng, shape, R, normtype=2, pzero=0.12, wlo=-3, whi=4):
    """-> (weights, factors) with factors[n] = list of rows (shape[n] x R)"""
    factors = []
    for m in shape:
        cols = [rand_col(rng, m, normtype, pzero) for _ in range(R)]
        factors.append([[cols[r][i] for r in range(R)] for i in range(m)])
    weights = [rng.choice([0] + [w for w in range(wlo, whi + 1) if w != 0] * 3) for _ in range(R)]
    return weights, factors


def col_norm(col, normtype):
    return sum(abs(x) for x in col) if normtype == 1 else math.isqrt(sum(x * x for x in col))


def make_all_rootable(w, f, normtype):
    """rescale the weights so that |w_r| * prod_n ||A_n[:,r]|| is a perfect N-th power (needed for exact 'all')"""
    N = len(f)
    R = len(w)
    out = []
    for r in range(R):
        P = 1
        for A in f:
            t = col_norm([row[r] for row in A], normtype)
            P *= t if t else 1
            if t == 0:
                P = 0
                break
        if P == 0 or w[r] == 0:
            out.append(w[r])
            continue
        rho = abs(w[r])
        if rho * P > 390:
            return None
        out.append((1 if w[r] > 0 else -1) * rho ** N * P ** (N - 1))
    return out


def small_shapes(rng, big):
    base = [(2,), (3,), (1,), (2, 3), (3, 2), (2, 2), (1, 3), (4, 2), (2, 3, 2), (3, 2, 2), (2, 2, 2), (2, 1, 3), (3, 3, 2),
            (2, 2, 2, 2), (2, 3, 2, 2), (3, 2, 1, 2)]
    if big:
        base += [(4, 3), (3, 4, 2), (4, 4), (2, 4, 3), (3, 3, 3), (2, 2, 3, 2), (1, 1), (4,), (2, 2, 2, 3)]
    return base


def gen_cases(rng, tier):
    big = tier == "thorough"
    cases = []
    shapes = small_shapes(rng, big)
    reps = 3 if big else 1

    def nt(w, shape):
        return (len(w) >= 2 or math.prod(shape) > 1) and any(w)

    for shape in shapes:
        N = len(shape)
        for R in (1, 2, 3, 4):
            if not big and R == 4 and N >= 3 and rng.random() < 0.6:
                continue
            for _ in range(reps):
                # ---- normalize: every weight_factor, sort, normtype, mode
                for normtype in (1, 2):
                    wfs = [None, "all"] + list(range(N))
                    for wf in wfs:
                        for sort in (False, True):
                            if not big and rng.random() < 0.45:
                                continue
                            w, f = rand_k(rng, shape, R, normtype)
                            if wf == "all":
                                w = make_all_rootable(w, f, normtype)
                                if w is None or max(abs(x) for x in w) > 2 ** 50:
                                    continue
                            cases.append(Case("normalize", {"w": w, "f": f, "wf": wf, "sort": sort, "normtype": normtype,
                                                            "mode": None}, nt(w, shape)))
                    for mode in range(N):
                        if not big and rng.random() < 0.5:
                            continue
                        w, f = rand_k(rng, shape, R, normtype)
                        cases.append(Case("normalize", {"w": w, "f": f, "wf": None, "sort": False, "normtype": normtype,
                                                        "mode": mode}, nt(w, shape)))
                # ---- arrange: sort / absorb / explicit permutation
                for wf in [None] + list(range(N)):
                    if not big and wf is not None and rng.random() < 0.4:
                        continue
                    w, f = rand_k(rng, shape, R, 2)
                    cases.append(Case("arrange", {"w": w, "f": f, "wf": wf}, nt(w, shape)))
                perms = list(itertools.permutations(range(R)))
                if not big and len(perms) > 6:
                    perms = rng.sample(perms, 6)
                for p in perms:
                    w, f = rand_k(rng, shape, R, 1)
                    cases.append(Case("arrange_perm", {"w": w, "f": f, "p": list(p)}, nt(w, shape) and R > 1))
                # ---- extract: every non-empty subset (as ordered selections: subsets + one shuffled)
                subsets = [list(c) for k in range(1, R + 1) for c in itertools.combinations(range(R), k)]
                if not big and len(subsets) > 5:
                    subsets = rng.sample(subsets, 5)
                for idx in subsets:
                    w, f = rand_k(rng, shape, R, 1)
                    idx2 = idx[:]
                    if rng.random() < 0.4:
                        rng.shuffle(idx2)
                    cases.append(Case("extract", {"w": w, "f": f, "idx": idx2}, nt(w, shape)))
                w, f = rand_k(rng, shape, R, 1)
                cases.append(Case("extract", {"w": w, "f": f, "idx": rng.randrange(R)}, nt(w, shape)))
                # ---- redistribute into every mode
                for mode in range(N):
                    w, f = rand_k(rng, shape, R, 1)
                    cases.append(Case("redistribute", {"w": w, "f": f, "mode": mode}, nt(w, shape)))
                # ---- algebra
                R2 = rng.randint(1, 3)
                for op in ("add", "sub"):
                    w, f = rand_k(rng, shape, R, 1)
                    w2, f2 = rand_k(rng, shape, R2, 1)
                    cases.append(Case(op, {"w": w, "f": f, "w2": w2, "f2": f2}, nt(w, shape)))
                w, f = rand_k(rng, shape, R, 1)
                cases.append(Case("neg", {"w": w, "f": f}, nt(w, shape)))
                w, f = rand_k(rng, shape, R, 1)
                cases.append(Case("mul", {"w": w, "f": f, "c": rng.choice([-2, 0, 3, 1])}, nt(w, shape)))
                # ---- fixsigns(): integer data, every mode count of "negative" columns occurs by chance
                for _ in range(2):
                    w, f = rand_k(rng, shape, R, 1, pzero=0.05)
                    cases.append(Case("fixsigns", {"w": w, "f": f}, nt(w, shape)))
                # ---- permute (modes)
                orders = list(itertools.permutations(range(N)))
                if not big and len(orders) > 3:
                    orders = rng.sample(orders, 3)
                for order in orders:
                    w, f = rand_k(rng, shape, R, 1)
                    cases.append(Case("permute", {"w": w, "f": f, "order": list(order)}, nt(w, shape) and N > 1))
                # ---- tovec / from_vector / update
                for incl in (True, False):
                    w, f = rand_k(rng, shape, R, 1)
                    cases.append(Case("vec_roundtrip", {"w": w, "f": f, "incl": incl}, nt(w, shape)))
                w, f = rand_k(rng, shape, R, 1)
                allmodes = [-1] + list(range(N))
                for modes in [allmodes, sorted(rng.sample(allmodes, rng.randint(1, len(allmodes))))]:
                    n = sum((R if k == -1 else shape[k] * R) for k in modes)
                    data = [rng.randint(-5, 5) for _ in range(n)]
                    cases.append(Case("update", {"w": w, "f": f, "modes": modes, "data": data}, True))
                # ---- update REQUESTS as a state machine on the receiver (wave 5, fix b9311d6): accepted and rejected ones; the
                #      receiver AFTER the call is observed in both cases (a rejected update must leave it untouched)
                for kind in UPDATE_REQ_KINDS:
                    if not big and rng.random() < 0.35:
                        continue
                    w, f = rand_k(rng, shape, R, 1)
                    rq = gen_update_req(rng, shape, R, kind)
                    if rq is not None:
                        cases.append(Case("update_req", {"w": w, "f": f, "modes": rq[0], "data": rq[1], "kind": kind}, True))
                # ---- tolist
                w, f = rand_k(rng, shape, R, 2)
                wl = [x ** N if x >= 0 else -((-x) ** N) for x in w] if rng.random() < 0.8 else [1] * R
                cases.append(Case("tolist", {"w": wl, "f": f, "mode": None}, nt(wl, shape)))
                m = rng.randrange(N)
                w, f = rand_k(rng, shape, R, 2)
                cases.append(Case("tolist", {"w": w, "f": f, "mode": m}, nt(w, shape)))
    # ---- fixsigns(other): every sign pattern of the per-mode correlations, per component (2^N patterns)
    for shape in shapes:
        N = len(shape)
        if any(m == 1 for m in shape) and not big:
            continue
        for RA, RB in ((1, 1), (2, 2), (3, 2), (3, 3), (1, 2), (2, 3)):
            pats = list(itertools.product([1, -1], repeat=N))
            for pat in pats:
                if not big and N >= 3 and RA > 1 and rng.random() < 0.5:
                    continue
                if RB > RA and N >= 3 and not big and rng.random() < 0.5:
                    continue                # (RB > RA: a reference with MORE components than the receiver, former finding C08-N2)
                c_ = gen_fixsigns_other(rng, shape, RA, RB, pat)
                if c_ is not None:
                    cases.append(c_)
    # ---- score: B = some components of A (rescaled, sign-flipped in pairs), so a matching exists
    for shape in shapes:
        N = len(shape)
        for RA, RB in ((2, 2), (3, 2), (3, 3), (1, 1)):
            if not big and rng.random() < 0.5:
                continue
            w, f = rand_k(rng, shape, RA, 2, pzero=0.0, wlo=1, whi=4)
            if not all(w):
                continue
            sel = rng.sample(range(RA), RB)
            w2 = [w[r] * rng.choice([1, 2]) for r in sel]
            f2 = [[[row[r] for r in sel] for row in A] for A in f]
            cases.append(Case("score", {"w": w, "f": f, "w2": w2, "f2": f2}, True))
    # ---- mask(W): the values of the Kruskal tensor at the entries W marks (dense 0/1 mask and sparse mask; empty, one, all)
    for shape in shapes:
        for R in (1, 2, 3):
            if not big and rng.random() < 0.5:
                continue
            w, f = rand_k(rng, shape, R, 1)
            subs_all = tgen.all_subs(list(shape))
            k = rng.choice([0, 1, len(subs_all), rng.randint(0, len(subs_all))])
            marked = sorted(rng.sample(range(len(subs_all)), k))
            cases.append(Case("mask", {"w": w, "f": f, "marked": [subs_all[q] for q in marked],
                                       "sparse": rng.random() < 0.5}, nt(w, shape) and k > 0))
            # (an sptensor mask WITHOUT stored entries raised IndexError before /repo 63e1be0; sent like every other mask now)
    # ---- memory layouts: every single-step case is run on F-contiguous factors, or (about half of them) with factors that the
    #      user assigned as C-contiguous arrays / non-contiguous views
    for c_ in cases:
        if rng.random() < 0.5:
            c_.args["lay"] = c08_hist.rand_lay(rng, len(c_.args["f"]))
            if "f2" in c_.args:
                c_.args["lay2"] = c08_hist.rand_lay(rng, len(c_.args["f2"]))
            if rng.random() < 0.15:
                c_.args["ctor"] = rng.choice(["copy", "nocopy"])     # the arrays go through the constructor in that layout
    # ... and, deterministically, EVERY op stream gets every non-F layout class uniformly on all factors of a case whose factors
    # have >= 2 rows somewhere and >= 2 columns (where C / F / strided differ): C, M (= after normalize('all')), V, S, T, N
    by_op = {}
    for c_ in cases:
        a_ = c_.args
        if len(a_["w"]) >= 2 and any(len(A) >= 2 for A in a_["f"]):
            by_op.setdefault(c_.op, []).append(c_)
    for op_ in sorted(by_op):
        pool = by_op[op_]
        rng.shuffle(pool)
        for c_, l_ in zip(pool, [l for l in c08_hist.LAYS if l != "F"] * (3 if big else 1)):
            c_.args["lay"] = [l_] * len(c_.args["f"])
            c_.args.pop("ctor", None)
            if "f2" in c_.args:
                c_.args["lay2"] = [l_] * len(c_.args["f2"])
    # ---- magnitudes: about a quarter of the single-step cases evaluated over Qc run on data scaled by powers of two
    #      (2^-24 .. 2^24, i.e. 6e-8 .. 2e7; weights and / or single factors), compared with RELATIVE tolerances
    for c_ in cases:
        if c_.op in ("normalize", "arrange", "tolist", "fixsigns_other", "score") and rng.random() < 0.25:
            a_ = c_.args
            need_root = a_.get("wf") == "all" or (c_.op == "tolist" and a_["mode"] is None)
            sc = c08_hist.rand_scale(rng, len(a_["f"]), need_root)
            try:
                st_ = c08_hist.st_copy(c08_hist.eff({"w": a_["w"], "f": a_["f"], "sc": sc}))
                if c_.op == "tolist" and a_["mode"] is None:
                    [c08_hist.froot(abs(x), len(a_["f"])) for x in st_[0]]
                else:
                    wf_ = a_.get("wf") if c_.op == "normalize" else a_.get("mode") if c_.op == "tolist" else None
                    c08_hist.m_normalize(st_, wf_, False, a_.get("normtype", 2), a_.get("mode") if c_.op == "normalize" else None)
                a_["sc"] = sc
            except c08_hist.Inexact:
                pass
    # ---- witnesses of repaired findings as ordinary regression cases
    for op_, args_ in REGRESSION:
        cases.append(Case(op_, {k_: (list(v_) if isinstance(v_, list) else v_) for k_, v_ in args_.items()}, True))
    # ---- multi-step histories over the op alphabet (layouts, aliasing of operands, inputs already in normal form, symmetrize)
    import sys
    cases += c08_hist.gen_hist(rng, sys.modules[__name__], tier)
    return cases


UPDATE_REQ_KINDS = ("ok", "ok_long", "bad_later_mode", "bad_first_mode", "short_later", "short_first", "repeat", "descending", "negative")


def gen_update_req(rng, shape, R, kind):
    """-> (modes, data) for ktensor.update: admissible requests and every way pass 1 of update refuses one.  The rejected kinds put the
    offending block LAST where possible, so that the one-pass loop (update before b9311d6) would already have assigned the earlier blocks"""
    N = len(shape)
    allm = [-1] + list(range(N))
    blk = lambda k: R if k == -1 else shape[k] * R
    rnd = lambda n: [rng.randint(-5, 5) for _ in range(n)]
    sub = sorted(rng.sample(allm, rng.randint(1, len(allm))))
    if kind == "ok":
        if rng.random() < 0.15:
            return [], []
        return sub, rnd(sum(blk(k) for k in sub))
    if kind == "ok_long":                   # more data than needed: accepted (with a warning), the surplus is ignored
        return sub, rnd(sum(blk(k) for k in sub) + rng.randint(1, 3))
    if kind == "bad_later_mode":            # valid blocks first, then a mode that does not exist
        return sub + [N + rng.randint(0, 2)], rnd(sum(blk(k) for k in sub) + rng.choice([0, R, 2 * R, 3 * R]))
    if kind == "bad_first_mode":
        return [rng.choice([-2, -3, -N - 1])] + sub, rnd(sum(blk(k) for k in sub) + rng.choice([0, R, 2 * R]))
    if kind == "short_later":               # enough for all blocks but the last
        if len(sub) < 2:
            sub = sorted(rng.sample(allm, 2)) if len(allm) >= 2 else None
        if sub is None:
            return None
        need = sum(blk(k) for k in sub)
        return sub, rnd(need - rng.randint(1, blk(sub[-1])))
    if kind == "short_first":
        return sub, rnd(rng.randint(0, blk(sub[0]) - 1))
    if kind == "repeat":                    # refused since b9311d6 (strictly ascending)
        k = rng.choice(sub)
        i = sub.index(k)
        ms = sub[:i + 1] + [k] + sub[i + 1:]
        return ms, rnd(sum(blk(k_) for k_ in ms))
    if kind == "descending":
        if len(allm) < 2:
            return None
        ms = rng.sample(allm, rng.randint(2, len(allm)))
        if ms == sorted(ms):
            ms.reverse()
        return ms, rnd(sum(blk(k) for k in ms))
    if kind == "negative":                  # a negative mode other than -1 counted from the end before b9311d6 (silently rewrote a factor)
        k = rng.choice([-2, -N - 1] if N >= 1 else [-2])
        ms = sorted(set(sub + [k]))
        return ms, rnd(sum(blk(k_) if k_ >= -1 else max(shape) * R for k_ in ms))
    raise ValueError(kind)


def update_req_accepted(shape, R, modes, data):
    """what the documented contract says (independent of the Coq model): strictly ascending, each mode -1 or a mode, enough data"""
    if any(x >= y for x, y in zip(modes, modes[1:])):
        return False
    if any(k != -1 and not (0 <= k < len(shape)) for k in modes):
        return False
    return len(data) >= sum((R if k == -1 else shape[k] * R) for k in modes)


def gen_fixsigns_other(rng, shape, RA, RB, pat):
    """reference whose correlation with the receiver has sign pattern `pat` (per mode) in component 0 and random
    patterns in the others; no zero scores"""
    N = len(shape)
    for _ in range(30):
        w, f = rand_k(rng, shape, RA, 2, pzero=0.0, wlo=1, whi=3)
        w2 = [rng.choice([1, 2, 3]) for _ in range(RB)]
        f2 = []
        ok = True
        for n, m in enumerate(shape):
            cols2 = []
            for r in range(RB):
                if r >= RA:                 # no counterpart in the receiver: any column
                    cols2.append(list(rng.choice(sq_pool(m))))
                    continue
                a = [f[n][i][r] for i in range(m)]
                want = pat[n] if r == 0 else rng.choice([1, -1])
                b = None
                for _t in range(40):
                    cand = list(rng.choice(sq_pool(m)))
                    d = sum(x * y for x, y in zip(a, cand))
                    if d != 0:
                        b = cand if (d > 0) == (want > 0) else [-x for x in cand]
                        break
                if b is None:
                    ok = False
                    break
                cols2.append(b)
            if not ok:
                break
            f2.append([[cols2[r][i] for r in range(RB)] for i in range(m)])
        if ok:
            return Case("fixsigns_other", {"w": w, "f": f, "w2": w2, "f2": f2}, True)
    return None


def fso_scores(a):
    """exact per-component, per-mode sign scores of fixsigns(other) after both normalisations (2-norm; the sign step of
    normalize negates column r of factor 0 when the weight is negative)"""
    out = []
    RB = min(len(a["w2"]), len(a["w"]))
    for r in range(RB):
        sc = []
        for n, (A, B) in enumerate(zip(a["f"], a["f2"])):
            ca = [row[r] for row in A]
            cb = [row[r] for row in B]
            na, nb = col_norm(ca, 2), col_norm(cb, 2)
            d = Fraction(sum(x * y for x, y in zip(ca, cb)), (na or 1) * (nb or 1))
            if n == 0 and (a["w"][r] < 0) != (a["w2"][r] < 0):
                d = -d
            sc.append(d)
        out.append(sc)
    return out


# ----------------------------------------------------------------------------------------------------------------
# pyttb runner
# ----------------------------------------------------------------------------------------------------------------
def mk_k(ttb, np, w, f, lay=None, ctor=None):
    return c08_hist.mk_k(ttb, np, w, f, lay, ctor)


def run_impl(c):
    import numpy as np
    import pyttb as ttb
    a = c.args
    if c.op == "hist":
        return c08_hist.run_hist(c)
    try:
        K = mk_k(ttb, np, *c08_hist.eff(a), a.get("lay"), a.get("ctor"))
        if c.op == "normalize":
            K.normalize(weight_factor=a["wf"], sort=a["sort"], normtype=a["normtype"], mode=a["mode"])
            return {"ok": tgen.obs_ktensor(np, K)}
        if c.op == "arrange":
            K.arrange(weight_factor=a["wf"])
            return {"ok": tgen.obs_ktensor(np, K)}
        if c.op == "arrange_perm":
            K.arrange(permutation=list(a["p"]))
            return {"ok": tgen.obs_ktensor(np, K)}
        if c.op == "extract":
            idx = a["idx"]
            return {"ok": tgen.obs_ktensor(np, K.extract(idx if isinstance(idx, int) else list(idx)))}
        if c.op == "redistribute":
            K.redistribute(a["mode"])
            return {"ok": tgen.obs_ktensor(np, K)}
        if c.op in ("add", "sub"):
            L = mk_k(ttb, np, a["w2"], a["f2"], a.get("lay2"))
            return {"ok": tgen.obs_ktensor(np, K + L if c.op == "add" else K - L)}
        if c.op == "neg":
            return {"ok": tgen.obs_ktensor(np, -K)}
        if c.op == "mul":
            return {"ok": tgen.obs_ktensor(np, K * a["c"]), "r": tgen.obs_ktensor(np, a["c"] * K)}
        if c.op == "fixsigns":
            K.fixsigns()
            return {"ok": tgen.obs_ktensor(np, K)}
        if c.op == "fixsigns_other":
            L = mk_k(ttb, np, a["w2"], a["f2"], a.get("lay2"))
            K.fixsigns(L)
            return {"ok": tgen.obs_ktensor(np, K), "other": tgen.obs_ktensor(np, L)}
        if c.op == "permute":
            return {"ok": tgen.obs_ktensor(np, K.permute(np.array(a["order"])))}
        if c.op == "vec_roundtrip":
            v = K.tovec(include_weights=a["incl"])
            K2 = ttb.ktensor.from_vector(v.copy(), tuple(len(A) for A in a["f"]), a["incl"])
            return {"ok": tgen.obs_ktensor(np, K2), "vec": [tgen.exact(x) for x in v]}
        if c.op == "update":
            K.update(np.array(a["modes"]), np.array(a["data"], dtype=float))
            return {"ok": tgen.obs_ktensor(np, K)}
        if c.op == "update_req":
            import warnings
            exc = None
            try:
                with warnings.catch_warnings():
                    warnings.simplefilter("ignore")
                    ret = K.update(np.array(a["modes"], dtype=int), np.array(a["data"], dtype=float))
                same_obj = ret is K
            except AssertionError as ex:
                exc, same_obj = str(ex)[:60], True
            except Exception as ex:             # not the documented refusal (e.g. IndexError from inside the assigning loop)
                exc, same_obj = f"{type(ex).__name__}: {str(ex)[:50]}", True
            return {"ok": tgen.obs_ktensor(np, K), "rejected": exc, "same_obj": bool(same_obj)}
        if c.op == "tolist":
            fl = K.tolist() if a["mode"] is None else K.tolist(a["mode"])
            return {"ok": {"weights": [1] * len(a["w"]), "factors": [tgen.obs_matrix(np, A) for A in fl]}}
        if c.op == "mask":
            shape = tuple(len(A) for A in a["f"])
            D = np.zeros(shape, order="F")
            for i in a["marked"]:
                D[tuple(i)] = 1.0
            W = ttb.tensor(D, copy=True)
            if a["sparse"]:
                W = W.to_sptensor() if hasattr(W, "to_sptensor") else ttb.sptensor.from_tensor_type(W)
            wsubs, _ = W.find()
            vals = K.mask(W)
            return {"vals": [tgen.exact(x) for x in np.asarray(vals).ravel()], "subs": ([] if np.asarray(wsubs).size == 0 else [[int(x) for x in row] for row in np.asarray(wsubs)]),
                    "ok": tgen.obs_ktensor(np, K)}
        if c.op == "score":
            L = mk_k(ttb, np, a["w2"], a["f2"], a.get("lay2"))
            sc, A2, flag, perm = K.score(L)
            return {"ok": tgen.obs_ktensor(np, A2), "perm": [int(x) for x in perm], "score": float(sc)}
    except Exception as ex:
        return {"exc": type(ex).__name__, "msg": str(ex)[:200]}
    raise ValueError(c.op)


# ----------------------------------------------------------------------------------------------------------------
# Gallina writers
# ----------------------------------------------------------------------------------------------------------------
def finite(k):
    return all(not isinstance(x, str) for x in k["weights"]) and all(not isinstance(x, str) for A in k["factors"] for r in A for x in r)


def all_int_k(k):
    return tgen.all_int(k["weights"]) and all(tgen.all_int(r) for A in k["factors"] for r in A)


def gzk(w, f):
    return tgen.gktensor(w, f)


def gqvec(l):
    return "(@nil Qc)" if not l else "[" + "; ".join(gq(x) for x in l) + "]"


def gqmat(m):
    return "(@nil (list Qc))" if not m else "[" + "; ".join(gqvec(r) for r in m) + "]"


def gqmats(f):
    return "(@nil (list (list Qc)))" if not f else "[" + "; ".join(gqmat(A) for A in f) + "]"


def gqk(w, f):
    return f"(mkK {gqvec(w)} {gqmats(f)})"


def gwf(wf):
    return "WNone" if wf is None else "WAll" if wf == "all" else f"(WMode {int(wf)})"


def gonat(x):
    return "None" if x is None else f"(Some {int(x)}%nat)"


def shape_of(f):
    return [len(A) for A in f]


def coq_check(c, o):
    e = coq_check0(c, o)
    if e is not None and c.op != "hist" and c.args.get("sc"):
        e = c08_hist.rel_comparers(e)
    return e


def coq_check0(c, o):
    a = c.args
    if c.op == "hist":
        return c08_hist.coq_hist(c, o)
    if "exc" in o:
        return "false"          # every request generated here is admissible
    ob = o["ok"]
    if not finite(ob):
        return "false"
    shp = gnlist(shape_of(a["f"]))
    if c.op == "mask":
        if not tgen.all_int(o["vals"]) or sorted(o["subs"]) != sorted(a["marked"]) or len(o["vals"]) != len(o["subs"]):
            return "false"
        subs = "(@nil (list nat))" if not o["subs"] else "[" + "; ".join(gnlist(i) for i in o["subs"]) + "]"
        K = gzk(a["w"], a["f"])
        return (f"let K := {K} in vec_eqb (zk_py_mask {subs} K) {gzlist(o['vals'])} && "
                f"vec_eqb (map (zden_k K) {subs}) {gzlist(o['vals'])} && zk_eqb K {gzk(ob['weights'], ob['factors'])}")
    if c.op in ("normalize", "arrange"):
        K = gqk(*c08_hist.eff(a))
        O = gqk(ob["weights"], ob["factors"])
        if c.op == "normalize":
            model = f"qk_normalize {a['normtype']} {gwf(a['wf'])} false {gonat(a['mode'])} K"
            # the literal column loops (Model/C08Loop2.v) against the vectorised model, exactly (theorem C08_normalize_loop), and
            # pyttb against the loop
            loopm = f"qk_py_normalize {a['normtype']} {gwf(a['wf'])} false {gonat(a['mode'])} K"
            agree = ((f"qk_sorted_of (fun G => G) ({loopm}) O" if a["sort"] and len(a["w"]) > 1 else f"qk_close ({loopm}) O")
                     + f" && qk_eqb ({loopm}) ({model})")
            nf = []
            if a["mode"] is None:
                nf.append("q_nonneg (kweights O)")
                if a["wf"] is None:
                    nf.append(f"qk_unit_cols {a['normtype']} O")
                    nf.append("qk_zero_weight O")
                    if a["sort"]:
                        nf.append("q_desc (kweights O)")
                else:
                    nf.append("q_all_one (kweights O)")
        else:
            post = "(fun G => G)" if a["wf"] is None else f"(qk_redistribute {int(a['wf'])})"
            agree = f"qk_sorted_of {post} (qk_normalize 2 WNone false None K) O"
            nf = ["q_nonneg (kweights O)"]
            nf.append("q_desc (kweights O) && qk_unit_cols 2 O && qk_zero_weight O" if a["wf"] is None else "q_all_one (kweights O)")
        return (f"let K := {K} in let O := {O} in {agree} && qk_den_close {shp} K O"
                + "".join(" && " + x for x in nf))
    if c.op == "fixsigns_other":
        K = gqk(*c08_hist.eff(a))
        L = gqk(a["w2"], a["f2"])
        O = gqk(ob["weights"], ob["factors"])
        ties = any(len(set(abs(x) for x in sc)) < len(sc) or any(x == 0 for x in sc) for sc in fso_scores(a))
        # pyttb against the literal column loop (Model/C08Loop.v); the loop against the one-shot model, exactly (theorem
        # C08_fixsigns_other_loop; ties or not: both use the same stable argsort)
        loop = "qk_eqb (qk_py_fixsigns_other K L) (qk_fixsigns_other K L)"
        agree = loop if ties else f"qk_close (qk_py_fixsigns_other K L) O && {loop} && qk_sign_nf K L O"
        same_other = "true" if (o["other"]["weights"] == a["w2"] and o["other"]["factors"] == a["f2"]) else "false"
        return f"let K := {K} in let L := {L} in let O := {O} in {agree} && qk_den_close {shp} K O && {same_other}"
    if c.op == "tolist":
        K = gqk(*c08_hist.eff(a))
        F = gqmats(ob["factors"])
        model = "qk_tolist K" if a["mode"] is None else f"qk_tolist_mode {int(a['mode'])} K"
        return (f"let K := {K} in let F := {F} in qmats_close ({model}) F && "
                f"qk_den_close {shp} K (qk_ones_k F {len(a['w'])})")
    if c.op == "score":
        K = gqk(*c08_hist.eff(a))
        O = gqk(ob["weights"], ob["factors"])
        p = o["perm"]
        if sorted(p) != list(range(len(a["w"]))):
            return "false"
        L = gqk(a["w2"], a["f2"])
        extra = c08_hist.score_clause(*c08_hist.eff(a), a["w2"], a["f2"], p, o["score"])
        return (f"let K := {K} in let L := {L} in let O := {O} in "
                f"qk_close (qk_gather {gnlist(p)} (qk_normalize 2 WNone false None K)) O && qk_den_close {shp} K O && {extra}")
    if not all_int_k(ob):
        return "false"
    K = gzk(a["w"], a["f"])
    O = gzk(ob["weights"], ob["factors"])
    if c.op == "fixsigns":
        # pyttb against the literal column loop (Model/C08Loop2.v) and against the one-shot model (theorem C08_fixsigns_loop)
        return f"let K := {K} in let O := {O} in zk_eqb (zk_py_fixsigns K) O && zk_eqb (zk_fixsigns K) O && zk_den_eqb {shp} K O"
    if c.op == "permute":
        shp2 = gnlist([shape_of(a["f"])[k] for k in a["order"]])
        od = gnlist(a["order"])
        return (f"let K := {K} in let O := {O} in zk_eqb (zk_permute {od} K) O && nvec_eqb (kshape O) {shp2} && "
                f"forall_idx {shp2} (fun i => Z.eqb (zden_k O i) (zden_k K (pick 0%nat (invperm {od}) i)))")
    if c.op == "vec_roundtrip":
        if not tgen.all_int(o["vec"]):
            return "false"
        incl = "true" if a["incl"] else "false"
        back = "zk_eqb O K" if a["incl"] else f"zk_eqb O (mkK {gzlist([1] * len(a['w']))} (kfactors K))"
        return (f"let K := {K} in let O := {O} in vec_eqb (zk_tovec {incl} K) {gzlist(o['vec'])} && "
                f"zk_eqb (zk_from_vector {gzlist(o['vec'])} {shp} {incl}) O && {back}")
    if c.op == "update":
        ms = "[" + "; ".join("None" if k == -1 else f"Some {k}%nat" for k in a["modes"]) + "]"
        full = len(a["modes"]) == len(a["f"]) + 1
        extra = f" && zk_eqb O (zk_from_vector {gzlist(a['data'])} {shp} true)" if full else ""
        return f"let K := {K} in let O := {O} in zk_eqb (zk_update {ms} {gzlist(a['data'])} K) O{extra}"
    if c.op == "update_req":
        # pyttb against the state machine of Model/C08Update.v (accepted?, receiver as left); a rejected request must leave the receiver
        # as it was (theorem C08_update_rejected_unchanged), an accepted one the functional model (C08_update_accepted_model)
        if not o["same_obj"]:
            return "false"
        acc = o["rejected"] is None
        if acc and any(k < -1 for k in a["modes"]):
            return "false"              # a mode below -1 can never be accepted
        ms = gzlist(a["modes"])
        mo = "[" + "; ".join("None" if k == -1 else f"Some {k}%nat" for k in a["modes"]) + "]"
        post = f"zk_eqb O (zk_update {mo} {gzlist(a['data'])} K)" if acc else "zk_eqb O K"
        return (f"let K := {K} in let O := {O} in let r := zk_py_update {ms} {gzlist(a['data'])} K in "
                f"Bool.eqb (fst r) {'true' if acc else 'false'} && zk_eqb (snd r) O && {post} && "
                f"zk_gen_update_agrees {ms} {gzlist(a['data'])} K O {'true' if acc else 'false'}")
    if c.op == "arrange_perm":
        return f"let K := {K} in let O := {O} in zk_eqb (zk_gather {gnlist(a['p'])} K) O && zk_den_eqb {shp} K O"
    if c.op == "extract":
        idx = [a["idx"]] if isinstance(a["idx"], int) else a["idx"]
        return f"zk_eqb (zk_gather {gnlist(idx)} {K}) {O}"
    if c.op == "redistribute":
        # hand model, the translator-GENERATED method evaluated on the same literal input (theorem C08_gen_redistribute_model), denotation
        return (f"let K := {K} in let O := {O} in zk_eqb (zk_redistribute {a['mode']} K) O && zk_den_eqb {shp} K O && "
                f"match zk_gen_redistribute {gz(a['mode'])} K with Some G => zk_eqb G O | None => false end")
    if c.op in ("add", "sub"):
        L = gzk(a["w2"], a["f2"])
        opz = "Z.add" if c.op == "add" else "Z.sub"
        return (f"let K := {K} in let L := {L} in let O := {O} in zk_eqb (zk_{c.op} K L) O && "
                f"forall_idx {shp} (fun i => Z.eqb (zden_k O i) ({opz} (zden_k K i) (zden_k L i)))")
    if c.op == "neg":
        return (f"let K := {K} in let O := {O} in zk_eqb (zk_neg K) O && "
                f"forall_idx {shp} (fun i => Z.eqb (zden_k O i) (Z.opp (zden_k K i)))")
    if c.op == "mul":
        if not all_int_k(o["r"]):
            return "false"
        O2 = gzk(o["r"]["weights"], o["r"]["factors"])
        return (f"let K := {K} in let O := {O} in zk_eqb (zk_scale {gz(a['c'])} K) O && zk_eqb O {O2} && "
                f"forall_idx {shp} (fun i => Z.eqb (zden_k O i) (Z.mul {gz(a['c'])} (zden_k K i)))")
    raise ValueError(c.op)


# ----------------------------------------------------------------------------------------------------------------
# independent brute-force oracle (pure Python, Fractions): the property predicate on pyttb's own output
# ----------------------------------------------------------------------------------------------------------------
def den(w, f, i):
    s = Fraction(0)
    for r in range(len(w)):
        p = Fraction(w[r])
        for n, A in enumerate(f):
            p *= Fraction(A[i[n]][r])
        s += p
    return s


def close(x, y, tol=Fraction(1, 10 ** 9)):
    return abs(Fraction(x) - Fraction(y)) <= tol * max(1, abs(Fraction(y)))


def oracle(c, o):
    a = c.args
    if c.op == "hist":
        return c08_hist.oracle_hist(c, o, den, close)
    if "exc" in o:
        return f"admissible request raised {o['exc']}: {o.get('msg')}"
    ob = o["ok"]
    if not finite(ob):
        return "non-finite value in the result"
    shape = shape_of(a["f"])
    ew, ef = c08_hist.eff(a)
    dclose = close
    if a.get("sc"):
        scale = max([abs(den(ew, ef, i)) for i in tgen.all_subs(shape)] + [Fraction(0)])

        def dclose(x, y, tol=Fraction(1, 10 ** 9)):        # relative to the size of the data (no absolute floor of 1)
            return abs(Fraction(x) - Fraction(y)) <= tol * max(abs(Fraction(y)), scale)
    if c.op == "mask":
        if sorted(o["subs"]) != sorted(a["marked"]) or len(o["vals"]) != len(o["subs"]):
            return "mask(W) does not list exactly the marked entries"
        for i, v in zip(o["subs"], o["vals"]):
            if not close(v, den(a["w"], a["f"], i)):
                return f"mask(W) at {i}: {v} instead of {float(den(a['w'], a['f'], i))}"
        return None
    if c.op == "update":
        return None
    if c.op == "update_req":
        want = update_req_accepted(shape, len(a["w"]), a["modes"], a["data"])
        if want != (o["rejected"] is None):
            return f"update({a['modes']}, {len(a['data'])} numbers) {'accepted' if not want else 'rejected: ' + str(o['rejected'])} against the documented contract"
        if not want and (ob["weights"] != a["w"] or ob["factors"] != a["f"]):
            return f"rejected update ({o['rejected']}) left a modified receiver"
        if not want and not any(t in o["rejected"] for t in ("Invalid mode", "Data is too short", "Modes must be sorted")):
            return f"update refused an inadmissible request with {o['rejected']} instead of its documented assertion"
        return None
    if c.op == "permute":
        shape2 = [shape[k] for k in a["order"]]
        for i in tgen.all_subs(shape2):
            j = [0] * len(shape)
            for k, m in enumerate(a["order"]):
                j[m] = i[k]
            if den(ob["weights"], ob["factors"], i) != den(a["w"], a["f"], j):
                return f"permuted tensor differs at {i}"
        return None
    if c.op == "vec_roundtrip":
        want_w = a["w"] if a["incl"] else [1] * len(a["w"])
        return None if (ob["weights"] == want_w and ob["factors"] == a["f"]) else "from_vector(tovec(K)) differs from K"
    if shape_of(ob["factors"]) != shape:
        return f"shape changed: {shape_of(ob['factors'])}"
    for i in tgen.all_subs(shape):
        before = den(ew, ef, i)
        after = den(ob["weights"], ob["factors"], i)
        if c.op in ("add", "sub"):
            other = den(a["w2"], a["f2"], i)
            want = before + other if c.op == "add" else before - other
        elif c.op == "neg":
            want = -before
        elif c.op == "mul":
            want = a["c"] * before
        elif c.op == "extract":
            idx = [a["idx"]] if isinstance(a["idx"], int) else a["idx"]
            want = den([a["w"][r] for r in idx], [[[row[r] for r in idx] for row in A] for A in a["f"]], i)
        else:
            want = before
        if not dclose(after, want):
            return f"denoted array differs at {i}: {float(after)} instead of {float(want)}"
    w = [Fraction(x) for x in ob["weights"]]
    if c.op in ("normalize", "arrange") and a.get("mode") is None:
        if any(x < 0 for x in w):
            return f"negative weight after {c.op}"
        absorbed = a["wf"] is not None
        if absorbed and not all(close(x, 1) for x in w):
            return "weights not all one after absorption"
        if not absorbed and (c.op == "arrange" or a["sort"]) and any(w[k] < w[k + 1] for k in range(len(w) - 1)):
            return "weights not in decreasing order"
        if not absorbed:
            nt = a.get("normtype", 2)
            for A in ob["factors"]:
                for r in range(len(w)):
                    colv = [Fraction(row[r]) for row in A]
                    n2 = sum(abs(x) for x in colv) if nt == 1 else sum(x * x for x in colv)
                    if n2 != 0 and not close(n2, 1, Fraction(1, 10 ** 6)):
                        return "column not of unit norm"
                    if n2 == 0 and w[r] != 0:
                        return f"component {r} has a zero column but weight {float(w[r])} (normal form: weight 0)"
    if c.op == "normalize" and a.get("mode") is not None:
        A = ob["factors"][a["mode"]]
        for r in range(len(w)):
            if all(Fraction(row[r]) == 0 for row in A) and w[r] != 0:
                return f"normalize(mode={a['mode']}): component {r} has a zero column in that mode but weight {float(w[r])}"
    if c.op == "redistribute" and any(x != 1 for x in w):
        return "weights not all one after redistribute"
    if c.op == "fixsigns_other":
        return c08_hist.sign_agreement(a["w"], a["f"], a["w2"], a["f2"], ob["factors"])
    return None
