(* Model/C02TenmatReq.v — tensor.to_tenmat / tensor.ttt with the row / column mode lists resolved by the GENERATED gather_wrap_dims
   (Gen/GenUtils2.v, re-translated from pyttb/pyttb_utils.py on every run), exactly as tensor.py calls it:
     to_tenmat(rdims, cdims):  rdims, cdims = gather_wrap_dims(n, rdims, cdims, cdims_cyclic=None)
     ttt:  amatrix = self.to_tenmat(cdims=selfdims);  bmatrix = other.to_tenmat(rdims=otherdims);  amatrix * bmatrix;  to_tensor()
   Definitions only; proofs in Proofs/C02TenmatReqProofs.v. *)
From Coq Require Import List ZArith Arith Bool Lia.
From PV Require Import Base.Index Base.Perm Base.Sum Np.NpZ Np.NpZ2 Np.Array Model.Sparse Model.Repr Model.C02Spec Model.C02Dense
                       Model.C02Modes Model.C02Tenmat Gen.GenUtils Gen.GenUtils2.
Import ListNotations.

Section Req.
Context {V : Type} (v0 v1 : V) (vadd vmul : V -> V -> V).

(* the matricised data together with the row / column modes the tenmat records (rindices, cindices) *)
Definition impl_to_tenmat_req (X : dense V) (rdims cdims : option vec) : res (dense V * (list nat * list nat)) :=
  match gather_wrap_dims (Z.of_nat (length (dshape X))) rdims cdims None with
  | Ok (r, c) => Ok (impl_to_tenmat v0 X (nats r) (nats c), (nats r, nats c))
  | Err => Err
  end.

(* tenmat.__mul__ followed by to_tensor (scalar when no mode remains) *)
Definition tenmat_mul_to_tensor (A B : dense V) (tshape : shape) (a b : nat) : dense V :=
  let C := matmul v0 vadd vmul A B in
  match tshape with
  | [] => mkDense [] [den_dense v0 C [0; 0]]
  | _ => impl_to_tensor v0 C (seq 0 a) (seq a b) tshape
  end.

Definition impl_ttt_req (X Y : dense V) (sd od : vec) : res (dense V) :=
  match impl_to_tenmat_req X None (Some sd), impl_to_tenmat_req Y (Some od) None with
  | Ok (A, (r1, _)), Ok (B, (_, c2)) =>
      Ok (tenmat_mul_to_tensor A B (pick 0 r1 (dshape X) ++ pick 0 c2 (dshape Y)) (length r1) (length c2))
  | _, _ => Err
  end.
End Req.
