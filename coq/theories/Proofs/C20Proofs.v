(* Proofs/C20Proofs.v — generators and aggregating constructors build what they advertise (Model/C20Gen.v). *)
From Coq Require Import List Arith ZArith Lia Bool Permutation.
From PV Require Import Base.Index Base.Sum Np.Array Model.Sparse Model.Repr Model.C20Gen.
Import ListNotations.

(* ================================================================ dense generators *)
Section Dense.
Context {V : Type} (v0 v1 : V).

Lemma nth_repeat_lt (v d : V) n k : k < n -> nth k (repeat v n) d = v.
Proof. revert k; induction n as [|n IH]; intros [|k] H; cbn; try lia; auto. apply IH. lia. Qed.

(* tensor.from_function: shape exact, data = the function's output listed first-index-fastest *)
Theorem from_function_ok (s : shape) (out : dense V) :
  wf_dense out -> size (dshape out) = size s ->
  exists T, from_function v0 s out = Some T /\ dshape T = s /\ wf_dense T /\ ddata T = ddata out /\
            (forall i, inb s i = true -> den_dense v0 T i = nth (sub2ind s i) (ddata out) v0).
Proof.
  intros W Hs. exists (np_reshapeF v0 out s). unfold from_function.
  assert (E : length (ddata out) = size s) by (unfold wf_dense in W; lia).
  rewrite E, Nat.eqb_refl.
  split; [reflexivity|]. split; [reflexivity|]. split; [apply wf_tabulate|]. split; [now apply np_reshapeF_data|].
  intros i Hi. unfold np_reshapeF. now rewrite den_tabulate.
Qed.

(* an output that already has the requested shape is taken as it is *)
Theorem from_function_same_shape (out : dense V) : wf_dense out ->
  from_function v0 (dshape out) out = Some out.
Proof.
  intros W. unfold from_function. rewrite W, Nat.eqb_refl. f_equal.
  apply (dense_ext v0); [apply wf_tabulate | exact W | reflexivity |].
  intros i Hi. unfold np_reshapeF in *. cbn [dshape tabulate] in Hi. rewrite den_tabulate by auto.
  unfold den_dense. now rewrite Hi.
Qed.

Theorem from_function_reject (s : shape) (out : dense V) :
  length (ddata out) <> size s -> from_function v0 s out = None.
Proof. intros H. unfold from_function. apply Nat.eqb_neq in H. now rewrite H. Qed.

Lemma tenfill_ok (s : shape) (v : V) :
  exists T, from_function v0 s (np_full s v) = Some T /\ dshape T = s /\ wf_dense T /\
            ddata T = repeat v (size s) /\ (forall i, inb s i = true -> den_dense v0 T i = v).
Proof.
  destruct (from_function_ok s (np_full s v)) as (T & E & Hs & W & Hd & Hden).
  - unfold wf_dense, np_full. cbn. now rewrite repeat_length.
  - reflexivity.
  - exists T. repeat split; auto. intros i Hi. rewrite Hden by auto. cbn [np_full ddata].
    apply nth_repeat_lt. now apply sub2ind_lt.
Qed.

Theorem tenones_ok (s : shape) :
  exists T, tenones v0 v1 s = Some T /\ dshape T = s /\ wf_dense T /\
            ddata T = repeat v1 (size s) /\ (forall i, inb s i = true -> den_dense v0 T i = v1).
Proof. exact (tenfill_ok s v1). Qed.

Theorem tenzeros_ok (s : shape) :
  exists T, tenzeros v0 s = Some T /\ dshape T = s /\ wf_dense T /\
            ddata T = repeat v0 (size s) /\ (forall i, den_dense v0 T i = v0).
Proof.
  destruct (tenfill_ok s v0) as (T & E & Hs & W & Hd & Hden). exists T. repeat split; auto.
  intros i. destruct (inb s i) eqn:Hi; auto. apply den_dense_out. now rewrite Hs.
Qed.
End Dense.
