(* Proofs/C18W8PdnrMain.v — C18 print-independence of the GENERATED tt_cp_apr_pdnr driver (Gen/GenCpAprPdnr.v); loop lemmas and the
   discussion of what is read from printitn / printinneritn: Proofs/C18W8Pdnr.v *)
From Coq Require Import String List Arith Bool Lia.
From PV Require Import Model.W4SPrelude Gen.GenCpAprPdnr Proofs.C18W8Util Proofs.C18W8Pdnr.
Import ListNotations.
Local Open Scope nat_scope.

Section PDNR.
Variables T_W T_F T_K T_X T_Pi T_Xmat T_Idx T_Row : Type.
Variable c_leF : T_F -> T_F -> bool.
Variable c_zeroF : T_F.
Variable c_m1F : T_F.
Variable c_subF : T_F -> T_F -> T_F.
Variable k_normalize : T_K -> nat -> T_K.
Variable k_is_sptensor : T_X -> bool.
Variable k_time : T_W -> T_W * T_F.
Variable k_num_rows : T_K -> nat -> nat.
Variable k_row_indices : T_X -> nat -> nat -> T_Idx.
Variable k_ones_row : nat -> T_Row.
Variable k_redistribute : T_K -> nat -> T_K.
Variable k_is_tensor : T_X -> bool.
Variable k_calcpi_dense : T_X -> T_K -> nat -> nat -> nat -> bool -> T_Pi.
Variable k_unfold : T_X -> nat -> T_Xmat.
Variable k_idx_empty : T_Idx -> bool.
Variable k_zero_row : T_K -> nat -> nat -> T_K.
Variable k_vals_at : T_X -> T_Idx -> T_Row.
Variable k_calcpi_sparse : T_X -> T_K -> nat -> nat -> nat -> bool -> T_Idx -> T_Pi.
Variable k_get_row : T_K -> nat -> nat -> T_Row.
Variable k_calc_partials : bool -> T_Pi -> T_F -> T_Row -> T_Row -> T_Row * T_Row.
Variable k_grad : T_Row -> T_Row -> T_Row.
Variable k_kkt_row : T_Row -> T_Row -> T_F.
Variable k_search_dir_pdnr : T_Pi -> T_Row -> nat -> T_Row -> T_Row -> T_F -> T_F -> T_Row * T_F.
Variable k_linesearch : T_Row -> T_Row -> T_Row -> bool -> T_Row -> T_Pi -> T_Row -> bool -> T_Row * T_F * T_F * nat.
Variable k_rho : T_F -> T_F -> T_F.
Variable k_is_zeroF : T_F -> bool.
Variable k_mu_times_10 : T_F -> T_F.
Variable k_lt_quarter : T_F -> bool.
Variable k_mu_times_7_2 : T_F -> T_F.
Variable k_gt_three_quarters : T_F -> bool.
Variable k_mu_times_2_7 : T_F -> T_F.
Variable k_set_row : T_K -> nat -> nat -> T_Row -> T_K.
Variable k_xmat_row : T_Xmat -> nat -> T_Row.
Variable k_any_row : T_Row -> bool.
Variable k_normalize_mode : T_K -> nat -> nat -> T_K.
Variable k_count_zero : T_K -> nat -> nat.
Variable k_max : list T_F -> T_F.
Variable k_inexact_tol : T_F -> list T_F -> nat -> T_F.
Variable k_print_now : nat -> nat -> bool.
Variable k_neg_loglikelihood : T_X -> T_K -> T_F.
Variable k_normalize_sort : T_K -> nat -> bool -> T_K.
Variable k_loglikelihood : T_X -> T_K -> T_F.

Notation gl1 := (GenCpAprPdnr.cp_apr_pdnr_loop1 T_K T_X T_Idx k_num_rows k_row_indices).
Notation gl2 := (GenCpAprPdnr.cp_apr_pdnr_loop2 T_X T_Idx k_row_indices).
Notation gl3 := (GenCpAprPdnr.cp_apr_pdnr_loop3 T_W T_F T_K T_X T_Pi T_Xmat T_Idx T_Row c_leF c_zeroF c_subF k_is_sptensor k_time k_num_rows k_row_indices k_redistribute k_is_tensor k_calcpi_dense k_unfold k_idx_empty k_zero_row k_vals_at k_calcpi_sparse k_get_row k_calc_partials k_grad k_kkt_row k_search_dir_pdnr k_linesearch k_rho k_is_zeroF k_mu_times_10 k_lt_quarter k_mu_times_7_2 k_gt_three_quarters k_mu_times_2_7 k_set_row k_xmat_row k_any_row k_normalize_mode k_count_zero k_max k_inexact_tol k_print_now k_neg_loglikelihood).
Notation gl4 := (GenCpAprPdnr.cp_apr_pdnr_loop4 T_F T_K T_X T_Pi T_Xmat T_Idx T_Row c_leF c_subF k_is_sptensor k_num_rows k_row_indices k_redistribute k_is_tensor k_calcpi_dense k_unfold k_idx_empty k_zero_row k_vals_at k_calcpi_sparse k_get_row k_calc_partials k_grad k_kkt_row k_search_dir_pdnr k_linesearch k_rho k_is_zeroF k_mu_times_10 k_lt_quarter k_mu_times_7_2 k_gt_three_quarters k_mu_times_2_7 k_set_row k_xmat_row k_any_row k_normalize_mode).
Notation gl5 := (GenCpAprPdnr.cp_apr_pdnr_loop5 T_F T_K T_X T_Pi T_Xmat T_Idx T_Row c_leF c_subF k_is_sptensor k_row_indices k_idx_empty k_zero_row k_vals_at k_calcpi_sparse k_get_row k_calc_partials k_grad k_kkt_row k_search_dir_pdnr k_linesearch k_rho k_is_zeroF k_mu_times_10 k_lt_quarter k_mu_times_7_2 k_gt_three_quarters k_mu_times_2_7 k_set_row k_xmat_row k_any_row).
Notation gl6 := (GenCpAprPdnr.cp_apr_pdnr_loop6 T_F T_Pi T_Row c_leF c_subF k_calc_partials k_grad k_kkt_row k_search_dir_pdnr k_linesearch k_rho k_is_zeroF k_mu_times_10 k_lt_quarter k_mu_times_7_2 k_gt_three_quarters k_mu_times_2_7).
Notation gl7 := (GenCpAprPdnr.cp_apr_pdnr_loop7 T_F T_Pi T_Row c_leF c_subF k_calc_partials k_grad k_kkt_row k_search_dir_pdnr k_linesearch k_rho k_is_zeroF k_mu_times_10 k_lt_quarter k_mu_times_7_2 k_gt_three_quarters k_mu_times_2_7).
Notation gl8 := (GenCpAprPdnr.cp_apr_pdnr_loop8 T_K k_count_zero).
Notation gpdnr := (GenCpAprPdnr.cp_apr_pdnr T_W T_F T_K T_X T_Pi T_Xmat T_Idx T_Row c_leF c_zeroF c_m1F c_subF k_normalize k_is_sptensor k_time k_num_rows k_row_indices k_ones_row k_redistribute k_is_tensor k_calcpi_dense k_unfold k_idx_empty k_zero_row k_vals_at k_calcpi_sparse k_get_row k_calc_partials k_grad k_kkt_row k_search_dir_pdnr k_linesearch k_rho k_is_zeroF k_mu_times_10 k_lt_quarter k_mu_times_7_2 k_gt_three_quarters k_mu_times_2_7 k_set_row k_xmat_row k_any_row k_normalize_mode k_count_zero k_max k_inexact_tol k_print_now k_neg_loglikelihood k_normalize_sort k_loglikelihood).

(* the line search's answer does not depend on the warning-display flag *)
Hypothesis H_ls : forall d g m sp x Pi ph (b : bool), k_linesearch d g m sp x Pi ph b = k_linesearch d g m sp x Pi ph false.

Theorem gen_cp_apr_pdnr_print_indep : forall w X rank init stoptol stoptime maxiters maxinner eps epsActive mu0 precomp inexact N
                                             (p1 q1 p2 q2 : nat),
  option_map c18w8_drop_fnvals (gpdnr w X rank init stoptol stoptime maxiters maxinner eps p1 q1 epsActive mu0 precomp inexact N) =
  option_map c18w8_drop_fnvals (gpdnr w X rank init stoptol stoptime maxiters maxinner eps p2 q2 epsActive mu0 precomp inexact N).
Proof.
  intros. cbv beta zeta delta [GenCpAprPdnr.cp_apr_pdnr].
  c18w8_lock ltac:(first
    [ match goal with
      | |- option_map _ (match ?A with _ => _ end) = option_map _ (match ?B with _ => _ end) =>
          lazymatch A with context [GenCpAprPdnr.cp_apr_pdnr_loop3] => idtac end;
          lazymatch A with context [match _ with _ => _ end] => fail | _ => idtac end;
          let HH := fresh "HH" in
          assert (HH : option_map (drop_fv _ _ _) A = option_map (drop_fv _ _ _) B)
            by (apply loop3_print; [exact H_ls | reflexivity | rewrite repeat_length; lia]);
          destruct A as [s1|]; destruct B as [s2|]; cbn [option_map] in HH; try discriminate HH;
          [ repeat match goal with p : (_ * _)%type |- _ => destruct p end; cbn [drop_fv] in HH; inversion HH; subst | ]
      end
    | match goal with
      | |- option_map _ (Some _) = option_map _ (Some _) =>
          cbn [option_map c18w8_drop_fnvals]; match goal with H : length ?a = length ?b |- _ => rewrite (c18w8_slice_len a b _ _ H) end; reflexivity
      end ]).
Qed.

(* the two printitn values print at the same iterations (e.g. both 0, or equal): fnVals is the same as well *)
Theorem gen_cp_apr_pdnr_print_same_gate : forall w X rank init stoptol stoptime maxiters maxinner eps epsActive mu0 precomp inexact N
                                                 (p1 q1 p2 q2 : nat),
  (forall i, (0 <? p1) && k_print_now i p1 = (0 <? p2) && k_print_now i p2) ->
  gpdnr w X rank init stoptol stoptime maxiters maxinner eps p1 q1 epsActive mu0 precomp inexact N =
  gpdnr w X rank init stoptol stoptime maxiters maxinner eps p2 q2 epsActive mu0 precomp inexact N.
Proof.
  intros until q2. intros Hg. cbv beta zeta delta [GenCpAprPdnr.cp_apr_pdnr].
  c18w8_lock ltac:(rewrite loop3_gate with (b2 := 0 <? q2) (p2 := p2) by assumption).
Qed.

(* inexact = False: the whole result is the same for any two (printitn, printinneritn) *)
Theorem gen_cp_apr_pdnr_print_exact : forall w X rank init stoptol stoptime maxiters maxinner eps epsActive mu0 precomp N
                                             (p1 q1 p2 q2 : nat),
  gpdnr w X rank init stoptol stoptime maxiters maxinner eps p1 q1 epsActive mu0 precomp false N =
  gpdnr w X rank init stoptol stoptime maxiters maxinner eps p2 q2 epsActive mu0 precomp false N.
Proof.
  intros. cbv beta zeta delta [GenCpAprPdnr.cp_apr_pdnr].
  c18w8_lock ltac:(rewrite loop3_exact with (b2 := 0 <? q2) (p2 := p2) by assumption).
Qed.
End PDNR.
