(* Alg/C13Solver.v — the bookkeeping state machine of StochasticSolver.solve (DESIGN §C13).
   Source anchor: pyttb/gcp/optimizers.py::StochasticSolver.solve (epoch loop, failure detection, rollback, trace).
   Abstract in: the model type M, the optimizer's private state O (Adam moments, Adagrad sum, nothing for SGD),
   the estimate type E with a total order, the objective estimate on the fixed function sample (fest : M -> E — the
   function sample never changes during a solve) and what one epoch of update steps does to the model (epoch: it
   receives the epoch number — standing for the position in the random stream — the failure count, the optimizer
   state and the current model). *)
From Coq Require Import List Arith Lia Bool.
Import ListNotations.

Section Solver.
Variables M O E : Type.
Variable leb : E -> E -> bool.                       (* leb a b = true  iff  a <= b *)
Hypothesis leb_total : forall a b, leb a b = true \/ leb b a = true.
Hypothesis leb_trans : forall a b c, leb a b = true -> leb b c = true -> leb a c = true.

Variable fest : M -> E.
Variable epoch : nat -> nat -> O -> M -> M * O.
Variable on_fail : O -> O.                           (* set_failed_epoch *)
Variable max_fails : nat.
Variable tol : option E.                             (* f_est_tol; None = -inf *)

Definition gtb (a b : E) : bool := negb (leb a b).
Definition ltb (a b : E) : bool := negb (leb b a).

Lemma leb_refl a : leb a a = true.
Proof. destruct (leb_total a a); auto. Qed.

Record st := mkSt {
  cur : M; best : M; fprev : E; nfails : nat; opt : O;
  trace : list E;        (* f_est after each completed epoch, in order *)
  hist : list M;         (* ghost: the model at the end of each completed epoch, before any rollback *)
  stop : bool }.

Definition step_epoch (n : nat) (s : st) : st :=
  let (m', o') := epoch n (nfails s) (opt s) (cur s) in
  let fe := fest m' in
  let failed := gtb fe (fprev s) in
  let nf := if failed then S (nfails s) else nfails s in
  let toltest := match tol with None => false | Some t => ltb fe t end in
  let stp := (max_fails <? nf) || toltest in
  if failed
  then mkSt (best s) (best s) (fprev s) nf (on_fail o') (trace s ++ [fe]) (hist s ++ [m']) stp
  else mkSt m' m' fe nf o' (trace s ++ [fe]) (hist s ++ [m']) stp.

(* for n_epoch in range(max_iters): ... break *)
Fixpoint run (k n : nat) (s : st) : st :=
  match k with
  | 0 => s
  | S k' => if stop s then s else run k' (S n) (step_epoch n s)
  end.

(* self._nfails = 0 at entry; the optimizer's private state o0 is whatever the object holds *)
Definition init (m0 : M) (o0 : O) : st := mkSt m0 m0 (fest m0) 0 o0 [] [] false.
Definition solve (max_iters : nat) (m0 : M) (o0 : O) : st := run max_iters 0 (init m0 o0).

Definition epochs (s : st) : nat := length (trace s).
(* what the property calls the trace: the starting value, then one value per completed epoch *)
Definition full_trace (m0 : M) (s : st) : list E := fest m0 :: trace s.
(* what the code reports: info["f_est_trace"] = fest_trace[0 : n_epoch + 2], a slice of the array np.zeros(max_iters + 1)
   whose first 1 + epochs entries have been written; n_epoch is the LAST LOOP INDEX (0 if the loop never ran).
   `pad` stands for the unwritten zeros of the array. *)
Definition trace_array (pad : E) (max_iters : nat) (m0 : M) (s : st) : list E :=
  full_trace m0 s ++ repeat pad (max_iters - epochs s).
Definition reported_trace (pad : E) (max_iters : nat) (m0 : M) (s : st) : list E :=
  firstn (pred (epochs s) + 2) (trace_array pad max_iters m0 s).
Definition reported_n_epoch (s : st) : nat := pred (epochs s).

(* e is a smallest element of l *)
Definition is_min (e : E) (l : list E) : Prop := In e l /\ forall x, In x l -> leb e x = true.

(* ---- the invariant at every epoch boundary ---- *)
Definition inv (m0 : M) (s : st) : Prop :=
  cur s = best s /\ fprev s = fest (best s) /\ In (best s) (m0 :: hist s) /\
  map fest (hist s) = trace s /\ is_min (fprev s) (full_trace m0 s) /\ leb (fprev s) (fest m0) = true.

Lemma inv_init m0 o0 : inv m0 (init m0 o0).
Proof.
  unfold inv, init, full_trace, is_min. cbn. repeat split; auto using leb_refl.
  intros x [<-|[]]. apply leb_refl.
Qed.

Lemma inv_step m0 n s : inv m0 s -> inv m0 (step_epoch n s).
Proof.
  intros (Hc & Hf & Hin & Hm & (Hmin1 & Hmin2) & Hle). unfold step_epoch.
  destruct (epoch n (nfails s) (opt s) (cur s)) as [m' o'] eqn:Ee.
  unfold gtb. destruct (leb (fest m') (fprev s)) eqn:Ecmp; cbn [negb].
  - (* accepted *)
    unfold inv, full_trace, is_min in *. cbn. repeat split; auto.
    + right. apply in_or_app. right. cbn. auto.
    + rewrite map_app, Hm. reflexivity.
    + right. apply in_or_app. right. cbn. auto.
    + intros x [<-|Hx].
      * eapply leb_trans; [exact Ecmp|]. apply Hmin2. cbn. auto.
      * apply in_app_or in Hx as [Hx|[<-|[]]]; [|apply leb_refl].
        eapply leb_trans; [exact Ecmp|]. apply Hmin2. cbn. auto.
    + eapply leb_trans; [exact Ecmp | exact Hle].
  - (* failed epoch: roll back *)
    unfold inv, full_trace, is_min in *. cbn. repeat split; auto.
    + destruct Hin as [Hin|Hin]; [left; auto|right; apply in_or_app; auto].
    + rewrite map_app, Hm. reflexivity.
    + destruct Hmin1 as [H1|H1]; [left; auto|right; apply in_or_app; auto].
    + intros x [<-|Hx]; [apply Hmin2; cbn; auto|].
      apply in_app_or in Hx as [Hx|[<-|[]]]; [apply Hmin2; cbn; auto|].
      destruct (leb_total (fprev s) (fest m')) as [H|H]; [exact H|congruence].
Qed.

Lemma inv_run m0 k : forall n s, inv m0 s -> inv m0 (run k n s).
Proof.
  induction k as [|k IH]; intros n s H; cbn; auto.
  destruct (stop s); auto. apply IH. now apply inv_step.
Qed.

(* the model returned is the best one seen at an epoch boundary (or the start); its estimate is the smallest value
   of the trace and is no worse than the starting guess's *)
Theorem best_model max_iters m0 o0 :
  let s := solve max_iters m0 o0 in
  cur s = best s /\ In (cur s) (m0 :: hist s) /\ map fest (hist s) = trace s /\
  is_min (fest (cur s)) (full_trace m0 s) /\ leb (fest (cur s)) (fest m0) = true.
Proof.
  intros s. destruct (inv_run m0 max_iters 0 _ (inv_init m0 o0)) as (Hc & Hf & Hin & Hm & Hmin & Hle).
  fold (solve max_iters m0 o0) in *. fold s in Hc, Hf, Hin, Hm, Hmin, Hle.
  rewrite Hc. rewrite <- Hf. auto.
Qed.

(* ---- trace length ---- *)
Lemma epochs_step n s : epochs (step_epoch n s) = S (epochs s).
Proof.
  unfold step_epoch, epochs. destruct (epoch n (nfails s) (opt s) (cur s)) as [m' o'].
  destruct (gtb (fest m') (fprev s)); cbn; rewrite app_length; cbn; lia.
Qed.

Lemma hist_step n s : length (hist (step_epoch n s)) = S (length (hist s)).
Proof.
  unfold step_epoch. destruct (epoch n (nfails s) (opt s) (cur s)) as [m' o'].
  destruct (gtb (fest m') (fprev s)); cbn; rewrite app_length; cbn; lia.
Qed.

Lemma epochs_run_le k : forall n s, epochs s <= epochs (run k n s) <= epochs s + k.
Proof.
  induction k as [|k IH]; intros n s; cbn; [lia|].
  destruct (stop s); [lia|]. specialize (IH (S n) (step_epoch n s)). rewrite epochs_step in IH. lia.
Qed.

(* the trace the property asks for has exactly one value per completed epoch after the starting value,
   and at most max_iters epochs are run *)
Theorem trace_length max_iters m0 o0 :
  let s := solve max_iters m0 o0 in
  length (full_trace m0 s) = S (epochs s) /\ epochs s <= max_iters /\ length (hist s) = epochs s.
Proof.
  intros s. repeat split.
  - pose proof (epochs_run_le max_iters 0 (init m0 o0)) as H. cbn in H. exact (proj2 H).
  - destruct (best_model max_iters m0 o0) as (_ & _ & Hm & _). fold s in Hm.
    unfold epochs. rewrite <- Hm. now rewrite map_length.
Qed.

(* the loop body runs at least once unless max_iters = 0 *)
Lemma epochs_zero_iters max_iters m0 o0 : epochs (solve max_iters m0 o0) = 0 -> max_iters = 0.
Proof.
  destruct max_iters as [|k]; [reflexivity|]. unfold solve. cbn [run init stop]. intros H.
  pose proof (epochs_run_le k 1 (step_epoch 0 (init m0 o0))) as Hle. rewrite epochs_step in Hle.
  cbn [run init stop] in H. change (mkSt m0 m0 (fest m0) 0 o0 [] [] false) with (init m0 o0) in H. lia.
Qed.

(* the reported slice [0 : n_epoch + 2] is the WHOLE trace: the starting value and one value per completed epoch,
   nothing dropped and none of the array's padding included — for every max_iters (0 included) and every stop reason *)
Theorem reported_trace_full pad max_iters m0 o0 :
  let s := solve max_iters m0 o0 in reported_trace pad max_iters m0 s = full_trace m0 s.
Proof.
  intros s. unfold reported_trace, trace_array.
  destruct (epochs s) as [|e] eqn:Ee.
  - apply epochs_zero_iters in Ee. subst max_iters. cbn [Nat.sub repeat]. rewrite app_nil_r.
    apply firstn_all2. unfold full_trace. cbn [length]. unfold epochs in *.
    unfold s, solve. cbn. lia.
  - cbn [pred]. replace (e + 2) with (length (full_trace m0 s) + 0) by (unfold full_trace; cbn [length]; unfold epochs in Ee; lia).
    rewrite firstn_app_2. cbn [firstn]. now rewrite app_nil_r.
Qed.

(* ---- any property of models that every epoch establishes/preserves holds for the returned model ---- *)
Theorem returned_invariant (P : M -> Prop) max_iters m0 o0 :
  P m0 -> (forall n f o m, P m -> P (fst (epoch n f o m))) -> P (cur (solve max_iters m0 o0)).
Proof.
  intros H0 Hstep. unfold solve.
  assert (G : forall k n s, P (cur s) -> P (best s) -> P (cur (run k n s)) /\ P (best (run k n s))).
  { induction k as [|k IH]; intros n s Hc Hb; cbn; auto.
    destruct (stop s); auto. apply IH; unfold step_epoch;
      pose proof (Hstep n (nfails s) (opt s) (cur s) Hc) as Hs;
      destruct (epoch n (nfails s) (opt s) (cur s)) as [m' o']; cbn in Hs;
      destruct (gtb (fest m') (fprev s)); cbn; auto. }
  apply G; cbn; auto.
Qed.

(* if every epoch ESTABLISHES P (e.g. epoch_iters >= 1 and every step ends in max(lb, .)) then after one accepted
   epoch P holds whatever the starting guess was *)
Theorem returned_established (P : M -> Prop) max_iters m0 o0 :
  (forall n f o m, P (fst (epoch n f o m))) ->
  let s := solve max_iters m0 o0 in cur s = m0 \/ P (cur s).
Proof.
  intros Hstep s. destruct (best_model max_iters m0 o0) as (_ & Hin & _). fold s in Hin.
  destruct Hin as [Hin|Hin]; [left; auto|right].
  assert (G : forall k n s, Forall P (hist s) -> Forall P (hist (run k n s))).
  { induction k as [|k IH]; intros n s0 Hh; cbn; auto.
    destruct (stop s0); auto. apply IH. unfold step_epoch.
    pose proof (Hstep n (nfails s0) (opt s0) (cur s0)) as Hs.
    destruct (epoch n (nfails s0) (opt s0) (cur s0)) as [m' o']; cbn in Hs.
    destruct (gtb (fest m') (fprev s0)); cbn; apply Forall_app; auto. }
  specialize (G max_iters 0 (init m0 o0) (Forall_nil _)). rewrite Forall_forall in G. now apply G.
Qed.

End Solver.

(* ---------------------------------------------------------------------------------------------- *)
(* Reuse of a solver OBJECT.  The object keeps (_nfails, private state) between calls of solve;       *)
(* solve starts with `self._nfails = 0; self.reset_state()`.                                          *)
(* ---------------------------------------------------------------------------------------------- *)
Section Reuse.
Variables M O E : Type.
Variable leb : E -> E -> bool.
Variable fest : M -> E.
Variable epoch : nat -> nat -> O -> M -> M * O.
Variable on_fail : O -> O.
Variable reset : O -> O.                              (* reset_state() *)
Variable max_fails : nat.
Variable tol : option E.

(* the object before the call: its _nfails field and its private state *)
Definition solve_obj (obj : nat * O) (max_iters : nat) (m0 : M) : st M O E :=
  solve M O E leb fest epoch on_fail max_fails tol max_iters m0 (reset (snd obj)).
Definition obj_after (s : st M O E) : nat * O := (nfails M O E s, opt M O E s).

(* _nfails is reset at entry: the outcome does not depend on it *)
Theorem reuse_nfails_reset : forall nf1 nf2 o max_iters m0,
  solve_obj (nf1, o) max_iters m0 = solve_obj (nf2, o) max_iters m0.
Proof. reflexivity. Qed.

(* reset_state() forgets the private state: the outcome is the same for EVERY previous history of the object *)
Theorem reuse_reset : (forall o1 o2 : O, reset o1 = reset o2) ->
  forall obj1 obj2 max_iters m0, solve_obj obj1 max_iters m0 = solve_obj obj2 max_iters m0.
Proof. intros Hr [n1 o1] [n2 o2] k m0. unfold solve_obj. cbn [snd]. now rewrite (Hr o1 o2). Qed.

(* a whole sequence of solves on ONE object: every solve equals the same solve on an object in state `fresh` *)
Fixpoint solve_seq (obj : nat * O) (reqs : list (nat * M)) : list (st M O E) :=
  match reqs with
  | [] => []
  | (k, m0) :: reqs' => let s := solve_obj obj k m0 in s :: solve_seq (obj_after s) reqs'
  end.

Theorem reuse_sequence : (forall o1 o2 : O, reset o1 = reset o2) ->
  forall fresh reqs obj, solve_seq obj reqs = map (fun q => solve_obj fresh (fst q) (snd q)) reqs.
Proof.
  intros Hr fresh reqs. induction reqs as [|[k m0] reqs IH]; intros obj; cbn [solve_seq map fst snd]; [reflexivity|].
  rewrite IH. f_equal. now apply reuse_reset.
Qed.
End Reuse.

(* non-vacuity: an Adagrad-like epoch  x <- x - 12 / (acc + 3)  with the accumulated sum kept in the object (all in nat:
   model value = 100 - ...).  Without the reset the second solve on the same object would start from acc = 3 and return
   98 instead of 96 (that was finding A-36); with reset_state() = "acc := 0" both give 96. *)
Section ReuseExample.
Definition w_epoch (n nf : nat) (acc : nat) (m : nat) : nat * nat := (m - 12 / (acc + 3), acc + 3).
Definition w_solve (reset : nat -> nat) (obj : nat * nat) : st nat nat nat :=
  solve_obj nat nat nat Nat.leb (fun m => m) w_epoch (fun o => o) reset 1 None obj 1 100.

Example reuse_example_reset :
  let s1 := w_solve (fun _ => 0) (0, 0) in
  cur _ _ _ s1 = 96 /\ obj_after _ _ _ s1 = (0, 3) /\ cur _ _ _ (w_solve (fun _ => 0) (obj_after _ _ _ s1)) = 96 /\
  cur _ _ _ (w_solve (fun o => o) (obj_after _ _ _ s1)) = 98.
Proof. repeat split; reflexivity. Qed.
End ReuseExample.
