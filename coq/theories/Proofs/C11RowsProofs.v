(* Proofs/C11RowsProofs.v — the PDNR / PQNR outer-loop state machine (Model/C11Rows.v): for EVERY gradient, search direction, step
   length, fallback decision (oracles), every data tensor, every guess with non-negative entries: weights and factors stay
   non-negative through all sweeps, rows and inner iterations; the KKT list has one non-negative entry per outer iteration performed,
   at least one, at most maxiters, fewer only after the convergence test fired; the inner-iteration list has the same length. *)
From Coq Require Import List Arith Lia Bool.
From PV Require Import Base.Index Base.Sum Np.Array Model.Sparse Model.Repr Model.C14Nvecs Model.C11Apr Model.C11Rows Proofs.C11Proofs.
Import ListNotations.

Section RowsProofs.
Variable V : Type.
Variables (v0 v1 : V) (vadd vmul : V -> V -> V).
Variable nn : V -> Prop.
Hypothesis nn0 : nn v0.
Hypothesis nn1 : nn v1.
Hypothesis nn_add : forall a b, nn a -> nn b -> nn (vadd a b).
Hypothesis nn_mul : forall a b, nn a -> nn b -> nn (vmul a b).
Variable vscale : V -> V -> V.
Variable vabs : V -> V.
Variables vmin vmax : V -> V -> V.
Variable vgt0 : V -> bool.
Variables vltb vleb : V -> V -> bool.
Variable isz : V -> bool.
Variable vdiv100 : V -> V.
Hypothesis scale_nn : forall t a, nn t -> nn a -> nn (vscale t a).
Hypothesis abs_nn : forall x, nn (vabs x).
Hypothesis max_nn : forall a b, nn a -> nn b -> nn (vmax a b).
Hypothesis gt0_nn : forall x, vgt0 x = true -> nn x.
Variables (stoptol tiny : V).
Hypothesis tiny_nn : nn tiny.
Variables (maxinner : nat) (inexact prestep : bool).
Notation state := (@state V).
Variables (grad dir phi : state -> ctx -> list (list V) -> list V -> list V).
Variable alpha : state -> ctx -> list (list V) -> list V -> V.
Variable fallback : state -> ctx -> list (list V) -> list V -> bool.

Notation nnl := (Forall nn).
Notation nnm := (Forall (Forall nn)).
Notation inv := (inv V nn).
Notation ls_step := (ls_step v0 vadd vmul vgt0 dir phi alpha fallback).
Notation row_loop := (row_loop v0 vadd vmul vabs vmin vmax vgt0 vltb stoptol prestep grad dir phi alpha fallback).
Notation rows_step := (rows_step v0 vadd vmul vabs vmin vmax vgt0 vltb isz stoptol prestep grad dir phi alpha fallback).
Notation mode_step_rs := (mode_step_rs v0 v1 vadd vmul vscale vabs vmin vmax vgt0 vltb isz stoptol maxinner inexact prestep grad dir phi alpha fallback).
Notation sweep_rs := (sweep_rs v0 v1 vadd vmul vscale vabs vmin vmax vgt0 vltb isz stoptol maxinner inexact prestep grad dir phi alpha fallback).
Notation outer_rs := (outer_rs v0 v1 vadd vmul vscale vabs vmin vmax vgt0 vltb vleb isz vdiv100 stoptol maxinner inexact prestep grad dir phi alpha fallback).
Notation normalize_all := (normalize_all v0 vadd vmul vscale vabs).
Notation normalize_mode := (normalize_mode v0 vadd vmul vscale vabs).

Lemma nn_ls_step st c hist m : nnl (ls_step st c hist m).
Proof.
  unfold C11Rows.ls_step. destruct (fallback st c hist m).
  - apply (proj_any V v0 nn nn0 vgt0 gt0_nn).
  - apply (proj_nonneg V v0 vadd vmul nn nn0 vgt0 gt0_nn).
Qed.

Lemma nn_kkt_row m g : nn (kkt_row v0 vabs vmin vmax m g).
Proof.
  unfold kkt_row. apply (nn_maxlist V v0 nn nn0 vmax max_nn).
  apply Forall_forall. intros x Hx. apply in_map_iff in Hx. destruct Hx as (p & <- & _). apply abs_nn.
Qed.

(* the row inner loop: non-negative row in, non-negative row out; the recorded first violation is non-negative; the last inner
   index is below the iteration limit *)
Lemma row_loop_spec fuel : forall i st c3 hist m first touched,
  nnl m -> nn first ->
  match row_loop fuel i st c3 hist m first touched with
  | (m', ilast, first', _) => nnl m' /\ nn first' /\ ilast <= Nat.pred (i + fuel) /\ Nat.pred i <= ilast
  end.
Proof.
  induction fuel as [|f IH]; intros i st c3 hist m first touched Hm Hf; cbn [C11Rows.row_loop].
  - repeat split; auto. rewrite Nat.add_0_r. lia.
  - set (pre := prestep && Nat.eqb i 0).
    set (m1 := if pre then ls_step st (c3, i) hist m else m).
    set (hist1 := if pre then m :: hist else hist).
    assert (Hm1 : nnl m1) by (unfold m1; destruct pre; auto using nn_ls_step).
    set (k := kkt_row v0 vabs vmin vmax m1 (grad st (c3, i) hist1 m1)).
    assert (Hk : nn k) by apply nn_kkt_row.
    assert (Hf' : nn (if Nat.eqb i 0 then k else first)) by (destruct (Nat.eqb i 0); auto).
    destruct (vltb k stoptol).
    + repeat split; auto; lia.
    + specialize (IH (S i) st c3 (m1 :: hist1) (ls_step st (c3, i) hist1 m1) (if Nat.eqb i 0 then k else first) true
                     (nn_ls_step _ _ _ _) Hf').
      destruct (row_loop f (S i) st c3 (m1 :: hist1) (ls_step st (c3, i) hist1 m1) (if Nat.eqb i 0 then k else first) true)
        as [[[m' il] f'] t'].
      destruct IH as (I1 & I2 & I3 & I4). repeat split; auto; cbn in I3, I4; lia.
Qed.

Lemma inv_set_fac st n A : inv st -> nnm A -> inv (set_fac st n A).
Proof. intros (Hw & HA & HP & Hk) HA'. repeat split; cbn; auto. now apply Forall_upd. Qed.

Lemma rankof_set_fac (st : state) n A : rankof (set_fac st n A) = rankof st.
Proof. reflexivity. Qed.
Lemma sconv_set_fac (st : state) n A : sconv (set_fac st n A) = sconv st.
Proof. reflexivity. Qed.

(* one row: invariant, mode maximum stays non-negative, the count grows by at most innermax - 1 *)
Lemma rows_step_spec X iter n innermax st kmode notconv cnt jj :
  inv st -> nn kmode ->
  match rows_step X iter n innermax (st, kmode, notconv, cnt) jj with
  | (st', kmode', _, cnt') => inv st' /\ nn kmode' /\ cnt <= cnt' <= cnt + Nat.pred innermax /\ sconv st' = sconv st /\
                              length (sA st') = length (sA st) /\ sw st' = sw st /\ skkt st' = skkt st
  end.
Proof.
  intros Hinv Hk. unfold C11Rows.rows_step.
  assert (HA : nnm (fac st n)) by (apply nnM_nth; apply Hinv).
  assert (Hlen : forall A, length (sA (set_fac st n A)) = length (sA st)).
  { intros A. cbn. clear. generalize (sA st) n. induction l as [|x l IH]; intros [|k]; cbn; auto. }
  destruct (row_empty v0 isz X n jj).
  - split; [|repeat split; auto; lia]. apply inv_set_fac; auto. apply Forall_upd; auto.
    apply Forall_forall. intros x Hx. apply repeat_spec in Hx. now subst.
  - pose proof (row_loop_spec innermax 0 st (iter, n, jj) [] (nth jj (fac st n) []) v0 false (nnm_nth V nn _ jj HA) nn0) as H.
    destruct (row_loop innermax 0 st (iter, n, jj) [] (nth jj (fac st n) []) v0 false) as [[[m il] f] t].
    destruct H as (H1 & H2 & H3 & _). cbn [Nat.add] in H3.
    split; [|split; [|repeat split; auto; lia]].
    + apply inv_set_fac; auto. apply Forall_upd; auto.
    + destruct (vltb kmode f); auto.
Qed.

Lemma rows_fold_spec X iter n innermax l : forall st kmode notconv cnt,
  inv st -> nn kmode ->
  match fold_left (rows_step X iter n innermax) l (st, kmode, notconv, cnt) with
  | (st', kmode', _, cnt') => inv st' /\ nn kmode' /\ cnt <= cnt' <= cnt + length l * Nat.pred innermax /\ sconv st' = sconv st /\
                              length (sA st') = length (sA st) /\ sw st' = sw st /\ skkt st' = skkt st
  end.
Proof.
  induction l as [|jj l IH]; intros st kmode notconv cnt Hinv Hk; cbn [fold_left].
  - split; [exact Hinv|]. repeat split; auto; cbn; lia.
  - pose proof (rows_step_spec X iter n innermax st kmode notconv cnt jj Hinv Hk) as H.
    destruct (rows_step X iter n innermax (st, kmode, notconv, cnt) jj) as [[[st1 k1] nc1] c1].
    destruct H as (H1 & H2 & H3 & H4 & H5 & H6 & H7).
    specialize (IH st1 k1 nc1 c1 H1 H2).
    destruct (fold_left (rows_step X iter n innermax) l (st1, k1, nc1, c1)) as [[[st2 k2] nc2] c2].
    destruct IH as (I1 & I2 & I3 & I4 & I5 & I6 & I7). split; [exact I1|]. repeat split; auto; try congruence; cbn [length]; lia.
Qed.

Lemma upd_length {A} (l : list A) : forall k v, length (upd l k v) = length l.
Proof. induction l as [|x l IH]; intros [|k] v; cbn; auto. Qed.

Lemma mode_step_rs_spec X iter st total n :
  inv st ->
  match mode_step_rs X iter (st, total) n with
  | (st', total') => inv st' /\ total <= total' /\ length (sA st') = length (sA st)
  end.
Proof.
  intros Hinv. unfold C11Rows.mode_step_rs.
  pose proof (inv_redistribute V v0 v1 vmul nn nn0 nn1 nn_mul n st Hinv) as H1.
  set (st1 := redistribute v0 v1 vmul n st) in *.
  pose proof (rows_fold_spec X iter n (innermax_of maxinner inexact iter) (seq 0 (length (fac st1 n))) st1 v0 false 0 H1 nn0) as H.
  destruct (fold_left _ _ (st1, v0, false, 0)) as [[[st2 k2] nc2] c2].
  destruct H as ((Hw & HA & HP & Hk) & I2 & I3 & I4 & I5 & I6 & I7).
  split; [|split; [lia|]].
  - apply (inv_normalize V v0 vadd vmul nn nn0 nn_add nn_mul vscale vabs scale_nn abs_nn).
    repeat split; cbn; auto. now apply Forall_upd.
  - cbn. rewrite upd_length, I5. unfold st1. cbn. apply upd_length.
Qed.

Lemma modes_fold_spec X iter l : forall st total, inv st ->
  match fold_left (mode_step_rs X iter) l (st, total) with
  | (st', total') => inv st' /\ length (sA st') = length (sA st)
  end.
Proof.
  induction l as [|n l IH]; intros st total Hinv; cbn [fold_left]; [split; auto|].
  pose proof (mode_step_rs_spec X iter st total n Hinv) as H.
  destruct (mode_step_rs X iter (st, total) n) as [st1 t1]. destruct H as (H1 & _ & H3).
  specialize (IH st1 t1 H1). destruct (fold_left (mode_step_rs X iter) l (st1, t1)) as [st2 t2].
  destruct IH as (I1 & I2). split; auto. congruence.
Qed.

Lemma sweep_rs_spec X iter st : inv st ->
  match sweep_rs X iter st with (st', _) => inv st' /\ length (sA st') = length (sA st) end.
Proof.
  intros (Hw & HA & HP & Hk). unfold C11Rows.sweep_rs.
  apply (modes_fold_spec X iter (seq 0 (length (sA st))) (mkSt (sw st) (sA st) (sPhi st) (repeat v0 (length (sA st))) true) 0).
  repeat split; cbn; auto. apply Forall_forall. intros x Hx. apply repeat_spec in Hx. now subst.
Qed.

(* the outer loop: invariant + bookkeeping *)
Lemma outer_rs_spec fuel X : forall iter st kkts inners, inv st -> nnl kkts -> length inners = length kkts ->
  match outer_rs fuel X iter st kkts inners with
  | (st', kkts', inners') =>
      inv st' /\ nnl kkts' /\ length inners' = length kkts' /\
      exists k, length kkts' = length kkts + k /\ k <= fuel /\ (1 <= fuel -> 1 <= k) /\
                (k < fuel -> stop_now vmax vleb vdiv100 stoptol inexact st' (last kkts' v0) = true)
  end.
Proof.
  induction fuel as [|f IH]; intros iter st kkts inners Hinv Hk Hl; cbn [C11Rows.outer_rs].
  - split; [exact Hinv|]. split; [exact Hk|]. split; [exact Hl|]. exists 0. repeat split; lia.
  - pose proof (sweep_rs_spec X iter st Hinv) as Hs.
    destruct (sweep_rs X iter st) as [st1 cnt]. destruct Hs as (Hs & _).
    set (k := maxlist v0 vmax (skkt st1)).
    assert (Hk1 : nn k) by (apply (nn_maxlist V v0 nn nn0 vmax max_nn); apply Hs).
    assert (Hk' : nnl (kkts ++ [k])) by (apply Forall_app; split; auto).
    assert (Hl' : length (inners ++ [cnt]) = length (kkts ++ [k])) by (rewrite !app_length; cbn; lia).
    destruct (stop_now vmax vleb vdiv100 stoptol inexact st1 k) eqn:E.
    + split; [exact Hs|]. split; [exact Hk'|]. split; [exact Hl'|]. exists 1. rewrite app_length. cbn. repeat split; auto; try lia.
      intros _. now rewrite last_last.
    + specialize (IH (S iter) st1 (kkts ++ [k]) (inners ++ [cnt]) Hs Hk' Hl').
      destruct (outer_rs f X (S iter) st1 (kkts ++ [k]) (inners ++ [cnt])) as [[st2 kk2] in2].
      destruct IH as (I1 & I2 & I3 & j & J1 & J2 & J3 & J4).
      split; [exact I1|]. split; [exact I2|]. split; [exact I3|]. exists (S j). rewrite J1, app_length. cbn. repeat split; try lia.
      intros Hlt. apply J4. lia.
Qed.

Lemma inv_normalize_all st : inv st -> inv (normalize_all st).
Proof.
  unfold C11Rows.normalize_all. generalize (seq 0 (length (sA st))). intros l. revert st.
  induction l as [|n l IH]; intros st H; cbn; auto.
  apply IH. now apply (inv_normalize V v0 vadd vmul nn nn0 nn_add nn_mul vscale vabs scale_nn abs_nn).
Qed.

Lemma nnm_patch A : nnm A -> nnm (patch_zero_rows v0 vadd isz tiny A).
Proof.
  intros H. unfold patch_zero_rows. apply Forall_forall. intros row Hr. apply in_map_iff in Hr. destruct Hr as (r0 & <- & Hin).
  rewrite Forall_forall in H. specialize (H r0 Hin). destruct (isz _); auto. now apply Forall_upd.
Qed.

Lemma inv_init_rs (K : ktensor V) : nnl (kweights K) -> Forall nnm (kfactors K) ->
  inv (init_rs v0 vadd vmul vscale vabs isz tiny K).
Proof.
  intros Hw HA. unfold init_rs. apply inv_normalize_all. repeat split; cbn; auto.
  - apply Forall_forall. intros A HA'. apply in_map_iff in HA'. destruct HA' as (A0 & <- & Hin).
    apply nnm_patch. rewrite Forall_forall in HA. auto.
  - apply Forall_forall. intros x Hx. apply repeat_spec in Hx. now subst.
Qed.

(* the whole PDNR / PQNR run *)
Theorem rows_nonneg (X : dense V) (K : ktensor V) (maxiters : nat) :
  nnl (kweights K) -> Forall nnm (kfactors K) ->
  match cp_apr_rows v0 v1 vadd vmul vscale vabs vmin vmax vgt0 vltb vleb isz vdiv100 stoptol tiny maxinner inexact prestep
                    grad dir phi alpha fallback X K maxiters with
  | (st, kkts, inners) =>
      nnl (sw st) /\ Forall nnm (sA st) /\
      nnl kkts /\ length kkts <= maxiters /\ (1 <= maxiters -> 1 <= length kkts) /\ length inners = length kkts /\
      (length kkts < maxiters -> sconv st = true)
  end.
Proof.
  intros Hw HA. unfold cp_apr_rows.
  pose proof (outer_rs_spec maxiters X 0 _ [] [] (inv_init_rs K Hw HA) (Forall_nil _) eq_refl) as H.
  destruct (outer_rs maxiters X 0 _ [] []) as [[st kkts] inners].
  destruct H as (H1 & H2 & H3 & k & K1 & K2 & K3 & K4). cbn [length Nat.add] in K1.
  pose proof (inv_normalize_all st H1) as (N1 & N2 & _).
  repeat split; auto; try lia.
  intros Hlt. assert (Hc : sconv (normalize_all st) = sconv st).
  { unfold C11Rows.normalize_all. generalize (seq 0 (length (sA st))). intros l. generalize st.
    induction l as [|n l IH]; intros s; cbn; auto. rewrite IH. reflexivity. }
  rewrite Hc. assert (Hs : stop_now vmax vleb vdiv100 stoptol inexact st (last kkts v0) = true) by (apply K4; lia).
  unfold stop_now in Hs. apply andb_prop in Hs. apply Hs.
Qed.
(* ---- inner-iteration counts: every nInnerIters entry is at most (total number of factor rows) * (inner limit - 1) ------------- *)
Definition rowsv (st : state) : list nat := map (@length (list V)) (sA st).

Lemma map_length_upd (l : list (list (list V))) : forall n A',
  length A' = length (nth n l []) -> map (@length (list V)) (upd l n A') = map (@length (list V)) l.
Proof. induction l as [|x l IH]; intros [|n] A' H; cbn in *; auto; [now rewrite H|now rewrite IH]. Qed.

Lemma mtab_length m k (f : nat -> nat -> V) : length (mtab m k f) = m.
Proof. unfold mtab. now rewrite map_length, seq_length. Qed.

Lemma rowsv_redistribute n st : rowsv (redistribute v0 v1 vmul n st) = rowsv st.
Proof. unfold rowsv, redistribute, fac. cbn. apply map_length_upd. now rewrite mtab_length. Qed.

Lemma rowsv_normalize n st : rowsv (normalize_mode n st) = rowsv st.
Proof. unfold rowsv, C11Apr.normalize_mode, fac. cbn. apply map_length_upd. now rewrite mtab_length. Qed.

Lemma rowsv_set_row st n jj m : rowsv (set_fac st n (upd (fac st n) jj m)) = rowsv st.
Proof. unfold rowsv, set_fac, fac. cbn. apply map_length_upd. apply upd_length. Qed.

Lemma rows_step_rows X iter n im st kmode nc cnt jj :
  match rows_step X iter n im (st, kmode, nc, cnt) jj with (st', _, _, _) => rowsv st' = rowsv st end.
Proof.
  unfold C11Rows.rows_step. destruct (row_empty v0 isz X n jj); [apply rowsv_set_row|].
  destruct (row_loop im 0 st (iter, n, jj) [] (nth jj (fac st n) []) v0 false) as [[[m il] f] t]. apply rowsv_set_row.
Qed.

Lemma rows_fold_rows X iter n im l : forall st kmode nc cnt,
  match fold_left (rows_step X iter n im) l (st, kmode, nc, cnt) with (st', _, _, _) => rowsv st' = rowsv st end.
Proof.
  induction l as [|jj l IH]; intros st kmode nc cnt; cbn [fold_left]; [reflexivity|].
  pose proof (rows_step_rows X iter n im st kmode nc cnt jj) as H.
  destruct (rows_step X iter n im (st, kmode, nc, cnt) jj) as [[[st1 k1] nc1] c1].
  specialize (IH st1 k1 nc1 c1). destruct (fold_left (rows_step X iter n im) l (st1, k1, nc1, c1)) as [[[st2 k2] nc2] c2].
  congruence.
Qed.

Lemma mode_step_rs_cnt X iter st total n : inv st ->
  match mode_step_rs X iter (st, total) n with
  | (st', total') => rowsv st' = rowsv st /\ total' <= total + nth n (rowsv st) 0 * Nat.pred (innermax_of maxinner inexact iter)
  end.
Proof.
  intros Hinv. unfold C11Rows.mode_step_rs.
  pose proof (inv_redistribute V v0 v1 vmul nn nn0 nn1 nn_mul n st Hinv) as H1.
  pose proof (rowsv_redistribute n st) as Hr.
  set (st1 := redistribute v0 v1 vmul n st) in *.
  pose proof (rows_fold_spec X iter n (innermax_of maxinner inexact iter) (seq 0 (length (fac st1 n))) st1 v0 false 0 H1 nn0) as H.
  pose proof (rows_fold_rows X iter n (innermax_of maxinner inexact iter) (seq 0 (length (fac st1 n))) st1 v0 false 0) as H2.
  destruct (fold_left _ _ (st1, v0, false, 0)) as [[[st2 k2] nc2] c2].
  destruct H as (_ & _ & I3 & _). rewrite seq_length in I3.
  split.
  - rewrite rowsv_normalize. unfold rowsv in *. cbn. congruence.
  - assert (E : length (fac st1 n) = nth n (rowsv st) 0).
    { rewrite <- Hr. unfold rowsv, fac. change 0 with (@length (list V) []). now rewrite map_nth. }
    rewrite <- E. lia.
Qed.

Lemma modes_fold_cnt X iter l : forall st total, inv st ->
  match fold_left (mode_step_rs X iter) l (st, total) with
  | (st', total') => rowsv st' = rowsv st /\
      total' <= total + list_sum (map (fun n => nth n (rowsv st) 0) l) * Nat.pred (innermax_of maxinner inexact iter)
  end.
Proof.
  induction l as [|n l IH]; intros st total Hinv; cbn [fold_left map list_sum fold_right]; [split; [reflexivity|lia]|].
  pose proof (mode_step_rs_spec X iter st total n Hinv) as H.
  pose proof (mode_step_rs_cnt X iter st total n Hinv) as Hc.
  destruct (mode_step_rs X iter (st, total) n) as [st1 t1]. destruct H as (H1 & _ & _). destruct Hc as (C1 & C2).
  specialize (IH st1 t1 H1). destruct (fold_left (mode_step_rs X iter) l (st1, t1)) as [st2 t2].
  destruct IH as (I1 & I2). rewrite C1 in I1, I2. split; [exact I1|].
  unfold list_sum in *. rewrite Nat.mul_add_distr_r. lia.
Qed.

Definition total_rows (st : state) : nat := list_sum (map (fun n => nth n (rowsv st) 0) (seq 0 (length (sA st)))).

Lemma sweep_rs_cnt X iter st : inv st ->
  match sweep_rs X iter st with
  | (st', cnt) => rowsv st' = rowsv st /\ cnt <= total_rows st * Nat.pred (Nat.max maxinner 2)
  end.
Proof.
  intros (Hw & HA & HP & Hk). unfold C11Rows.sweep_rs.
  assert (Hi : inv (mkSt (sw st) (sA st) (sPhi st) (repeat v0 (length (sA st))) true)).
  { repeat split; cbn; auto. apply Forall_forall. intros x Hx. apply repeat_spec in Hx. now subst. }
  pose proof (modes_fold_cnt X iter (seq 0 (length (sA st))) _ 0 Hi) as H.
  destruct (fold_left (mode_step_rs X iter) (seq 0 (length (sA st))) _) as [st' cnt].
  destruct H as (H1 & H2). split; [exact H1|].
  unfold total_rows. cbn [Nat.add] in H2. unfold rowsv in *. cbn [sA] in H2.
  etransitivity; [exact H2|]. apply Nat.mul_le_mono_l.
  unfold innermax_of. destruct (inexact && Nat.eqb iter 1); lia.
Qed.

Lemma outer_rs_cnt fuel X : forall iter st kkts inners (B : nat), inv st ->
  total_rows st * Nat.pred (Nat.max maxinner 2) <= B -> Forall (fun c => c <= B) inners ->
  match outer_rs fuel X iter st kkts inners with (_, _, inners') => Forall (fun c => c <= B) inners' end.
Proof.
  induction fuel as [|f IH]; intros iter st kkts inners B Hinv HB Hin; cbn [C11Rows.outer_rs]; [exact Hin|].
  pose proof (sweep_rs_spec X iter st Hinv) as Hs. pose proof (sweep_rs_cnt X iter st Hinv) as Hc.
  destruct (sweep_rs X iter st) as [st1 cnt]. destruct Hs as (Hs & Hl). destruct Hc as (C1 & C2).
  assert (Hin' : Forall (fun c => c <= B) (inners ++ [cnt])) by (apply Forall_app; split; auto; constructor; auto; lia).
  destruct (stop_now vmax vleb vdiv100 stoptol inexact st1 (maxlist v0 vmax (skkt st1))); [exact Hin'|].
  apply IH; auto. unfold total_rows in *. rewrite C1, Hl. exact HB.
Qed.

Lemma rowsv_normalize_all st : rowsv (normalize_all st) = rowsv st /\ length (sA (normalize_all st)) = length (sA st).
Proof.
  unfold C11Rows.normalize_all. generalize (seq 0 (length (sA st))). intros l. revert st.
  induction l as [|n l IH]; intros st; cbn [fold_left]; [split; reflexivity|].
  destruct (IH (normalize_mode n st)) as (I1 & I2). rewrite I1, I2, rowsv_normalize. split; [reflexivity|].
  cbn. apply upd_length.
Qed.

Lemma sum_nth_seq (l : list nat) (k : nat) : k = length l -> list_sum (map (fun n => nth n l 0) (seq 0 k)) = list_sum l.
Proof.
  intros ->. f_equal. apply nth_ext with (d := 0) (d' := 0); [now rewrite map_length, seq_length|].
  intros n Hn. rewrite map_length, seq_length in Hn.
  rewrite (nth_indep _ 0 ((fun n0 => nth n0 l 0) 0)) by (now rewrite map_length, seq_length).
  rewrite (map_nth (fun n0 => nth n0 l 0)). now rewrite seq_nth.
Qed.

(* every nInnerIters entry <= (sum of the mode sizes of the guess) * (max(maxinneriters, 2) - 1) *)
Theorem rows_inner_bound (X : dense V) (K : ktensor V) (maxiters : nat) :
  nnl (kweights K) -> Forall nnm (kfactors K) ->
  match cp_apr_rows v0 v1 vadd vmul vscale vabs vmin vmax vgt0 vltb vleb isz vdiv100 stoptol tiny maxinner inexact prestep
                    grad dir phi alpha fallback X K maxiters with
  | (_, _, inners) => Forall (fun c => c <= list_sum (kshape K) * Nat.pred (Nat.max maxinner 2)) inners
  end.
Proof.
  intros Hw HA. unfold cp_apr_rows.
  pose proof (outer_rs_cnt maxiters X 0 (init_rs v0 vadd vmul vscale vabs isz tiny K) [] []
                (list_sum (kshape K) * Nat.pred (Nat.max maxinner 2)) (inv_init_rs K Hw HA)) as H.
  destruct (outer_rs maxiters X 0 _ [] []) as [[st kkts] inners]. apply H; [|constructor].
  apply Nat.mul_le_mono_r. unfold init_rs, total_rows.
  destruct (rowsv_normalize_all (mkSt (kweights K) (map (patch_zero_rows v0 vadd isz tiny) (kfactors K)) []
                                    (repeat v0 (length (kfactors K))) true)) as (R1 & R2).
  rewrite R1, R2. unfold rowsv. cbn [sA]. rewrite !map_map, map_length.
  assert (E : map (fun A => length (patch_zero_rows v0 vadd isz tiny A)) (kfactors K) = kshape K).
  { unfold kshape, nrows, patch_zero_rows. apply map_ext. intros A. now rewrite map_length. }
  rewrite E. apply Nat.eq_le_incl. apply sum_nth_seq. unfold kshape. now rewrite map_length.
Qed.
End RowsProofs.

(* ------------------------------------------------------------------------------------------------ a concrete run over Z
   3 x 2 counts with an empty row in mode 0, rank 2, non-unit weights, a guess with an all-zero row; toy oracles (gradient m - 2 - i,
   direction |hist| - m, unit step, multiplicative fallback at inner iteration 1); no scaling in normalize. *)
From Coq Require Import ZArith.
Section RowsExample.
Local Open Scope Z_scope.
Let X := mkDense [3; 2]%nat [2; 0; 1; 3; 0; 0].
Let K := mkK [1; 2] [[[1; 2]; [0; 0]; [2; 1]]; [[1; 1]; [3; 0]]].
Let zgrad (st : @state Z) (c : ctx) (h : list (list Z)) (m : list Z) : list Z := map (fun x => x - 2 - Z.of_nat (snd c)) m.
Let zdir (st : @state Z) (c : ctx) (h : list (list Z)) (m : list Z) : list Z := map (fun x => Z.of_nat (length h) - x) m.
Let zphi (st : @state Z) (c : ctx) (h : list (list Z)) (m : list Z) : list Z := map (fun x => 3 - x) m.
Let zalpha (st : @state Z) (c : ctx) (h : list (list Z)) (m : list Z) : Z := 1.
Let zfb (st : @state Z) (c : ctx) (h : list (list Z)) (m : list Z) : bool := Nat.eqb (snd c) 1.
Let run (inexact prestep : bool) (maxiters : nat) (tol : Z) :=
  cp_apr_rows 0 1 Z.add Z.mul (fun t a => a) Z.abs Z.min Z.max (Z.ltb 0) Z.ltb Z.leb (Z.eqb 0) (fun x => x / 100) tol 1 3%nat
     inexact prestep zgrad zdir zphi zalpha zfb X K maxiters.
(* PDNR-inexact, never converging within 4 iterations: 4 KKT entries, iteration 1 runs 2 inner iterations per row (count 4, not 8),
   the row over the empty data slice is zero;  PDNR-exact with a loose tolerance: stops after 2 of 5 iterations, converged;
   PQNR (first steepest-descent search): 3 of 3 iterations *)
Example rows_ex :
  (let '(st, k, i) := run true false 4%nat 1 in (sw st, sA st, k, i, sconv st)) =
    ([64; 64], [[[2; 2]; [0; 0]; [2; 2]]; [[2; 2]; [2; 2]]], [30; 6; 2; 6], [8; 4; 8; 8]%nat, false) /\
  (let '(st, k, i) := run false false 5%nat 7 in (k, i, sconv st)) = ([30; 2], [2; 0]%nat, true) /\
  (let '(st, k, i) := run false true 3%nat 1 in (sw st, sA st, k, i, sconv st)) =
    ([216; 216], [[[3; 3]; [0; 0]; [3; 3]]; [[3; 3]; [3; 3]]], [2; 2; 2], [8; 8; 8]%nat, false).
Proof. vm_compute. repeat split. Qed.
End RowsExample.

(* the first run once more with everything spelled out (quoted by Props/C11.v) *)
Example rows_ex_props :
  let X := mkDense [3; 2] [2; 0; 1; 3; 0; 0]%Z in
  let K := mkK [1; 2]%Z [[[1; 2]; [0; 0]; [2; 1]]; [[1; 1]; [3; 0]]]%Z in
  let zgrad := fun (st : @state Z) (c : ctx) (h : list (list Z)) (m : list Z) => map (fun x => x - 2 - Z.of_nat (snd c))%Z m in
  let zdir := fun (st : @state Z) (c : ctx) (h : list (list Z)) (m : list Z) => map (fun x => Z.of_nat (length h) - x)%Z m in
  let zphi := fun (st : @state Z) (c : ctx) (h : list (list Z)) (m : list Z) => map (fun x => 3 - x)%Z m in
  let zalpha := fun (st : @state Z) (c : ctx) (h : list (list Z)) (m : list Z) => 1%Z in
  let zfb := fun (st : @state Z) (c : ctx) (h : list (list Z)) (m : list Z) => Nat.eqb (snd c) 1 in
  (let '(st, k, i) := cp_apr_rows 0%Z 1%Z Z.add Z.mul (fun t a => a) Z.abs Z.min Z.max (Z.ltb 0) Z.ltb Z.leb (Z.eqb 0) (fun x => x / 100)%Z
                        1%Z 1%Z 3 true false zgrad zdir zphi zalpha zfb X K 4 in (sw st, sA st, k, i, sconv st)) =
    ([64; 64]%Z, [[[2; 2]; [0; 0]; [2; 2]]; [[2; 2]; [2; 2]]]%Z, [30; 6; 2; 6]%Z, [8; 4; 8; 8], false).
Proof. vm_compute. reflexivity. Qed.
