(* Alg/C13Gen.v — the failed-epoch count stated over the GENERATED skeleton of StochasticSolver.solve (Gen/GenSolver.v, regenerated
   from /repo on every run; bridge: Proofs/W4SSolver.v by w4-skel).  Wave 5, builder w5-C13. *)
From Coq Require Import String List Arith Bool.
From PV Require Import Model.W4SPrelude Gen.GenSolver Alg.C13Solver Alg.C13Solver2 Proofs.W4SSolver.
Import ListNotations.
Local Open Scope nat_scope.

Section GenFails.
Variables T_W T_M T_E T_Data T_FH T_LB T_Sampler T_Subs T_Vals T_Wgts T_G T_FM T_Step T_Crng : Type.
Variable c_leE : T_E -> T_E -> bool.
Hypothesis leE_total : forall a b, c_leE a b = true \/ c_leE b a = true.
Hypothesis leE_trans : forall a b c, c_leE a b = true -> c_leE b c = true -> c_leE a c = true.
Variable c_zeroE : T_E.
Variable c_zeroStep : T_Step.
Variable k_GCPSampler : T_Data -> T_Sampler.
Variable k_function_sample : T_W -> T_Sampler -> T_Data -> T_W * (T_Subs * T_Vals * T_Wgts).
Variable k_estimate_f : T_M -> T_Subs -> T_Vals -> T_Wgts -> T_FH -> bool -> T_E.
Variable k_reset_state : T_W -> T_W.
Variable k_gradient_sample : T_W -> T_Sampler -> T_Data -> T_W * (T_Subs * T_Vals * T_Wgts).
Variable k_crng : T_Sampler -> T_Crng.
Variable k_estimate_g : T_W -> T_M -> T_Subs -> T_Vals -> T_Wgts -> option T_FH -> T_Crng -> T_FH -> bool -> T_W * T_G.
Variable k_any_inf : T_G -> bool.
Variable k_update_step : T_W -> nat -> T_M -> T_G -> T_LB -> T_W * (T_FM * T_Step).
Variable k_set_factor_matrices : T_M -> T_FM -> T_M.
Variable k_set_failed_epoch : T_W -> T_W.

Notation gsolve := (GenSolver.solve T_W T_M T_E T_Data T_FH T_LB T_Sampler T_Subs T_Vals T_Wgts T_G T_FM T_Step T_Crng
  c_leE c_zeroE c_zeroStep k_GCPSampler k_function_sample k_estimate_f k_reset_state k_gradient_sample k_crng k_estimate_g k_any_inf
  k_update_step k_set_factor_matrices k_set_failed_epoch).

(* self._nfails when the generated solve returns = the number of entries of the reported trace info["f_est_trace"] that exceed the
   smallest entry before them (the test's reference is the best value so far, not the previous entry); the returned model's
   estimate is the minimum the last test referred to *)
Lemma gen_nfails_vs_best : forall w0 max_iters epoch_iters max_fails tol printitn m0 data fh gh lb smp model ftrace strace nep nf bestm w,
  gsolve w0 max_iters epoch_iters max_fails tol printitn m0 data fh gh lb smp = Some (model, (ftrace, strace, nep), nf, bestm, w) ->
  exists f0 rest, ftrace = f0 :: rest /\ nf = fails_vs_min T_E c_leE f0 rest /\
                  is_min T_E c_leE (emin T_E c_leE f0 rest) ftrace.
Proof.
  intros until w. intros H.
  pose proof (solve_bridge T_W T_M T_E T_Data T_FH T_LB T_Sampler T_Subs T_Vals T_Wgts T_G T_FM T_Step T_Crng c_leE c_zeroE c_zeroStep
    k_GCPSampler k_function_sample k_estimate_f k_reset_state k_gradient_sample k_crng k_estimate_g k_any_inf k_update_step
    k_set_factor_matrices k_set_failed_epoch _ _ _ _ _ _ _ _ _ _ _ _ _ _ _ _ _ _ _ H) as B.
  pose proof (gen_reported_trace_full T_W T_M T_E T_Data T_FH T_LB T_Sampler T_Subs T_Vals T_Wgts T_G T_FM T_Step T_Crng c_leE c_zeroE c_zeroStep
    k_GCPSampler k_function_sample k_estimate_f k_reset_state k_gradient_sample k_crng k_estimate_g k_any_inf k_update_step
    k_set_factor_matrices k_set_failed_epoch _ _ _ _ _ _ _ _ _ _ _ _ _ _ _ _ _ _ _ H) as F.
  cbv zeta in B, F.
  destruct (k_function_sample w0 (the_sampler T_Data T_Sampler k_GCPSampler data smp) data) as [w1 [[fs fv] fw]].
  destruct B as (_ & _ & Hnf & _ & _ & _). destruct F as (Hft & _).
  match type of Hnf with nf = nfails _ _ _ ?S => set (s := S) in * end.
  match type of Hft with ftrace = full_trace _ _ _ ?f _ _ => set (fest := f) in * end.
  exists (fest m0), (trace _ _ _ s). split; [exact Hft|].
  destruct (nfails_vs_best T_M T_W T_E c_leE leE_total leE_trans fest
              (h_epoch T_W T_M T_Data T_FH T_LB T_Sampler T_Subs T_Vals T_Wgts T_G T_FM T_Step T_Crng
                 k_gradient_sample k_crng k_estimate_g k_any_inf k_update_step k_set_factor_matrices data gh lb
                 (the_sampler T_Data T_Sampler k_GCPSampler data smp) epoch_iters)
              k_set_failed_epoch max_fails (Some tol) max_iters m0 (k_reset_state w1)) as (N1 & N2 & N3).
  fold s in N1, N2, N3. split; [rewrite Hnf; exact N1|]. rewrite <- N2. rewrite Hft. exact N3.
Qed.
End GenFails.
