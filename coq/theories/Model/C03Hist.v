(* Model/C03Hist.v — wave 5: histories on ONE sparse object.  S[sub] = v for a single subscript row of full width
   (pyttb.sptensor.__setitem__ -> _set_subscripts): tt_ismember_rows locates the row; an existing entry is overwritten in place
   (group A), removed when v == 0 (group B: the other rows keep their order), a new nonzero is appended (group C), a new zero
   stores nothing; the shape grows to max(dim, sub + 1) IN EVERY CASE.  The request after such an assignment must be answered
   from the tensor as it is now: spec of `hist:<op0>,<op1>` cases = element-wise specification on sp_assigns of the literal
   initial operand.  Definitions only. *)
From Coq Require Import List ZArith Bool Arith.
From PV Require Import Base.Index Np.Array Model.Sparse Model.Harness Model.C03Ops Model.C03Gen Model.C03Chk.
Import ListNotations.

Section Assign.
Context {V : Type} (isz : V -> bool).
Definition grow_shape (s : shape) (sub : idx) : shape := zipw (fun d x => Nat.max d (S x)) s sub.
Definition es_assign (es : list (idx * V)) (sub : idx) (v : V) : list (idx * V) :=
  if mem sub (map fst es) then
    if isz v then filter (fun e => negb (idx_eqb (fst e) sub)) es
    else map (fun e => if idx_eqb (fst e) sub then (fst e, v) else e) es
  else if isz v then es else es ++ [(sub, v)].
Definition sp_assign (A : sparse V) (sub : idx) (v : V) : sparse V :=
  of_entries (grow_shape (sshape A) sub) (es_assign (entries A) sub v).
Definition sp_assigns (A : sparse V) (l : list (idx * V)) : sparse V :=
  fold_left (fun X p => sp_assign X (fst p) (snd p)) l A.
End Assign.

(* the stored lists of the object after the assignments ARE the lists of the model (stored order included) *)
Definition hist_state_ok (O A0 : sparse Z) (l : list (idx * Z)) : bool := sp_raw_eqb O (sp_assigns zisz A0 l).
