(* Props/C08f.v — C08, wave 4: the ABSORB branch of the translator-GENERATED ktensor.arrange (Gen/GenKtensor4.v, regenerated from
   /repo/pyttb/ktensor.py on every run; self.normalize() is an oracle parameter).  With Props/W4C08.v (permutation branch:
   C08_gen_arrange_perm_*, sort branch: C08_gen_arrange_sort) all three branches of arrange are stated over the generated text.
   Only statements, `exact`, Print Assumptions. *)
From Coq Require Import List ZArith Arith Bool.
From PV Require Import Base.Index Base.Perm Model.Repr Model.C08Kruskal Np.NpZ Np.NpZ2 Np.NpZ3 Np.NpZ3c Np.NpZ3d Np.NpZ3e Np.NpZ4
  Model.W4Ktensor Gen.GenKtensor4 Proofs.C08Gen2.
Import ListNotations.
Local Open Scope Z_scope.

(* arrange(weight_factor=n) as generated: if it answers, normalize answered k1, n addresses a factor (a negative n wraps like a
   Python index), and the result is — weights and every stored entry — the hand model: k1's components re-ordered by the
   descending argsort permutation of its weights (k_gather), then the weights multiplied into factor n (k_redistribute);
   all weights are one and the denoted array is that of normalize's result.  Every ktz, any number of modes / components,
   no well-formedness hypothesis. *)
Theorem C08_gen_arrange_absorb : forall (nz : ktz -> res ktz) (self k' : ktz) (n : Z),
  ktensor_arrange nz self (Some n) IxNone = Ok k' ->
  exists k1, nz self = Ok k1 /\
    let p := nats (rev (np_argsort (kt_weights k1))) in
    let m := Z.to_nat (if n <? 0 then n + zlen (kt_factors k1) else n) in
    (m < length (kt_factors k1))%nat /\
    to_K k' = k_redistribute 1 Z.mul m (k_gather 0 p (to_K k1)) /\
    kt_weights k' = map (fun _ => 1) (kt_weights k1) /\
    forall i, den_k 0 1 Z.add Z.mul (to_K k') i = den_k 0 1 Z.add Z.mul (to_K k1) i.
Proof. exact gen_arrange_absorb. Qed.
Print Assumptions C08_gen_arrange_absorb.

(* non-vacuity: weights (2, 7, 5) sorted to (7, 5, 2) and absorbed into mode 1 / mode -1 (the same factor); mode 2 is refused *)
Example C08_example_gen_arrange_absorb :
  let k := mkkt [2; 7; 5] [[[1; 4; 7]; [2; 5; 8]]; [[3; 6; 9]]] in
  ktensor_arrange (fun k => Ok k) k (Some 1) IxNone = Ok (mkkt [1; 1; 1] [[[4; 7; 1]; [5; 8; 2]]; [[42; 45; 6]]]) /\
  ktensor_arrange (fun k => Ok k) k (Some (-1)) IxNone = Ok (mkkt [1; 1; 1] [[[4; 7; 1]; [5; 8; 2]]; [[42; 45; 6]]]) /\
  ktensor_arrange (fun k => Ok k) k (Some 2) IxNone = Err /\
  den_k 0 1 Z.add Z.mul (to_K k) [1%nat; 0%nat] = (2 * 2 * 3 + 7 * 5 * 6 + 5 * 8 * 9).
Proof. vm_compute. repeat split; reflexivity. Qed.
