(* Props/W7C01.v — tenmat.__init__ (argument checks and stored fields) as GENERATED from the pyttb source tree under test on every
   run (Gen/GenTenmat7.v, translator option "m7"): bridge to the hand reference of Model/W7Tenmat.v and laws.
   Only statements, `exact`, Print Assumptions.  Representation (Np/NpZ7.v): an array = shape + Fortran-order entries; the
   layout test `_matches_order` is a parameter `mo`; `data_isnum` = issubclass(data.dtype.type, np.number). *)
From Coq Require Import List ZArith Bool.
From PV Require Import Np.NpZ Np.NpZ2 Np.NpZ3 Np.NpZ3b Np.NpZ7 Gen.GenUtils Gen.GenUtils2 Gen.GenUtils3b Gen.GenTenmat7 Model.W7Tenmat Proofs.W7Tenmat.
Import ListNotations.
Local Open Scope Z_scope.

Theorem C01_gen_tenmat_init_bridge : forall (mo : ndz -> bool) (data : option ndz) (isnum : bool) (rdims cdims : option vec)
    (tshape : option pyshp) (copy : bool),
  tenmat_init mo data isnum rdims cdims tshape copy = H_tenmat_init data isnum rdims cdims tshape.
Proof. exact tenmat_init_bridge. Qed.
Print Assumptions C01_gen_tenmat_init_bridge.

(* neither the layout test nor the copy flag changes what is accepted or what is stored *)
Theorem C01_gen_tenmat_init_layout_indep : forall (mo mo' : ndz -> bool) (data : option ndz) (isnum : bool) (rdims cdims : option vec)
    (tshape : option pyshp) (copy copy' : bool),
  tenmat_init mo data isnum rdims cdims tshape copy = tenmat_init mo' data isnum rdims cdims tshape copy'.
Proof. exact gen_tenmat_init_layout_indep. Qed.
Print Assumptions C01_gen_tenmat_init_layout_indep.

(* an accepted non-empty input: numeric, entries kept, stored as a matrix of the same size, tshape has that many cells, the row and
   column sizes multiply to it, and rindices ++ cindices is a permutation of the modes *)
Theorem C01_gen_tenmat_init_accept : forall (mo : ndz -> bool) (d : ndz) (isnum : bool) (rdims cdims : option vec)
    (tshape : option pyshp) (copy : bool) (M : tmz),
  nd7_size d <> 0 ->
  tenmat_init mo (Some d) isnum rdims cdims tshape copy = Ok M ->
  isnum = true /\
  nd7_data (tm7_data M) = nd7_data d /\
  zlen (nd7_shape (tm7_data M)) = 2 /\
  nd7_size (tm7_data M) = nd7_size d /\
  zprod (tm7_tshape M) = nd7_size d /\
  zprod (np_take 0 (tm7_tshape M) (tm7_rindices M)) * zprod (np_take 0 (tm7_tshape M) (tm7_cindices M)) = nd7_size d /\
  np_sort (tm7_rindices M ++ tm7_cindices M) = np_arange 0 (zlen (tm7_tshape M)).
Proof. exact gen_tenmat_init_accept. Qed.
Print Assumptions C01_gen_tenmat_init_accept.

(* data = None: accepted only with empty rdims, cdims, tshape, and then the empty tenmat *)
Theorem C01_gen_tenmat_init_empty : forall (mo : ndz -> bool) (isnum : bool) (rdims cdims : option vec) (tshape : option pyshp)
    (copy : bool) (M : tmz),
  tenmat_init mo None isnum rdims cdims tshape copy = Ok M ->
  M = H_tm_empty /\ H_ovec_empty rdims = true /\ H_ovec_empty cdims = true /\ H_oshp_empty tshape = true.
Proof. exact gen_tenmat_init_empty. Qed.
Print Assumptions C01_gen_tenmat_init_empty.

Theorem C01_gen_tenmat_init_nonnumeric_rejected : forall (mo : ndz -> bool) (d : ndz) (rdims cdims : option vec)
    (tshape : option pyshp) (copy : bool),
  nd7_size d <> 0 -> tenmat_init mo (Some d) false rdims cdims tshape copy = Err.
Proof. exact gen_tenmat_init_nonnumeric_rejected. Qed.
Print Assumptions C01_gen_tenmat_init_nonnumeric_rejected.

Theorem C01_gen_tenmat_init_vector_needs_tshape : forall (mo : ndz -> bool) (n : Z) (dd : vec) (isnum : bool)
    (rdims cdims : option vec) (copy : bool),
  n <> 0 -> tenmat_init mo (Some (mk_ndz [n] dd)) isnum rdims cdims None copy = Err.
Proof. exact gen_tenmat_init_vector_needs_tshape. Qed.
Print Assumptions C01_gen_tenmat_init_vector_needs_tshape.
