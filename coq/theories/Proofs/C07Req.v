(* Proofs/C07Req.v — the request level of permute / reshape (Model/C07Req.v) over the GENERATED parse_one_d / parse_shape:
   which written forms denote which order / shape, what a successful request implies, and the index laws of
   Props/C07.v restated for requests. *)
From Coq Require Import List ZArith Arith Lia Bool.
From PV Require Import Base.Index Base.Perm Np.NpZ Np.NpZ2 Np.NpZ3 Np.NpZ3b Gen.GenUtils3b Np.Array Model.Sparse
  Model.Repr Model.C07Ops Model.C07Ops2 Model.C07Req Proofs.W3ShapeArgs Proofs.C07Index Proofs.C07Proofs.
Import ListNotations.

(* ---------------- integer vectors as mode numbers / sizes *)
Lemma nats_of_ofnat p : nats_of (map Z.of_nat p) = Some p.
Proof.
  unfold nats_of. replace (forallb _ (map Z.of_nat p)) with true.
  - rewrite map_map. f_equal. rewrite <- (map_id p) at 2. apply map_ext. intros a. apply Nat2Z.id.
  - symmetry. apply forallb_forall. intros z Hz. apply in_map_iff in Hz as (n & <- & _). apply Z.leb_le. lia.
Qed.

Lemma nats_of_some l p : nats_of l = Some p -> l = map Z.of_nat p.
Proof.
  unfold nats_of. destruct (forallb _ l) eqn:E; [|discriminate]. intros H. injection H as <-.
  rewrite map_map. rewrite <- (map_id l) at 1. apply map_ext_in. intros z Hz.
  rewrite forallb_forall in E. specialize (E z Hz). apply Z.leb_le in E. now rewrite Z2Nat.id.
Qed.

Lemma nats_of_negative l z : In z l -> (z < 0)%Z -> nats_of l = None.
Proof.
  intros Hin Hz. unfold nats_of. destruct (forallb _ l) eqn:E; [|reflexivity].
  rewrite forallb_forall in E. specialize (E z Hin). apply Z.leb_le in E. lia.
Qed.

Lemma nd_ints_fin l : nd_ints (mknd [zlen l] DInt (map NFin l)) = l.
Proof. unfold nd_ints. cbn [nd_data]. rewrite map_map. apply map_id. Qed.

Lemma key_asarray_ints l : l <> [] -> key_asarray (KList (ints l)) = mknd [zlen (ints l)] DInt (map NFin l).
Proof.
  intros Hl. unfold key_asarray. cbn [key_elems]. rewrite all_int_ints.
  destruct l as [|a l]; [congruence|]. cbn [ints map]. f_equal. unfold ints. rewrite map_map. reflexivity.
Qed.

Lemma zlen_ints l : zlen (ints l) = zlen l.
Proof. unfold zlen, ints. now rewrite map_length. Qed.

(* ---------------- which written forms denote which order (through the generated parse_one_d) *)
Theorem order_of_forms (pz : list Z) : pz <> [] ->
  order_of (SList (ints pz)) = Some pz /\ order_of (STuple (ints pz)) = Some pz /\
  (forall shp, filter (fun d => negb (d =? 1)%Z) shp = [zlen pz] -> order_of (SArr (mknd shp DInt (map NFin pz))) = Some pz).
Proof.
  intros Hp. destruct parse_one_d_spec as (_ & HL & HA & _).
  assert (E : forall x, parse_one_d x = Ok (key_asarray (KList (ints pz))) -> order_of x = Some pz).
  { intros x Hx. unfold order_of. rewrite Hx, key_asarray_ints by auto. rewrite zlen_ints.
    rewrite nd_ints_fin. reflexivity. }
  split; [apply E, HL|]. split.
  - apply E. rewrite parse_one_d_bridge. unfold H_parse_one_d. now rewrite all_int_ints.
  - intros shp Hs. unfold order_of. rewrite (HA shp DInt (map NFin pz) (zlen pz) Hs).
    rewrite nd_ints_fin. reflexivity.
Qed.

Theorem order_of_scalar_forms (k : Z) :
  order_of (SInt k) = Some [k] /\
  (forall shp, filter (fun d => negb (d =? 1)%Z) shp = [] -> order_of (SArr (mknd shp DInt [NFin k])) = Some [k]).
Proof.
  destruct parse_one_d_spec as (HI & _ & _ & H0 & _). split.
  - unfold order_of. rewrite HI. reflexivity.
  - intros shp Hs. unfold order_of. rewrite (H0 shp DInt [NFin k] Hs). reflexivity.
Qed.

Theorem order_of_rejects :
  (forall shp d, order_of (SArr (mknd shp DFloat d)) = None) /\
  (forall shp d, order_of (SArr (mknd shp DBool d)) = None) /\
  (forall shp k d x y r, filter (fun d => negb (d =? 1)%Z) shp = x :: y :: r -> order_of (SArr (mknd shp k d)) = None).
Proof.
  destruct parse_one_d_spec as (_ & _ & HA & H0 & H2).
  assert (K : forall shp k d, k <> DInt -> order_of (SArr (mknd shp k d)) = None).
  { intros shp k d Hk. unfold order_of.
    destruct (filter (fun d => negb (d =? 1)%Z) shp) as [|x [|y r]] eqn:Hs.
    - rewrite (H0 shp k d Hs). destruct k; try congruence; reflexivity.
    - rewrite (HA shp k d x Hs). destruct k; try congruence; reflexivity.
    - rewrite (H2 shp k d x y r Hs). reflexivity. }
  repeat split.
  - intros. apply K. discriminate.
  - intros. apply K. discriminate.
  - intros shp k d x y r Hs. unfold order_of. now rewrite (H2 shp k d x y r Hs).
Qed.

(* ---------------- what a request that succeeds has said; a request that denotes p runs the operation on p *)
Theorem with_order_sound {X} (f : list nat -> option X) x R :
  with_order f x = Some R -> exists p, order_of x = Some (map Z.of_nat p) /\ f p = Some R.
Proof.
  unfold with_order, with_order_z. destruct (order_of x) as [pz|]; [|discriminate].
  destruct (nats_of pz) as [p|] eqn:E; [|discriminate]. intros H. exists p. split; [|exact H].
  now rewrite (nats_of_some _ _ E).
Qed.

Theorem with_order_complete {X} (f : list nat -> option X) x p :
  order_of x = Some (map Z.of_nat p) -> with_order f x = f p.
Proof. intros H. unfold with_order, with_order_z. now rewrite H, nats_of_ofnat. Qed.

Theorem with_order_negative {X} (f : list nat -> option X) x pz z :
  order_of x = Some pz -> In z pz -> (z < 0)%Z -> with_order f x = None.
Proof. intros H Hin Hz. unfold with_order, with_order_z. now rewrite H, (nats_of_negative pz z Hin Hz). Qed.

Theorem with_shape_sound {X} (f : list nat -> option X) x R :
  with_shape f x = Some R -> exists s, parse_shape x = Ok (map Z.of_nat s) /\ f s = Some R.
Proof.
  unfold with_shape, shape_of. destruct (parse_shape x) as [l|]; [|discriminate].
  destruct l as [|z l]; [discriminate|].
  destruct (nats_of (z :: l)) as [s|] eqn:E; [|discriminate]. intros H. exists s. split; [|exact H].
  now rewrite (nats_of_some _ _ E).
Qed.

Theorem with_shape_forms {X} (f : list nat -> option X) (s : list nat) : s <> [] ->
  with_shape f (STuple (ints (map Z.of_nat s))) = f s /\ with_shape f (SList (ints (map Z.of_nat s))) = f s /\
  (forall shp, filter (fun d => negb (d =? 1)%Z) shp = [zlen (map Z.of_nat s)] ->
     with_shape f (SArr (mknd shp DInt (map NFin (map Z.of_nat s)))) = f s) /\
  (forall n, with_shape f (SInt (Z.of_nat n)) = f [n]) /\
  (forall shp d, with_shape f (SArr (mknd shp DFloat d)) = None) /\
  (forall z l, In z l -> (z < 0)%Z -> with_shape f (STuple (ints l)) = None /\ with_shape f (SList (ints l)) = None).
Proof.
  intros Hne.
  destruct (parse_shape_ints (map Z.of_nat s)) as [HT HL]. destruct parse_shape_rejects as (HF & _).
  unfold with_shape, shape_of.
  assert (K : forall l : list Z, l <> [] -> match l with [] => None | _ => nats_of l end = nats_of l) by (intros [|? ?]; congruence).
  assert (Hm : map Z.of_nat s <> []) by (destruct s; [congruence|discriminate]).
  split; [now rewrite HT, (K _ Hm), nats_of_ofnat|]. split; [now rewrite HL, (K _ Hm), nats_of_ofnat|].
  split; [intros shp Hs; rewrite (parse_shape_array shp (map Z.of_nat s) _ Hs); now rewrite (K _ Hm), nats_of_ofnat|].
  split; [intros n; rewrite parse_shape_int; change [Z.of_nat n] with (map Z.of_nat [n]); now rewrite nats_of_ofnat|].
  split; [intros shp d; now rewrite HF|].
  intros z l Hin Hz. destruct (parse_shape_ints l) as [HT' HL'].
  assert (Hl : l <> []) by (destruct l; [destruct Hin|discriminate]).
  split; [now rewrite HT', (K _ Hl), (nats_of_negative l z)|now rewrite HL', (K _ Hl), (nats_of_negative l z)].
Qed.

(* ---------------- dense permute as a request *)
Section Dense.
Context {V : Type} (v0 : V).

Lemma all_ones_one p : length p = 1 -> forallb (Nat.eqb 1) p = true -> p = [1].
Proof.
  destruct p as [|a [|b p]]; cbn [length forallb]; try discriminate. intros _ H. apply andb_true_iff in H as [H _].
  apply Nat.eqb_eq in H. now subst.
Qed.

(* a dense permute request that returns a tensor was a permutation of the modes and the result is the transposed
   array — or it was order [1] on a one-mode tensor (kept shortcut of tensor.permute; A-28 residue, reported under C19) *)
Theorem permute_d_req_sound (T : dense V) x R : wf_dense T -> permute_d_req v0 T x = Some R ->
  exists p, order_of x = Some (map Z.of_nat p) /\
    ((is_perm p (length (dshape T)) /\ R = np_transpose v0 T p) \/ (length (dshape T) = 1 /\ p = [1] /\ R = T)).
Proof.
  intros W H. apply with_order_sound in H as (p & Hx & Hp). exists p. split; [exact Hx|].
  unfold permute_d in Hp. destruct (Nat.eqb_spec (length p) (length (dshape T))) as [HL|]; [|discriminate].
  cbn [negb] in Hp. destruct (Nat.eqb_spec (length p) 0) as [H0|H0].
  - injection Hp as <-. left. assert (p = []) as -> by now apply length_zero_iff_nil.
    assert (Hs : dshape T = []) by (apply length_zero_iff_nil; lia). rewrite Hs. split.
    + apply is_permb_spec. reflexivity.
    + symmetry. now apply np_transpose_nil.
  - destruct (Nat.eqb (length (dshape T)) 1 && forallb (Nat.eqb 1) p) eqn:Ha.
    + injection Hp as <-. apply andb_true_iff in Ha as [H1 Ha]. apply Nat.eqb_eq in H1. right.
      split; [exact H1|]. split; [|reflexivity]. apply all_ones_one; [lia|exact Ha].
    + destruct (is_permb p (length (dshape T))) eqn:Hb; [|discriminate]. injection Hp as <-. left.
      split; [now apply is_permb_spec|reflexivity].
Qed.

(* the index law for the request: any written form that denotes a permutation p *)
Theorem permute_d_req_correct (T : dense V) x p : wf_dense T -> is_perm p (length (dshape T)) ->
  order_of x = Some (map Z.of_nat p) ->
  exists R, permute_d_req v0 T x = Some R /\ wf_dense R /\ dshape R = pick 0 p (dshape T) /\
    (forall i, length i = length (dshape T) -> den_dense v0 R i = den_dense v0 T (pick 0 (invperm p) i)).
Proof.
  intros W Hp Hx. destruct (permute_dense_correct v0 T p W Hp) as (R & E & WR & Hs & Hd & _).
  exists R. unfold permute_d_req. rewrite (with_order_complete _ x p Hx). auto.
Qed.

Theorem reshape_d_req_correct (T : dense V) x s' : wf_dense T -> size s' = size (dshape T) -> s' <> [] ->
  parse_shape x = Ok (map Z.of_nat s') ->
  exists R, reshape_d_req v0 T x = Some R /\ dshape R = s' /\ ddata R = ddata T /\
    (forall i, inb s' i = true -> den_dense v0 R i = den_dense v0 T (ind2sub (dshape T) (sub2ind s' i))).
Proof.
  intros W Hs Hne Hx. destruct (reshape_dense_correct v0 T s' W Hs) as (R & E & _ & H1 & H2 & H3 & _).
  exists R. unfold reshape_d_req, with_shape, shape_of. rewrite Hx.
  replace (match map Z.of_nat s' with [] => None | _ => nats_of (map Z.of_nat s') end) with (nats_of (map Z.of_nat s'))
    by (destruct s'; [congruence|reflexivity]).
  rewrite nats_of_ofnat. auto.
Qed.

End Dense.

(* ---------------- the other holders: a request that succeeds was a permutation of the modes *)
Section Holders.
Context {V : Type} (v0 : V).

Theorem permute_req_holders_sound (S : sparse V) (K : ktensor V) (T : ttensor V) (Ts : sttensor V) x :
  (forall R, permute_sp_req S x = Some R ->
     exists p, order_of x = Some (map Z.of_nat p) /\ is_perm p (length (sshape S)) /\ permute_sp S p = Some R) /\
  (forall R, permute_k_req K x = Some R ->
     exists p, order_of x = Some (map Z.of_nat p) /\ is_perm p (length (kfactors K)) /\ permute_k K p = Some R) /\
  (forall R, permute_t_req v0 T x = Some R ->
     exists p, order_of x = Some (map Z.of_nat p) /\ is_perm p (length (tfactors T)) /\ permute_t v0 T p = Some R) /\
  (forall R, permute_st_req Ts x = Some R ->
     exists p, order_of x = Some (map Z.of_nat p) /\ is_perm p (length (stfactors Ts)) /\ permute_st Ts p = Some R).
Proof.
  repeat split; intros R H; apply with_order_sound in H as (p & Hx & Hp); exists p; (split; [exact Hx|]); (split; [|exact Hp]).
  - unfold permute_sp in Hp. destruct (is_permb p (length (sshape S))) eqn:E; [|discriminate]. now apply is_permb_spec.
  - unfold permute_k in Hp. destruct (is_permb p (length (kfactors K))) eqn:E; [|discriminate]. now apply is_permb_spec.
  - unfold permute_t in Hp. destruct (is_permb p (length (tfactors T))) eqn:E; [|discriminate]. now apply is_permb_spec.
  - unfold permute_st in Hp. destruct (is_permb p (length (stfactors Ts))) eqn:E; [|discriminate]. now apply is_permb_spec.
Qed.

(* sparse subset reshape: a mode number that is negative or >= N is refused by the specification *)
Theorem reshape_sp_req_modes (S : sparse V) x oldz R :
  reshape_sp_req S x oldz = Some R ->
  exists old s', oldz = map Z.of_nat old /\ Forall (fun k => k < length (sshape S)) old /\
    parse_shape x = Ok (map Z.of_nat s') /\ reshape_sp S s' old = Some R.
Proof.
  unfold reshape_sp_req. destruct (nats_of oldz) as [old|] eqn:E; [|discriminate].
  destruct (forallb _ old) eqn:F; [|discriminate]. intros H.
  apply with_shape_sound in H as (s' & Hs & HR). exists old, s'. split; [now apply nats_of_some|].
  split; [|auto]. apply Forall_forall. intros k Hk. rewrite forallb_forall in F. now apply Nat.ltb_lt, F.
Qed.

End Holders.
