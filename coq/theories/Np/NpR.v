(* Np/NpR.v — real-valued primitives the translator maps numpy calls to (handles.py):
   np.log -> ln, np.exp -> exp, np.abs -> Rabs, np.sign -> sgnR, x < y -> Rltb, bool*real -> bsel,
   x ** y (non-literal exponent) -> rpow. *)
From Coq Require Import Reals Lra.
Local Open Scope R_scope.

Definition Rltb (x y : R) : bool := if Rlt_dec x y then true else false.
Definition bsel (b : bool) (x : R) : R := if b then x else 0.
Definition sgnR (x : R) : R := if Rlt_dec 0 x then 1 else if Rlt_dec x 0 then -1 else 0.
(* numpy's x ** y for a positive base *)
Definition rpow (a b : R) : R := exp (b * ln a).

Lemma Rltb_true x y : Rltb x y = true <-> x < y.
Proof. unfold Rltb. destruct (Rlt_dec x y); split; auto; discriminate. Qed.
Lemma Rltb_false x y : Rltb x y = false <-> ~ x < y.
Proof. unfold Rltb. destruct (Rlt_dec x y); split; auto; try discriminate; contradiction. Qed.
