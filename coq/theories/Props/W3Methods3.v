(* Props/W3Methods3.v — ktensor.redistribute translated with `self` as a record parameter that is updated and returned
   (Gen/GenMethods3.v, regenerated from /repo/pyttb/ktensor.py at run time).  Only statements, `exact`, Print Assumptions. *)
From Coq Require Import List ZArith Bool.
From PV Require Import Np.NpZ Np.NpZ2 Np.NpZ3 Np.NpZ3e Gen.GenMethods3 Proofs.W3Methods3.
Import ListNotations.
Local Open Scope Z_scope.

(* the primitive that the generated get_mttkrp_factors calls for U.redistribute(k) (C02) is the generated method: the weights
   are multiplied into the columns of factor `mode` and set to 1; a mode outside [0, ndims) is rejected (no wrapping) *)
Theorem C02_gen_redistribute_prim : forall (k : ktz) (mode : Z),
  (forall row, In row (znth [] (kt_factors k) mode) -> length row = length (kt_weights k)) ->
  ktensor_redistribute k mode = if kt_redistribute_ok k mode then Ok (kt_redistribute k mode) else Err.
Proof. exact redistribute_prim. Qed.
Print Assumptions C02_gen_redistribute_prim.

Example C02_gen_redistribute_example :
  ktensor_redistribute (mkkt [2; 3] [[[1; 1]; [2; 0]]; [[1; 2]]]) 0 = Ok (mkkt [1; 1] [[[2; 3]; [4; 0]]; [[1; 2]]]) /\
  ktensor_redistribute (mkkt [2; 3] [[[1; 1]; [2; 0]]; [[1; 2]]]) 2 = Err /\
  ktensor_redistribute (mkkt [2; 3] [[[1; 1]; [2; 0]]; [[1; 2]]]) (-1) = Err.
Proof. repeat split; reflexivity. Qed.
