(* Proofs/C04Mat.v — tenmat / sptenmat entry access as instances of the C04 refinement theorems (2-way state, fixed shape). *)
From Coq Require Import List Arith Bool Lia ZArith.
From PV Require Import Base.Index Np.Array Model.Sparse Model.C04Model Model.C04Mat
  Proofs.C04Dense Proofs.C04Sparse Proofs.C04History Proofs.C04Region.
Import ListNotations.

Lemma shape_eqb_true a b : shape_eqb a b = true <-> a = b.
Proof.
  revert b. induction a as [|x a IH]; destruct b as [|y b]; cbn; split; intro H; try reflexivity; try discriminate.
  - apply andb_true_iff in H. destruct H as [H1 H2]. apply Nat.eqb_eq in H1. apply IH in H2. subst. reflexivity.
  - inversion H; subst. rewrite Nat.eqb_refl. cbn. apply IH. reflexivity.
Qed.

Section P.
Context {V : Type} (v0 : V) (isz : V -> bool).
Hypothesis isz_spec : forall v, isz v = true <-> v = v0.

(* tenmat: for EVERY matrix state and EVERY operation (all key forms, all right-hand sides) the model step and the
   fixed-shape specification accept / reject together, return the same value, the new matrix denotes the new abstract
   array, and its shape is the old one *)
Theorem tenmat_refine (T : dense V) (o : op V) : is_2way (dshape T) = true ->
  match fixed_step_dense_g v0 T o, spec_fixed_step v0 (abs_dense v0 T) o with
  | Some (T', out), Some (a', out') =>
      eq_amap (abs_dense v0 T') a' /\ out = out' /\ dshape T' = dshape T /\ (wf_dense T -> wf_dense T')
  | None, None => True
  | _, _ => False
  end.
Proof.
  intro H2. unfold fixed_step_dense_g, spec_fixed_step. rewrite H2.
  pose proof (refine_dense v0 T o) as R.
  destruct (step_dense v0 T o) as [[T1 out]|]; destruct (spec_step v0 (abs_dense v0 T) o) as [[a1 out1]|]; try contradiction; [|exact I].
  destruct R as ((Hs & Hf) & Ho & Hw). cbn [abs_dense ashape] in *.
  rewrite <- Hs.
  destruct (shape_eqb (dshape T1) (dshape T)) eqn:E; [|exact I].
  apply shape_eqb_true in E. repeat split; auto.
Qed.

Lemma spec_fixed_congr (a b : amap V) o : eq_amap a b ->
  match spec_fixed_step v0 a o, spec_fixed_step v0 b o with
  | Some (a1, o1), Some (b1, o2) => eq_amap a1 b1 /\ o1 = o2
  | None, None => True
  | _, _ => False end.
Proof.
  intro Hab. unfold spec_fixed_step. pose proof (spec_step_congr v0 _ _ o Hab) as C.
  destruct (spec_step v0 a o) as [[a1 o1]|]; destruct (spec_step v0 b o) as [[b1 o2]|]; try contradiction; [|exact I].
  destruct C as [C1 C2]. destruct Hab as [Hs _]. destruct C1 as [C1s C1f].
  rewrite <- Hs, <- C1s.
  destruct (shape_eqb (ashape a1) (ashape a)); [|exact I]. split; [split; assumption|exact C2].
Qed.

(* the same over a history: runs of the model and of the fixed-shape specification agree *)
Theorem tenmat_history ops : forall (T : dense V) (a : amap V), is_2way (dshape T) = true -> eq_amap (abs_dense v0 T) a ->
  match run (fixed_step_dense_g v0) T ops, run (spec_fixed_step v0) a ops with
  | Some (T', outs), Some (a', outs') => eq_amap (abs_dense v0 T') a' /\ outs = outs' /\ dshape T' = dshape T
  | None, None => True
  | _, _ => False
  end.
Proof.
  induction ops as [|o ops IH]; intros T a H2 Ha; cbn [run].
  - repeat split; apply Ha.
  - pose proof (tenmat_refine T o H2) as R.
    pose proof (spec_fixed_congr _ _ o Ha) as C.
    destruct (fixed_step_dense_g v0 T o) as [[T1 out]|];
      destruct (spec_fixed_step v0 (abs_dense v0 T) o) as [[b1 outb]|]; try contradiction;
      destruct (spec_fixed_step v0 a o) as [[a1 outa]|]; try contradiction; [|exact I].
    destruct C as [C1 C2]. subst outa. destruct R as (Hq & Ho & Hsh & _). subst outb.
    assert (H2' : is_2way (dshape T1) = true) by (rewrite Hsh; exact H2).
    assert (Hq' : eq_amap (abs_dense v0 T1) a1) by (eapply eq_amap_trans; [exact Hq|exact C1]).
    specialize (IH T1 a1 H2' Hq').
    destruct (run (fixed_step_dense_g v0) T1 ops) as [[T2 outs]|];
      destruct (run (spec_fixed_step v0) a1 ops) as [[a2 outs2]|]; try contradiction; [|exact I].
    destruct IH as (I1 & I2 & I3). split; [exact I1|]. split; [f_equal; exact I2|]. rewrite I3. exact Hsh.
Qed.

(* sptenmat, soundness: from every well-formed state (any stored order) a step of the model is a step of the fixed-shape
   specification with the same output; the new state denotes the new array, is well-formed and has the old shape *)
Theorem sptenmat_refine (S : sparse V) (o : op V) S' out :
  wf_sp isz S -> fixed_step_sparse_g v0 isz S o = Some (S', out) ->
  exists a', spec_fixed_step v0 (abs_sp v0 S) o = Some (a', out) /\ eq_amap (abs_sp v0 S') a' /\ wf_sp isz S' /\
             sshape S' = sshape S /\ is_2way (sshape S') = true.
Proof.
  intros W H. unfold fixed_step_sparse_g in H.
  destruct (is_2way (sshape S)) eqn:H2; [|discriminate].
  destruct (step_sparse v0 isz S o) as [[S1 out1]|] eqn:E; [|discriminate].
  destruct (shape_eqb (sshape S1) (sshape S)) eqn:Es; [|discriminate]. inversion H; subst S1 out1; clear H.
  apply shape_eqb_true in Es.
  destruct (refine_sparse v0 isz isz_spec S o S' out W E) as (a' & Hs & Hq & W').
  exists a'. unfold spec_fixed_step. rewrite Hs.
  destruct Hq as [Hq1 Hq2]. cbn [abs_sp ashape] in *. rewrite <- Hq1, Es.
  replace (shape_eqb (sshape S) (sshape S)) with true by (symmetry; apply shape_eqb_true; reflexivity).
  split; [reflexivity|]. split; [split; [exact Hq1|exact Hq2]|]. split; [exact W'|]. split; [reflexivity|exact H2].
Qed.

(* sptenmat, totality: whenever the fixed-shape specification accepts an assignment sptenmat offers (region keys whose
   index lists do not repeat an index; subscript arrays), so does the model — no dynamic side check is left *)
Theorem sptenmat_refine_total (S : sparse V) (o : op V) a' out :
  wf_sp isz S -> is_2way (sshape S) = true -> sparse_op_ok o ->
  spec_fixed_step v0 (abs_sp v0 S) o = Some (a', out) ->
  exists S', fixed_step_sparse_g v0 isz S o = Some (S', out) /\ eq_amap (abs_sp v0 S') a' /\ wf_sp isz S' /\
             sshape S' = sshape S.
Proof.
  intros W H2 Hok H. unfold spec_fixed_step in H.
  destruct (spec_step v0 (abs_sp v0 S) o) as [[a1 out1]|] eqn:E; [|discriminate].
  destruct (shape_eqb (ashape a1) (ashape (abs_sp v0 S))) eqn:Es; [|discriminate]. inversion H; subst a1 out1; clear H.
  apply shape_eqb_true in Es. cbn [abs_sp ashape] in Es.
  destruct (refine_sparse_total v0 isz isz_spec S o a' out W Hok E) as (S' & Hs & Hq & W').
  exists S'. unfold fixed_step_sparse_g. rewrite H2, Hs.
  destruct Hq as [Hq1 Hq2]. cbn [abs_sp ashape] in Hq1.
  assert (Hsh : sshape S' = sshape S) by congruence.
  rewrite Hsh. replace (shape_eqb (sshape S) (sshape S)) with true by (symmetry; apply shape_eqb_true; reflexivity).
  split; [reflexivity|]. split; [split; [exact Hq1|exact Hq2]|]. split; [exact W'|reflexivity].
Qed.

(* over a history of assignments *)
Theorem sptenmat_history_total ops : forall (S : sparse V) a a' outs,
  wf_sp isz S -> is_2way (sshape S) = true -> eq_amap (abs_sp v0 S) a -> Forall sparse_op_ok ops ->
  run (spec_fixed_step v0) a ops = Some (a', outs) ->
  exists S', run (fixed_step_sparse_g v0 isz) S ops = Some (S', outs) /\ eq_amap (abs_sp v0 S') a' /\ wf_sp isz S' /\
             sshape S' = sshape S.
Proof.
  induction ops as [|o ops IH]; intros S a a' outs W H2 Ha Hok H; cbn [run] in *.
  - inversion H; subst. exists S. split; [reflexivity|]. split; [exact Ha|]. split; [exact W|reflexivity].
  - inversion Hok as [|? ? Ho Hops]; subst.
    destruct (spec_fixed_step v0 a o) as [[a1 out1]|] eqn:E1; [|discriminate].
    destruct (run (spec_fixed_step v0) a1 ops) as [[a2 outs2]|] eqn:E2; [|discriminate]. inversion H; subst a2 outs; clear H.
    assert (E1' : exists b1, spec_fixed_step v0 (abs_sp v0 S) o = Some (b1, out1) /\ eq_amap b1 a1).
    { pose proof (spec_fixed_congr _ _ o Ha) as C. rewrite E1 in C.
      destruct (spec_fixed_step v0 (abs_sp v0 S) o) as [[b1 outb]|]; [|contradiction].
      destruct C as [C1 C2]. subst outb. exists b1. split; [reflexivity|exact C1]. }
    destruct E1' as (b1 & Eb & Hb).
    destruct (sptenmat_refine_total S o b1 out1 W H2 Ho Eb) as (S1 & Hs1 & Hq1 & W1 & Hsh1).
    rewrite Hs1.
    assert (H21 : is_2way (sshape S1) = true) by (rewrite Hsh1; exact H2).
    assert (Hq1' : eq_amap (abs_sp v0 S1) a1) by (eapply eq_amap_trans; [exact Hq1|exact Hb]).
    destruct (IH S1 a1 a' outs2 W1 H21 Hq1' Hops E2) as (S2 & Hr & Hq2 & W2 & Hsh2).
    rewrite Hr. exists S2. split; [reflexivity|]. split; [exact Hq2|]. split; [exact W2|congruence].
Qed.

End P.
