(* Props/C07w3.v — third wave: sparse reshape stated over the GENERATED tt_sub2ind / tt_ind2sub (Gen/GenUtils.v), multi-step
   laws (permute ; permute, reshape ; squeeze) and the formal refutation of surjectivity for a repeated mode.
   Only statements, `exact`, Print Assumptions.  Conventions as in Props/C07.v. *)
From Coq Require Import List Arith Bool ZArith.
From PV Require Import Base.Index Base.Perm Base.Sum Np.Array Np.NpZ Proofs.NpZProofs Gen.GenUtils Model.Sparse Model.Repr
  Model.C07Ops Model.C07Ops2 Model.C07Gen Proofs.C07Proofs Proofs.C07Reshape Proofs.C07Gen Proofs.C07Compose.
Import ListNotations.

Section C07w3.
Variable V : Type.
Variables (v0 : V) (isz : V -> bool).

(* sptensor.reshape transliterated over the generated helpers (reshape_sp_gen: size check, `subs.size == 0` branch,
   tt_sub2ind on subs[:, old_modes], tt_ind2sub on the linear indices, concatenate with the kept columns) returns exactly
   the result of the hand model on every well-shaped coordinate list (old_modes non-empty and in range, repeats allowed) *)
Theorem C07_reshape_sparse_generated_bridge : forall (S : sparse V) s' old,
  old <> [] -> Forall (fun k => k < length (sshape S)) old ->
  Forall (fun j => inb (sshape S) j = true) (ssubs S) -> length (svals S) = length (ssubs S) ->
  res_opt (reshape_sp_gen S s' old) = reshape_sp S s' old.
Proof. exact (@reshape_sp_gen_bridge V). Qed.

(* ... hence the index law of the subset reshape holds for the code path through the generated tt_sub2ind / tt_ind2sub:
   the request is accepted, result modes = kept ++ new, values and nnz untouched, the entry at i moves to
   reshape_row i = i[keep] ++ ind2sub(new, sub2ind(shape[old], i[old])), the result denotes the source read through the
   explicit inverse map (v0 outside the shape), and the two maps are mutually inverse on the index sets *)
Theorem C07_reshape_sparse_generated : forall (S : sparse V) s' old,
  old <> [] -> Forall (fun k => k < length (sshape S)) old -> NoDup old -> size s' = size (pick 0 old (sshape S)) ->
  Forall (fun j => inb (sshape S) j = true) (ssubs S) -> length (svals S) = length (ssubs S) ->
  let s := sshape S in
  let keep := keep_modes (length s) old in
  exists R, reshape_sp_gen S s' old = Ok R /\ sshape R = pick 0 keep s ++ s' /\ svals R = svals S /\ nnz R = nnz S /\
    (forall i, inb s i = true -> inb (sshape R) (reshape_row s s' old i) = true /\
                                 den_sp v0 R (reshape_row s s' old i) = den_sp v0 S i) /\
    (forall j, den_sp v0 R j = if inb (sshape R) j then den_sp v0 S (unreshape_row s s' old j) else v0) /\
    (forall i, inb s i = true -> unreshape_row s s' old (reshape_row s s' old i) = i) /\
    (forall j, inb (sshape R) j = true -> reshape_row s s' old (unreshape_row s s' old j) = j).
Proof. exact (reshape_sp_gen_correct v0 isz). Qed.

(* with a REPEATED mode the forward map stays injective but is not onto: shape [2], old_modes [0;0], new shape [4] *)
Theorem C07_reshape_sparse_repeated_not_onto :
  let s := [2] in let old := [0; 0] in let s' := [4] in
  Forall (fun k => k < length s) old /\ size s' = size (pick 0 old s) /\ ~ NoDup old /\
  inb (pick 0 (keep_modes (length s) old) s ++ s') [1] = true /\
  (forall i, inb s i = true -> reshape_row s s' old i <> [1]) /\
  (forall i j, inb s i = true -> inb s j = true -> reshape_row s s' old i = reshape_row s s' old j -> i = j).
Proof. exact reshape_repeated_not_onto. Qed.

(* permute p ; permute q = permute (p[q]) — the identical object, on every holder *)
Theorem C07_permute_compose_dense : forall (T : dense V) p q,
  wf_dense T -> is_perm p (length (dshape T)) -> is_perm q (length (dshape T)) ->
  exists R1, permute_d v0 T p = Some R1 /\ is_perm (pick 0 q p) (length (dshape T)) /\
    permute_d v0 R1 q = permute_d v0 T (pick 0 q p).
Proof. exact (permute_dense_compose v0). Qed.

Theorem C07_permute_compose_sparse : forall (S : sparse V) p q,
  is_perm p (length (sshape S)) -> is_perm q (length (sshape S)) ->
  exists R1, permute_sp S p = Some R1 /\ is_perm (pick 0 q p) (length (sshape S)) /\
    permute_sp R1 q = permute_sp S (pick 0 q p).
Proof. exact (@permute_sparse_compose V). Qed.

Theorem C07_permute_compose_kruskal : forall (K : ktensor V) p q,
  is_perm p (length (kfactors K)) -> is_perm q (length (kfactors K)) ->
  exists R1, permute_k K p = Some R1 /\ permute_k R1 q = permute_k K (pick 0 q p).
Proof. exact (@permute_kruskal_compose V). Qed.

Theorem C07_permute_compose_tucker : forall (T : ttensor V) p q,
  wf_dense (tcore T) -> length (dshape (tcore T)) = length (tfactors T) ->
  is_perm p (length (tfactors T)) -> is_perm q (length (tfactors T)) ->
  exists R1, permute_t v0 T p = Some R1 /\ permute_t v0 R1 q = permute_t v0 T (pick 0 q p).
Proof. exact (permute_tucker_compose v0). Qed.

Theorem C07_permute_compose_tucker_sparse_core : forall (T : sttensor V) p q,
  length (sshape (stcore T)) = length (stfactors T) ->
  is_perm p (length (stfactors T)) -> is_perm q (length (stfactors T)) ->
  exists R1, permute_st T p = Some R1 /\ permute_st R1 q = permute_st T (pick 0 q p).
Proof. exact (@permute_stucker_compose V). Qed.

(* reshape (e.g. with inserted singleton modes) ; squeeze = reshape to the non-singleton sizes (a scalar when none is left) *)
Theorem C07_squeeze_after_reshape_dense : forall (T : dense V) s1,
  wf_dense T -> size s1 = size (dshape T) -> forallb (Nat.ltb 0) s1 = true ->
  exists R, reshape_d v0 T s1 = Some R /\
    match squeeze_d v0 R with
    | SqT Q => reshape_d v0 T (sqz s1 s1) = Some Q
    | SqScalar v => sqz s1 s1 = [] /\ v = nth 0 (ddata T) v0
    end.
Proof. exact (squeeze_reshape_dense v0). Qed.

Theorem C07_squeeze_after_reshape_sparse : forall (S : sparse V) s1,
  size s1 = size (sshape S) -> forallb (Nat.ltb 0) s1 = true ->
  Forall (fun j => inb (sshape S) j = true) (ssubs S) ->
  exists R, reshape_sp_all S s1 = Some R /\
    match squeeze_sp v0 R with
    | SqT Q => reshape_sp_all S (sqz s1 s1) = Some Q
    | SqScalar v => sqz s1 s1 = [] /\ v = den_sp v0 R (repeat 0 (length s1))
    end.
Proof. exact (squeeze_reshape_sparse v0). Qed.
End C07w3.

Print Assumptions C07_reshape_sparse_generated_bridge.
Print Assumptions C07_reshape_sparse_generated.
Print Assumptions C07_reshape_sparse_repeated_not_onto.
Print Assumptions C07_permute_compose_dense.
Print Assumptions C07_permute_compose_sparse.
Print Assumptions C07_permute_compose_kruskal.
Print Assumptions C07_permute_compose_tucker.
Print Assumptions C07_permute_compose_tucker_sparse_core.
Print Assumptions C07_squeeze_after_reshape_dense.
Print Assumptions C07_squeeze_after_reshape_sparse.

(* non-vacuity: the generated code path on 2x3x4 with the non-ascending mode list [2;0] *)
Example C07_example_generated :
  let S := mkSp [2; 3; 4] [[1; 2; 3]; [0; 1; 0]] [5; 7]%Z in
  reshape_sp_gen S [2; 4] [2; 0] = Ok (mkSp [3; 2; 4] [[2; 1; 3]; [1; 0; 0]] [5; 7]%Z) /\
  tt_sub2ind [4; 2]%Z [[3; 1]; [0; 0]]%Z OrdF = Ok [7; 0]%Z /\
  tt_ind2sub [2; 4]%Z [7; 0]%Z OrdF = Ok [[1; 3]; [0; 0]]%Z /\
  reshape_sp_gen S [5] [2; 0] = Err /\
  reshape_sp_gen (mkSp [2; 3; 4] [] (@nil Z)) [2; 4] [2; 0] = Ok (mkSp [3; 2; 4] [] []) /\
  reshape_sp_gen (mkSp [2] [[1]; [0]] [5; 7]%Z) [4] [0; 0] = Ok (mkSp [4] [[3]; [0]] [5; 7]%Z).
Proof. repeat split; reflexivity. Qed.

(* permute [2;0;1] then [1;2;0] on 2x3x4 = permute by [2;0;1][[1;2;0]] = [0;1;2]; and a non-trivial composite *)
Example C07_example_compose :
  let T := mkDense [2; 3; 4] (map Z.of_nat (seq 0 24)) in
  pick 0 [1; 2; 0] [2; 0; 1] = [0; 1; 2] /\ pick 0 [1; 0; 2] [2; 0; 1] = [0; 2; 1] /\
  match permute_d 0%Z T [2; 0; 1] with Some R1 => permute_d 0%Z R1 [1; 0; 2] | None => None end
    = permute_d 0%Z T [0; 2; 1] /\
  option_map (@dshape Z) (permute_d 0%Z T [0; 2; 1]) = Some [2; 4; 3] /\
  option_map (fun R => den_dense 0%Z R [1; 3; 2]) (permute_d 0%Z T [0; 2; 1]) = Some 23%Z.
Proof. repeat split; reflexivity. Qed.

Example C07_example_squeeze_after_reshape :
  let T := mkDense [2; 3] [1; 2; 3; 4; 5; 6]%Z in
  let S := mkSp [2; 3] [[1; 2]; [0; 1]] [5; 7]%Z in
  match reshape_d 0%Z T [1; 3; 1; 2] with Some R => squeeze_d 0%Z R | None => SqScalar 0%Z end
    = SqT (mkDense [3; 2] [1; 2; 3; 4; 5; 6]%Z) /\
  reshape_d 0%Z T [3; 2] = Some (mkDense [3; 2] [1; 2; 3; 4; 5; 6]%Z) /\
  match reshape_sp_all S [1; 3; 1; 2] with Some R => squeeze_sp 0%Z R | None => SqScalar 0%Z end
    = SqT (mkSp [3; 2] [[2; 1]; [2; 0]] [5; 7]%Z) /\
  reshape_sp_all S [3; 2] = Some (mkSp [3; 2] [[2; 1]; [2; 0]] [5; 7]%Z).
Proof. repeat split; reflexivity. Qed.
