#!/usr/bin/env python3
"""Run every seeded mutant (or the ones named on the command line) against its property's check plus the extra
checks in seeded/<id>/also.txt, from an isolated scratch copy of /verif (tools/seedtest.sh); record the outcome in
seeded/<id>/detection.json and (re)write seeded/<id>/meta.json."""
import json, os, re, subprocess, sys, time
ROOT = "/verif"
ids = sys.argv[1:] or sorted(os.listdir(ROOT + "/seeded"))
for sid in ids:
    d = f"{ROOT}/seeded/{sid}"
    if not os.path.isdir(d):
        continue
    prop = sid.rsplit("-", 1)[0]
    also = open(d + "/also.txt").read().split() if os.path.exists(d + "/also.txt") else []
    t0 = time.time()
    p = subprocess.run([ROOT + "/tools/seedtest.sh", d + "/patch.diff", prop] + also, capture_output=True, text=True)
    out = p.stdout + p.stderr
    det = {}
    cur = None
    for line in out.splitlines():
        m = re.match(r"=== (C\d+) with", line)
        if m:
            cur = m.group(1)
            det[cur] = {"caught": False, "violations": 0, "with_failing_input": 0, "sample": None, "ok_line": None}
        elif cur and line.startswith("VIOLATION"):
            det[cur]["caught"] = True
            det[cur]["violations"] += 1
            if "no-failing-input-found" not in line:
                det[cur]["with_failing_input"] += 1
        elif cur and line.startswith("OK property="):
            det[cur]["ok_line"] = line.strip()
        elif cur and '"oracle":' in line and det[cur]["sample"] is None:
            det[cur]["sample"] = line.strip()[:300]
    if "PATCH DOES NOT APPLY" in out:
        det = {"error": "patch does not apply to the current /repo"}
    json.dump({"ran_at": time.strftime("%Y-%m-%dT%H:%M:%SZ", time.gmtime()), "repo_head": subprocess.run("git -C /repo rev-parse --short HEAD", shell=True, capture_output=True, text=True).stdout.strip(),
               "checks": det, "wall_s": round(time.time() - t0, 1)}, open(d + "/detection.json", "w"), indent=1)
    conf = json.load(open(d + "/confirm.json")) if os.path.exists(d + "/confirm.json") else {}
    desc = open(d + "/description.md").read() if os.path.exists(d + "/description.md") else ""
    meta = {
        "id": sid, "property_broken": prop,
        "origin": "written by an independent sub-agent given only the property text and a scratch worktree of /repo (nothing from /verif)",
        "needs_to_manifest": " ".join(desc.split())[:1200],
        "ported_to_repaired_tree": os.path.exists(d + "/patch-orig-6d06ee6.diff"),
        "confirmed_by_lead": {"pinned_tests_with_patch": conf.get("tests_with_patch"), "demo_rc_unchanged_tree": conf.get("demo_rc_clean"),
                              "demo_rc_with_patch": conf.get("demo_rc_mutated"),
                              "how": "tools/confirm_seed.sh: fresh worktree, demo on clean tree, git apply, 208 doctests, demo again"},
        "what_was_run": "tools/seedtest.sh <patch> " + " ".join([prop] + also) + "  (quick tier, isolated scratch copies of /verif and /repo)",
        "detection": {k: ("caught" if v.get("caught") else "missed") for k, v in det.items() if isinstance(v, dict)},
    }
    json.dump(meta, open(d + "/meta.json", "w"), indent=1)
    print(sid, meta["detection"], flush=True)
