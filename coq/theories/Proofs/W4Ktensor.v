(* Proofs/W4Ktensor.v — bridge lemmas Gen.f = H_f for the ktensor methods of Gen/GenKtensor4.v (regenerated from
   /repo/pyttb/ktensor.py on every run) against the hand references of Model/W4Ktensor.v, and the laws stated in
   Props/W4C08.v.  Any edit of the Python that changes the generated text breaks these proofs (tie A). *)
From Coq Require Import List ZArith Arith Bool Lia Permutation.
From PV Require Import Base.Perm Np.NpZ Np.NpZ2 Np.NpZ3 Np.NpZ3c Np.NpZ3d Np.NpZ3e Np.NpZ4 Proofs.NpZProofs Model.Repr
  Model.C08Kruskal Model.W4Ktensor Proofs.W4Loops Gen.GenKtensor4.
Import ListNotations.
Local Open Scope Z_scope.

(* ---------------------------------------------------------------- list facts *)
Lemma forallb_map' {A B} (f : B -> bool) (g : A -> B) l : forallb f (map g l) = forallb (fun x => f (g x)) l.
Proof. induction l as [|x l IH]; cbn; [reflexivity|]. now rewrite IH. Qed.

Lemma map_nth_seq {A B} (F : A -> B) d l : map (fun k => F (nth k l d)) (seq 0 (length l)) = map F l.
Proof. induction l as [|x l IH]; cbn [length seq map nth]; [reflexivity|]. f_equal. rewrite <- seq_shift, map_map. exact IH. Qed.

Lemma forallb_nth_seq {A} (P : A -> bool) d l : forallb (fun k => P (nth k l d)) (seq 0 (length l)) = forallb P l.
Proof.
  induction l as [|x l IH]; cbn [length seq forallb nth]; [reflexivity|]. f_equal.
  rewrite <- seq_shift, forallb_map'. exact IH.
Qed.

Lemma map_arange_nth {A B} (F : A -> B) d (l : list A) : map (fun i => F (znth d l i)) (np_arange 0 (zlen l)) = map F l.
Proof.
  unfold zlen. rewrite w4_np_arange_0, map_map. rewrite <- (map_nth_seq F d l). apply map_ext. intros k. now rewrite znth_nat.
Qed.

Lemma forallb_ext_in' {A} (f g : A -> bool) l : (forall x, In x l -> f x = g x) -> forallb f l = forallb g l.
Proof.
  induction l as [|x l IH]; intros H; cbn; [reflexivity|]. rewrite (H x) by (left; reflexivity). f_equal.
  apply IH. intros y Hy. apply H. right. exact Hy.
Qed.

Lemma forallb_arange_nth {A} (P : A -> bool) d (l : list A) :
  forallb (fun i => idx_ok l i && P (znth d l i)) (np_arange 0 (zlen l)) = forallb P l.
Proof.
  unfold zlen. rewrite w4_np_arange_0, forallb_map'. rewrite <- (forallb_nth_seq P d l).
  apply forallb_ext_in'. intros k Hk. apply in_seq in Hk. rewrite w4_idx_ok_nat, znth_nat.
  replace (k <? length l)%nat with true by (symmetry; apply Nat.ltb_lt; lia). reflexivity.
Qed.

Lemma filter_neg_len (q : Z -> bool) (c : vec) : (zlen (filter (fun x => negb (q x)) c) >? 0) = negb (forallb q c).
Proof.
  induction c as [|x c IH]; cbn [filter forallb]; [reflexivity|].
  destruct (q x); cbn [negb andb]; [exact IH|]. unfold zlen. cbn [length]. apply Z.gtb_lt. lia.
Qed.

(* ---------------------------------------------------------------- permute *)
Theorem permute_bridge (self : ktz) (order : vec) : ktensor_permute self order = H_permute self order.
Proof.
  unfold ktensor_permute, H_permute, kt_ndims, kt_make, np_take. cbv zeta.
  destruct (zlist_eqb (np_arange 0 (zlen (kt_factors self))) (np_sort order)) eqn:E; cbn [negb]; [|reflexivity].
  apply zlist_eqb_eq in E.
  replace (forallb (fun i_2 : Z => idx_ok (kt_factors self) i_2) order) with true; [reflexivity|].
  symmetry. apply forallb_forall. intros x Hx. apply w4_idx_ok_range.
  apply (sorted_is_range_in order). - symmetry. exact E. - exact Hx.
Qed.

(* ---------------------------------------------------------------- extract *)
Lemma extract_tail (self : ktz) (c : vec) (body1 : Z -> vec -> res (bool * vec))
      (body2 : Z -> list mat -> res (bool * list mat)) :
  (forall x acc, body1 x acc = Ok (false, if negb ((0 <=? x) && (x <? zlen (kt_weights self))) then list_append acc x else acc)) ->
  (forall i acc, body2 i acc = if idx_ok (kt_factors self) i && np_cols_ok (znth [] (kt_factors self) i) c
                               then Ok (false, list_append acc (np_cols (znth [] (kt_factors self) i) c)) else Err) ->
  bind (np_for c body1 []) (fun inv =>
    if zlen inv >? 0 then Err
    else if np_take_ok (kt_weights self) c then
      bind (np_for (np_arange 0 (zlen (kt_factors self))) body2 (@nil mat)) (fun fs =>
        if kt_make_ok fs (np_take 0 (kt_weights self) c) then Ok (kt_make fs (np_take 0 (kt_weights self) c)) else Err)
    else Err) =
  if negb (forallb (fun x => (0 <=? x) && (x <? zlen (kt_weights self))) c) then Err
  else if negb (H_gather_ok self c) then Err
  else if kt_make_ok (kt_factors (H_gather self c)) (kt_weights (H_gather self c)) then Ok (H_gather self c) else Err.
Proof.
  intros H1 H2.
  rewrite (np_for_collect (fun x => negb ((0 <=? x) && (x <? zlen (kt_weights self)))) body1 c H1). cbn [bind app].
  rewrite (filter_neg_len (fun x => (0 <=? x) && (x <? zlen (kt_weights self))) c).
  destruct (forallb _ c); cbn [negb]; [|reflexivity].
  unfold H_gather_ok. destruct (np_take_ok (kt_weights self) c); cbn [andb negb]; [|reflexivity].
  rewrite (np_for_map (fun i => idx_ok (kt_factors self) i && np_cols_ok (znth [] (kt_factors self) i) c)
                      (fun i => np_cols (znth [] (kt_factors self) i) c) body2 _ H2).
  match goal with |- context [forallb ?f (np_arange 0 (zlen (kt_factors self)))] =>
    replace (forallb f (np_arange 0 (zlen (kt_factors self)))) with (forallb (fun f0 => np_cols_ok f0 c) (kt_factors self))
      by (symmetry; exact (forallb_arange_nth (fun f0 => np_cols_ok f0 c) [] (kt_factors self))) end.
  destruct (forallb (fun f => np_cols_ok f c) (kt_factors self)); cbn [negb bind app]; [|reflexivity].
  match goal with |- context [map ?f (np_arange 0 (zlen (kt_factors self)))] =>
    replace (map f (np_arange 0 (zlen (kt_factors self)))) with (map (fun f0 => np_cols f0 c) (kt_factors self))
      by (symmetry; exact (map_arange_nth (fun f0 => np_cols f0 c) [] (kt_factors self))) end.
  reflexivity.
Qed.

Theorem extract_bridge (self : ktz) (idx : pyidx) : ktensor_extract self idx = H_extract self idx.
Proof.
  unfold ktensor_extract, H_extract, kt_ncomponents, kt_ndims.
  destruct idx as [k|s|l|l|]; cbn [ix_is_none ix_is_int ix_is_list ix_is_arr orb H_components ix_len_ok ix_seq bind]; try reflexivity.
  all: cbv zeta; match goal with |- (if ?t then _ else _) = _ => destruct t; [reflexivity|] end.
  all: apply extract_tail; [ intros x acc; destruct (negb _); reflexivity
                           | intros i acc; destruct (idx_ok _ _ && _); reflexivity ].
Qed.

(* ---------------------------------------------------------------- arrange *)
Lemma gather_loop (k : ktz) (p : vec) (body : Z -> ktz -> res (bool * ktz)) :
  (forall i s, body i s = if idx_ok (kt_factors s) i && np_cols_ok (znth [] (kt_factors s) i) p
                          then Ok (false, kt_set_factor s i (np_cols (znth [] (kt_factors s) i) p)) else Err) ->
  (if np_take_ok (kt_weights k) p
   then np_for (np_arange 0 (kt_ndims (kt_set_weights k (np_take 0 (kt_weights k) p)))) body (kt_set_weights k (np_take 0 (kt_weights k) p))
   else Err) = if H_gather_ok k p then Ok (H_gather k p) else Err.
Proof.
  intros Hb. unfold H_gather_ok. destruct (np_take_ok (kt_weights k) p); cbn [andb]; [|reflexivity].
  rewrite (np_for_factors (fun f => np_cols_ok f p) (fun f => np_cols f p) body Hb). reflexivity.
Qed.

Theorem arrange_bridge (nz : ktz -> res ktz) (self : ktz) (wf : option Z) (perm : pyidx) :
  ktensor_arrange nz self wf perm = H_arrange nz self wf perm.
Proof.
  unfold ktensor_arrange, H_arrange, kt_ncomponents.
  assert (S : forall k p, (if np_take_ok (kt_weights k) p then
             let s1 := kt_set_weights k (np_take 0 (kt_weights k) p) in
             np_for (np_arange 0 (kt_ndims s1)) (fun i s =>
               if idx_ok (kt_factors s) i && np_cols_ok (znth [] (kt_factors s) i) p
               then let s4 := kt_set_factor s i (np_cols (znth [] (kt_factors s) i) p) in Ok (false, s4) else Err) s1
           else Err) = if H_gather_ok k p then Ok (H_gather k p) else Err).
  { intros k p. cbv zeta. apply gather_loop. intros i s. reflexivity. }
  destruct perm as [k|s|l|l|]; cbn [ix_is_none ix_is_int ix_is_list ix_is_arr ix_len_ok ix_len ix_seq orb andb negb].
  1,2,5: (destruct wf as [n|]; cbn [is_some andb]; try reflexivity;
          (destruct (nz self) as [k1|]; cbn [bind]; [|reflexivity]); cbv zeta;
          set (p := rev (np_argsort (kt_weights k1)));
          pose proof (S k1 p) as Sp; cbv zeta in Sp;
          (destruct (np_take_ok (kt_weights k1) p) eqn:Et;
           [ rewrite Sp | unfold H_gather_ok; rewrite Et; reflexivity ]);
          (destruct (H_gather_ok k1 p); cbn [bind]; [|reflexivity]);
          try reflexivity; unfold H_absorb;
          destruct (idx_ok _ n && _); reflexivity).
  all: (destruct (is_some wf); [reflexivity|]); (destruct (zlen l =? zlen (kt_weights self)); [|reflexivity]);
       (destruct (zlist_eqb _ _); cbn [negb]; [|reflexivity]);
       cbv zeta;
       match goal with |- context [np_for _ ?body _] =>
         assert (Hb : forall i s, body i s = if idx_ok (kt_factors s) i && np_cols_ok (znth [] (kt_factors s) i) l
                                             then Ok (false, kt_set_factor s i (np_cols (znth [] (kt_factors s) i) l)) else Err)
           by (intros i s; cbv beta; rewrite andb_true_r; reflexivity);
         pose proof (gather_loop self l body Hb) as Sp end;
       (destruct (np_take_ok (kt_weights self) l) eqn:Et;
        [ rewrite Sp | unfold H_gather_ok; rewrite Et; reflexivity ]);
       destruct (H_gather_ok self l); reflexivity.
Qed.
