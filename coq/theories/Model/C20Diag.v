(* Model/C20Diag.v — wave 5: tendiag (pyttb/tensor.py) and sptendiag (pyttb/sptensor.py) LINE BY LINE, every request
   (definitions only).  The flexible arguments go through the translator-GENERATED parse_one_d / parse_shape
   (Gen/GenUtils3b.v) and the argument checks of the aggregating constructor through the GENERATED tt_subscheck /
   tt_valscheck / tt_sizecheck (Gen/GenUtils3.v), all regenerated from /repo on every run.

     def tendiag(elements, shape=None, order="F"):            def sptendiag(elements, shape=None):
         elements = parse_one_d(elements)                          elements = parse_one_d(elements)
         N = len(elements)                                         N = len(elements)
         if shape is None:                                         if shape is None:
             constructed_shape = (N,) * N                              constructed_shape = (N,) * N
         else:                                                     else:
             shape = parse_shape(shape)                                shape = parse_shape(shape)
             constructed_shape = tuple(max(N, dim) ...)                constructed_shape = tuple(max(N, dim) ...)
         X = tenzeros(constructed_shape, order=order)              if N > 0 and len(constructed_shape) == 0:
         if N > 0:                                                     raise ValueError(...)
             subs = np.tile(np.arange(0, N)[:, None],              subs = np.tile(np.arange(0, N).transpose(),
                            (len(constructed_shape),))                            (len(constructed_shape), 1)).transpose()
             X[subs] = elements                                    return sptensor.from_aggregator(
         return X                                                      subs, elements.reshape((N, 1)), constructed_shape)

   Element values are read as exact integers (nd_ints of the parsed array); sizes are Python ints (Z).
   parse_one_d returns a 1-d array for an int, an array with at most one non-trivial axis, a flat list / tuple.  A NESTED list
   passes through it as a 2-d array (np.array(x), no check); numpy then rejects the assignment X[subs] = elements and the
   reshape((N, 1)) (ValueError) - except sptendiag with an n x 1 nested list, which is accepted.  The transliterations
   reject every 2-d `elements` (explicit line below); the n x 1 nested list of sptendiag is outside the model (not generated). *)
From Coq Require Import List Arith ZArith Bool.
From PV Require Import Np.NpZ Np.NpZ2 Np.NpZ3 Np.NpZ3b Gen.GenUtils3 Gen.GenUtils3b Model.W3Utils Proofs.W3Laws Proofs.W3ShapeArgs.
From PV Require Import Base.Index Np.Array Model.Sparse Model.Repr Model.Harness Model.C20Gen Model.C20Harness.
Import ListNotations.

(* ---- numpy pieces of the two subscript expressions ---- *)
Definition np_arange (N : nat) : list nat := seq 0 N.                                   (* np.arange(0, N) *)
(* np.tile(col[:, None], (M,)): the column repeated M times side by side - N rows of width M *)
Definition tile_column (col : list nat) (M : nat) : list idx := map (fun k => repeat k M) col.
(* np.tile(row, (M, 1)): M rows, each the whole vector (a 1-d array is its own transpose) *)
Definition tile_row (row : list nat) (M : nat) : list (list nat) := repeat row M.
(* .transpose() of a matrix with `cols` columns: row k of the result is column k *)
Definition np_transpose2 (cols : nat) (m : list (list nat)) : list (list nat) :=
  map (fun k => map (fun r => nth k r 0) m) (seq 0 cols).

(* ---- the common head: N and the constructed shape ---- *)
Definition constructed_shape (N : nat) (shape : option pyshp) : res (list Z) :=
  match shape with
  | None => Ok (repeat (Z.of_nat N) N)                                       (* (N,) * N *)
  | Some sh => bind (parse_shape sh) (fun s =>                               (* shape = parse_shape(shape) *)
               Ok (map (Z.max (Z.of_nat N)) s))                              (* tuple(max(N, dim) for dim in shape) *)
  end.

Definition res_of {A} (o : option A) : res A := match o with Some a => Ok a | None => Err end.

(* tenzeros(constructed_shape): tensor.from_function(zeros, shape) - parse_shape once more (on a tuple of ints), np.zeros
   (rejects a negative size), ttb.tensor (rejects the empty shape): C20Harness.ztenzeros_chk, C20_dense_generator_guard *)
Definition py_tenzeros (cs : list Z) : res (dense Z) :=
  bind (parse_shape (STuple (ints cs))) (fun s => res_of (ztenzeros_chk s)).

(* X[subs] = elements: tensor.__setitem__ with a subscript array - one write per row, in row order *)
Definition set_subs (X : dense Z) (subs : list idx) (vals : list Z) : dense Z :=
  mkDense (dshape X)
    (fold_left (fun d (sv : idx * Z) => upd d (sub2ind (dshape X) (fst sv)) (snd sv)) (combine subs vals) (ddata X)).

Definition py_tendiag (elements : pyshp) (shape : option pyshp) : res (dense Z) :=
  bind (parse_one_d elements) (fun el =>                                     (* elements = parse_one_d(elements) *)
  if negb (nd_ndim el =? 1)%Z then Err else                                  (* (2-d elements: numpy rejects them below) *)
  let e := nd_ints el in
  let N := length e in                                                       (* N = len(elements) *)
  bind (constructed_shape N shape) (fun cs =>
  bind (py_tenzeros cs) (fun X =>                                            (* X = tenzeros(constructed_shape) *)
  if Nat.ltb 0 N then                                                        (* if N > 0: *)
    let subs := tile_column (np_arange N) (length cs) in                     (*   subs = np.tile(np.arange(0, N)[:, None], (M,)) *)
    Ok (set_subs X subs e)                                                   (*   X[subs] = elements *)
  else Ok X))).                                                              (* return X *)

(* sptensor.from_aggregator(subs, vals, shape) as sptendiag calls it (default reducer: sum), shape given:
     tt_subscheck(subs, False); tt_valscheck(vals, False)                       GENERATED
     shape = parse_shape(shape); tt_sizecheck(shape, False)                     GENERATED
     count / width / range checks, unique + accumarray + nonzero                C20Harness.zaggregator (C20_aggregator) *)
Definition py_from_aggregator_sum (subs : list idx) (M : nat) (vals : list Z) (shape : list Z) : res (sparse Z) :=
  bind (tt_subscheck (int_array [zlen subs; Z.of_nat M] (map Z.of_nat (concat subs))) false) (fun _ =>
  bind (tt_valscheck (int_array [zlen vals; 1%Z] vals) false) (fun _ =>
  bind (parse_shape (STuple (ints shape))) (fun shp =>
  bind (tt_sizecheck (int_array [zlen shp] shp) false) (fun _ =>
  res_of (zaggregator (Some (to_shape shp)) M subs vals RSum))))).

Definition py_sptendiag (elements : pyshp) (shape : option pyshp) : res (sparse Z) :=
  bind (parse_one_d elements) (fun el =>                                     (* elements = parse_one_d(elements) *)
  if negb (nd_ndim el =? 1)%Z then Err else                                  (* (2-d elements: numpy rejects them below) *)
  let e := nd_ints el in
  let N := length e in                                                       (* N = len(elements) *)
  bind (constructed_shape N shape) (fun cs =>
  if Nat.ltb 0 N && Nat.eqb (length cs) 0 then Err                           (* if N > 0 and len(cs) == 0: raise ValueError *)
  else
    let subs := np_transpose2 N (tile_row (np_arange N) (length cs)) in      (* np.tile(arange.T, (M, 1)).transpose() *)
    py_from_aggregator_sum subs (length cs) e cs)).                          (* from_aggregator(subs, elements.reshape((N,1)), cs) *)

(* ---- arguments of the generated correspondence cases (tools/props/c20.py, op diag_lines) ---- *)
Inductive diag_arg :=
  | AInt (k : Z)                                          (* a Python int *)
  | AList (l : list Z) | ATuple (l : list Z)              (* a flat list / tuple of ints *)
  | AArr (shp : list Z) (isfloat : bool) (l : list Z)     (* an ndarray: its shape, dtype class, C-order data *)
  | ANested (l : list Z) (r : list Z).                    (* a list l ++ [r]: its last entry is itself a list *)
Definition diag_arg_py (a : diag_arg) : pyshp :=
  match a with
  | AInt k => SInt k
  | AList l => SList (ints l)
  | ATuple l => STuple (ints l)
  | AArr shp fl l => SArr (mknd shp (if fl then DFloat else DInt) (map NFin l))
  | ANested l r => SList (ints l ++ [EList r])
  end.
Definition tendiag_lines_ok (el : diag_arg) (sp : option diag_arg) (obs : option (dense Z)) : bool :=
  match py_tendiag (diag_arg_py el) (option_map diag_arg_py sp), obs with
  | Ok T, Some o => dense_eqb T o
  | Err, None => true
  | _, _ => false
  end.
Definition sptendiag_lines_ok (el : diag_arg) (sp : option diag_arg) (obs : option (sparse Z)) : bool :=
  match py_sptendiag (diag_arg_py el) (option_map diag_arg_py sp), obs with
  | Ok R, Some o => sp_agrees o R
  | Err, None => true
  | _, _ => false
  end.
