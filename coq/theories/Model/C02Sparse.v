(* Model/C02Sparse.v — executable transliterations of sparse and Kruskal kernels (sptensor.py innerprod / norm,
   ktensor.py ttv / innerprod).  Definitions only; proofs in Proofs/C02SparseProofs.v. *)
From Coq Require Import List Arith Lia Bool.
From PV Require Import Base.Index Base.Perm Base.Sum Np.Array Model.Sparse Model.Repr Model.C02Spec.
Import ListNotations.

Section Sp.
Context {V : Type} (v0 v1 : V) (vadd vmul : V -> V -> V).
Local Notation "x + y" := (vadd x y).
Local Notation "x * y" := (vmul x y).

(* sptensor.innerprod(tensor) (sptensor.py:912): valsOther = other[subsSelf]; valsOther.T.dot(valsSelf) *)
Definition impl_innerprod_sp_dense (S : sparse V) (T : dense V) : V :=
  sum_over v0 vadd (entries S) (fun e => den_dense v0 T (fst e) * snd e).

(* sptensor.innerprod(sptensor) (sptensor.py:899): the operand with fewer stored entries is enumerated, the other one is read
   at those subscripts (other[subs] = value of the stored entry, 0 when absent) *)
Definition impl_innerprod_sp_sp (A B : sparse V) : V :=
  if nnz A <? nnz B
  then sum_over v0 vadd (entries A) (fun e => den_sp v0 B (fst e) * snd e)
  else sum_over v0 vadd (entries B) (fun e => snd e * den_sp v0 A (fst e)).

(* sptensor.norm()^2 (sptensor.py:1383): np.linalg.norm(self.vals)^2 = Σ vals^2 *)
Definition impl_normsq_sp (S : sparse V) : V := sum_over v0 vadd (entries S) (fun e => snd e * snd e).

(* ---- Kruskal ---- *)
(* column r of A^T v *)
Definition atv (A : @matrix V) (v : list V) (r : nat) : V :=
  sum_n v0 vadd (length A) (fun k => mget v0 A k r * nth k v v0).

(* ktensor.ttv, single mode n (ktensor.py:1985): new_weights = weights * (A_n.T @ v); the other factors are kept *)
Definition impl_ttv_k1 (K : ktensor V) (n : nat) (v : list V) : ktensor V :=
  mkK (map (fun r => nth r (kweights K) v0 * atv (nth n (kfactors K) []) v r) (seq 0 (krank K)))
      (remove_at n (kfactors K)).
End Sp.
