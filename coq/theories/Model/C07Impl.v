(* Model/C07Impl.v — the return statements of sptensor.permute / sptensor.squeeze as they are written (pyttb/sptensor.py), with the
   branches on "nothing stored" that the operation models of Model/C07Ops.v abstract from:
     permute:  if not self.subs.size == 0: sptensor(subs[:, order], vals, shape[order]) else sptensor(subs, vals, shape[order])
     squeeze:  all sizes > 1 -> copy;  idx = where(shape > 1);  idx.size == 0 -> vals.item() if vals.size > 0 else 0.0
               (ndarray.item() raises unless exactly one value is stored);  vals.size == 0 -> sptensor([], [], siz);
               else sptensor(subs[:, idx], vals, siz)
   Definitions only; Proofs/C07Impl.v shows they are the models on every well-formed coordinate list. *)
From Coq Require Import List Arith Bool.
From PV Require Import Base.Index Base.Perm Np.Array Model.Sparse Model.Repr Model.C07Ops.
Import ListNotations.

Section Impl.
Context {V : Type} (v0 : V).

Definition permute_sp_impl (S : sparse V) (p : list nat) : option (sparse V) :=
  if is_permb p (length (sshape S))
  then if negb (Nat.eqb (length (ssubs S)) 0)
       then Some (mkSp (pick 0 p (sshape S)) (map (pick 0 p) (ssubs S)) (svals S))
       else Some (mkSp (pick 0 p (sshape S)) (ssubs S) (svals S))
  else None.

Definition squeeze_sp_impl (S : sparse V) : option (sq_res (V:=V) (sparse V)) :=
  let s := sshape S in
  if forallb (Nat.ltb 1) s then Some (SqT S)
  else match sqz s s with
       | [] => match svals S with
               | [] => Some (SqScalar v0)
               | [v] => Some (SqScalar v)
               | _ :: _ :: _ => None
               end
       | s' => if Nat.eqb (length (svals S)) 0 then Some (SqT (mkSp s' [] []))
               else Some (SqT (mkSp s' (map (sqz s) (ssubs S)) (svals S)))
       end.

End Impl.
