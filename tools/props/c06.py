"""C06 — sparse results are well-formed and independent of the stored order of nonzeros (DESIGN §C06).

Every case runs one request several times: once per stored order of the operands (all n! orders for n <= 4 stored
nonzeros of each operand, random orders beyond).  Coq then checks, on pyttb's raw outputs, the well-formedness bits of
every returned sparse tensor (lengths, in-bounds, pairwise distinct, no explicit zero, nnz) and that all runs have the
same canonical form (Model/C06Ops.v: canon = F-order scan of the dense expansion).

Two streams share that machinery: the element-wise operators of C03 plus squash / from_aggregator (this file), and every
other public operation that takes a sparse tensor — scalar-valued ones included (props/c06_util.py)."""
import itertools
import math

from vcheck import Case, gz, gzlist, gnlist, gnmat
import tgen
from props import c03_util as U
from props import c03
from props import c06_util as X

PROP = "C06"
LEVEL = "proof"
GEN_UNITS = ["GenUtils", "GenSptensor4"]     # GenSptensor4: Props/C06W4.v C06_gen_permute / C06_gen_ones are about the generated whole methods
COQ_TARGETS = ["Props/C06.vo", "Props/C06W4.vo", "Props/C06W5.vo", "Model/C06Stm.vo", "Model/C06Cont.vo", "Model/C06W4.vo", "Model/C06W5.vo", "Model/C06SetSubs.vo", "Model/Harness.vo"]
THEOREM_FILES = ["Props/C06.v", "Props/C06W4.v", "Props/C06W5.v"]
COQ_IMPORTS = ("From Coq Require Import List ZArith Bool QArith Qcanon.\n"
               "From PV Require Import Base.Index Np.Array Model.Sparse Model.Repr Model.Harness Model.C03Ops Model.C06Ops Model.C01Conv Model.C06Stm Model.C06Cont\n"
               "                       Model.C02Spec Model.C02Sparse Model.C02SpKernels Model.C02SpMore Model.C07Ops\n"
               "                       Gen.GenUtils Model.C03Gen Model.C03Chk2 Model.C01Unique Model.C01Coo Model.C06W4 Model.C06W5 Model.C06SetSubs.\n"
               'Set Warnings "-abstract-large-number".\n')
RULE = ("stream 1: every C03 request (operator x right-hand-side kind) on all zero-pattern pairs of the shapes (2,2) [operators rotated] and "
        "(3,) [all operators], plus seeded larger shapes; squash and from_aggregator with permuted input rows. stream 2 (admissible requests "
        "only, integer data, shapes of 1-4 modes incl. singleton modes, 0..all cells stored): innerprod with a sparse operand (shared "
        "nonzeros 0..6, both sides and the tie of the nnz(self) < nnz(other) switch, distinct magnitudes on the shared positions), with a "
        "dense and with a Kruskal operand; norm; permute (all mode orders, sampled for 4 modes); whole-shape reshape into every "
        "factorisation; squeeze (no / some / all singleton modes); ttv (single mode, several modes, all modes; vectors with zeros; sparse, "
        "dense and scalar results); ttm (one or two ndarray matrices, either orientation; scipy coo matrices to reach the sparse-result "
        "branch); contract (every ordered pair of equal modes); collapse by sum (every mode subset and all modes: scalar / vector / sparse "
        "result); scale (tensor / sptensor / ndarray factor, factors with zeros); to_sptenmat with random row/column mode splits (incl. an "
        "empty side) and to_sptensor back; __setitem__ (scalar into a region, values incl. 0 at listed subscripts, one or two steps; region "
        "keys holding index LISTS that are distinct or REPEAT an index, on empty and non-empty receivers, with a scalar / zero / sptensor "
        "right-hand side, optionally growing the shape); mask (the mask's stored order is permuted too); extract; __getitem__ (region and "
        "subscript list). stream 3 (third wave): sptenmat histories (a sptenmat built by to_sptenmat / the copying constructor / the "
        "no-copy constructor from every stored order, then 1..4 __setitem__ calls: zero / nonzero onto a stored / an absent position, "
        "alone and mixed in one call with and without a new entry, whole rows / columns by slice, zeroing everything one call at a time; "
        "raw arrays, nnz and to_sptensor() observed after EVERY step); chains (the result of + - * and/or/xor, S-S, S*0, -S, all entries "
        "assigned zero — exact cancellation included — fed into a second operation, compared with the same request on a freshly built "
        "copy); generators (sptendiag with zero elements, all requested-shape relations and re-use of the caller's vector; sptenrand and "
        "from_function incl. near saturation; sptenmat constructor and from_array with repeated, cancelling and zero triples). EVERY "
        "request of streams 1-2 is re-run for ALL n! stored orders (n <= 4) of each sparse operand, identity/reversed/3 random orders "
        "beyond 4 nonzeros (histories and chains: at most 8 orders besides the identity); every stream-2/3 request is also re-run with the "
        "operand's subscript array Fortran-ordered and with both arrays as strided views handed over without a copy; non-trivial = at "
        "least two distinct stored orders were run, or a history / chain / generator case; distinct = distinct (op, args). WAVE 4: huge "
        "operands — more than 2**22 candidate (search row, source row) pairs inside pyttb's row helpers, i.e. both row lists longer than "
        "2048 (sparse*sparse on (13,14,13); extract on (48,48) and innerprod on (13,14,13) with ~2150 stored entries / requested rows; "
        "thorough adds and / le / mask / getitem), stored orders identity / reversed / random per operand, compared by the linear-time "
        "checkers all_same_sorted / all_same_assoc_sorted on observations handed over sorted by subscript (Coq re-checks strict ascent); "
        "every sparse/sparse division inside the trigger of C03-N7 and every squash inside the trigger of A-27 is judged a second time, "
        "WITHOUT attribution, against the as-is models (ops div_asis / squash_asis: every run literally what impl_div_sparse_gen / "
        "squash_asis return on the operands as stored, structurally well-formed, same array for every stored order); the sptenmat "
        "constructor and from_array (dense and scipy-coo input, repeated / cancelling / zero triples) are re-run with the triples in "
        "all m! orders (m <= 4; identity / reversed / 3 random beyond) and tied to C01's constructor models up to stored order. WAVE 5: "
        "ONE subscript assignment that zeroes stored entries, overwrites OTHER stored entries and creates new ones (targets in random "
        "order, optionally a target listed twice, optionally a second call), for all n! stored orders of the receiver, the result tied to the "
        "assigned array (sp_den_is, all setitem requests made of subscript steps) and EVERY run tied to the positional transliteration "
        "set_subscripts on the receiver as stored in that run; from_aggregator with np.max / np.min / np.prod / len / first-of-group on repeated rows "
        "(every run = the model on the rows as listed; all runs the same result except for `first`); sparse masks without stored "
        "entries (ordinary since /repo 5f8b038); scale with ill-sized factors on receivers with and without entries (refused alike since "
        "/repo d89c921) and admissible factors on empty receivers; the huge sparse*sparse and innerprod observations are what the "
        "linear-time walks minner / mmul compute from the operands listed ascending (huge_mul_ok, huge_inner_ok), huge mask tied to impl_mask_sp (thorough)")
EXPLANATION = ("WAVE 5 (Props/C06W5.v, 17 theorems): `S[subs] = vals` BY POSITION as sptensor._set_subscripts computes it (positions looked up once, "
               "overwrite in place, delete by position, append) is well-formed, denotes the assigned array and is the same result for every stored "
               "order (C06_set_subscripts, C06_set_subscripts_indep; with repeated targets, the last one wins: C06_set_subscripts_total, _total_indep), while deleting before overwriting is refuted "
               "(C06_set_subscripts_delete_first_refuted); collapse with such a reducer keeps the container kind and the result for every stored order "
               "(C06_cont_collapse_reducer_indep, _wf); innerprod with a Kruskal operand IS the sum over all subscripts (C06_innerprod_kruskal_value); "
               "sptendiag is well-formed and denotes the super-diagonal (C06_sptendiag); from_aggregator with ANY reducer that does not look at the order of its group gives the same result "
               "for every order of the input rows (C06_from_aggregator_any_reducer_indep; max / min / prod / len are such reducers, first-of-group "
               "is not: C06_reducers_perm_inv, C06_from_aggregator_reducers_indep); the linear-time evaluators of the huge cases are proved: the "
               "simultaneous walk over two ascending coordinate lists computes the sum over ALL subscripts = impl_innerprod_sp_sp "
               "(C06_walk_innerprod) and a well-formed ascending list denoting the product = C03's impl_mul up to stored order (C06_walk_mul), "
               "hence a huge observation accepted by huge_inner_ok / huge_mul_ok is the specified result (C06_huge_inner_sound, C06_huge_mul_sound). "
               "WAVE 4 (Props/C06W4.v, 18 theorems): the aggregating constructors with ARBITRARY input (from_aggregator: C06_from_aggregator(+_indep); "
               "sptenmat.__init__ and from_array of a non-canonical scipy matrix: C06_stm_ctor, C06_stm_from_coo re-exported from C01, and "
               "C06_stm_ctor_indep / C06_stm_from_coo_indep: LITERALLY the same object for every order of the input triples); squash as pyttb "
               "computes it (C06_squash_asis, _indep) with the trigger of A-27 proved exact (C06_squash_asis_spec_iff); sparse/sparse as "
               "repaired by /repo e2beb21 over the generated row helpers (C06_div_sparse_indep: same array / same entries up to order for "
               "every stored order of both operands; C06_div_sparse_wf_iff, _ieee: free of explicit zeros IFF the divisor's support lies in the "
               "dividend's — the trigger of C03-N7, exact); the remaining generated element-wise paths (C06_ops_generated2: S != S2, "
               "S == T, S != T, _compare as written); the WHOLE generated methods sptensor.permute / sptensor.ones (C06_gen_permute, "
               "C06_gen_ones over Gen/GenSptensor4.v); ttm over several modes (C06_cont_ttm_chain: the dense intermediate is literally the same for "
               "every stored order) and innerprod with a Kruskal operand (C06_ops_innerprod_kruskal); soundness of the linear-time checker of the huge cases (C06_sorted_check_sound). "
               "Theorems: uniqueness of the representation up to stored order (canon_unique), canonical form, order independence of "
               "every operation that is denotationally correct (instantiated for the C03 operators, permute/reshape/squeeze/to_sptenmat/"
               "__setitem__ of sptensor — since wave 3b in TOTAL form incl. index-list keys that repeat an index, tensor-valued right-hand "
               "sides and growth —, squash, sptenmat.__setitem__, and the C02 kernels ttv/ttm/collapse/contract/scale/mask/extract/innerprod/"
               "norm^2; for ttv/collapse/contract/ttm also the CONTAINER pyttb assembles: well-formed, no explicit zero under exact "
               "cancellation, same kind and same result for every stored order). Correspondence, evaluated in Coq on pyttb's raw outputs "
               "(Model/C06Ops.v, Model/C06Stm.v, Model/C06Cont.v): the result kind is the "
               "same for every stored order and memory layout; every returned sptensor and sptenmat satisfies the raw well-formedness bits "
               "(one value per subscript row, integer DTYPE of the subscript array whenever a row is stored, in bounds, pairwise distinct, "
               "no explicit zero, nnz = stored rows, full() returns); all runs have the same canonical form or the same number; the first "
               "run is what the model the theorems are stated over computes from the literal operand (impl_ttv_sp / cont_ttv, impl_ttm_sp / "
               "ttm_Ynt / cont_ttm_ndarray, impl_collapse_sp / cont_collapse, impl_contract_sp / cont_contract, impl_scale_sp, impl_mask_sp, "
               "impl_extract, permute_sp, reshape_sp_all, squeeze_sp, squash, zinner, "
               "impl_stm_setitem after every step of a sptenmat history); generators denote what they are asked for (sptendiag: the "
               "super-diagonal; aggregating constructors: the sums), do not alias or change the caller's arrays.")
CORRESPONDENCE_ONLY = [
    "__truediv__ with a scalar / dense operand (result well-formedness is part of C03_div_scalar / C03_div_dense_partial; the sparse operand is "
    "PROVED since wave 4: C06_div_sparse_wf_iff / _indep / _ieee), logical_or/xor with dense/scalar operands (dense results), __eq__ / __ne__ "
    "with a scalar: order independence observed on pyttb's raw outputs (S != S2, S == T, S != T, _compare as written: C06_ops_generated2)",
    "from_aggregator with a reducer other than sum: PROVED since wave 5 for every permutation-invariant reducer (C06_from_aggregator_any_reducer_indep "
    "over C03's hand model from_aggregator; np.mean and other non-integral reducers are not in the Z stream)",
    "innerprod with a Kruskal operand: order independence PROVED (C06_ops_innerprod_kruskal over impl_innerprod_sp_k, tied by the first "
    "run), its equality with the defining sum is observed (zinner) only; norm: the square root (norm^2 is proved order-independent)",
    "ttm with several matrices (a chain of single-mode products, each covered by C06_cont_ttm) and the 50% switch of ttm with a scipy matrix "
    "(scipy's own stored count decides; both outcomes are tied to ttm_Ynt / its expansion); collapse with a function other than sum; ttv / "
    "collapse / contract containers are PROVED (C06_cont_ttv, _collapse, _contract) over the hand-written assembly model Model/C06Cont.v "
    "(from_aggregator is C03's model, not the translator's), tied to pyttb by the first-run comparison kres_matches",
    "__getitem__ of sptensor beyond the C04 state machine's paths (S[array of subscripts] is tied to impl_extract since wave 5); __setitem__ "
    "with a REGION key: C06_ops_setitem_total / C06_ops_region_set are about the C04 state machine step_sparse (tied to pyttb by C04's "
    "correspondence); C06 itself generates and observes these requests (raw bits, order independence) without re-evaluating step_sparse. "
    "Assignments at listed subscripts are PROVED since wave 5 over C06's own positional transliteration of _set_subscripts "
    "(C06_set_subscripts, _indep, and with the de-duplication of repeated targets — the last one wins — C06_set_subscripts_total, "
    "_total_indep; every run tied to set_subscripts on the receiver as stored in that run; the SORTING done by np.unique — it only decides "
    "the stored order of appended entries —, the broadcast of a scalar and the growth of the shape/order in front of it are not in the "
    "transliteration: the stream keeps targets in bounds); reshape with old_modes: C06_ops_reshape_modes + first-run tie",
    "squash: C06_squash / C06_ops_squash are about the specified behaviour, C06_squash_asis(+_indep,+_spec_iff) about pyttb's (open finding "
    "A-27, pinned by the squash doctest); pyttb is tied to the specified model outside the trigger and to squash_asis inside it",
    "sptenmat constructor with copy=False (stores the triples as given: nothing to prove; histories observe it), sptenmat.from_array of a "
    "dense matrix: C01's theorem re-exported since wave 5 (C06_stm_from_dense; tied to from_array_dense by the first run)",
    "huge operands (> 2**22 candidate row pairs): runs compared with each other (linear-time checkers); model tie for extract, mask (impl_extract / "
    "impl_mask_sp), sparse*sparse and innerprod (proved walks mmul / minner: C06_huge_mul_sound, C06_huge_inner_sound); and / le / getitem: runs compared only",
    "chains, memory layouts, generators sptenrand, from_function: observed only (sptendiag: PROVED since wave 5, C06_sptendiag over the transliteration "
    "impl_sptendiag, tied by sp_perm_eqb)",
]


# ---------------------------------------------------------------------------------------------
# generation
# ---------------------------------------------------------------------------------------------
REDUCERS = ("max", "min", "prod", "len", "first")       # Model/C06W5.v red_*; "first" looks at the order of the group (not permutation invariant)


def py_reducer(np, red):
    return X.np_reducer(np, red)


def variants_for(a, rng):
    """list of (perm of A's entries, perm of B's entries or None): identity first"""
    na = len(a["subs"])
    pa = U.permutations_of(na, rng)
    out = [(list(range(na)), None)]
    if a.get("rk") == "sparse":
        nb = len(a["bsubs"])
        pb = U.permutations_of(nb, rng)
        idb = list(range(nb))
        out = [(list(range(na)), idb)]
        out += [(p, idb) for p in pa[1:]]
        out += [(list(range(na)), q) for q in pb[1:]]
        if na > 1 and nb > 1:
            out.append((pa[-1], pb[-1]))
            out.append((rng.choice(pa), rng.choice(pb)))
    else:
        out += [(p, None) for p in pa[1:]]
    return out


def mk_case(op, a, rng):
    a = dict(a)
    a["variants"] = variants_for(a, rng)
    return Case(op, a, len(a["variants"]) > 1)


def mk_huge(op, a, rng):
    """huge operands: identity / reversed / one random stored order per sparse operand (4-5 runs instead of 11)"""
    a = dict(a)
    na = len(a["subs"])
    ida, ra = list(range(na)), list(range(na))[::-1]
    pa = ida[:]
    rng.shuffle(pa)
    if a.get("rk") == "sparse":
        nb = len(a["bsubs"])
        idb, rb = list(range(nb)), list(range(nb))[::-1]
        pb = idb[:]
        rng.shuffle(pb)
        a["variants"] = [(ida, idb), (ra, idb), (ida, rb), (pa, pb)]
    else:
        a["variants"] = [(ida, None), (ra, None), (pa, None)]
    a["huge"] = True
    return Case(op, a, True)


def permuted(a, pa, pb):
    b = {k: v for k, v in a.items() if k != "variants"}
    b["subs"] = [a["subs"][k] for k in pa]
    b["vals"] = [a["vals"][k] for k in pa]
    if pb is not None:
        b["bsubs"] = [a["bsubs"][k] for k in pb]
        b["bvals"] = [a["bvals"][k] for k in pb]
    return b


def gen_cases(rng, tier):
    big = tier == "thorough"
    cases = []
    unary = ("neg", "not", "ones") + tuple("elemfun:" + k for k in U.ELEMFUNS)
    k = 0
    for shape, per in (((2, 2), 13 if big else 3), ((3,), 13)):
        n = math.prod(shape)
        for pa in itertools.product((0, 1), repeat=n):
            for pb in itertools.product((0, 1), repeat=n):
                for _ in range(per):
                    op = U.BINOPS[k % len(U.BINOPS)]
                    k += 1
                    cases.append(mk_case(op, c03.binary_args(shape, pa, pb, "sparse", rng, "sorted", "sorted"), rng))
            for _ in range(4 if big else 2):
                for op in U.BINOPS:
                    pb = [rng.randint(0, 1) for _ in range(n)]
                    cases.append(mk_case(op, c03.binary_args(shape, pa, pb, "dense", rng, "sorted"), rng))
            for c in c03.SCALARS:
                for op in c03.ops_for("scalar"):
                    cases.append(mk_case(op, c03.binary_args(shape, pa, pa, "scalar", rng, "sorted", c=c), rng))
            for op in unary:
                subs, vals = c03.sparse_from_pattern(shape, pa, rng, "sorted")
                cases.append(mk_case(op, {"shape": list(shape), "subs": subs, "vals": vals}, rng))
    # larger shapes: random orders
    for _ in range(60 if big else 14):
        shape = tuple(tgen.rand_shape(rng, maxn=4, maxcells=24))
        n = math.prod(shape)

        def rpat():
            f = rng.choice((0.2, 0.5, 0.8, 1.0))
            return [int(rng.random() < f) for _ in range(n)]
        for rk in ("sparse", "dense", "scalar"):
            for op in c03.ops_for(rk):
                cases.append(mk_case(op, c03.binary_args(shape, rpat(), rpat(), rk, rng, "sorted", "sorted", c=rng.choice(c03.SCALARS)), rng))
        for op in unary:
            subs, vals = c03.sparse_from_pattern(shape, rpat(), rng, "sorted")
            cases.append(mk_case(op, {"shape": list(shape), "subs": subs, "vals": vals}, rng))
    # large sparse operands (more than 1000 candidate row pairs in the row helpers)
    for shape in ((6, 6), (4, 3, 3)):
        n = math.prod(shape)
        for op in ("mul", "eq", "le", "and", "sub", "ne"):
            pa = [int(rng.random() < 0.95) for _ in range(n)]
            pb = [int(rng.random() < 0.95) for _ in range(n)]
            cases.append(mk_case(op, c03.binary_args(shape, pa, pb, "sparse", rng, "sorted", "sorted"), rng))
    # huge sparse operands (wave 4): more than 2**22 candidate row pairs inside the row helpers (both operands store > 2048 rows) —
    # a size-dependent path there (sort + binary search instead of the all-pairs comparison) is invisible below that; 2-way /
    # 3-way shapes with short modes (the Coq side compares unary naturals); stored orders identity / reversed / one random for each operand
    for shape, op in ((((13, 14, 13), "mul"),) if not big else (((13, 14, 13), "mul"), ((48, 48), "and"), ((13, 14, 13), "le"), ((48, 48), "mul"))):
        n = math.prod(shape)
        pa, pb = [1] * n, [1] * n
        for k in rng.sample(range(n), 150):
            pa[k] = 0
        for k in rng.sample(range(n), 150):
            pb[k] = 0
        cases.append(mk_huge(op, c03.binary_args(shape, pa, pb, "sparse", rng, "sorted", "sorted"), rng))
    # regression (A-07, repaired by /repo e2beb21): sparse/sparse with the common subscripts stored in different relative orders, and
    # with a divisor whose support lies inside the dividend's (no 0/x position: the quotient must be well-formed for every order)
    for a, b in ((([[1, 1], [0, 0]], [3, 2]), ([[0, 0], [1, 1]], [5, 7])),
                 (([[0, 0], [1, 0], [1, 1]], [4, 5, 6]), ([[1, 1], [0, 0]], [2, 3])),
                 (([[0, 1], [1, 1], [0, 0], [1, 0]], [4, 5, 6, -8]), ([[1, 0], [0, 1], [1, 1]], [2, -4, 3]))):
        cases.append(mk_case("div", {"shape": [2, 2], "subs": a[0], "vals": a[1], "rk": "sparse", "bsubs": b[0], "bvals": b[1]}, rng))
    # squash and from_aggregator
    for _ in range(400 if big else 120):
        shape = tuple(tgen.rand_shape(rng, maxn=3, maxcells=60, maxdim=6))
        n = math.prod(shape)
        f = rng.choice((0.1, 0.3, 0.6))
        subs, vals = c03.sparse_from_pattern(shape, [int(rng.random() < f) for _ in range(n)], rng, "sorted")
        cases.append(mk_case("squash", {"shape": list(shape), "subs": subs, "vals": vals}, rng))
        m = rng.randint(0, 6)
        rows = [[rng.randrange(d) for d in shape] for _ in range(m)]
        rv = [rng.choice((-2, -1, 1, 2, 0)) for _ in range(m)]
        if m >= 2 and rng.random() < 0.5:      # force a duplicate row whose values cancel
            rows[1] = list(rows[0])
            rv[1] = -rv[0]
        cases.append(mk_case("from_agg", {"shape": list(shape), "subs": rows, "vals": rv}, rng))
        # wave 5: a reducer other than sum (np.max / np.min / np.prod / len / the first value of the group), rows that repeat
        m = rng.randint(1, 6)
        base = [[rng.randrange(d) for d in shape] for _ in range(rng.randint(1, 3))]
        rows = [list(rng.choice(base)) if rng.random() < 0.7 else [rng.randrange(d) for d in shape] for _ in range(m)]
        rv = [rng.choice((-3, -2, -1, 1, 2, 3, 0)) for _ in range(m)]
        cases.append(mk_case("from_agg_red", {"shape": list(shape), "subs": rows, "vals": rv, "red": rng.choice(REDUCERS)}, rng))
    # second stream: scalar-valued operations and every other public operation on a sparse tensor
    cases += X.gen_ext(rng, tier, lambda op, a: mk_case(op, a, rng))
    cases += X.gen_huge(rng, tier, lambda op, a: mk_huge(op, a, rng))
    # the huge cases cost ~0.2 GB and 5-10 s of coqc each: spread them over the shards (400 consecutive cases per coqc process)
    hs = [c for c in cases if c.args.get("huge")]
    cases = [c for c in cases if not c.args.get("huge")]
    for j, h in enumerate(hs):
        cases.insert(min(len(cases), 200 + 410 * j), h)
    # wave 4: inside the trigger of an open finding the mismatch of the case above is attributed to the finding; the SAME request is
    # therefore judged once more against the AS-IS model (Props/C06W4.v: C06_div_sparse_*, C06_squash_asis_*), with no attribution:
    # whatever else goes wrong on these inputs is reported
    twins = []
    for c in cases:
        if c.op == "div" and _div_sparse_zero_over_x(c):
            twins.append(Case("div_asis", dict(c.args), c.nontrivial))
        elif c.op == "squash" and _squash_shape(c):
            twins.append(Case("squash_asis", dict(c.args), c.nontrivial))
    return cases + twins


# ---------------------------------------------------------------------------------------------
# pyttb side
# ---------------------------------------------------------------------------------------------
def run_one(op, a):
    import numpy as np
    import pyttb as ttb
    if op == "div_asis":
        return run_elementwise("div", a)
    if op in ("squash", "squash_asis"):
        try:
            S = tgen.mk_sptensor(ttb, np, a["shape"], a["subs"], a["vals"])
            R = S.squash()
            return X.strict_bits(np, ttb, R, U.observe(ttb, np, R))
        except Exception as ex:
            return {"exc": type(ex).__name__, "msg": str(ex)[:160]}
    if op in ("from_agg", "from_agg_red"):
        try:
            s = np.array(a["subs"], dtype=int).reshape((len(a["subs"]), len(a["shape"])))
            v = np.array(a["vals"], dtype=float).reshape((len(a["vals"]), 1))
            if op == "from_agg_red":
                R = ttb.sptensor.from_aggregator(s.copy(), v.copy(), tuple(a["shape"]), function_handle=py_reducer(np, a["red"]))
            else:
                R = ttb.sptensor.from_aggregator(s.copy(), v.copy(), tuple(a["shape"]))
            return X.strict_bits(np, ttb, R, U.observe(ttb, np, R))
        except Exception as ex:
            return {"exc": type(ex).__name__, "msg": str(ex)[:160]}
    if op in X.EXT_OPS:
        return X.run_ext(op, a)
    return run_elementwise(op, a)


def run_elementwise(op, a):
    """c03_util.run_elementwise + the strict bits of the returned sptensor (dtype of subs, full() returns)"""
    import numpy as np
    import pyttb as ttb
    try:
        S = tgen.mk_sptensor(ttb, np, a["shape"], a["subs"], a["vals"])
        R = U.mk_rhs(ttb, np, a) if "rk" in a else None
        with np.errstate(all="ignore"):
            r = U.apply_op(ttb, np, op, S, R)
        o = U.observe(ttb, np, r)
        if isinstance(r, ttb.sptensor):
            with np.errstate(all="ignore"):
                X.strict_bits(np, ttb, r, o)
        return o
    except Exception as ex:
        return {"exc": type(ex).__name__, "msg": str(ex)[:160]}


def run_plan(c):
    """(perm of A, perm of B, memory layout of A's arrays): every stored-order variant in the default layout, then (second
    stream) the identity order with a Fortran-ordered subscript array and with strided views handed over without a copy"""
    a = c.args
    plan = [(pa, pb, None) for pa, pb in a["variants"]]
    if c.op in X.LAYOUT_OPS and not a.get("huge"):
        pa, pb = a["variants"][0]
        plan += [(pa, pb, "F"), (pa, pb, "view")]
    return plan


def labels(c):
    return [(pa, pb if l is None else f"{pb} layout={l}") for pa, pb, l in run_plan(c)]


def run_impl(c):
    a = c.args
    return {"runs": [run_one(c.op, dict(permuted(a, pa, pb), **({"layout": l} if l else {}))) for pa, pb, l in run_plan(c)]}


# ---------------------------------------------------------------------------------------------
# Coq side
# ---------------------------------------------------------------------------------------------
def glist(items):
    return "[" + "; ".join(items) + "]"


def coq_check(c, o):
    runs = o["runs"]
    if c.op in X.MUST_RETURN and any("exc" in r for r in runs):
        return "false"          # admissible requests by construction: an exception is a failure
    if all("exc" in r for r in runs):
        # the request is refused for every stored order: nothing is returned, so C06 has nothing to say
        # (whether refusing is right is C03's question); different exception types still count as different results
        return "true" if len({r["exc"] for r in runs}) == 1 else "false"
    if any("exc" in r for r in runs):
        return "false"
    if c.op in X.EXT_OPS:
        return None if pending(c, o) else X.check_ext(c, runs)
    if c.op in ("div_asis", "squash_asis"):
        return check_asis(c, runs)
    if c.op == "from_agg_red":
        return check_agg_red(c, runs)
    kinds = {r.get("kind") for r in runs}
    if len(kinds) != 1 or kinds - {"sparse", "dense"}:
        return "false"
    if not all(c03.raw_ok(r) and X.strict_ok(r) for r in runs):
        return "false"
    isdiv = c.op in ("div", "rdiv")
    kind = kinds.pop()
    extra = ""
    if c.op == "squash":
        a = c.args
        extra = f" && sp_raw_eqb {c03.gobs_sparse_z(runs[0])} (squash {U.gsp(a)})"
    if c.op == "from_agg":
        a = c.args
        extra = (f" && sp_denotes {c03.gobs_sparse_z(runs[0])} (full 0%Z (from_aggregator zisz (vsum 0%Z Z.add) "
                 f"{gnlist(a['shape'])} {gnmat(a['subs'])} {gzlist(a['vals'])}))")
    if kind == "sparse":
        if isdiv:
            return f"all_same_xsparse {glist([c03.gobs_sparse_x(r) for r in runs])}"
        if not all(tgen.all_int(r["vals"]) for r in runs):
            return "false"
        if c.args.get("huge"):
            e = f"all_same_sorted {glist([X.gsp_sorted(r) for r in runs])}"
            if c.op == "mul":
                # wave 5: model tie of the huge sparse * sparse case — the observation (sorted) is literally what the linear-time walk over
                # the two operands (listed ascending) returns; C06_huge_mul_sound: well-formed, the product, = impl_mul up to stored order
                e += f" && huge_mul_ok {X.gsp_lex(c.args)} {X.gsp_lex(c.args, 'bsubs', 'bvals')} {X.gsp_sorted(runs[0])}"
            return e
        fn = "all_same_sparse_e" if c.op == "squash" else "all_same_sparse"     # squash shapes can be large
        return f"{fn} {glist([c03.gobs_sparse_z(r) for r in runs])}" + extra
    if isdiv:
        return "all_same_xdense " + glist([f"(mkDense {gnlist(r['shape'])} {U.gxlist(r['data'])})" for r in runs])
    if not all(tgen.all_int(r["data"]) for r in runs):
        return "false"
    return "all_same_dense " + glist([tgen.gdense(r["shape"], r["data"]) for r in runs])


def check_agg_red(c, runs):
    """from_aggregator with a reducer other than sum: every run is well-formed and is what the model (C03Ops.from_aggregator with the
    reducer red_*) returns on the rows as listed in that run; for the permutation-invariant reducers all runs are the same result
    (C06_from_aggregator_reducers_indep); for `first` the runs legitimately differ (the property speaks about stored orders of TENSORS)"""
    a = c.args
    plan = run_plan(c)
    if any(r.get("kind") != "sparse" or not c03.raw_ok(r) or not X.strict_ok(r) or not tgen.all_int(r["vals"]) for r in runs):
        return "false"
    items = []
    for r, (pa, pb, _) in zip(runs, plan):
        b = permuted(a, pa, pb)
        items.append(f"({c03.gobs_sparse_z(r)}, ({gnlist(a['shape'])}, ({gnmat(b['subs'])}, {gzlist(b['vals'])})))")
    e = f"agg_runs_ok red_{a['red']} {glist(items)}"
    if a["red"] != "first":
        e += f" && all_same_sparse {glist([c03.gobs_sparse_z(r) for r in runs])}"
    return e


def oracle_agg_red(c, runs):
    a = c.args
    f = lambda g: X.py_reduce(a["red"], g)
    for r, (pa, pb) in zip(runs, labels(c)):
        if r.get("kind") != "sparse":
            return f"input order {pa}: returns {r.get('kind')}"
        p = X.strict_problem(r) or U.wf_problems(r, a["shape"])
        if p:
            return f"input order {pa}: ill-formed sparse result: {p}"
        groups = {}
        for k in pa:
            groups.setdefault(tuple(a["subs"][k]), []).append(a["vals"][k])
        want = {i: f(g) for i, g in groups.items() if f(g) != 0}
        got = {tuple(s_): v for s_, v in zip(r["subs"], r["vals"])}
        if got != want:
            return f"input order {pa}: from_aggregator({a['red']}) stores {got}, the groups reduce to {want}"
    if a["red"] != "first":
        c0 = canon_py(runs[0])
        for r, (pa, pb) in zip(runs[1:], labels(c)[1:]):
            if canon_py(r) != c0:
                return f"input order {pa} of the same rows gives a different result: {r} vs {runs[0]}"
    return None


def check_asis(c, runs):
    """inside the trigger of C03-N7 / A-27: every run is what the as-is model returns on the operands as stored in that run (stored
    order of the result included), structurally well-formed, and all runs denote the same array"""
    plan = run_plan(c)
    if any(r.get("kind") != "sparse" or not X.strict_ok(r) for r in runs):
        return "false"
    if c.op == "div_asis":
        if not all(c03.raw_ok(r) for r in runs):
            return "false"
        items = []
        for r, (pa, pb, _) in zip(runs, plan):
            b = permuted(c.args, pa, pb)
            items.append(f"({c03.gobs_sparse_x(r)}, ({U.gsp(b)}, {U.gsp(b, 'bsubs', 'bvals')}))")
        # accepted: the code as it is (finding open) OR the property (finding repaired: well-formed, same canonical form)
        return f"(div_asis_ok {glist(items)} || all_same_xsparse {glist([c03.gobs_sparse_x(r) for r in runs])})"
    if not all(c03.raw_ok(r) and tgen.all_int(r["vals"]) for r in runs):
        return "false"
    items = [f"({c03.gobs_sparse_z(r)}, {U.gsp(permuted(c.args, pa, pb))})" for r, (pa, pb, _) in zip(runs, plan)]
    spec = (f"(all_same_sparse_e {glist([c03.gobs_sparse_z(r) for r in runs])} && "
            f"sp_raw_eqb {c03.gobs_sparse_z(runs[0])} (squash {U.gsp(permuted(c.args, plan[0][0], plan[0][1]))}))")
    return f"(squash_asis_ok {glist(items)} || {spec})"


# ---------------------------------------------------------------------------------------------
# brute-force oracle
# ---------------------------------------------------------------------------------------------
def oracle_asis(c, runs):
    """the as-is behaviour inside the triggers, by plain loops: one value per in-bounds subscript, pairwise distinct; sparse/sparse:
    every cell stored, the stored value is 0 exactly where only the divisor stores the cell, NaN where the divisor does not, the
    quotient elsewhere; squash: nnz entries, the values kept, every mode of extent nnz, ranks of the indices as subscripts"""
    from fractions import Fraction
    a = c.args
    for r, (pa, pb) in zip(runs, labels(c)):
        if "exc" in r:
            return f"stored order {pa}/{pb}: raises {r['exc']}"
        if r.get("kind") != "sparse":
            return f"stored order {pa}/{pb}: returns {r.get('kind')}"
        p = X.strict_problem(r) or U.wf_problems(r, r["shape"], zeros_ok=True)
        if p:
            return f"stored order {pa}/{pb}: {p}"
        got = {tuple(s_): v for s_, v in zip(r["subs"], r["vals"])}
        if c.op == "div_asis":
            A = {tuple(s_): v for s_, v in zip(a["subs"], a["vals"])}
            B = {tuple(s_): v for s_, v in zip(a["bsubs"], a["bvals"])}
            if r["shape"] != a["shape"]:
                return f"shape {r['shape']}"
            for i in itertools.product(*[range(d) for d in a["shape"]]):
                want = "nan" if i not in B else (0 if i not in A else Fraction(A[i], B[i]))
                g = got.get(i, "absent")
                if g in ("absent", "inf", "-inf") or (want == "nan") != (g == "nan") or (want != "nan" and abs(Fraction(g) - want) > Fraction(1, 10 ** 9) * max(1, abs(want))):
                    return f"stored order {pa}/{pb}: quotient at {list(i)} is {g}, the repaired code gives {want}"
        else:
            n = len(a["subs"])
            ranks = [sorted({s_[m] for s_ in a["subs"]}) for m in range(len(a["shape"]))]
            want = {tuple(ranks[m].index(s_[m]) for m in range(len(a["shape"]))): v for s_, v in zip(a["subs"], a["vals"])}
            if r["shape"] != [n] * len(a["shape"]) or got != want:
                return f"stored order {pa}/{pb}: squash gives shape {r['shape']} entries {got}; as-is model: shape {[n] * len(a['shape'])} entries {want}"
    return None


def canon_py(r):
    if r["kind"] == "dense":
        return ("dense", tuple(r["shape"]), tuple(map(str, r["data"])))
    return ("sparse", tuple(r["shape"]), tuple(sorted((tuple(s), str(v)) for s, v in zip(r["subs"], r["vals"]))))


def oracle(c, o):
    runs = o["runs"]
    if c.op in X.MUST_RETURN:
        for r in runs:
            if "exc" in r:
                return f"admissible request raises {r['exc']}: {r.get('msg')}"
    if all("exc" in r for r in runs):
        return None
    for r, (pa, pb) in zip(runs, labels(c)):
        if "exc" in r:
            return f"stored order {pa}/{pb}: raises {r['exc']} while another stored order of the same operands returns a result"
    if c.op in X.EXT_OPS:
        return X.oracle_ext(c, runs, labels(c))
    if c.op == "from_agg_red":
        return oracle_agg_red(c, runs)
    if c.op in ("div_asis", "squash_asis"):
        # the property itself (finding repaired) or the as-is behaviour (finding open) — anything else is reported
        if oracle(Case(c.op[:-5], c.args, c.nontrivial), o) is None:
            return None
        return oracle_asis(c, runs)
    for r, (pa, pb) in zip(runs, labels(c)):
        if r["kind"] == "sparse":
            shape = r["shape"] if c.op == "squash" else c.args["shape"]
            p = X.strict_problem(r) or U.wf_problems(r, shape)
            if p:
                return f"stored order {pa}/{pb}: ill-formed sparse result: {p}"
    if c.op == "squash":
        a = c.args
        want = [len({s[n] for s in a["subs"]}) for n in range(len(a["shape"]))]
        if runs[0]["shape"] != want:
            return f"squash: shape {runs[0]['shape']} but the numbers of distinct indices per mode are {want}"
    c0 = canon_py(runs[0])
    for r, (pa, pb) in zip(runs[1:], labels(c)[1:]):
        if canon_py(r) != c0:
            return f"stored order {pa}/{pb} of the same operands gives a different result: {r} vs {runs[0]}"
    return None


# ---------------------------------------------------------------------------------------------
# known findings
# ---------------------------------------------------------------------------------------------
def _squash_shape(c):
    a = c.args
    return c.op == "squash" and any(len({s[n] for s in a["subs"]}) != len(a["subs"]) for n in range(len(a["shape"])))


def _div_sparse_zero_over_x(c):
    """C03-N7 (what is left of A-07 after /repo e2beb21): the quotient stores an explicit zero at every position that the
    divisor stores and the dividend does not; a property of the two supports, the same for every stored order"""
    a = c.args
    if c.op != "div" or a.get("rk") != "sparse":
        return False
    sa = {tuple(s) for s in a["subs"]}
    return any(tuple(s) not in sa for s in a["bsubs"])


TRIGGERS = {
    "div_sparse_divisor_stored_where_dividend_is_not": _div_sparse_zero_over_x,
    "squash_repeated_index_in_some_mode": _squash_shape,
}

# Genuine defects seen by the second stream that are not yet recorded in findings.d: name -> predicate(case, observation).
# A case for which a predicate holds is skipped (coq_check returns None) until the finding is recorded; nothing else is.
PENDING_FINDINGS = {}       # C06-Z2 (scale) is recorded in findings.d/C06.jsonl since wave 2


def pending(c, o):
    return any(p(c, o) for p in PENDING_FINDINGS.values())


def _witness(op, args):
    def run():
        import random
        c = mk_case(op, args, random.Random(0))
        return oracle(c, run_impl(c))
    return run


W22 = {"shape": [2, 2]}
WITNESS_INPUTS = {
    "C03-N7": ("div", dict(W22, subs=[[1, 0]], vals=[4], rk="sparse", bsubs=[[0, 0], [1, 1]], bvals=[2, 3])),
    "A-27": ("squash", {"shape": [3, 4], "subs": [[0, 1], [2, 1]], "vals": [2, 1]}),
}
WITNESSES = {k: _witness(*v) for k, v in WITNESS_INPUTS.items()}

