(* Np/NpZ3.v — third batch of "numpy / Python in Gallina" primitives, targets of the translator (tools/pyx2v.py) for
   Gen/GenUtils3.v: Python slices, dynamically typed index keys (int | slice | list | ndarray | None), column access
   of 2-d arrays, n-d arrays with a dtype kind (shape checks), sparse-tensor / ktensor records for functions that
   receive pyttb objects.  Definitions only (characterising lemmas live in Proofs/W3*.v).  Each definition names the
   Python / numpy construct it stands for; the mapping is validated by the primitive-level differential stream of
   tools/props/w3gen.py (ops named prim3_...), not proved.  Np/NpZ.v and Np/NpZ2.v stay frozen; this file extends them. *)
From Coq Require Import List ZArith Bool Lia.
From PV Require Import Np.NpZ Np.NpZ2.
Import ListNotations.
Local Open Scope Z_scope.

(* ---- Python slices ---- *)

Record pyslice := mkslice { sl_start : option Z; sl_stop : option Z; sl_step : option Z }.

(* slice(a, b, 0) raises ValueError when it is applied *)
Definition slice_ok (s : pyslice) : bool := match sl_step s with Some 0 => false | _ => true end.

(* slice.indices(n) as CPython computes it (PySlice_Unpack + PySlice_AdjustIndices), n >= 0 *)
Definition slice_indices (s : pyslice) (n : Z) : Z * Z * Z :=
  let step := match sl_step s with Some k => k | None => 1 end in
  let clamp (v : option Z) (dflt_pos dflt_neg : Z) : Z :=
    match v with
    | None => if step <? 0 then dflt_neg else dflt_pos
    | Some k => if k <? 0 then (if k + n <? 0 then (if step <? 0 then -1 else 0) else k + n)
                else if n <=? k then (if step <? 0 then n - 1 else n) else k
    end in
  (clamp (sl_start s) 0 (n - 1), clamp (sl_stop s) n (-1), step).

Definition slice_len (a b st : Z) : Z :=
  if st <? 0 then (if b <? a then (a - b - 1) / (- st) + 1 else 0)
  else (if a <? b then (b - a - 1) / st + 1 else 0).

(* l[s] for a Python list / range l and a slice s (under slice_ok) *)
Definition py_slice {A} (d : A) (l : list A) (s : pyslice) : list A :=
  let '(a, b, st) := slice_indices s (zlen l) in
  map (fun j => znth d l (a + Z.of_nat j * st)) (seq 0 (Z.to_nat (slice_len a b st))).

(* `x or d` for x : Optional[int]  (None and 0 are falsy) *)
Definition opt_or (o : option Z) (d : Z) : Z :=
  match o with Some v => if v =? 0 then d else v | None => d end.

Definition opt_truthy (o : option Z) : bool := match o with Some v => negb (v =? 0) | None => false end.

(* ---- one entry of an indexing key: int | slice | list of ints | 1-d integer ndarray | None ---- *)
(* (floats, strings, nested lists are outside this type: the model does not speak about them) *)
Inductive pyidx := IxInt (k : Z) | IxSlice (s : pyslice) | IxSeq (l : vec) | IxArr (l : vec) | IxNone.

Definition ix_is_int (x : pyidx) : bool := match x with IxInt _ => true | _ => false end.       (* isinstance(x, (int, np.integer)) *)
Definition ix_is_slice (x : pyidx) : bool := match x with IxSlice _ => true | _ => false end.   (* isinstance(x, slice) *)
Definition ix_is_list (x : pyidx) : bool := match x with IxSeq _ => true | _ => false end.      (* isinstance(x, Sequence) *)
Definition ix_is_arr (x : pyidx) : bool := match x with IxArr _ => true | _ => false end.       (* isinstance(x, np.ndarray) *)
(* x == slice(None, None, None): slices compare field-wise, a list / int / None is never equal to a slice; an ndarray
   compares element-wise and `not <array>` raises ValueError unless it has exactly one element *)
Definition ix_is_fullslice (x : pyidx) : bool :=
  match x with IxSlice (mkslice None None None) => true | _ => false end.
Definition ix_eq_ok (x : pyidx) : bool := match x with IxArr l => zlen l =? 1 | _ => true end.
(* len(x): TypeError for int / slice / None *)
Definition ix_len_ok (x : pyidx) : bool := match x with IxSeq _ | IxArr _ => true | _ => false end.
Definition ix_len (x : pyidx) : Z := match x with IxSeq l | IxArr l => zlen l | _ => 0 end.
(* x[i] for a Python int i *)
Definition ix_idx_ok (x : pyidx) (i : Z) : bool := match x with IxSeq l | IxArr l => idx_ok l i | _ => false end.
Definition ix_nth (x : pyidx) (i : Z) : Z := match x with IxSeq l | IxArr l => znth 0 l i | _ => 0 end.
(* np.array(x): a list becomes a 1-d array; an int / slice / None becomes a 0-d array (kept as it is: every indexed
   use of it raises, see ix_take_ok) *)
Definition ix_asarray (x : pyidx) : pyidx := match x with IxSeq l => IxArr l | _ => x end.
(* x[v] for an integer index vector v: only a 1-d ndarray can be indexed that way (list: TypeError, 0-d: IndexError) *)
Definition ix_take_ok (x : pyidx) (v : vec) : bool := match x with IxArr l => forallb (idx_ok l) v | _ => false end.
Definition ix_take (x : pyidx) (v : vec) : vec := match x with IxArr l => np_take 0 l v | _ => [] end.

(* ---- vectors ---- *)

(* a[v] for an integer index vector does not raise IndexError *)
Definition np_take_ok {A} (a : list A) (v : vec) : bool := forallb (idx_ok a) v.
(* a[i] = x for a Python int i (negative wraps), under idx_ok a i *)
Definition np_set {A} (a : list A) (i : Z) (x : A) : list A :=
  upd a (Z.to_nat (if i <? 0 then i + zlen a else i)) x.
(* np.zeros(shape=n): ValueError for negative n; the float zeros are integer-valued *)
Definition np_zeros_ok (n : Z) : bool := 0 <=? n.
Definition np_zeros (n : Z) : vec := np_full n 0.

(* ---- columns of 2-d arrays (row lists with at least one row; a 0 x N array is not representable) ---- *)

(* m[:, i] *)
Definition np_col_ok (m : mat) (i : Z) : bool := forallb (fun r => idx_ok r i) m.
Definition np_col (m : mat) (i : Z) : vec := map (fun r => znth 0 r i) m.
(* m[:, i] = v   (v of length rows(m), or of length 1: broadcast) *)
Definition np_setcol_ok (m : mat) (i : Z) (v : vec) : bool :=
  np_col_ok m i && ((zlen v =? zlen m) || (zlen v =? 1)).
Fixpoint setcol_rows (m : mat) (i : Z) (v : vec) : mat :=
  match m, v with
  | r :: m', x :: v' => np_set r i x :: setcol_rows m' i v'
  | _, _ => m
  end.
Definition np_setcol (m : mat) (i : Z) (v : vec) : mat :=
  if (zlen v =? 1) && negb (zlen m =? 1) then map (fun r => np_set r i (znth 0 v 0)) m else setcol_rows m i v.
(* np.insert(m, obj=i, values=k, axis=1) for Python ints i, k: a new column of k's before column i (negative i wraps) *)
Definition np_insert_col_ok (m : mat) (i : Z) : bool := forallb (fun r => (- zlen r <=? i) && (i <=? zlen r)) m.
Definition np_insert_col (m : mat) (i k : Z) : mat :=
  map (fun r => let j := Z.to_nat (if i <? 0 then i + zlen r else i) in firstn j r ++ k :: skipn j r) m.

(* ---- n-d arrays with a dtype kind (only what the shape / subscript / value checks look at) ---- *)

(* entries: finite numbers are kept as integers (a non-integer float is represented by its value rounded away from
   zero: only its sign and finiteness are ever observed); inf / -inf / nan are separate *)
Inductive npnum := NFin (z : Z) | NPosInf | NNegInf | NNan.
Inductive dkind := DInt | DFloat | DBool.
Record ndarr := mknd { nd_shape : vec; nd_kind : dkind; nd_data : list npnum }.
(* element-wise boolean results keep their shape *)
Record ndbool := mkndb { ndb_shape : vec; ndb_data : bvec }.

Definition nd_ndim (a : ndarr) : Z := zlen (nd_shape a).          (* a.ndim, len(a.shape) *)
Definition nd_size (a : ndarr) : Z := zprod (nd_shape a).         (* a.size *)
Definition nd_is_integer (a : ndarr) : bool := match nd_kind a with DInt => true | _ => false end.   (* issubclass(a.dtype.type, np.integer) *)
Definition num_finite (x : npnum) : bool := match x with NFin _ => true | _ => false end.
Definition num_gt (c : Z) (x : npnum) : bool := match x with NFin z => z >? c | NPosInf => true | _ => false end.
Definition num_ge (c : Z) (x : npnum) : bool := match x with NFin z => z >=? c | NPosInf => true | _ => false end.
Definition nd_isfinite (a : ndarr) : ndbool := mkndb (nd_shape a) (map num_finite (nd_data a)).       (* np.isfinite(a) *)
Definition nd_gt_s (a : ndarr) (c : Z) : ndbool := mkndb (nd_shape a) (map (num_gt c) (nd_data a)).   (* a > c *)
Definition nd_ge_s (a : ndarr) (c : Z) : ndbool := mkndb (nd_shape a) (map (num_ge c) (nd_data a)).   (* a >= c *)
(* b.all() *)
Definition ndb_all (b : ndbool) : bool := np_all (ndb_data b).
(* the Python builtin all(b) iterates over the first axis: well defined on 1-d arrays (rows of a 2-d array have an
   ambiguous truth value, a 0-d array is not iterable) *)
Definition ndb_iter_ok (b : ndbool) : bool := zlen (ndb_shape b) =? 1.

(* ---- indexing keys as get_index_variant sees them ---- *)

Inductive pyelem := EInt (k : Z) | EList (l : vec).
Inductive pykey := KInt (k : Z) | KSlice (s : pyslice) | KArr (a : ndarr) | KTuple (l : list pyelem)
                 | KList (l : list pyelem) | KNone.
Definition key_is_int (x : pykey) : bool := match x with KInt _ => true | _ => false end.
Definition key_is_slice (x : pykey) : bool := match x with KSlice _ => true | _ => false end.
Definition key_is_arr (x : pykey) : bool := match x with KArr _ => true | _ => false end.
Definition key_is_tuple (x : pykey) : bool := match x with KTuple _ => true | _ => false end.
Definition key_is_list (x : pykey) : bool := match x with KList _ => true | _ => false end.
Definition key_is_seq (x : pykey) : bool := match x with KTuple _ | KList _ => true | _ => false end.   (* isinstance(x, Sequence) *)
Definition key_elems (x : pykey) : list pyelem := match x with KTuple l | KList l => l | _ => [] end.
Definition key_idx_ok (x : pykey) (i : Z) : bool := key_is_seq x && idx_ok (key_elems x) i.
Definition key_nth (x : pykey) (i : Z) : pyelem := znth (EInt 0) (key_elems x) i.
Definition elem_is_int (e : pyelem) : bool := match e with EInt _ => true | _ => false end.
Definition elem_is_list (e : pyelem) : bool := match e with EList _ => true | _ => false end.
(* np.array(x) for a list / tuple x: all ints -> 1-d; all lists of one common length -> 2-d; anything else is
   inhomogeneous (ValueError).  Only the shape and kind of the result are modelled. *)
Definition elems_all_int (l : list pyelem) : bool := forallb elem_is_int l.
Definition elems_rows (l : list pyelem) : option Z :=
  match l with
  | EList r :: l' => if forallb (fun e => match e with EList r' => zlen r' =? zlen r | _ => false end) l'
                     then Some (zlen r) else None
  | _ => None
  end.
Definition key_asarray_ok (x : pykey) : bool :=
  match x with
  | KTuple l | KList l => elems_all_int l || is_some (elems_rows l)
  | _ => false
  end.
Definition key_asarray (x : pykey) : ndarr :=
  let l := key_elems x in
  if elems_all_int l then mknd [zlen l] (match l with [] => DFloat | _ => DInt end) (map (fun e => match e with EInt k => NFin k | _ => NNan end) l)
  else match elems_rows l with
       | Some c => mknd [zlen l; c] (if c =? 0 then DFloat else DInt)
                        (flat_map (fun e => match e with EList r => map NFin r | _ => [] end) l)
       | None => mknd [] DFloat []
       end.

(* ---- pyttb objects handed to helper functions ---- *)

(* sptensor: subs (nnz x N row list), vals, shape *)
Record sptz := mkspt { spt_subs : mat; spt_vals : vec; spt_shape : vec }.
(* t.nnz: 0 when subs is empty, else subs.shape[0] *)
Definition spt_nnz (t : sptz) : Z := if np_size2 (spt_subs t) =? 0 then 0 else np_nrows (spt_subs t).

(* ktensor over Z: weights and factor matrices (row lists) *)
Record ktz := mkkt { kt_weights : vec; kt_factors : list mat }.
(* K.redistribute(mode): factor[mode] *= weights (column-wise), weights = 1; asserts mode in range(ndims) (no wrapping) *)
Definition kt_redistribute_ok (k : ktz) (mode : Z) : bool := (0 <=? mode) && (mode <? zlen (kt_factors k)).
Definition kt_redistribute (k : ktz) (mode : Z) : ktz :=
  mkkt (map (fun _ => 1) (kt_weights k))
       (np_set (kt_factors k) mode (map (fun row => zmap2 Z.mul row (kt_weights k)) (znth [] (kt_factors k) mode))).
(* first argument of mttkrp: a ktensor or a sequence of matrices *)
Inductive kt_or_seq := UKt (k : ktz) | USeq (l : list mat).
Definition u_is_kt (u : kt_or_seq) : bool := match u with UKt _ => true | _ => false end.
Definition u_is_seq (u : kt_or_seq) : bool := match u with USeq _ => true | _ => false end.
