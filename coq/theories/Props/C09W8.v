(* Props/C09W8.v — C09, wave 8: ONE theorem for the WHOLE cp_als = generated prologue (Gen/GenCpAlsPre.v, w5-skel) ; generated main
   (Gen/GenCpAls.v, w4-skel), both regenerated from /repo/pyttb/cp_als.py on every run.  `cp_als_whole` (Proofs/C09W8Whole.v) starts the
   generated main on exactly what the generated prologue hands over (N, normX, dimorder, optdims, the guess) — C09_whole_is_composition.
   For every request: rejected exactly on the prologue's checks (C09_whole_accepts_iff spells them out; the main itself never raises on
   a guess with N factor matrices and a non-empty in-range update order, C09_whole_main_total); otherwise what C09_gen_print_report /
   C09_gen_silent_residual (Props/C09e.v) describe, started from the guess the prologue produced (ktensor kept, "random" through the
   world, nvecs per mode), and returned guess = guess used.  Only statements, `exact`, Print Assumptions and non-vacuity examples. *)
From Coq Require Import String List Arith Bool ZArith Ring.
From PV Require Import Base.Index Base.Sum Np.Array Model.Sparse Model.Repr Model.W4SPrelude Gen.GenCpAlsPre Gen.GenCpAls Model.C09Als Model.C02Spec
  Proofs.W4SCpAlsPre Proofs.W4SCpAls Proofs.C09Norm Proofs.C09Inner Proofs.C09GenReport Proofs.C09GenSweep Proofs.C09Monotone Proofs.C09Holders
  Proofs.C09GenSaved Proofs.C09GenSilent Proofs.C09W8Whole Proofs.C09W8Silent.
Import ListNotations.

Section C09W8.
Variables T_W T_F T_Mat T_UtU T_Wt T_K T_X : Type.
Variable k_ndims : T_X -> nat.
Variable k_norm : T_X -> T_F.
Variable k_not_permutation : nat -> list nat -> bool.
Variable k_optdims_invalid : list nat -> nat -> bool.
Variable k_init_is_ktensor : T_K -> bool.
Variable k_init_ndims : T_K -> nat.
Variable k_init_ncomponents : T_K -> nat.
Variable k_init_factor_misshaped : T_K -> nat -> T_X -> nat -> bool.
Variable k_init_is_str : T_K -> bool.
Variable k_init_names_random : T_K -> bool.
Variable k_append_random_factor : T_W -> list T_Mat -> T_X -> nat -> nat -> T_W * list T_Mat.
Variable k_ktensor_of_factors : list T_Mat -> T_K.
Variable k_init_names_nvecs : T_K -> bool.
Variable k_is_sumtensor : T_X -> bool.
Variable k_nvecs : T_X -> nat -> nat -> T_Mat.
Variable c_leF : T_F -> T_F -> bool.
Variable c_zeroF : T_F.
Variable k_init_factors : T_K -> list T_Mat.
Variable k_restrict_dims : list nat -> list nat -> list nat.
Variable k_zeros_mttkrp : T_X -> list nat -> nat -> T_Mat.
Variable k_zeros_utu : nat -> nat -> T_UtU.
Variable k_set_gram : T_UtU -> nat -> list T_Mat -> T_UtU.
Variable k_ktensor_init : list T_Mat -> T_K -> T_K.
Variable k_innerprod : T_X -> T_K -> T_F.
Variable k_is_zero : T_F -> bool.
Variable k_resid0 : T_K -> T_F -> T_F.
Variable k_resid : T_F -> T_K -> T_F -> T_F.
Variable k_fit : T_F -> T_F -> T_F.
Variable k_mttkrp : T_X -> list T_Mat -> nat -> T_Mat.
Variable k_hadamard_others : T_UtU -> nat -> nat -> T_Mat.
Variable k_all_zero_mat : T_Mat -> bool.
Variable k_zeros_like : T_Mat -> T_Mat.
Variable k_solve : T_Mat -> T_Mat -> T_Mat.
Variable k_norm2_cols : T_Mat -> T_Wt.
Variable k_normmax_cols : T_Mat -> T_Wt.
Variable k_all_zero_wt : T_Wt -> bool.
Variable k_scale_cols : T_Mat -> T_Wt -> T_Mat.
Variable k_ktensor : list T_Mat -> T_Wt -> T_K.
Variable k_iprod : T_K -> list nat -> T_Mat -> T_Wt -> T_F.
Variable k_absdiff : T_F -> T_F -> T_F.
Variable k_arrange : T_K -> T_K.
Variable k_fixsigns : T_K -> T_K.

Notation gpre := (GenCpAlsPre.cp_als_prologue T_W T_F T_Mat T_K T_X k_ndims k_norm k_not_permutation k_optdims_invalid k_init_is_ktensor k_init_ndims k_init_ncomponents k_init_factor_misshaped
  k_init_is_str k_init_names_random k_append_random_factor k_ktensor_of_factors k_init_names_nvecs k_is_sumtensor k_nvecs).
Notation gmain := (GenCpAls.cp_als_main T_F T_Mat T_UtU T_Wt T_K T_X c_leF c_zeroF k_init_factors k_restrict_dims k_zeros_mttkrp k_zeros_utu
  k_set_gram k_ktensor_init k_innerprod k_is_zero k_resid0 k_resid k_fit k_mttkrp k_hadamard_others k_all_zero_mat k_zeros_like k_solve
  k_norm2_cols k_normmax_cols k_all_zero_wt k_scale_cols k_ktensor k_iprod k_absdiff k_arrange k_fixsigns).
Notation whole := (cp_als_whole T_W T_F T_Mat T_UtU T_Wt T_K T_X k_ndims k_norm k_not_permutation k_optdims_invalid k_init_is_ktensor k_init_ndims k_init_ncomponents k_init_factor_misshaped
  k_init_is_str k_init_names_random k_append_random_factor k_ktensor_of_factors k_init_names_nvecs k_is_sumtensor k_nvecs
  c_leF c_zeroF k_init_factors k_restrict_dims k_zeros_mttkrp k_zeros_utu
  k_set_gram k_ktensor_init k_innerprod k_is_zero k_resid0 k_resid k_fit k_mttkrp k_hadamard_others k_all_zero_mat k_zeros_like k_solve
  k_norm2_cols k_normmax_cols k_all_zero_wt k_scale_cols k_ktensor k_iprod k_absdiff k_arrange k_fixsigns).
Notation okb := (pre_okb T_K T_X k_ndims k_not_permutation k_optdims_invalid k_init_is_ktensor k_init_ndims
  k_init_ncomponents k_init_factor_misshaped k_init_is_str k_init_names_random k_init_names_nvecs k_is_sumtensor).
Notation order := (pre_order T_X k_ndims).

(* the object of this file: the generated main run on the generated prologue's products, with the caller's remaining arguments *)
Theorem C09_whole_is_composition : forall w X rank stoptol maxiters dimorder optdims init printitn fixsigns,
  whole w X rank stoptol maxiters dimorder optdims init printitn fixsigns
  = match gpre w X rank stoptol maxiters dimorder optdims init printitn fixsigns with
    | None => None
    | Some (N, normX, o, od, init', w') =>
      match gmain X init' normX N rank o od maxiters stoptol printitn fixsigns with
      | None => None
      | Some (M, initret, out) => Some (M, initret, out, w')
      end
    end.
Proof. exact (fun _ _ _ _ _ _ _ _ _ _ => eq_refl). Qed.

(* the prologue's checks, spelled out: the requests the composed function accepts *)
Theorem C09_whole_accepts_iff : forall X rank dimorder optdims init,
  okb X rank dimorder optdims init = true <->
  k_not_permutation (k_ndims X) (order X dimorder) = false /\
  (forall od, optdims = Some od -> k_optdims_invalid od (k_ndims X) = false) /\
  0 < rank /\
  (k_init_is_ktensor init = true ->
   k_init_ndims init = k_ndims X /\ k_init_ncomponents init = rank /\
   forall n, In n (order X dimorder) -> k_init_factor_misshaped init n X rank = false) /\
  (k_init_is_ktensor init = false ->
   k_init_is_str init = true /\ (k_init_names_random init = true \/ (k_init_names_nvecs init = true /\ k_is_sumtensor X = false))).
Proof. exact (pre_okb_true_iff T_K T_X k_ndims k_not_permutation k_optdims_invalid k_init_is_ktensor k_init_ndims
  k_init_ncomponents k_init_factor_misshaped k_init_is_str k_init_names_random k_init_names_nvecs k_is_sumtensor). Qed.

(* the generated main never raises when the guess has N factor matrices and the restricted update order is non-empty and in range
   (all kernels arbitrary; every iteration limit, tolerance, printing interval) *)
Theorem C09_whole_main_total : forall X init normX N rank dimorder optdims maxiters stoptol printitn dofix t,
  N = length (k_init_factors init) ->
  sk_last (k_restrict_dims dimorder optdims) = Some t -> (forall x, In x (k_restrict_dims dimorder optdims) -> x < N) ->
  gmain X init normX N rank dimorder optdims maxiters stoptol printitn dofix <> None.
Proof. exact (gmain_total T_F T_Mat T_UtU T_Wt T_K T_X c_leF c_zeroF k_init_factors k_restrict_dims k_zeros_mttkrp k_zeros_utu
  k_set_gram k_ktensor_init k_innerprod k_is_zero k_resid0 k_resid k_fit k_mttkrp k_hadamard_others k_all_zero_mat k_zeros_like k_solve
  k_norm2_cols k_normmax_cols k_all_zero_wt k_scale_cols k_ktensor k_iprod k_absdiff k_arrange k_fixsigns). Qed.

(* printing runs of the whole, all kernels arbitrary: the reported pair is the code's formula pair on innerprod(X, RETURNED model) with
   normX = X.norm() as the prologue computed it *)
Theorem C09_whole_print_report : forall w X rank stoptol maxiters dimorder optdims init printitn fixsigns Mret initret iters nr fit w',
  whole w X rank stoptol maxiters dimorder optdims init printitn fixsigns = Some (Mret, initret, (iters, nr, fit), w') ->
  0 < printitn ->
  (nr, fit) = h_formulas T_F T_K k_is_zero k_resid0 k_resid k_fit (k_norm X) Mret (k_innerprod X Mret).
Proof. exact (whole_print_report T_W T_F T_Mat T_UtU T_Wt T_K T_X k_ndims k_norm k_not_permutation k_optdims_invalid k_init_is_ktensor k_init_ndims k_init_ncomponents k_init_factor_misshaped
  k_init_is_str k_init_names_random k_append_random_factor k_ktensor_of_factors k_init_names_nvecs k_is_sumtensor k_nvecs
  c_leF c_zeroF k_init_factors k_restrict_dims k_zeros_mttkrp k_zeros_utu
  k_set_gram k_ktensor_init k_innerprod k_is_zero k_resid0 k_resid k_fit k_mttkrp k_hadamard_others k_all_zero_mat k_zeros_like k_solve
  k_norm2_cols k_normmax_cols k_all_zero_wt k_scale_cols k_ktensor k_iprod k_absdiff k_arrange k_fixsigns). Qed.
End C09W8.

Section C09W8Ring.
Variable V : Type.
Variables (v0 v1 : V) (vadd vmul vsub : V -> V -> V) (vopp : V -> V).
Hypothesis Vring : ring_theory v0 v1 vadd vmul vsub vopp (@eq V).
Local Notation mx := (@matrix V).
Variables T_W T_X : Type.
Variable R : nat.
(* prologue kernels: arbitrary *)
Variable k_ndims : T_X -> nat.
Variable k_norm : T_X -> V.
Variable k_not_permutation : nat -> list nat -> bool.
Variable k_optdims_invalid : list nat -> nat -> bool.
Variable k_init_is_ktensor : ktensor V -> bool.
Variable k_init_ndims : ktensor V -> nat.
Variable k_init_ncomponents : ktensor V -> nat.
Variable k_init_factor_misshaped : ktensor V -> nat -> T_X -> nat -> bool.
Variable k_init_is_str : ktensor V -> bool.
Variable k_init_names_random : ktensor V -> bool.
Variable k_append_random_factor : T_W -> list mx -> T_X -> nat -> nat -> T_W * list mx.
Variable k_ktensor_of_factors : list mx -> ktensor V.
Variable k_init_names_nvecs : ktensor V -> bool.
Variable k_is_sumtensor : T_X -> bool.
Variable k_nvecs : T_X -> nat -> nat -> mx.
(* main kernels: the holder's mttkrp algorithm; solve / guard / norm / scaling / stop / arrange / fixsigns arbitrary *)
Variable mk : T_X -> list mx -> nat -> mx.
Variable all_zero_mat : mx -> bool.
Variable zeros_like : mx -> mx.
Variable lapack : mx -> mx -> mx.
Variable norm2_cols normmax_cols : mx -> list V.
Variable all_zero_wt : list V -> bool.
Variable scale_cols : mx -> list V -> mx.
Variable c_leF : V -> V -> bool.
Variable c_zeroF : V.
Variable k_init_factors : ktensor V -> list mx.
Variable k_restrict_dims : list nat -> list nat -> list nat.
Variable k_zeros_mttkrp : T_X -> list nat -> nat -> mx.
Variable k_zeros_utu : nat -> nat -> list mx.
Variable k_ktensor_init : list mx -> ktensor V -> ktensor V.
Variable k_innerprod : T_X -> ktensor V -> V.
Variable k_is_zero : V -> bool.
Variable k_fit : V -> V -> V.
Variable k_absdiff : V -> V -> V.
Variable k_arrange : ktensor V -> ktensor V.
Variable k_fixsigns : ktensor V -> ktensor V.


Notation wholeS := (cp_als_whole T_W V mx (list mx) (list V) (ktensor V) T_X
  k_ndims k_norm k_not_permutation k_optdims_invalid k_init_is_ktensor k_init_ndims k_init_ncomponents k_init_factor_misshaped
  k_init_is_str k_init_names_random k_append_random_factor k_ktensor_of_factors k_init_names_nvecs k_is_sumtensor k_nvecs
  c_leF c_zeroF k_init_factors k_restrict_dims k_zeros_mttkrp k_zeros_utu (g_set_gram V) k_ktensor_init k_innerprod k_is_zero
  (kq_resid0 V v0 vadd vmul vsub) (kq_resid V v0 vadd vmul vsub)
  k_fit mk (g_hadamard_others V v0 v1 vadd vmul R) all_zero_mat zeros_like lapack norm2_cols normmax_cols all_zero_wt scale_cols
  (kq_ktensor V) (kq_iprod V v0 vadd vmul) k_absdiff k_arrange k_fixsigns).
Notation guessS := (pre_guess T_W mx (ktensor V) T_X k_ndims k_init_is_ktensor k_init_is_str k_init_names_random
  k_append_random_factor k_ktensor_of_factors k_nvecs).
Notation okS := (pre_okb (ktensor V) T_X k_ndims k_not_permutation k_optdims_invalid k_init_is_ktensor k_init_ndims
  k_init_ncomponents k_init_factor_misshaped k_init_is_str k_init_names_random k_init_names_nvecs k_is_sumtensor).

(* THE theorem.  The composed generated functions, with M := ktensor(U, weights), iprod from the saved MTTKRP, the value under the square
   root := normX^2 + M.norm()^2 - 2 iprod, Gram slabs / Hadamard product as coded, the holder's own mttkrp algorithm; every check / type
   test / random / nvecs kernel of the prologue and every solve / guard / norm / scaling / stop-rule / arrange / fixsigns kernel of the main
   ARBITRARY.  For every request (w = the random world before the call):
   (1) it is rejected exactly when one of the prologue's checks fails (given that the guess g has N factor matrices and the restricted
       update order is non-empty and in range, which is all the main needs not to raise);
   (2) the guess g: a ktensor is kept as it is and no random number is drawn; "random" = N draws through the world, mode 0 first;
       otherwise ("nvecs") one nvecs call per mode 0 .. N-1 in order, no random number;
   (3) whenever it returns (Mret, initret, {iters, normresidual^2 = nr, fit}) and the world w': the request passed the checks, the
       returned guess IS g (the guess the main was started from) and w' is the world after producing g; when printing, (nr, fit) is the
       code's formula pair on innerprod(X, Mret) of the RETURNED model; when silent with maxiters > 0 and ||X|| not reported as zero, nr is
       ||X - M'||^2 of the model M' built by the last executed sweep of the hand model's iteration STARTED FROM g's factors, fit is the
       code's formula of it, Mret = arrange / fixsigns of M', iters < maxiters (shape hypotheses only, as in C09_gen_silent_residual). *)
Theorem C09_cp_als_whole : forall w (X : T_X) rank stoptol maxiters dimorder optdims init printitn dofix,
  let cs := code_solve V all_zero_mat zeros_like lapack in
  let cc := code_scale V norm2_cols normmax_cols all_zero_wt scale_cols in
  let g := fst (guessS w X rank init) in
  let w1 := snd (guessS w X rank init) in
  let N := k_ndims X in
  let dims := k_restrict_dims (match dimorder with None => seq 0 N | Some o => o end) (match optdims with None => seq 0 N | Some od => od end) in
  (forall t, (okS X rank dimorder optdims init = true ->
              N = length (k_init_factors g) /\ sk_last dims = Some t /\ forall x, In x dims -> x < N) ->
     (wholeS w X rank stoptol maxiters dimorder optdims init printitn dofix = None <-> okS X rank dimorder optdims init = false)) /\
  ((k_init_is_ktensor init = true -> g = init /\ w1 = w) /\
   (k_init_is_ktensor init = false -> k_init_is_str init = true -> k_init_names_random init = true ->
    g = k_ktensor_of_factors (snd (h_random T_W mx T_X k_append_random_factor w [] X rank N 0)) /\
    w1 = fst (h_random T_W mx T_X k_append_random_factor w [] X rank N 0)) /\
   (k_init_is_ktensor init = false -> k_init_names_random init = false ->
    g = k_ktensor_of_factors (map (fun n => k_nvecs X n rank) (seq 0 N)) /\ w1 = w)) /\
  (forall Mret initret iters nr fit w',
     wholeS w X rank stoptol maxiters dimorder optdims init printitn dofix = Some (Mret, initret, (iters, nr, fit), w') ->
     okS X rank dimorder optdims init = true /\ initret = g /\ w' = w1 /\
     (0 < printitn ->
      (nr, fit) = h_formulas V (ktensor V) k_is_zero (kq_resid0 V v0 vadd vmul vsub) (kq_resid V v0 vadd vmul vsub) k_fit
                    (k_norm X) Mret (k_innerprod X Mret)) /\
     (printitn = 0 -> 0 < maxiters -> k_is_zero (k_norm X) = false ->
      forall (s : shape) (Xd : idx -> V) (good : list mx -> nat -> Prop) (n : nat),
      (let U0 := k_init_factors g in
       N = length U0 /\ length (k_zeros_utu rank N) = N /\
       sk_last dims = Some n /\ (forall x, In x dims -> x < length U0) /\
       holder_ok V v0 v1 vadd vmul R s Xd (mk X) good /\
       let stk := als_iter v0 v1 vadd vmul (mk X) cs cc R iters dims (mkAls [] U0 (k_zeros_mttkrp X dims rank)) in
       let stb := als_sweep v0 v1 vadd vmul (mk X) cs cc R iters (removelast dims) stk in
       st_wf V R s stb /\ n < length s /\ good (st_U stb) n /\
       let st' := als_sweep v0 v1 vadd vmul (mk X) cs cc R iters dims stk in
       length (st_w st') = R /\ nrows (nth n (st_U st') []) = nth n s 0 /\
       k_norm X = normsq_den v0 vadd vmul s Xd) ->
      let stk := als_iter v0 v1 vadd vmul (mk X) cs cc R iters dims (mkAls [] (k_init_factors g) (k_zeros_mttkrp X dims rank)) in
      let st' := als_sweep v0 v1 vadd vmul (mk X) cs cc R iters dims stk in
      nr = resid_den v0 vadd vmul vsub s Xd (den_k v0 v1 vadd vmul (st_model st')) /\
      fit = k_fit nr (k_norm X) /\
      Mret = (if dofix then k_fixsigns else @id (ktensor V)) (k_arrange (st_model st')) /\
      iters < maxiters)).
Proof. exact (whole_cp_als V v0 v1 vadd vmul vsub vopp Vring T_W T_X R k_ndims k_norm k_not_permutation k_optdims_invalid k_init_is_ktensor k_init_ndims k_init_ncomponents k_init_factor_misshaped
  k_init_is_str k_init_names_random k_append_random_factor k_ktensor_of_factors k_init_names_nvecs k_is_sumtensor k_nvecs
  mk all_zero_mat zeros_like lapack norm2_cols normmax_cols all_zero_wt scale_cols c_leF c_zeroF k_init_factors k_restrict_dims
  k_zeros_mttkrp k_zeros_utu k_ktensor_init k_innerprod k_is_zero k_fit k_absdiff k_arrange k_fixsigns). Qed.
End C09W8Ring.

Print Assumptions C09_cp_als_whole.
Print Assumptions C09_whole_is_composition.
Print Assumptions C09_whole_accepts_iff.
Print Assumptions C09_whole_main_total.
Print Assumptions C09_whole_print_report.

(* non-vacuity: the composed generated functions over Z on the dense 2 x 2 holder of C09_gen_silent_example (tensor.mttkrp's algorithm, a
   "solve" that is not a solver, unit scaling, silent, two iterations, dimorder [1; 0], optdims defaulted by the prologue).  A guess object
   with factor matrices counts as a ktensor; one without names a method: weights [] = "random", [0] = "nvecs", anything else unknown.
   The world is a counter of random draws. *)
Local Open Scope Z_scope.
Definition ex_whole (w : nat) (rank : nat) (dimorder optdims : option (list nat)) (init : ktensor Z) (printitn : nat) :=
  cp_als_whole nat Z (@matrix Z) (list (@matrix Z)) (list Z) (ktensor Z) (dense Z)
    (fun _ => 2%nat) (fun _ => 30) (fun N o => negb (length o =? N)%nat) (fun od N => negb (forallb (fun x => x <? N)%nat od))
    (fun K => negb (length (kfactors K) =? 0)%nat) (fun K => length (kfactors K)) (fun K => length (kweights K))
    (fun K n _ r => negb (length (nth 0 (nth n (kfactors K) []) []) =? r)%nat)
    (fun K => (length (kfactors K) =? 0)%nat) (fun K => (length (kweights K) =? 0)%nat)
    (fun w fm _ n _ => (S w, fm ++ [[[Z.of_nat w + 1]; [2]]])) (fun fm => mkK [1] fm)
    (fun K => match kweights K with [0] => true | _ => false end) (fun _ => false) (fun _ n _ => [[Z.of_nat n + 5]; [1]])
    Z.leb 0 (fun K => kfactors K) (fun d _ => d) (fun _ _ _ => []) (fun _ N => repeat [] N) (g_set_gram Z) (fun U K => mkK (kweights K) U)
    (fun _ _ => 0) (Z.eqb 0) (kq_resid0 Z 0 Z.add Z.mul Z.sub) (kq_resid Z 0 Z.add Z.mul Z.sub) (fun nr nx => nx - nr)
    (fun X U n => mk_dense Z 0 Z.add Z.mul 1 X U n) (g_hadamard_others Z 0 1 Z.add Z.mul 1)
    (fun _ => false) (fun P => P) (fun Y P => map (map (Z.add (mget 0 Y 0%nat 0%nat))) P) (fun _ => [1]) (fun _ => [1]) (fun _ => false)
    (fun A _ => A) (kq_ktensor Z) (kq_iprod Z 0 Z.add Z.mul) (fun a b => Z.abs (a - b)) (fun K => K) (fun K => K)
    w (mkDense [2; 2]%nat [1; 2; 3; 4]) rank 0 2%nat dimorder optdims init printitn false.

(* a ktensor guess: kept, returned, no draw; the reported value is ||X - M||^2 of the returned model *)
Example C09_whole_ktensor_example :
  let X := mkDense [2; 2]%nat [1; 2; 3; 4] in
  let init := mkK [1] [[[1]; [2]]; [[3]; [-1]]] in
  match ex_whole 7 1 (Some [1; 0]%nat) None init 0 with
  | Some (M, i, (iters, nr, fit), w') =>
      iters = 1%nat /\ i = init /\ w' = 7%nat /\
      nr = resid_den 0 Z.add Z.mul Z.sub [2; 2]%nat (den_dense 0 X) (den_k 0 1 Z.add Z.mul M) /\ fit = 30 - nr
  | None => False
  end.
Proof. vm_compute. repeat split; reflexivity. Qed.

(* "random": two draws through the world (7 -> 9), the returned guess is the drawn one; "nvecs": one call per mode, no draw *)
Example C09_whole_random_nvecs_example :
  let X := mkDense [2; 2]%nat [1; 2; 3; 4] in
  match ex_whole 7 1 None None (mkK [] []) 0, ex_whole 7 1 None (Some [0; 1]%nat) (mkK [0] []) 1 with
  | Some (M, i, (iters, nr, fit), w'), Some (M2, i2, (_, nr2, _), w2) =>
      i = mkK [1] [[[8]; [2]]; [[9]; [2]]] /\ w' = 9%nat /\
      nr = resid_den 0 Z.add Z.mul Z.sub [2; 2]%nat (den_dense 0 X) (den_k 0 1 Z.add Z.mul M) /\
      i2 = mkK [1] [[[5]; [1]]; [[6]; [1]]] /\ w2 = 7%nat
  | _, _ => False
  end.
Proof. vm_compute. repeat split; reflexivity. Qed.

(* rejected requests: rank 0; dimorder not a permutation; optdims out of range; a guess of the wrong rank / with a misshaped factor;
   an unknown method name *)
Example C09_whole_rejects_example :
  let init := mkK [1] [[[1]; [2]]; [[3]; [-1]]] in
  ex_whole 7 0 None None init 0 = None /\
  ex_whole 7 1 (Some [0]%nat) None init 0 = None /\
  ex_whole 7 1 None (Some [0; 2]%nat) init 0 = None /\
  ex_whole 7 2 None None init 0 = None /\
  ex_whole 7 1 None None (mkK [1] [[[1; 1]; [2; 2]]; [[3]; [-1]]]) 0 = None /\
  ex_whole 7 1 None None (mkK [5] []) 0 = None.
Proof. vm_compute. repeat split; reflexivity. Qed.
