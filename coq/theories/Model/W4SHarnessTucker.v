(* Model/W4SHarnessTucker.v — REPLAY instantiation of the generated control-flow skeleton Gen/GenTuckerAls.v: the Section
   parameters (numeric kernels) are look-ups in the oracle answers RECORDED from a real pyttb run; models are tokens (counters).
   Used by the differential stream tools/props/w4s.py (vm_compute) + one concrete run (non-vacuity). *)
From Coq Require Import String List Arith Bool ZArith.
From PV Require Import Model.W4SPrelude Gen.GenTuckerAls Model.W4SHarnessBase.
Import ListNotations.
Local Open Scope nat_scope.

(* ------------------------------------------------------------------------------------------------ tucker_als main part *)
(* factor token = number of updates of that factor; Utilde / core token = the token of factor n (number of sweeps done);
   resids = residual norm after sweep j (j >= 1 at index j - 1), fits = the fit belonging to a residual norm *)
Definition zsk_tucker (resids : list Z) (fits : list (Z * Z)) (d : nat) (dimorder : list nat) (maxiters : nat) (stoptol : Z) :=
  GenTuckerAls.tucker_als_main Z nat nat nat Z.leb 0%Z
    (fun _ U n _ => nth n U 0) (fun Ut _ _ => S Ut) (fun _ U n _ => nth n U 0) (fun _ core => nth (core - 1) resids 0%Z)
    (fun r _ => assoc Z.eqb r fits 0%Z) (fun a b => Z.abs (a - b)) (fun core _ _ => core)
    0 (repeat 0 d) 1%Z (repeat 1 d) dimorder maxiters stoptol 0.

Definition zsk_tucker_ok (resids : list Z) (fits : list (Z * Z)) (d : nat) (dimorder : list nat) (maxiters : nat) (stoptol : Z)
           (iters_obs : nat) (res_obs fit_obs : Z) : bool :=
  match zsk_tucker resids fits d dimorder maxiters stoptol with
  | None => false
  | Some (sol, _, (iters, nr, fit)) => (iters =? iters_obs) && Z.eqb nr res_obs && Z.eqb fit fit_obs && (sol =? S iters)
  end.
Definition zsk_tucker_raises (d : nat) (dimorder : list nat) (maxiters : nat) : bool :=
  match zsk_tucker [] [] d dimorder maxiters 0%Z with None => true | Some _ => false end.

(* non-vacuity: a concrete run of the generated function (the hypothesis `... = Some r` of the theorems is satisfiable) *)
Example zsk_tucker_example :
  zsk_tucker [40; 21; 10; 6]%Z [(40, 60); (21, 79); (10, 90); (6, 94)]%Z 3 [2; 0; 1] 10 5%Z = Some (4, [0; 0; 0], (3, 6%Z, 94%Z)) /\
  zsk_tucker [] [] 3 [2; 0; 1] 0 5%Z = None.          (* maxiters = 0: `core` is unbound (finding C10-N01) *)
Proof. split; vm_compute; reflexivity. Qed.
