(* Proofs/C19Ttv.v — tensor.ttv / tensor.ttm over the GENERATED tt_dimscheck: guard = decide pre for every request
   (explicit modes, excluded modes, default), now that the helper itself refuses repeated and out-of-range modes. *)
From Coq Require Import List ZArith Bool Lia Permutation Sorted.
From PV Require Import Np.NpZ Gen.GenUtils Proofs.NpZProofs Proofs.UtilsProofs Model.C19Guards Proofs.C19Proofs.
Import ListNotations.
Local Open Scope Z_scope.

Theorem tensor_ttv_rejects_out_of_range s vlens d x :
  In x d -> ndim s <= x -> guard_tensor_ttv s vlens (Some d) None = Err.
Proof. intros. eapply is_err_ttv_of_dimscheck, dimscheck_rejects_out_of_range; eauto. Qed.

(* ---------------------------------------------------------------------------------------- *)
(* list facts                                                                                 *)
(* ---------------------------------------------------------------------------------------- *)
Lemma filter_partition {A} (f : A -> bool) l : Permutation (filter (fun x => negb (f x)) l ++ filter f l) l.
Proof.
  induction l as [|x l IH]; [constructor|]. cbn. destruct (f x); cbn.
  - apply Permutation_sym. apply Permutation_cons_app. now apply Permutation_sym.
  - now constructor.
Qed.

Lemma modes_ok_spec N d : modes_ok N d = true <-> (forall x, In x d -> 0 <= x < N) /\ NoDup d.
Proof.
  unfold modes_ok. rewrite andb_true_iff, forallb_forall, nodupb_spec. split; intros [H1 H2]; split; auto.
  - intros x Hx. specialize (H1 x Hx). unfold in_range in H1. apply andb_true_iff in H1 as [A B].
    apply Z.leb_le in A. apply Z.ltb_lt in B. lia.
  - intros x Hx. specialize (H1 x Hx). unfold in_range. apply andb_true_iff. split; [apply Z.leb_le|apply Z.ltb_lt]; lia.
Qed.

Lemma modes_ok_perm N d d' : Permutation d d' -> modes_ok N d = modes_ok N d'.
Proof.
  intros H. apply eq_iff_eq_true. rewrite !modes_ok_spec. split; intros [A B]; split.
  - intros x Hx. apply A. eapply Permutation_in; [apply Permutation_sym|]; eauto.
  - eapply Permutation_NoDup; eauto.
  - intros x Hx. apply A. eapply Permutation_in; eauto.
  - eapply Permutation_NoDup; [apply Permutation_sym|]; eauto.
Qed.

Lemma complement_app_perm N e : modes_ok N e = true -> Permutation (complement N e ++ e) (np_arange 0 N).
Proof.
  intros H. apply modes_ok_spec in H as [Hr Hn].
  eapply Permutation_trans; [|apply (filter_partition (fun x => zmem x e))].
  apply Permutation_app_head. apply NoDup_Permutation; auto.
  - apply NoDup_filter, np_arange_NoDup.
  - intros x. rewrite filter_In, zmem_spec, in_np_arange. split; [intros Hx; split; auto|tauto].
Qed.

Lemma modes_ok_length N d : 0 <= N -> modes_ok N d = true -> zlen d <= N.
Proof.
  intros HN H. apply modes_ok_spec in H as [Hr Hn].
  assert (L : (length d <= length (np_arange 0 N))%nat).
  { apply NoDup_incl_length; auto. intros x Hx. apply in_np_arange. auto. }
  pose proof (np_arange_length 0 N) as E. unfold zlen in *. lia.
Qed.

Lemma is_permb_complement N e : 0 <= N -> modes_ok N e = true -> is_permb N (complement N e ++ e) = true.
Proof. intros HN H. apply Permutation_is_permb; auto. now apply complement_app_perm. Qed.

Lemma modes_ok_complement N e : modes_ok N (complement N e) = true.
Proof.
  apply modes_ok_spec. split; [apply complement_range|]. apply strict_sorted_nodup, complement_sorted.
Qed.

Lemma isin_arange_forallb N e : np_all (np_isin e (np_arange 0 N)) = forallb (in_range N) e.
Proof.
  apply eq_iff_eq_true. rewrite np_all_isin, forallb_forall. split; intros H x Hx; specialize (H x Hx).
  - apply in_np_arange in H. unfold in_range. apply andb_true_iff. split; [apply Z.leb_le|apply Z.ltb_lt]; lia.
  - apply in_np_arange. unfold in_range in H. apply andb_true_iff in H as [A B]. apply Z.leb_le in A. apply Z.ltb_lt in B. lia.
Qed.

Lemma np_arange_iota n : np_arange 0 (Z.of_nat n) = map Z.of_nat (seq 0 n).
Proof. unfold np_arange. rewrite Z.sub_0_r, Nat2Z.id. apply map_ext. intros; lia. Qed.

Lemma combine_map_swap {A B} (L : list (A * B)) : combine (map snd L) (map fst L) = map (fun p => (snd p, fst p)) L.
Proof. induction L as [|[a b] L IH]; [reflexivity|]. cbn. now rewrite IH. Qed.

Lemma combine_swap {A B} (l : list A) (l' : list B) : map (fun p => (snd p, fst p)) (combine l l') = combine l' l.
Proof. revert l'. induction l as [|a l IH]; intros [|b l']; cbn; try reflexivity. now rewrite IH. Qed.

(* the (multiplicand, mode) pairs tt_dimscheck hands out are the caller's pairs, reordered *)
Lemma argsort_pairs_perm d : Permutation (combine (np_argsort d) (np_sort d)) (enum d).
Proof.
  unfold np_argsort, np_sort, enum. rewrite combine_map_swap.
  unfold zlen. rewrite np_arange_iota.
  rewrite <- (combine_swap d (map Z.of_nat (seq 0 (length d)))). apply Permutation_map. apply isort_pairs_perm.
Qed.

Lemma combine_diag {A} (l : list A) : combine l l = map (fun x => (x, x)) l.
Proof. induction l as [|x l IH]; [reflexivity|]. cbn. now rewrite IH. Qed.

Lemma in_enum d k m : In (k, m) (enum d) -> 0 <= k < zlen d /\ In m d.
Proof.
  unfold enum. intros H. split; [|eapply in_combine_r; eauto].
  apply in_combine_l in H. apply in_np_arange in H. lia.
Qed.

Lemma forallb_map {A B} (f : B -> bool) (g : A -> B) l : forallb f (map g l) = forallb (fun x => f (g x)) l.
Proof. induction l as [|x l IH]; [reflexivity|]. cbn. now rewrite IH. Qed.

(* alignment of the per-multiplicand checks: what the code tests on (vidx[i], sdims[i]) is what the precondition
   demands of the caller's (position, mode) pairs *)
Lemma mults_align s (N M : Z) d (g f : Z -> Z -> bool) vidx :
  (forall x, In x d -> 0 <= x < N) -> (M = zlen d \/ M = N) ->
  (forall v m, 0 <= v < M -> 0 <= m < N -> g v m = f v m) ->
  vidx_of N (Some M) d = Some vidx ->
  forallb (fun vd => g (fst vd) (snd vd)) (combine vidx (np_sort d)) = pre_mults s M d f.
Proof.
  intros Hr HM Hgf Hv. unfold vidx_of in Hv. unfold pre_mults, mult_of.
  destruct (Z.eqb_spec (zlen d) M) as [E|E]; inversion Hv; subst vidx; clear Hv.
  - rewrite (forallb_perm _ _ _ (argsort_pairs_perm d)). apply forallb_ext_in. intros [k m] Hkm. cbn [fst snd].
    apply in_enum in Hkm as [Hk Hm]. apply Hgf; [lia|auto].
  - destruct HM as [HM|HM]; [congruence|]. rewrite combine_diag, forallb_map. cbn [fst snd].
    rewrite (forallb_perm _ _ _ (np_sort_perm d)).
    unfold enum. rewrite <- (map_snd_combine (np_arange 0 (zlen d)) d) at 1.
    + rewrite forallb_map. apply forallb_ext_in. intros [k m] Hkm. cbn [fst snd].
      apply in_combine_r in Hkm. specialize (Hr m Hkm). apply Hgf; lia.
    + pose proof (np_arange_length 0 (zlen d)) as L. unfold zlen in *. lia.
Qed.

(* ---------------------------------------------------------------------------------------- *)
(* the generated helper, seen from its callers                                                *)
(* ---------------------------------------------------------------------------------------- *)
Lemma dimscheck_exclude_as_dims N M e :
  tt_dimscheck N M None (Some e) =
  if forallb (in_range N) e then tt_dimscheck N M (Some (complement N e)) None else Err.
Proof.
  rewrite !tt_dimscheck_bridge. unfold H_dimscheck, H_dims. rewrite isin_arange_forallb.
  destruct (forallb (in_range N) e); [|reflexivity]. now rewrite setdiff_arange.
Qed.

Lemma dimscheck_default_as_dims N M : tt_dimscheck N M None None = tt_dimscheck N M (Some (np_arange 0 N)) None.
Proof. now rewrite !tt_dimscheck_bridge. Qed.

Lemma modes_ok_arange N : modes_ok N (np_arange 0 N) = true.
Proof.
  apply modes_ok_spec. split; [intros x Hx; now apply in_np_arange|]. apply np_arange_NoDup.
Qed.

(* outcome of the helper on an explicit list, as a boolean case analysis *)
Lemma dimscheck_some_cases N M d : 0 <= N ->
  tt_dimscheck N (Some M) (Some d) None =
  if modes_ok N d && pre_count N M (zlen d)
  then Ok (np_sort d, vidx_of N (Some M) d) else Err.
Proof.
  intros HN. destruct (modes_ok N d) eqn:Hm; cbn [andb].
  - pose proof (modes_ok_length N d HN Hm) as HP. apply modes_ok_spec in Hm as [Hr Hn].
    unfold pre_count. destruct (Z.eqb_spec M (zlen d)) as [E|E]; cbn [orb].
    + apply dimscheck_dims. repeat split; auto; try apply Hr; auto; lia.
    + destruct (Z.eqb_spec M N) as [E'|E'].
      * apply dimscheck_dims. repeat split; auto; try apply Hr; auto; lia.
      * apply dimscheck_rejects_count; auto.
  - now apply dimscheck_rejects_bad_modes.
Qed.

Lemma vidx_of_some N M d : exists v, vidx_of N (Some M) d = Some v.
Proof. unfold vidx_of. destruct (zlen d =? M); eauto. Qed.

(* ---------------------------------------------------------------------------------------- *)
(* tensor.ttv                                                                                 *)
(* ---------------------------------------------------------------------------------------- *)
Lemma ndim_nonneg s : 0 <= ndim s.
Proof. unfold ndim, zlen. lia. Qed.

Lemma ttv_tail_ok s d : modes_ok (ndim s) d = true ->
  (if 1 <? ndim s then chk (np_transpose_ok (ndim s) (np_setdiff (ndim s) (np_sort d) ++ np_sort d))
   else chk ((zlen (np_sort d) <=? 1) || (sz s 0 =? 1))) = Ok tt.
Proof.
  intros Hm. pose proof (ndim_nonneg s) as HN.
  assert (Hs : modes_ok (ndim s) (np_sort d) = true) by (now rewrite (modes_ok_perm _ _ _ (np_sort_perm d))).
  destruct (Z.ltb_spec 1 (ndim s)).
  - unfold np_setdiff. rewrite setdiff_arange. fold (complement (ndim s) (np_sort d)).
    rewrite np_transpose_ok_nonneg.
    + now rewrite is_permb_complement.
    + intros x Hx. apply in_app_or in Hx as [Hx|Hx]; [eapply complement_nonneg; eauto|].
      apply modes_ok_spec in Hs as [Hr _]. specialize (Hr x Hx). lia.
  - pose proof (modes_ok_length _ _ HN Hs). destruct (Z.leb_spec (zlen (np_sort d)) 1); [reflexivity|lia].
Qed.

Lemma modes_ok_sort N d : modes_ok N (np_sort d) = modes_ok N d.
Proof. apply modes_ok_perm, np_sort_perm. Qed.

Section TtvWith.
  Variable s : vec.
  Variable tail : vec -> res unit.
  Hypothesis tail_ok : forall sd, modes_ok (ndim s) sd = true -> tail sd = Ok tt.

  Lemma ttv_with_some_decides vlens d :
    guard_ttv_with tail s vlens (Some d) None = decide (pre_tensor_ttv s vlens (Some d) None).
  Proof.
    pose proof (ndim_nonneg s) as HN.
    unfold guard_ttv_with, pre_tensor_ttv. cbn [sel_modes pre_sel]. rewrite dimscheck_some_cases by auto.
    destruct (modes_ok (ndim s) d) eqn:Hm; cbn [andb]; [|reflexivity].
    destruct (pre_count (ndim s) (zlen vlens) (zlen d)) eqn:Hc; cbn [andb]; [|reflexivity].
    destruct (vidx_of_some (ndim s) (zlen vlens) d) as [vidx Hv]. rewrite Hv.
    rewrite tail_ok by (now rewrite modes_ok_sort). apply decide_by. okb. cbn [is_ok]. rewrite andb_true_r.
    unfold guard_ttv_sizes. okb.
    pose proof (modes_ok_length _ _ HN Hm) as HP. apply modes_ok_spec in Hm as [Hr Hn].
    unfold pre_count in Hc. apply orb_true_iff in Hc. rewrite !Z.eqb_eq in Hc.
    rewrite <- (mults_align s (ndim s) (zlen vlens) d
      (fun v m => is_ok (chk (np_idx_ok (zlen vlens) v) ;; chk (np_idx_ok (ndim s) m) ;;
                         chk (znth (-1) vlens (np_norm (zlen vlens) v) =? szw s m)))
      (fun v m => znth (-1) vlens v =? sz s m) vidx); auto.
    intros v m Hv' Hm'. okb. rewrite !np_idx_ok_nonneg, np_norm_nonneg, szw_nonneg by lia.
    unfold in_range. destruct (Z.leb_spec 0 v), (Z.ltb_spec v (zlen vlens)), (Z.leb_spec 0 m), (Z.ltb_spec m (ndim s)); cbn; try reflexivity; lia.
  Qed.

  Theorem ttv_with_decides vlens dims excl :
    guard_ttv_with tail s vlens dims excl = decide (pre_tensor_ttv s vlens dims excl).
  Proof.
    destruct dims as [d|], excl as [e|].
    - unfold guard_ttv_with. now rewrite dimscheck_rejects_both.
    - apply ttv_with_some_decides.
    - pose proof (ttv_with_some_decides vlens (complement (ndim s) e)) as H.
      unfold guard_ttv_with, pre_tensor_ttv in *. cbn [sel_modes pre_sel] in *.
      rewrite dimscheck_exclude_as_dims. unfold others. fold (complement (ndim s) e).
      rewrite modes_ok_complement in H. cbn [andb] in H.
      destruct (forallb (in_range (ndim s)) e); cbn [andb]; [exact H|reflexivity].
    - pose proof (ttv_with_some_decides vlens (np_arange 0 (ndim s))) as H.
      unfold guard_ttv_with, pre_tensor_ttv in *. cbn [sel_modes pre_sel] in *.
      rewrite dimscheck_default_as_dims. rewrite modes_ok_arange in H. exact H.
  Qed.
End TtvWith.

Lemma tensor_tail_ok s sd : modes_ok (ndim s) sd = true ->
  (if 1 <? ndim s then chk (np_transpose_ok (ndim s) (np_setdiff (ndim s) sd ++ sd))
   else chk ((zlen sd <=? 1) || (sz s 0 =? 1))) = Ok tt.
Proof.
  intros Hs. pose proof (ndim_nonneg s) as HN.
  destruct (Z.ltb_spec 1 (ndim s)).
  - unfold np_setdiff. rewrite setdiff_arange. fold (complement (ndim s) sd).
    rewrite np_transpose_ok_nonneg.
    + now rewrite is_permb_complement.
    + intros x Hx. apply in_app_or in Hx as [Hx|Hx]; [eapply complement_nonneg; eauto|].
      apply modes_ok_spec in Hs as [Hr _]. specialize (Hr x Hx). lia.
  - pose proof (modes_ok_length _ _ HN Hs). destruct (Z.leb_spec (zlen sd) 1); [reflexivity|lia].
Qed.

Theorem tensor_ttv_decides s vlens dims excl :
  guard_tensor_ttv s vlens dims excl = decide (pre_tensor_ttv s vlens dims excl).
Proof.
  change (guard_tensor_ttv s vlens dims excl) with
    (guard_ttv_with (fun sd => if 1 <? ndim s then chk (np_transpose_ok (ndim s) (np_setdiff (ndim s) sd ++ sd))
                               else chk ((zlen sd <=? 1) || (sz s 0 =? 1))) s vlens dims excl).
  apply ttv_with_decides. intros sd. apply tensor_tail_ok.
Qed.

(* sptensor.ttv / ktensor.ttv / ttensor.ttv / sumtensor.ttv *)
Theorem ttv_checks_decides s vlens dims excl :
  guard_ttv_checks s vlens dims excl = decide (pre_ttv s vlens dims excl).
Proof. unfold guard_ttv_checks, pre_ttv. apply ttv_with_decides. reflexivity. Qed.

(* ---------------------------------------------------------------------------------------- *)
(* tensor.ttm                                                                                 *)
(* ---------------------------------------------------------------------------------------- *)
Lemma length_upd {A} (l : list A) n x : length (upd l n x) = length l.
Proof. revert n. induction l as [|a l IH]; intros [|n]; cbn; auto. Qed.

Lemma nth_upd_other {A} (l : list A) n k x d : k <> n -> nth k (upd l n x) d = nth k l d.
Proof.
  revert n k. induction l as [|a l IH]; intros [|n] [|k] H; cbn; auto; try congruence.
Qed.

Lemma ndim_upd s n x : ndim (upd s n x) = ndim s.
Proof. unfold ndim, zlen. now rewrite length_upd. Qed.

Lemma sz_upd_other s n x m : 0 <= m -> 0 <= n -> m <> n -> sz (upd s (Z.to_nat n) x) m = sz s m.
Proof.
  intros Hm Hn Hne. unfold sz, znth. destruct (Z.ltb_spec m 0); [lia|].
  destruct (Z.ltb_spec m 0); [lia|]. apply nth_upd_other. lia.
Qed.

Lemma ttm_chain_decides ms tr steps : forall s,
  NoDup (map snd steps) -> (forall p, In p steps -> 0 <= snd p) ->
  ttm_chain s ms tr steps =
  decide (forallb (fun vd => np_idx_ok (zlen ms) (fst vd) &&
                             ((snd vd <? ndim s) && (mat_in tr (shp2_d ms (np_norm (zlen ms) (fst vd))) =? sz s (snd vd)))) steps).
Proof.
  induction steps as [|[v d] r IH]; intros s Hn Hp; [reflexivity|].
  cbn [ttm_chain forallb fst snd]. cbn [map snd] in Hn. inversion Hn as [|? ? Hnotin Hn']; subst.
  destruct (np_idx_ok (zlen ms) v); cbn [negb andb]; [|reflexivity].
  unfold ttm1. destruct (d <? ndim s); cbn [negb andb]; [|reflexivity].
  destruct (mat_in tr (shp2_d ms (np_norm (zlen ms) v)) =? sz s d); cbn [negb andb]; [|reflexivity].
  rewrite IH; auto.
  - f_equal. apply forallb_ext_in. intros [v' d'] Hin. cbn [fst snd]. rewrite ndim_upd.
    rewrite sz_upd_other; auto.
    + apply (Hp (v', d')). now right.
    + apply (Hp (v, d)). now left.
    + intros ->. apply Hnotin. apply in_map_iff. exists (v', d). auto.
  - intros p Hin. apply Hp. now right.
Qed.

Lemma vidx_length N M d v : vidx_of N (Some M) d = Some v -> length v = length (np_sort d).
Proof.
  unfold vidx_of. assert (L : length (np_sort d) = length d) by (apply Permutation_length, np_sort_perm).
  destruct (zlen d =? M); intros H; inversion H; subst; auto. now rewrite np_argsort_length.
Qed.

Lemma ttm_some_decides s ms d tr :
  guard_tensor_ttm s ms (Some d) None tr = decide (pre_tensor_ttm s ms (Some d) None tr).
Proof.
  pose proof (ndim_nonneg s) as HN.
  unfold guard_tensor_ttm, pre_tensor_ttm. cbn [sel_modes pre_sel]. rewrite dimscheck_some_cases by auto.
  destruct (modes_ok (ndim s) d) eqn:Hm; cbn [andb]; [|reflexivity].
  destruct (pre_count (ndim s) (zlen ms) (zlen d)) eqn:Hc; cbn [andb]; [|reflexivity].
  destruct (vidx_of_some (ndim s) (zlen ms) d) as [vidx Hv]. rewrite Hv.
  assert (Ls : zlen (np_sort d) = zlen d) by (unfold zlen; f_equal; apply Permutation_length, np_sort_perm).
  rewrite Ls. destruct (0 <? zlen d); cbn [chk andthen andb]; [|reflexivity].
  pose proof (modes_ok_length _ _ HN Hm) as HP. apply modes_ok_spec in Hm as [Hr Hn].
  unfold pre_count in Hc. apply orb_true_iff in Hc. rewrite !Z.eqb_eq in Hc.
  assert (Hs : forall x, In x (np_sort d) -> 0 <= x < ndim s).
  { intros x Hx. apply Hr. eapply Permutation_in; [apply np_sort_perm|]; auto. }
  rewrite ttm_chain_decides.
  - f_equal.
    rewrite <- (mults_align s (ndim s) (zlen ms) d
      (fun v m => np_idx_ok (zlen ms) v && ((m <? ndim s) && (mat_in tr (shp2_d ms (np_norm (zlen ms) v)) =? sz s m)))
      (fun v m => mat_in tr (shp2_d ms v) =? sz s m) vidx); auto.
    intros v m Hv' Hm'. rewrite np_idx_ok_nonneg, np_norm_nonneg by lia.
    unfold in_range. destruct (Z.leb_spec 0 v), (Z.ltb_spec v (zlen ms)), (Z.ltb_spec m (ndim s)); cbn; try reflexivity; lia.
  - rewrite map_snd_combine by (eapply vidx_length; eauto).
    eapply Permutation_NoDup; [apply Permutation_sym, np_sort_perm|]; auto.
  - intros [v m] Hin. cbn [snd]. apply in_combine_r in Hin. specialize (Hs m Hin). lia.
Qed.

Theorem tensor_ttm_decides s ms dims excl tr :
  guard_tensor_ttm s ms dims excl tr = decide (pre_tensor_ttm s ms dims excl tr).
Proof.
  destruct dims as [d|], excl as [e|].
  - unfold guard_tensor_ttm. now rewrite dimscheck_rejects_both.
  - apply ttm_some_decides.
  - pose proof (ttm_some_decides s ms (complement (ndim s) e) tr) as H.
    unfold guard_tensor_ttm, pre_tensor_ttm in *. cbn [sel_modes pre_sel] in *.
    rewrite dimscheck_exclude_as_dims. unfold others. fold (complement (ndim s) e).
    rewrite modes_ok_complement in H. cbn [andb] in H.
    destruct (forallb (in_range (ndim s)) e); cbn [andb]; [exact H|reflexivity].
  - pose proof (ttm_some_decides s ms (np_arange 0 (ndim s)) tr) as H.
    unfold guard_tensor_ttm, pre_tensor_ttm in *. cbn [sel_modes pre_sel] in *.
    rewrite dimscheck_default_as_dims. rewrite modes_ok_arange in H. exact H.
Qed.

(* ---------------------------------------------------------------------------------------- *)
(* tensor.contract (C19-N03 repaired): the modes are range-checked before anything else       *)
(* ---------------------------------------------------------------------------------------- *)
Lemma permute_accepts_perm s order : is_permb (ndim s) order = true -> guard_tensor_permute s order = Ok tt.
Proof.
  intros H. unfold guard_tensor_permute.
  assert (Hl : (ndim s =? zlen order) = true).
  { unfold is_permb in H. apply andb_true_iff in H as [H _]. now rewrite Z.eqb_sym. }
  rewrite Hl. cbn [chk andthen]. destruct (zlen order =? 0); [reflexivity|].
  destruct ((ndim s =? 1) && forallb (fun x => x =? 1) order); [reflexivity|].
  rewrite sorted_perm_bool by apply ndim_nonneg. rewrite H. cbn [chk andthen].
  rewrite np_transpose_ok_nonneg; [now rewrite H|].
  intros x Hx. unfold is_permb in H. apply andb_true_iff in H as [_ H]. apply modes_ok_spec in H as [Hr _].
  specialize (Hr x Hx). lia.
Qed.

Theorem tensor_contract_decides s i1 i2 : guard_tensor_contract s i1 i2 = decide (pre_tensor_contract s i1 i2).
Proof.
  unfold guard_tensor_contract, pre_tensor_contract.
  destruct (in_range (ndim s) i1 && in_range (ndim s) i2) eqn:Hr; cbn [chk andthen andb]; [|reflexivity].
  destruct (sz s i1 =? sz s i2); cbn [chk andthen andb negb]; [|now rewrite andb_false_r].
  destruct (Z.eqb_spec i1 i2) as [E|E]; cbn [chk andthen andb negb]; [reflexivity|].
  destruct (ndim s =? 2); [reflexivity|].
  unfold np_setdiff. rewrite setdiff_arange. fold (complement (ndim s) [i1; i2]).
  apply permute_accepts_perm, is_permb_complement; [apply ndim_nonneg|].
  apply andb_true_iff in Hr as [H1 H2]. unfold modes_ok. cbn [forallb nodupb zmem existsb]. rewrite H1, H2.
  destruct (Z.eqb_spec i1 i2); [contradiction|reflexivity].
Qed.
