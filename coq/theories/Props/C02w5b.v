(* Props/C02w5b.v — property C02, wave 5: "the answer is the same whichever representation ... (sum) holds the data": sumtensor.innerprod /
   mttkrp / ttv AS EXECUTED part by part (pyttb/sumtensor.py: the result of each part, computed by the algorithm of the part's own class, added up)
   return the defining sum over indices of the array the sumtensor denotes (den_parts = the pointwise sum of the parts' arrays); and
   ktensor.innerprod with a dense / sparse / Tucker operand (sum_r weights[r] * other.ttv(columns r), the operand's own ttv algorithm).
   Only statements, `exact`, Print Assumptions (and closed Examples).  Proofs: Proofs/C02SumPartsProofs.v. *)
From Coq Require Import List Arith Bool ZArith Ring.
From PV Require Import Base.Index Base.Perm Base.Sum Np.Array Model.Sparse Model.Repr Model.C02Spec Model.C02Dense Model.C02Sparse
                       Model.C02Kruskal Model.C02SpKernels Model.C02SpMore Model.C02KruskalMore Model.C02Tucker Model.C02TuckerFull
                       Model.C02SumParts Proofs.C02DenseProofs Proofs.C02TuckerSpProofs Proofs.C02SumPartsProofs.
Import ListNotations.

Section C02w5b.
Variable V : Type.
Variables (v0 v1 : V) (vadd vmul vsub : V -> V -> V) (vopp : V -> V).
Hypothesis Vring : ring_theory v0 v1 vadd vmul vsub vopp (@eq V).
Variable isz : V -> bool.

(* ktensor.innerprod(tensor | sptensor | ttensor), the loop over the components with the operand's own ttv (tensor.ttv: permute / reshape /
   matrix-vector route; sptensor.ttv: coordinate list; ttensor.ttv: through the core), all modes at once *)
Theorem C02_innerprod_kruskal_dense : forall (K : ktensor V) (X : dense V),
  wf_dense X -> dshape X = kshape K ->
  impl_innerprod_k_dense v0 vadd vmul K X = spec_innerprod v0 vadd vmul (den_k v0 v1 vadd vmul K) (den_dense v0 X) (kshape K).
Proof. exact (impl_innerprod_k_dense_correct V v0 v1 vadd vmul vsub vopp Vring). Qed.

Theorem C02_innerprod_kruskal_sparse : forall (K : ktensor V) (S : sparse V),
  wf_sp isz S -> sshape S = kshape K ->
  impl_innerprod_k_sp v0 v1 vadd vmul K S = spec_innerprod v0 vadd vmul (den_k v0 v1 vadd vmul K) (den_sp v0 S) (kshape K).
Proof. exact (impl_innerprod_k_sp_correct V v0 v1 vadd vmul vsub vopp Vring isz). Qed.

Theorem C02_innerprod_kruskal_tucker : forall (K : ktensor V) (T : ttensor V),
  wf_dense (tcore T) -> length (dshape (tcore T)) = length (tfactors T) -> tshape T = kshape K ->
  impl_innerprod_k_t v0 v1 vadd vmul K T = spec_innerprod v0 vadd vmul (den_k v0 v1 vadd vmul K) (den_t v0 v1 vadd vmul T) (kshape K).
Proof. exact (impl_innerprod_k_t_correct V v0 v1 vadd vmul vsub vopp Vring). Qed.

(* sumtensor.innerprod(Y), Y dense: every part (dense, sparse, Kruskal, Tucker, any number, any mix) by its own algorithm, results added *)
Theorem C02_sum_innerprod_parts_dense : forall (parts : list part) (Y : dense V) s,
  Forall (wf_part isz s) parts -> wf_dense Y -> dshape Y = s ->
  impl_innerprod_sum_dense v0 vadd vmul parts Y =
  spec_innerprod v0 vadd vmul (den_parts v0 vadd (map (den_part v0 v1 vadd vmul) parts)) (den_dense v0 Y) s.
Proof. exact (impl_innerprod_sum_dense_correct V v0 v1 vadd vmul vsub vopp Vring isz). Qed.

(* sumtensor.innerprod(S), S sparse (a dense part reverses the arguments: sptensor.innerprod(tensor); a Tucker part: both sides of its size switch) *)
Theorem C02_sum_innerprod_parts_sparse : forall (parts : list part) (S : sparse V) s,
  Forall (wf_part isz s) parts -> 1 <= length s -> wf_sp isz S -> sshape S = s ->
  impl_innerprod_sum_sp v0 v1 vadd vmul (impl_innerprod_t_sp V v0 vadd vmul) parts S =
  spec_innerprod v0 vadd vmul (den_parts v0 vadd (map (den_part v0 v1 vadd vmul) parts)) (den_sp v0 S) s.
Proof. exact (impl_innerprod_sum_sp_correct V v0 v1 vadd vmul vsub vopp Vring isz). Qed.

(* sumtensor.innerprod(K), K Kruskal, and sumtensor.innerprod(T'), T' Tucker: dense / sparse parts reverse the arguments *)
Theorem C02_sum_innerprod_parts_kruskal : forall (parts : list part) (K : ktensor V) s,
  Forall (wf_part isz s) parts -> kshape K = s ->
  impl_innerprod_sum_k v0 v1 vadd vmul parts K =
  spec_innerprod v0 vadd vmul (den_parts v0 vadd (map (den_part v0 v1 vadd vmul) parts)) (den_k v0 v1 vadd vmul K) s.
Proof. exact (impl_innerprod_sum_k_correct V v0 v1 vadd vmul vsub vopp Vring isz). Qed.

Theorem C02_sum_innerprod_parts_tucker : forall (parts : list part) (T' : ttensor V) s,
  Forall (wf_part isz s) parts -> 1 <= length s ->
  wf_dense (tcore T') -> length (dshape (tcore T')) = length (tfactors T') -> tshape T' = s ->
  impl_innerprod_sum_t v0 v1 vadd vmul (impl_innerprod_t_sp V v0 vadd vmul) parts T' =
  spec_innerprod v0 vadd vmul (den_parts v0 vadd (map (den_part v0 v1 vadd vmul) parts)) (den_t v0 v1 vadd vmul T') s.
Proof. exact (impl_innerprod_sum_t_correct V v0 v1 vadd vmul vsub vopp Vring isz). Qed.

(* sumtensor.mttkrp(Us, n), entry (x, r): the parts' MTTKRPs (dense: all three branches; sparse; Kruskal: Gram / Hadamard; Tucker: through the core) added *)
Theorem C02_sum_mttkrp_parts : forall (parts : list part) (Us : list (@matrix V)) s n R x r,
  Forall (wf_part isz s) parts -> 2 <= length s -> n < length s -> length Us = length s ->
  Forall (wf_cols V R) (remove_at n Us) -> map (@length _) (remove_at n Us) = remove_at n s ->
  x < nth n s 0 -> r < R ->
  impl_mttkrp_sum v0 v1 vadd vmul parts Us n R x r =
  spec_mttkrp v0 v1 vadd vmul (den_parts v0 vadd (map (den_part v0 v1 vadd vmul) parts)) s n (repeat v1 R) Us x r.
Proof. exact (impl_mttkrp_sum_correct V v0 v1 vadd vmul vsub vopp Vring isz). Qed.

(* sumtensor.ttv(vs, dims): the value, at every output subscript, of the sumtensor of the parts' results (no mode left: the sum of the scalars) *)
Theorem C02_sum_ttv_parts : forall (parts : list part) s dims (vs : list (list V)) i',
  Forall (wf_part isz s) parts -> NoDup dims -> (forall x, In x dims -> x < length s) -> length vs = length dims ->
  inb (ttv_shape s dims) i' = true ->
  impl_ttv_sum v0 v1 vadd vmul parts dims vs i' =
  spec_ttv v0 vadd vmul (den_parts v0 vadd (map (den_part v0 v1 vadd vmul) parts)) s dims vs i'.
Proof. exact (impl_ttv_sum_correct V v0 v1 vadd vmul vsub vopp Vring isz). Qed.
End C02w5b.
Print Assumptions C02_innerprod_kruskal_dense.
Print Assumptions C02_innerprod_kruskal_sparse.
Print Assumptions C02_innerprod_kruskal_tucker.
Print Assumptions C02_sum_innerprod_parts_dense.
Print Assumptions C02_sum_innerprod_parts_sparse.
Print Assumptions C02_sum_innerprod_parts_kruskal.
Print Assumptions C02_sum_innerprod_parts_tucker.
Print Assumptions C02_sum_mttkrp_parts.
Print Assumptions C02_sum_ttv_parts.

Local Open Scope Z_scope.
(* parts: D = [[1 3 5]; [2 4 6]] (dense), S stores (1,2) -> 5, (0,1) -> 7, K = 2 * [1;0] o [1;1;0] + (-1) * [2;1] o [0;2;3]; Y = [[1 0 2]; [0 1 -1]].
   <D,Y> = 1 + 4 + 10 - 6 = 9, <S,Y> = -5 + 0 = -5, <K,Y>: K = [[2 -2 -6]; [0 -2 -3]] -> 2 - 12 - 2 + 3 = -9; the sum is -5 *)
Example C02_ex_sum_innerprod :
  impl_innerprod_sum_dense 0 Z.add Z.mul
    [PD (mkDense [2; 3]%nat [1; 2; 3; 4; 5; 6]); PS (mkSp [2; 3]%nat [[1; 2]; [0; 1]]%nat [5; 7]);
     PK (mkK [2; -1] [[[1; 2]; [0; 1]]; [[1; 0]; [1; 2]; [0; 3]]])]
    (mkDense [2; 3]%nat [1; 0; 0; 1; 2; -1]) = -5.
Proof. reflexivity. Qed.
Example C02_ex_innerprod_k_dense :
  impl_innerprod_k_dense 0 Z.add Z.mul (mkK [2; -1] [[[1; 2]; [0; 1]]; [[1; 0]; [1; 2]; [0; 3]]]) (mkDense [2; 3]%nat [1; 0; 0; 1; 2; -1]) = -9.
Proof. reflexivity. Qed.
(* ttv of the same sum in mode 1 with v = [1; -1; 2]: D -> [8; 10], S -> [-7; 10], K -> [-8; -4]: [-7; 16] *)
Example C02_ex_sum_ttv :
  map (impl_ttv_sum 0 1 Z.add Z.mul
    [PD (mkDense [2; 3]%nat [1; 2; 3; 4; 5; 6]); PS (mkSp [2; 3]%nat [[1; 2]; [0; 1]]%nat [5; 7]);
     PK (mkK [2; -1] [[[1; 2]; [0; 1]]; [[1; 0]; [1; 2]; [0; 3]]])] [1%nat] [[1; -1; 2]]) [[0%nat]; [1%nat]] = [-7; 16].
Proof. reflexivity. Qed.
