(* Props/W4C07b.v — sptensor.squeeze as GENERATED from the pyttb source tree under test on every run (Gen/GenSptensor4b.v; the
   result is a tensor or a number): bridge to the hand reference of Model/W4Squeeze.v and laws.  Only statements, `exact`,
   Print Assumptions.
   Wave 6: the reference H_squeeze_p is parametric in the entry-wise test "this mode stays".  The text of /repo reads
   `shapeArray > 1` up to fix f390850 and `shapeArray != 1` after it; every theorem below holds for either text:
   gen_sq_keep is the test of the text under check (selected by gen_sq_keeps_zero, an observation of the generated method on an
   empty tensor of shape (0, 1)); the `_pos` statements are the wave-4/5 statements for receivers without a size-0 mode. *)
From Coq Require Import List ZArith Arith Bool.
From PV Require Import Np.NpZ Np.NpZ2 Np.NpZ3 Np.NpZ3c Np.NpZ3d Np.NpZ3e Np.NpZ4 Np.NpZ4b Np.NpZ4d Np.NpZ4f Model.W4Squeeze Proofs.W4Squeeze
  Gen.GenSptensor4b.
Import ListNotations.
Local Open Scope Z_scope.

Theorem C07_gen_sp_squeeze_bridge : forall self : sptz, sptensor_squeeze self = H_squeeze_p gen_sq_keep self.
Proof. exact squeeze_bridge. Qed.
Print Assumptions C07_gen_sp_squeeze_bridge.

(* the generated text is one of the two readings, for every receiver at once *)
Theorem C07_gen_sp_squeeze_text :
  (forall self : sptz, sptensor_squeeze self = H_squeeze_p (fun d => d >? 1) self) \/
  (forall self : sptz, sptensor_squeeze self = H_squeeze_p (fun d => negb (d =? 1)) self).
Proof. exact squeeze_bridge_text. Qed.
Print Assumptions C07_gen_sp_squeeze_text.

Theorem C07_gen_sp_squeeze_keep : forall d : Z,
  gen_sq_keep d = (if gen_sq_keeps_zero then negb (d =? 1) else d >? 1) /\ (0 < d -> gen_sq_keep d = (d >? 1)).
Proof. exact (fun d => conj eq_refl (gen_sq_keep_pos d)). Qed.
Print Assumptions C07_gen_sp_squeeze_keep.

Theorem C07_gen_sp_squeeze_bridge_pos : forall self : sptz, forallb (fun d => 0 <? d) (spt_shape self) = true ->
  sptensor_squeeze self = H_squeeze self.
Proof. exact squeeze_bridge_pos. Qed.
Print Assumptions C07_gen_sp_squeeze_bridge_pos.

Theorem C07_gen_sp_squeeze_shape : forall self t : sptz, sptensor_squeeze self = Ok (SqTensor t) ->
  spt_shape t = filter gen_sq_keep (spt_shape self) /\ spt_vals t = spt_vals self.
Proof. exact gen_squeeze_shape. Qed.
Print Assumptions C07_gen_sp_squeeze_shape.

Theorem C07_gen_sp_squeeze_scalar : forall (self : sptz) (v : Z), sptensor_squeeze self = Ok (SqScalar v) ->
  filter gen_sq_keep (spt_shape self) = [] /\ (spt_vals self = [v] \/ (spt_vals self = [] /\ v = 0)).
Proof. exact gen_squeeze_scalar. Qed.
Print Assumptions C07_gen_sp_squeeze_scalar.

Theorem C07_gen_sp_squeeze_shape_pos : forall self t : sptz, forallb (fun d => 0 <? d) (spt_shape self) = true ->
  sptensor_squeeze self = Ok (SqTensor t) ->
  spt_shape t = filter (fun d => d >? 1) (spt_shape self) /\ spt_vals t = spt_vals self.
Proof. exact gen_squeeze_shape_pos. Qed.
Print Assumptions C07_gen_sp_squeeze_shape_pos.

Theorem C07_gen_sp_squeeze_scalar_pos : forall (self : sptz) (v : Z), forallb (fun d => 0 <? d) (spt_shape self) = true ->
  sptensor_squeeze self = Ok (SqScalar v) ->
  filter (fun d => d >? 1) (spt_shape self) = [] /\ (spt_vals self = [v] \/ (spt_vals self = [] /\ v = 0)).
Proof. exact gen_squeeze_scalar_pos. Qed.
Print Assumptions C07_gen_sp_squeeze_scalar_pos.

(* modes of size 0 in a returned tensor: all of the receiver's under the text `!= 1`, none under the text `> 1` *)
Theorem C07_gen_sp_squeeze_zero_mode : forall self t : sptz, sptensor_squeeze self = Ok (SqTensor t) ->
  (gen_sq_keeps_zero = true -> count_occ Z.eq_dec (spt_shape t) 0 = count_occ Z.eq_dec (spt_shape self) 0) /\
  (gen_sq_keeps_zero = false -> count_occ Z.eq_dec (spt_shape t) 0 = 0%nat).
Proof. exact gen_squeeze_zero_mode. Qed.
Print Assumptions C07_gen_sp_squeeze_zero_mode.

Example C07_gen_sp_squeeze_example :
  sptensor_squeeze (mkspt [[0; 1; 0; 3]; [0; 0; 0; 1]] [5; -7] [1; 2; 1; 4]) = Ok (SqTensor (mkspt [[1; 3]; [0; 1]] [5; -7] [2; 4])) /\
  sptensor_squeeze (mkspt [[0; 0]] [9] [1; 1]) = Ok (SqScalar 9) /\
  sptensor_squeeze (mkspt [[]] [] [1; 1]) = Ok (SqScalar 0) /\
  sptensor_squeeze (mkspt [[0; 0]; [0; 0]] [9; 4] [1; 1]) = Err /\
  sptensor_squeeze (mkspt [[1; 2]] [3] [2; 3]) = Ok (SqTensor (mkspt [[1; 2]] [3] [2; 3])).
Proof. repeat split; reflexivity. Qed.

(* a size-0 mode next to a singleton: the result is the one the text under check prescribes *)
Example C07_gen_sp_squeeze_zero_example :
  sptensor_squeeze (mkspt [] [] [0; 1; 3]) =
    Ok (SqTensor (mkspt [] [] (if gen_sq_keeps_zero then [0; 3] else [3]))) /\
  sptensor_squeeze (mkspt [] [] [0; 1]) = (if gen_sq_keeps_zero then Ok (SqTensor (mkspt [] [] [0])) else Ok (SqScalar 0)).
Proof. split; vm_compute; reflexivity. Qed.
