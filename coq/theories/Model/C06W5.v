(* Model/C06W5.v — wave 5.  Definitions only.
   1. reducers other than sum handed to sptensor.from_aggregator (function_handle = np.max / np.min / np.prod / len / "first of the group"):
      the Z versions used by the correspondence cases (the model C03Ops.from_aggregator takes the reducer as a parameter).
   2. linear-time evaluators for the HUGE correspondence cases (more than 2^20 candidate row pairs inside pyttb's row helpers, where a
      quadratic model is too slow under vm_compute): inner product and element-wise product of two coordinate lists whose subscripts
      ascend strictly, by one simultaneous walk over both lists (Proofs/C06W5.v: equal to the defining sums / products). *)
From Coq Require Import List ZArith Bool Arith QArith Qcanon.
From PV Require Import Base.Index Np.Array Model.Sparse Model.Harness Model.C03Ops Model.C06Ops Model.C02Spec Model.C06Cont Model.C01Unique Model.C06W4.
Import ListNotations.
Local Open Scope nat_scope.

(* ---- reducers (a group handed to the reducer is never empty; the value for [] is immaterial) ---- *)
Definition red_max (l : list Z) : Z := match l with [] => 0%Z | x :: r => fold_right Z.max x r end.
Definition red_min (l : list Z) : Z := match l with [] => 0%Z | x :: r => fold_right Z.min x r end.
Definition red_prod (l : list Z) : Z := fold_right Z.mul 1%Z l.
Definition red_len (l : list Z) : Z := Z.of_nat (length l).
Definition red_first (l : list Z) : Z := hd 0%Z l.        (* NOT invariant under permutation: the group is handed over in input order *)

(* a reducer that does not look at the order of the group *)
Definition perm_inv {V} (func : list V -> V) : Prop := forall l l', Permutation.Permutation l l' -> func l = func l'.

(* every run of one from_aggregator request is what the model returns on the rows as listed in that run *)
Definition agg_runs_ok (func : list Z -> Z) (runs : list (sparse Z * (shape * (list idx * list Z)))) : bool :=
  forallb (fun t => wf_spb zisz (fst t) &&
                    sp_perm_eqb (fst t) (from_aggregator zisz func (fst (snd t)) (fst (snd (snd t))) (snd (snd (snd t))))) runs.

(* ---- sptensor.collapse(dims, fun) with a reducer other than sum (sptensor.py:505-534): the reducer sees the STORED values only.
     no mode left: fun(vals);  one mode left: accumarray(subs[:, rem], vals, size=n, func=fun) — groups without a stored value are
     filled with 0 — / zeros(n) for an empty receiver (a numpy vector);  otherwise from_aggregator(subs[:, remdims], vals, newsize, fun)
     / the empty sptensor (from_aggregator of no rows IS the empty sptensor) ---- *)
Section CollapseF.
Context {V : Type} (v0 : V) (isz : V -> bool) (func : list V -> V).
Definition accum_f (n : nat) (es : list (idx * V)) : list V :=
  map (fun k => let g := collect [k] es in match g with [] => v0 | _ :: _ => func g end) (seq 0 n).
Definition cont_collapse_f (S : sparse V) (dims : list nat) : @kres V :=
  let s' := ttv_shape (sshape S) dims in
  let es := proj_entries S dims (entries S) in
  match s' with
  | [] => KNum (func (map snd es))
  | [n] => KDen (mkDense s' (accum_f n es))
  | _ => KSp (from_aggregator isz func s' (map fst es) (map snd es))
  end.
End CollapseF.

(* ---- sptendiag(elements, shape) (sptensor.py:3833-3845): constructed_shape = (N,)*N without a shape, max(N, dim) per mode otherwise;
     subs = N rows [k, ..., k]; from_aggregator(subs, elements, constructed_shape).  (N > 0 with an order-0 shape is refused.) ---- *)
Section Diag.
Context {V : Type} (v0 : V) (vadd : V -> V -> V) (isz : V -> bool).
Definition diag_cshape (n : nat) (req : option shape) : shape :=
  match req with None => repeat n n | Some s => map (Nat.max n) s end.
Definition impl_sptendiag (els : list V) (req : option shape) : sparse V :=
  let n := length els in let cs := diag_cshape n req in
  from_aggregator isz (vsum v0 vadd) cs (map (fun k => repeat k (length cs)) (seq 0 n)) els.
(* the super-diagonal of the elements, zero elsewhere *)
Definition gdiag (els : list V) (i : idx) : V :=
  match i with
  | [] => v0
  | k :: r => if forallb (Nat.eqb k) r then nth k els v0 else v0
  end.
End Diag.

(* ---- simultaneous walk over two strictly ascending coordinate lists ---- *)
Section Merge.
Context {V : Type} (v0 : V) (vadd vmul : V -> V -> V) (isz : V -> bool).

(* Σ over the common subscripts of b * a *)
Fixpoint minner (A B : list (idx * V)) {struct A} : V :=
  let fix go (B : list (idx * V)) : V :=
    match A, B with
    | (i, a) :: A', (j, b) :: B' =>
        if C01Unique.idx_ltb i j then minner A' B
        else if C01Unique.idx_ltb j i then go B'
        else vadd (vmul b a) (minner A' B')
    | _, _ => v0
    end in
  go B.

(* the entries (i, a * b) at the common subscripts whose product is not zero, ascending *)
Fixpoint mmul (A B : list (idx * V)) {struct A} : list (idx * V) :=
  let fix go (B : list (idx * V)) : list (idx * V) :=
    match A, B with
    | (i, a) :: A', (j, b) :: B' =>
        if C01Unique.idx_ltb i j then mmul A' B
        else if C01Unique.idx_ltb j i then go B'
        else if isz (vmul a b) then mmul A' B' else (i, vmul a b) :: mmul A' B'
    | _, _ => []
    end in
  go B.
End Merge.

(* the huge sparse * sparse case: both operands listed ascending (checked), the observation (handed over sorted) is literally the walk's result *)
Definition huge_mul_ok (A B X : sparse Z) : bool :=
  sorted_wfb A && sorted_wfb B && nvec_eqb (sshape A) (sshape B) &&
  sp_raw_eqb X (mkSp (sshape A) (map fst (mmul Z.mul zisz (entries A) (entries B))) (map snd (mmul Z.mul zisz (entries A) (entries B)))).
(* the huge innerprod case *)
Definition huge_inner_ok (A B : sparse Z) (q : list Qc) : bool :=
  sorted_wfb A && sorted_wfb B && nvec_eqb (sshape A) (sshape B) && scalar_is q (minner 0%Z Z.add Z.mul (entries A) (entries B)).
