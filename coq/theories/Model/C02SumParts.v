(* Model/C02SumParts.v — sumtensor operations AS EXECUTED, part by part (pyttb/sumtensor.py), every part with the algorithm model of its own class:

     innerprod (sumtensor.py:331):  result = parts[0].innerprod(other);  for part in parts[1:]: result += part.innerprod(other)
     mttkrp    (sumtensor.py:369):  result = parts[0].mttkrp(U, n);      for part in parts[1:]: result += part.mttkrp(U, n)
     ttv       (sumtensor.py:434):  new_parts = [part.ttv(vector, dims, exclude_dims) ...] (sumtensor of the results; scalars are added)

   and ktensor.innerprod with a dense / sparse / Tucker operand (ktensor.py:1060):
     res = 0.0;  for r in range(ncomponents): vecs = [factor_matrices[n][:, r] for n]; res = res + weights[r] * other.ttv(vecs)
   with the operand's own ttv model (tensor.ttv / sptensor.ttv / ttensor.ttv over ALL modes: scalar result).
   The accumulation order of the sums is modelled up to associativity.  Definitions only; proofs in Proofs/C02SumPartsProofs.v. *)
From Coq Require Import List Arith Lia Bool.
From PV Require Import Base.Index Base.Perm Base.Sum Np.Array Model.Sparse Model.Repr Model.C02Spec Model.C02Dense Model.C02Sparse
                       Model.C02Kruskal Model.C02SpKernels Model.C02SpMore Model.C02KruskalMore Model.C02Tucker Model.C02TuckerFull.
Import ListNotations.

Section SumParts.
Context {V : Type} (v0 v1 : V) (vadd vmul : V -> V -> V).

(* column r of every factor matrix *)
Definition fcols (As : list (@matrix V)) (r : nat) : list (list V) :=
  map (fun A : @matrix V => map (fun x => mget v0 A x r) (seq 0 (nrows A))) As.

(* ktensor.innerprod(other), other not a ktensor: ttv0 dims vs = other.ttv(vs) over all modes (a scalar) *)
Definition impl_innerprod_k_via (K : ktensor V) (ttv0 : list nat -> list (list V) -> V) : V :=
  sum_n v0 vadd (krank K)
    (fun r => vmul (nth r (kweights K) v0) (ttv0 (seq 0 (length (kfactors K))) (fcols (kfactors K) r))).
Definition impl_innerprod_k_dense (K : ktensor V) (X : dense V) : V :=
  impl_innerprod_k_via K (fun d vs => den_dense v0 (impl_ttv_dense v0 vadd vmul X d vs) []).
Definition impl_innerprod_k_sp (K : ktensor V) (S : sparse V) : V :=
  impl_innerprod_k_via K (fun d vs => impl_ttv_sp v0 v1 vadd vmul S d vs []).
Definition impl_innerprod_k_t (K : ktensor V) (T : ttensor V) : V :=
  impl_innerprod_k_via K (fun d vs => den_t v0 v1 vadd vmul (impl_ttv_t v0 vadd vmul T d vs) []).

(* the parts of a sumtensor *)
Inductive part : Type := PD (X : dense V) | PS (A : sparse V) | PK (K : ktensor V) | PT (T : ttensor V).
Definition den_part (p : part) : idx -> V :=
  match p with
  | PD X => den_dense v0 X
  | PS A => den_sp v0 A
  | PK K => den_k v0 v1 vadd vmul K
  | PT T => den_t v0 v1 vadd vmul T
  end.
Definition part_shape (p : part) : shape :=
  match p with PD X => dshape X | PS A => sshape A | PK K => kshape K | PT T => tshape T end.

(* part.innerprod(Y), Y dense: tensor.innerprod(tensor); sptensor.innerprod(tensor); ktensor.innerprod(tensor); ttensor.innerprod(tensor) *)
Definition impl_innerprod_part_dense (p : part) (Y : dense V) : V :=
  match p with
  | PD X => impl_innerprod_dense v0 vadd vmul X Y
  | PS A => impl_innerprod_sp_dense v0 vadd vmul A Y
  | PK K => impl_innerprod_k_dense K Y
  | PT T => impl_innerprod_t_dense v0 vadd vmul T Y
  end.
Definition impl_innerprod_sum_dense (parts : list part) (Y : dense V) : V :=
  sum_over v0 vadd parts (fun p => impl_innerprod_part_dense p Y).

(* part.innerprod(S), S sparse: tensor.innerprod(sptensor) reverses the arguments (sptensor.innerprod(tensor)); sptensor.innerprod(sptensor);
   ktensor.innerprod(sptensor); ttensor.innerprod(sptensor) is given as a parameter (its model lives in Proofs/C02TuckerSpProofs.v) *)
Definition impl_innerprod_part_sp (ip_t_sp : ttensor V -> sparse V -> V) (p : part) (S : sparse V) : V :=
  match p with
  | PD X => impl_innerprod_sp_dense v0 vadd vmul S X
  | PS A => impl_innerprod_sp_sp v0 vadd vmul A S
  | PK K => impl_innerprod_k_sp K S
  | PT T => ip_t_sp T S
  end.
Definition impl_innerprod_sum_sp ip_t_sp (parts : list part) (S : sparse V) : V :=
  sum_over v0 vadd parts (fun p => impl_innerprod_part_sp ip_t_sp p S).

(* part.innerprod(K), K Kruskal: tensor / sptensor / ttensor .innerprod(ktensor) reverse the arguments (K.innerprod(part): the component loop);
   sptensor.innerprod returns 0 before that when it stores nothing (the loop gives 0 as well); ktensor.innerprod(ktensor): Gram / Hadamard *)
Definition impl_innerprod_part_k (p : part) (K : ktensor V) : V :=
  match p with
  | PD X => impl_innerprod_k_dense K X
  | PS A => impl_innerprod_k_sp K A
  | PK L => impl_innerprod_kk v0 vadd vmul L K
  | PT T => impl_innerprod_k_t K T
  end.
Definition impl_innerprod_sum_k (parts : list part) (K : ktensor V) : V :=
  sum_over v0 vadd parts (fun p => impl_innerprod_part_k p K).

(* part.innerprod(T'), T' Tucker: tensor / sptensor .innerprod(ttensor) reverse the arguments (T'.innerprod(part), both sides of its size switch);
   ktensor.innerprod(ttensor): the component loop over ttensor.ttv; ttensor.innerprod(ttensor): smaller core first *)
Definition impl_innerprod_part_t (ip_t_sp : ttensor V -> sparse V -> V) (p : part) (T' : ttensor V) : V :=
  match p with
  | PD X => impl_innerprod_t_dense v0 vadd vmul T' X
  | PS A => ip_t_sp T' A
  | PK K => impl_innerprod_k_t K T'
  | PT T => impl_innerprod_tt v0 vadd vmul T T'
  end.
Definition impl_innerprod_sum_t ip_t_sp (parts : list part) (T' : ttensor V) : V :=
  sum_over v0 vadd parts (fun p => impl_innerprod_part_t ip_t_sp p T').

(* part.mttkrp(Us, n), entry (x, r) of the result matrix (Us: the factor list the kernels receive) *)
Definition impl_mttkrp_part (p : part) (Us : list (@matrix V)) (n R x r : nat) : V :=
  match p with
  | PD X => den_dense v0 (impl_mttkrp_dense v0 vadd vmul X Us n R) [x; r]
  | PS A => impl_mttkrp_sp v0 v1 vadd vmul A Us n x r
  | PK K => impl_mttkrp_k v0 vadd vmul K Us n x r
  | PT T => impl_mttkrp_t v0 vadd vmul T Us n R x r
  end.
Definition impl_mttkrp_sum (parts : list part) (Us : list (@matrix V)) (n R x r : nat) : V :=
  sum_over v0 vadd parts (fun p => impl_mttkrp_part p Us n R x r).

(* part.ttv(vs, dims) (dims sorted, as tt_dimscheck returns them), value at the output subscript i' (i' = [] when no mode is left) *)
Definition impl_ttv_part (p : part) (dims : list nat) (vs : list (list V)) (i' : idx) : V :=
  match p with
  | PD X => den_dense v0 (impl_ttv_dense v0 vadd vmul X dims vs) i'
  | PS A => impl_ttv_sp v0 v1 vadd vmul A dims vs i'
  | PK K => den_k v0 v1 vadd vmul (impl_ttv_k v0 v1 vadd vmul K dims vs) i'
  | PT T => den_t v0 v1 vadd vmul (impl_ttv_t v0 vadd vmul T dims vs) i'
  end.
Definition impl_ttv_sum (parts : list part) (dims : list nat) (vs : list (list V)) (i' : idx) : V :=
  sum_over v0 vadd parts (fun p => impl_ttv_part p dims vs i').
End SumParts.

(* a part of shape s that the kernels' theorems accept: dense / sparse well formed, Tucker with a well-formed core of one mode per factor *)
Definition wf_part {V : Type} (isz : V -> bool) (s : shape) (p : @part V) : Prop :=
  part_shape p = s /\
  match p with
  | PD X => wf_dense X
  | PS A => wf_sp isz A
  | PK K => True
  | PT T => wf_dense (tcore T) /\ length (dshape (tcore T)) = length (tfactors T)
  end.
