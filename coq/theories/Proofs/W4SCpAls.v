(* Proofs/W4SCpAls.v — BRIDGE between the GENERATED skeleton of the main part of pyttb/cp_als.py (Gen/GenCpAls.v: `maxiters == 0`
   block, outer loop `for iteration in range(maxiters)`, inner loop `for n in dimorder`, fit-change stop rule, break, arrange /
   fixsigns epilogue, recomputation when printing, output dictionary) and the hand state machine Model/C09Loop.v (cpals_run).
   For ALL kernels: whenever the generated function returns (no Python exception), cpals_run — instantiated with
     sweep k        := the generated inner loop (+ M = ktensor(U, weights), iprod)
     fit_mttkrp     := the residual / fit formulas on (M, iprod)        fit_innerprod := the same formulas on innerprod(X, M)
     fchange_lt a b t := |a - b| < t  (np.abs(fitold - fit) < stoptol)   arrange / fixsigns := the kernels on M
   returns the same model, iteration count, residual norm and fit. *)
From Coq Require Import String List Arith Bool Lia.
From PV Require Import Model.W4SPrelude Gen.GenCpAls Model.C09Loop.
Import ListNotations.
Local Open Scope nat_scope.

Section Bridge.
Variables T_F T_Mat T_UtU T_Wt T_K T_X : Type.
Variable c_leF : T_F -> T_F -> bool.
Variable c_zeroF : T_F.
Variable k_init_factors : T_K -> list T_Mat.
Variable k_restrict_dims : list nat -> list nat -> list nat.
Variable k_zeros_mttkrp : T_X -> list nat -> nat -> T_Mat.
Variable k_zeros_utu : nat -> nat -> T_UtU.
Variable k_set_gram : T_UtU -> nat -> list T_Mat -> T_UtU.
Variable k_ktensor_init : list T_Mat -> T_K -> T_K.
Variable k_innerprod : T_X -> T_K -> T_F.
Variable k_is_zero : T_F -> bool.
Variable k_resid0 : T_K -> T_F -> T_F.
Variable k_resid : T_F -> T_K -> T_F -> T_F.
Variable k_fit : T_F -> T_F -> T_F.
Variable k_mttkrp : T_X -> list T_Mat -> nat -> T_Mat.
Variable k_hadamard_others : T_UtU -> nat -> nat -> T_Mat.
Variable k_all_zero_mat : T_Mat -> bool.
Variable k_zeros_like : T_Mat -> T_Mat.
Variable k_solve : T_Mat -> T_Mat -> T_Mat.
Variable k_norm2_cols : T_Mat -> T_Wt.
Variable k_normmax_cols : T_Mat -> T_Wt.
Variable k_all_zero_wt : T_Wt -> bool.
Variable k_scale_cols : T_Mat -> T_Wt -> T_Mat.
Variable k_ktensor : list T_Mat -> T_Wt -> T_K.
Variable k_iprod : T_K -> list nat -> T_Mat -> T_Wt -> T_F.
Variable k_absdiff : T_F -> T_F -> T_F.
Variable k_arrange : T_K -> T_K.
Variable k_fixsigns : T_K -> T_K.

Notation gloop1 := (GenCpAls.cp_als_main_loop1 T_Mat T_UtU k_set_gram).
Notation gloop3 := (GenCpAls.cp_als_main_loop3 T_Mat T_UtU T_Wt T_X k_set_gram k_mttkrp k_hadamard_others k_all_zero_mat k_zeros_like k_solve
  k_norm2_cols k_normmax_cols k_all_zero_wt k_scale_cols).
Notation gloop2 := (GenCpAls.cp_als_main_loop2 T_F T_Mat T_UtU T_Wt T_K T_X c_leF k_set_gram k_is_zero k_resid0 k_resid k_fit k_mttkrp
  k_hadamard_others k_all_zero_mat k_zeros_like k_solve k_norm2_cols k_normmax_cols k_all_zero_wt k_scale_cols k_ktensor k_iprod k_absdiff).
Notation gmain := (GenCpAls.cp_als_main T_F T_Mat T_UtU T_Wt T_K T_X c_leF c_zeroF k_init_factors k_restrict_dims k_zeros_mttkrp k_zeros_utu
  k_set_gram k_ktensor_init k_innerprod k_is_zero k_resid0 k_resid k_fit k_mttkrp k_hadamard_others k_all_zero_mat k_zeros_like k_solve
  k_norm2_cols k_normmax_cols k_all_zero_wt k_scale_cols k_ktensor k_iprod k_absdiff k_arrange k_fixsigns).

(* numeric state of the hand model: the loop-carried locals (U, U_mttkrp, UtU, n) and, once built, (M, iprod) *)
Definition hL : Type := (list T_Mat * T_Mat * T_UtU * option nat)%type.
Definition hSt : Type := (hL * option (T_K * T_F))%type.

Section Fixed.
Variables (N : nat) (dimorder : list nat) (X : T_X) (normX stoptol : T_F).

Definition h_sweep (k : nat) (s : hSt) : hSt :=
  let '((U, Um, UtU, n), mi) := s in
  match gloop3 N dimorder X k dimorder (U, Um, UtU, n, None) with
  | Some (U', Um', UtU', n', Some w) => let M := k_ktensor U' w in ((U', Um', UtU', n'), Some (M, k_iprod M dimorder Um' w))
  | _ => ((U, Um, UtU, n), None)
  end.
Definition h_formulas (M : T_K) (ip : T_F) : T_F * T_F :=
  if k_is_zero normX then (k_resid0 M ip, k_resid0 M ip) else (k_resid normX M ip, k_fit (k_resid normX M ip) normX).
Definition h_fit_mttkrp (s : hSt) : T_F * T_F :=
  match snd s with Some (M, ip) => h_formulas M ip | None => (c_zeroF, c_zeroF) end.
Definition h_fit_innerprod (s : hSt) : T_F * T_F :=
  match snd s with Some (M, _) => h_formulas M (k_innerprod X M) | None => (c_zeroF, c_zeroF) end.
Definition h_fchange_lt (fitold fit tol : T_F) : bool := negb (c_leF tol (k_absdiff fitold fit)).
Definition h_onM (f : T_K -> T_K) (s : hSt) : hSt :=
  (fst s, match snd s with Some (M, ip) => Some (f M, ip) | None => None end).

(* the generated loop state built from the hand model's loop arguments *)
Definition gst (l : hL) (mi : option (T_K * T_F)) (fit : T_F) (last : option (nat * T_F)) :=
  let '(U, Um, UtU, n) := l in
  (option_map fst mi, U, Um, UtU, fit, option_map snd mi, option_map fst last, n, option_map snd last).

Lemma loop2_bridge printitn : forall fuel i l mi fit last st',
  gloop2 N dimorder X normX stoptol fuel i (gst l mi fit last) = Some st' ->
  match cpals_loop h_sweep h_fit_mttkrp h_fchange_lt stoptol printitn fuel i (l, mi) fit last with
  | Some o => st' = gst (fst (lo_state o)) (snd (lo_state o)) (lo_fit o) (Some (lo_iter o, lo_nr o))
  | None => st' = gst l mi fit last /\ last = None
  end.
Proof.
  induction fuel as [|fuel IH]; intros i [[[U Um] UtU] n] mi fit last st' H.
  - cbn in H. inversion H. cbn [cpals_loop]. destruct last as [[it nr]|]; [reflexivity|split; reflexivity].
  - cbn [GenCpAls.cp_als_main_loop2 gst] in H. cbn [cpals_loop].
    destruct (gloop3 N dimorder X i dimorder (U, Um, UtU, n, None)) as [[[[[U' Um'] UtU'] n'] [w|]]|] eqn:EG; [|discriminate|discriminate].
    set (M := k_ktensor U' w) in *. set (ip := k_iprod M dimorder Um' w) in *.
    match goal with |- context [h_sweep i ?s] => set (sw := h_sweep i s) end.
    assert (HS : sw = (((U', Um', UtU', n') : hL), Some (M, ip))) by (subst sw; unfold h_sweep; rewrite EG; reflexivity).
    rewrite HS. clear HS sw. cbn [h_fit_mttkrp h_fchange_lt fst snd].
    assert (HG : (if k_is_zero normX then (k_resid0 M ip, k_resid0 M ip) else (k_fit (k_resid normX M ip) normX, k_resid normX M ip))
                 = (snd (h_formulas M ip), fst (h_formulas M ip))) by (unfold h_formulas; destruct (k_is_zero normX); reflexivity).
    cbv zeta in H. rewrite HG in H. clear HG.
    set (nr := fst (h_formulas M ip)) in *. set (ft := snd (h_formulas M ip)) in *.
    change ((0 <? i) && negb (c_leF stoptol (k_absdiff fit ft))) with ((0 <? i) && h_fchange_lt fit ft stoptol) in H.
    destruct ((0 <? i) && h_fchange_lt fit ft stoptol) eqn:Eflag.
    + cbn in H. inversion H. reflexivity.
    + cbn in H. specialize (IH (S i) (U', Um', UtU', n') (Some (M, ip)) ft (Some (i, nr)) st' H).
      match goal with |- match (match ?c with _ => _ end) with _ => _ end =>
        match type of IH with match ?c' with _ => _ end => change c' with c in IH end;
        destruct c as [o|] end; [cbn [lo_state lo_iter lo_nr lo_fit]; exact IH|destruct IH; discriminate].
Qed.
(* once the locals are bound the hand loop always delivers them *)
Lemma cpals_loop_some printitn : forall rem k (s : hSt) fit x,
  cpals_loop h_sweep h_fit_mttkrp h_fchange_lt stoptol printitn rem k s fit (Some x) <> None.
Proof.
  induction rem as [|rem IH]; intros k s fit [it nr]; cbn [cpals_loop]; [discriminate|].
  destruct (_ && _); [discriminate|].
  match goal with |- context [cpals_loop ?a ?b ?c ?d ?e rem ?k' ?s' ?f' (Some ?x')] =>
    pose proof (IH k' s' f' x') as Hn; destruct (cpals_loop a b c d e rem k' s' f' (Some x')); [discriminate|congruence] end.
Qed.
End Fixed.

(* values of the locals when the main loop is reached *)
Definition entry_locals (X : T_X) (init : T_K) (N rank : nat) (dimorder optdims : list nat) : option (list nat * hL) :=
  let U := k_init_factors init in
  let dims := k_restrict_dims dimorder optdims in
  match gloop1 U N 0 (k_zeros_utu rank N, None) with
  | Some (UtU, n) => Some (dims, (U, k_zeros_mttkrp X dims rank, UtU, n))
  | None => None
  end.
Definition entry_state (X : T_X) (init : T_K) (maxiters : nat) (l : hL) : hSt :=
  let '(U, _, _, _) := l in
  let M := k_ktensor_init U init in
  (l, if maxiters =? 0 then Some (M, k_innerprod X M) else None).

Theorem cpals_bridge : forall X init normX N rank dimorder optdims maxiters stoptol printitn dofix Mret initret iters nr fit,
  gmain X init normX N rank dimorder optdims maxiters stoptol printitn dofix = Some (Mret, initret, (iters, nr, fit)) ->
  exists dims l r,
    entry_locals X init N rank dimorder optdims = Some (dims, l) /\
    cpals_run (h_sweep N dims X) (h_fit_mttkrp normX) (h_fit_innerprod X normX) h_fchange_lt c_zeroF (h_onM k_arrange) (h_onM k_fixsigns)
              stoptol printitn (entry_state X init maxiters l) maxiters dofix = Some r /\
    option_map fst (snd (r_state r)) = Some Mret /\ r_iters r = iters /\ r_normres r = nr /\ r_fit r = fit /\ initret = init.
Proof.
  intros X init normX N rank dimorder optdims maxiters stoptol printitn dofix Mret initret iters nr fit H.
  unfold GenCpAls.cp_als_main in H. unfold entry_locals.
  destruct (gloop1 (k_init_factors init) N 0 (k_zeros_utu rank N, None)) as [[UtU n]|]; [|discriminate].
  set (U := k_init_factors init) in *. set (dims := k_restrict_dims dimorder optdims) in *.
  set (Um := k_zeros_mttkrp X dims rank) in *.
  exists dims, (U, Um, UtU, n).
  unfold cpals_run, cpals_entry, entry_state.
  destruct maxiters as [|m].
  - (* maxiters = 0 *)
    cbn [Nat.eqb] in H |- *. set (M0 := k_ktensor_init U init) in *. set (ip0 := k_innerprod X M0) in *.
    cbn [GenCpAls.cp_als_main_loop2 cpals_loop] in H |- *.
    unfold h_fit_innerprod at 1 2. cbn [snd fst]. fold ip0. unfold h_formulas.
    unfold cpals_finish, h_onM. cbn [fst snd].
    destruct (k_is_zero normX) eqn:Ez; cbn [fst snd] in H |- *; destruct dofix; destruct (0 <? printitn) eqn:Ep;
      cbn [fst snd] in H |- *; unfold h_fit_innerprod, h_formulas; cbn [fst snd]; rewrite ?Ez; inversion H;
      eexists; (split; [reflexivity|]); (split; [reflexivity|]); cbn; repeat split; reflexivity.
  - (* maxiters > 0 *)
    cbn [Nat.eqb] in H |- *.
    match type of H with match ?L with _ => _ end = _ => destruct L as [st'|] eqn:EL; [|discriminate] end.
    pose proof (loop2_bridge N dims X normX stoptol printitn (S m) 0 (U, Um, UtU, n) None c_zeroF None st' EL) as B.
    cbn [fst snd].
    match type of B with match ?c with _ => _ end =>
      match goal with |- context [cpals_loop ?a1 ?a2 ?a3 ?a4 ?a5 ?a6 ?a7 ?a8 ?a9 ?a10] =>
        change (cpals_loop a1 a2 a3 a4 a5 a6 a7 a8 a9 a10) with c end;
      destruct c as [o|] eqn:Eo end.
    + subst st'. destruct o as [[[[[U' Um'] UtU'] n'] mi'] it nr' fit' lg tr]. cbn [lo_state lo_iter lo_nr lo_fit fst snd gst option_map] in H.
      destruct mi' as [[M ip]|]; cbn [option_map fst snd] in H; [|discriminate].
      unfold cpals_finish, h_onM. cbn [fst snd lo_state lo_iter lo_nr lo_fit].
      destruct (k_is_zero normX) eqn:Ez; destruct dofix; destruct (0 <? printitn) eqn:Ep;
        cbn [fst snd] in H |- *; unfold h_fit_innerprod, h_formulas; cbn [fst snd]; rewrite ?Ez; inversion H;
        eexists; (split; [reflexivity|]); (split; [reflexivity|]); cbn; repeat split; reflexivity.
    + destruct B as [_ B]. exfalso.
      (* the loop body runs at least once for maxiters > 0, so the hand loop cannot end with unbound locals *)
      cbn [cpals_loop] in Eo.
      repeat match type of Eo with match ?c with _ => _ end = None => destruct c eqn:?; try discriminate end.
      match goal with Hx : cpals_loop _ _ _ _ ?p ?r ?k ?s ?f (Some ?x) = None |- _ =>
        exact (cpals_loop_some N dims X normX stoptol p r k s f x Hx) end.
Qed.

Lemma cp_als_output_keys_ok : GenCpAls.cp_als_main_output_keys = ["iters"; "normresidual"; "fit"]%string.
Proof. reflexivity. Qed.

End Bridge.
