(* Proofs/C12Handles.v — every built-in GCP gradient handle is the derivative of its loss handle
   (DESIGN §C12, T1).  All statements are about Gen/GenHandles.v, i.e. about the text of
   pyttb/gcp/handles.py as it is on this run.  Domain of the model value m: the lower bound that
   fg_setup.setup attaches to the objective (0 for the EPS-shifted losses, none otherwise).
   negative_binomial_grad is handled in C12NegBinRefuted.v / C12NegBin.v. *)
From Coq Require Import Reals Lra.
From Coquelicot Require Import Coquelicot.
From PV Require Import Np.NpR Gen.GenHandles.
Local Open Scope R_scope.

Lemma eps_pos : 0 < EPS.
Proof. unfold EPS. lra. Qed.

Ltac sidecond := repeat split; try lra; try (apply Rgt_not_eq; lra); try (apply Rlt_not_eq; lra).
Ltac deriv := pose proof eps_pos; auto_derive; [sidecond | try field; sidecond].

(* ---- smooth losses ------------------------------------------------------------------ *)
Lemma gaussian_deriv x m : is_derive (fun m => gaussian x m) m (gaussian_grad x m).
Proof. unfold gaussian, gaussian_grad. auto_derive; [exact I | ring]. Qed.

Lemma bernoulli_odds_deriv x m : 0 <= m -> is_derive (fun m => bernoulli_odds x m) m (bernoulli_odds_grad x m).
Proof. intros Hm. unfold bernoulli_odds, bernoulli_odds_grad. deriv. Qed.

Lemma bernoulli_logit_deriv x m : is_derive (fun m => bernoulli_logit x m) m (bernoulli_logit_grad x m).
Proof.
  unfold bernoulli_logit, bernoulli_logit_grad. pose proof (exp_pos m).
  auto_derive; [sidecond | field; sidecond].
Qed.

Lemma poisson_deriv x m : 0 <= m -> is_derive (fun m => poisson x m) m (poisson_grad x m).
Proof. intros Hm. unfold poisson, poisson_grad. deriv. Qed.

Lemma poisson_log_deriv x m : is_derive (fun m => poisson_log x m) m (poisson_log_grad x m).
Proof. unfold poisson_log, poisson_log_grad. auto_derive; [exact I | ring]. Qed.

Lemma rayleigh_deriv x m : 0 <= m -> is_derive (fun m => rayleigh x m) m (rayleigh_grad x m).
Proof. intros Hm. unfold rayleigh, rayleigh_grad. deriv. Qed.

Lemma gamma_deriv x m : 0 <= m -> is_derive (fun m => gamma_ x m) m (gamma_grad x m).
Proof. intros Hm. unfold gamma_, gamma_grad. deriv. Qed.

(* x ** b for a positive base is exp (b * ln x) *)
Lemma beta_deriv x m b : 0 <= m -> b <> 0 -> b <> 1 ->
  is_derive (fun m => beta_ x m b) m (beta_grad x m b).
Proof.
  intros Hm Hb0 Hb1. unfold beta_, beta_grad, rpow. pose proof eps_pos.
  auto_derive; [sidecond|].
  replace (b - 2) with (b - 1 + - 1) by ring.
  unfold Rminus. rewrite !Rmult_plus_distr_r, !exp_plus.
  replace (-1 * ln (m + EPS)) with (- ln (m + EPS)) by ring.
  replace (- (1) * ln (m + EPS)) with (- ln (m + EPS)) by ring.
  rewrite !exp_Ropp, !exp_ln by lra. field. sidecond; intro; apply Hb1; lra.
Qed.

(* ---- Huber: piecewise through np.abs, a boolean mask and np.sign ------------------------ *)

(* two functions that are differentiable at a with the same value and derivative there, glued at a *)
Lemma is_derive_glue (f g1 g2 : R -> R) (a l d : R) : 0 < d ->
  (forall y, a <= y < a + d -> f y = g1 y) -> (forall y, a - d < y <= a -> f y = g2 y) ->
  is_derive g1 a l -> is_derive g2 a l -> is_derive f a l.
Proof.
  intros Hd F1 F2 D1 D2. apply is_derive_Reals in D1. apply is_derive_Reals in D2. apply is_derive_Reals.
  intros eps He. destruct (D1 eps He) as [d1 B1]. destruct (D2 eps He) as [d2 B2].
  assert (Hmin : 0 < Rmin d (Rmin d1 d2)).
  { apply Rmin_glb_lt; [exact Hd|]. apply Rmin_glb_lt; [apply (cond_pos d1) | apply (cond_pos d2)]. }
  exists (mkposreal _ Hmin). intros h Hh Hlt. cbn [pos] in Hlt.
  assert (Hhd : Rabs h < d) by (eapply Rlt_le_trans; [exact Hlt | apply Rmin_l]).
  assert (Hh1 : Rabs h < d1).
  { eapply Rlt_le_trans; [exact Hlt|]. eapply Rle_trans; [apply Rmin_r | apply Rmin_l]. }
  assert (Hh2 : Rabs h < d2).
  { eapply Rlt_le_trans; [exact Hlt|]. eapply Rle_trans; [apply Rmin_r | apply Rmin_r]. }
  destruct (Rlt_dec 0 h) as [Hpos|Hneg].
  - rewrite (Rabs_right h) in Hhd by lra.
    rewrite (F1 (a + h)) by lra. rewrite (F1 a) by lra. now apply B1.
  - assert (h < 0) by lra. rewrite (Rabs_left h) in Hhd by lra.
    rewrite (F2 (a + h)) by lra. rewrite (F2 a) by lra. now apply B2.
Qed.

Lemma huber_inner x y t : Rabs (x - y) < t -> huber x y t = (x - y) ^ 2.
Proof.
  intros H. unfold huber. apply Rltb_true in H. rewrite H. cbn [negb bsel]. rewrite pow2_abs. ring.
Qed.
Lemma huber_outer x y t : ~ Rabs (x - y) < t -> huber x y t = 2 * t * Rabs (x - y) - t ^ 2.
Proof.
  intros H. unfold huber. apply Rltb_false in H. rewrite H. cbn [negb bsel]. ring.
Qed.
Lemma huber_grad_inner x y t : Rabs (x - y) < t -> huber_grad x y t = -2 * (x - y).
Proof.
  intros H. unfold huber_grad. apply Rltb_true in H. rewrite H. cbn [negb bsel]. ring.
Qed.
Lemma huber_grad_outer x y t : ~ Rabs (x - y) < t -> huber_grad x y t = - (2 * t * sgnR (x - y)).
Proof.
  intros H. unfold huber_grad. apply Rltb_false in H. rewrite H. cbn [negb bsel]. ring.
Qed.
Lemma sgnR_pos z : 0 < z -> sgnR z = 1.
Proof. intros H. unfold sgnR. destruct (Rlt_dec 0 z); [reflexivity | contradiction]. Qed.
Lemma sgnR_neg z : z < 0 -> sgnR z = -1.
Proof.
  intros H. unfold sgnR. destruct (Rlt_dec 0 z); [lra|]. destruct (Rlt_dec z 0); [reflexivity | contradiction].
Qed.

(* the three smooth pieces *)
Lemma hub_q_deriv x m : is_derive (fun m => (x - m) ^ 2) m (-2 * (x - m)).
Proof. auto_derive; [exact I | ring]. Qed.
Lemma hub_up_deriv x t m : is_derive (fun m => 2 * t * (x - m) - t ^ 2) m (- (2 * t)).
Proof. auto_derive; [exact I | ring]. Qed.
Lemma hub_dn_deriv x t m : is_derive (fun m => 2 * t * (m - x) - t ^ 2) m (2 * t).
Proof. auto_derive; [exact I | ring]. Qed.

(* for every threshold t > 0, every data value and every model value — including the two kinks |x-m| = t *)
Lemma huber_deriv x m t : 0 < t -> is_derive (fun m => huber x m t) m (huber_grad x m t).
Proof.
  intros Ht.
  destruct (Rlt_dec (Rabs (x - m)) t) as [Hin|Hout].
  - (* strictly inside: locally the quadratic *)
    rewrite (huber_grad_inner _ _ _ Hin).
    apply (is_derive_ext_loc (fun m => (x - m) ^ 2)); [|apply hub_q_deriv].
    assert (Hd : 0 < t - Rabs (x - m)) by lra.
    exists (mkposreal _ Hd). intros y Hy. cbn [pos] in Hy.
    unfold ball in Hy. cbn in Hy. unfold AbsRing_ball, abs, minus, plus, opp in Hy. cbn in Hy.
    symmetry. apply huber_inner.
    replace (x - y) with ((x - m) + - (y + - m)) by ring.
    eapply Rle_lt_trans; [apply Rabs_triang|]. rewrite Rabs_Ropp. lra.
  - rewrite (huber_grad_outer _ _ _ Hout).
    destruct (Rtotal_order (x - m) 0) as [Hlt|[Heq|Hgt]].
    + (* x - m <= -t *)
      rewrite (Rabs_left _ Hlt) in Hout. rewrite (sgnR_neg _ Hlt).
      replace (- (2 * t * -1)) with (2 * t) by ring.
      destruct (Req_dec (x - m) (- t)) as [Hk|Hk].
      * (* kink m = x + t: linear piece to the right, quadratic to the left *)
        apply (is_derive_glue _ (fun m => 2 * t * (m - x) - t ^ 2) (fun m => (x - m) ^ 2) m (2 * t) t Ht).
        -- intros y Hy. rewrite huber_outer.
           ++ rewrite Rabs_left by lra. ring.
           ++ rewrite Rabs_left by lra. lra.
        -- intros y [Hy1 Hy2]. destruct (Req_dec y m) as [->|Hne].
           ++ rewrite huber_outer by (rewrite Rabs_left by lra; lra).
              rewrite Rabs_left by lra. replace (x - m) with (- t) by lra. ring.
           ++ apply huber_inner. rewrite Rabs_left by lra. lra.
        -- apply hub_dn_deriv.
        -- replace (2 * t) with (-2 * (x - m)) by lra. apply hub_q_deriv.
      * apply (is_derive_ext_loc (fun m => 2 * t * (m - x) - t ^ 2)); [|apply hub_dn_deriv].
        assert (Hd : 0 < - (x - m) - t) by lra.
        exists (mkposreal _ Hd). intros y Hy. cbn [pos] in Hy.
        unfold ball in Hy. cbn in Hy. unfold AbsRing_ball, abs, minus, plus, opp in Hy. cbn in Hy.
        apply Rabs_def2 in Hy. destruct Hy as [Hy1 Hy2]. assert (Hxy : x - y < - t) by lra.
        symmetry. rewrite huber_outer.
        -- rewrite Rabs_left by lra. lra.
        -- rewrite Rabs_left by lra. lra.
    + rewrite Heq, Rabs_R0 in Hout. lra.
    + (* x - m >= t *)
      rewrite (Rabs_right (x - m)) in Hout by lra. rewrite (sgnR_pos _ Hgt).
      replace (- (2 * t * 1)) with (- (2 * t)) by ring.
      destruct (Req_dec (x - m) t) as [Hk|Hk].
      * (* kink m = x - t: quadratic to the right, linear piece to the left *)
        apply (is_derive_glue _ (fun m => (x - m) ^ 2) (fun m => 2 * t * (x - m) - t ^ 2) m (- (2 * t)) t Ht).
        -- intros y [Hy1 Hy2]. destruct (Req_dec y m) as [->|Hne].
           ++ rewrite huber_outer by (rewrite Rabs_right by lra; lra).
              rewrite Rabs_right by lra. replace (x - m) with t by lra. ring.
           ++ apply huber_inner. rewrite Rabs_right by lra. lra.
        -- intros y Hy. rewrite huber_outer.
           ++ rewrite Rabs_right by lra. ring.
           ++ rewrite Rabs_right by lra. lra.
        -- replace (- (2 * t)) with (-2 * (x - m)) by lra. apply hub_q_deriv.
        -- apply hub_up_deriv.
      * apply (is_derive_ext_loc (fun m => 2 * t * (x - m) - t ^ 2)); [|apply hub_up_deriv].
        assert (Hd : 0 < (x - m) - t) by lra.
        exists (mkposreal _ Hd). intros y Hy. cbn [pos] in Hy.
        unfold ball in Hy. cbn in Hy. unfold AbsRing_ball, abs, minus, plus, opp in Hy. cbn in Hy.
        apply Rabs_def2 in Hy. destruct Hy as [Hy1 Hy2]. assert (Hxy : t < x - y) by lra.
        symmetry. rewrite huber_outer.
        -- rewrite Rabs_right by lra. lra.
        -- rewrite Rabs_right by lra. lra.
Qed.
