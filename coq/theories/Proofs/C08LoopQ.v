(* Proofs/C08LoopQ.v — the hypotheses of the loop theorem are satisfiable: over the exact rationals with <= and "x < 0"
   (the instance the correspondence check evaluates) the literal loop of fixsigns(other) equals the one-shot model. *)
From Coq Require Import List Arith Lia Bool ZArith QArith Qcanon Ring.
From PV Require Import Base.Index Base.Perm Base.Sum Np.Array Model.Sparse Model.Repr Model.Harness Model.C08Kruskal
  Model.C08Inst Model.C08More Model.C08Inst2 Model.C08Loop Model.C08Inst3 Proofs.C08Loop.
Import ListNotations.
Local Open Scope nat_scope.

Lemma qleb_total' (a b : Qc) : qleb a b = false -> qleb b a = true.
Proof.
  unfold qleb. intros H. apply Qle_bool_iff. destruct (Qlt_le_dec a b) as [Hlt|Hle]; [|exact Hle].
  apply Qlt_le_weak in Hlt. apply Qle_bool_iff in Hlt. unfold Qcanon.this in *. congruence.
Qed.

Lemma q_neg_mono (a b : Qc) : qleb a b = true -> q_neg b = true -> q_neg a = true.
Proof.
  unfold q_neg, qleb. rewrite !negb_true_iff. intros Hab Hb.
  destruct (Qle_bool q0 a) eqn:E; [|reflexivity]. exfalso.
  apply Qle_bool_iff in E. apply Qle_bool_iff in Hab.
  assert (H : Qle_bool q0 b = true) by (apply Qle_bool_iff; eapply Qle_trans; eauto). congruence.
Qed.

Theorem qk_py_fixsigns_other_is_model (A B : ktensor Qc) : wf_k A ->
  qk_py_fixsigns_other A B = qk_fixsigns_other A B.
Proof.
  intros HA. unfold qk_py_fixsigns_other, qk_fixsigns_other, qk_normalize.
  destruct (wf_normalize Qc q0 q1 Qcmult Qcopp Qcinv (q_norm 2) q_pos q_neg (q_root (length (kfactors A))) (argsort_desc qleb) A HA) as [H1 _].
  apply (py_fixsigns_other_is_model Qc q0 q1 Qcplus Qcmult Qcminus Qcopp Qcrt q_neg qleb qleb_total' q_neg_mono); auto.
Qed.
