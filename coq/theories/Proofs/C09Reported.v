(* Proofs/C09Reported.v — ties the fit identity to the executable sweep model: the quantity cp_als computes from the SAVED
   mttkrp of the mode updated last (st_P, computed BEFORE that mode was overwritten) together with the NEW factor and weights
   is exactly <X, M> for the model M of the new state. Hence (C09_fit_identity) the reported residual is ||X - M||. *)
From Coq Require Import List Arith Lia Bool Ring.
From PV Require Import Base.Index Base.Sum Np.Array Model.Sparse Model.Repr Model.C09Als Proofs.C09Identity Proofs.C09Monotone.
Import ListNotations.

Section Rep.
Variable V : Type.
Variables (v0 v1 : V) (vadd vmul vsub : V -> V -> V) (vopp : V -> V).
Hypothesis Vring : ring_theory v0 v1 vadd vmul vsub vopp (@eq V).
Add Ring Vr5 : Vring.
Local Notation mx := (@matrix V).
Local Notation mg := (mget v0).

Lemma mget_tabmx I R (f : nat -> nat -> V) j r : j < I -> r < R -> mg (tabmx I R f) j r = f j r.
Proof.
  intros Hj Hr. unfold mget, tabmx.
  rewrite (nth_indep _ [] ((fun j => map (fun r => f j r) (seq 0 R)) 0)) by (now rewrite map_length, seq_length).
  rewrite (map_nth (fun j => map (fun r => f j r) (seq 0 R))), seq_nth by auto. cbn [Nat.add].
  rewrite (nth_indep _ v0 ((fun r => f j r) 0)) by (now rewrite map_length, seq_length).
  rewrite (map_nth (fun r => f j r)), seq_nth by auto. reflexivity.
Qed.

Variables (solve : mx -> mx -> mx) (scale : nat -> mx -> list V * mx) (R : nat) (X : idx -> V) (s : shape).
Local Notation mkX := (fun U n => mttkrp_mat v0 v1 vadd vmul s X U n R).
Local Notation upd1 := (als_update v0 v1 vadd vmul mkX solve scale R).

Theorem reported_iprod it st n :
  st_wf V R s st -> n < length s ->
  length (st_w (upd1 it st n)) = R -> nrows (nth n (st_U (upd1 it st n)) []) = nth n s 0 ->
  let st' := upd1 it st n in
  iprod_saved v0 vadd vmul R (nth n s 0) (st_w st') (nth n (st_U st') []) (fun j r => mg (st_P st') j r)
  = innerprod_den v0 vadd vmul s X (st_den V v0 v1 vadd vmul st').
Proof.
  intros [Hw Hs] Hn HwR Hrows st'.
  assert (HnU : n < length (st_U st)) by (rewrite <- (map_length (@nrows V)), Hs; auto).
  assert (Hshape : kshape (st_model st') = s).
  { unfold kshape, st_model, st'. cbn [kfactors als_update st_U].
    rewrite map_nrows_upd; auto. rewrite Hs.
    unfold st' in Hrows. cbn [als_update st_U] in Hrows. now rewrite nth_upd_same in Hrows by auto. }
  unfold st_den. rewrite (innerprod_saved_mttkrp V v0 v1 vadd vmul vsub vopp Vring s X (st_model st') n Hshape Hn).
  assert (Hk : krank (st_model st') = R) by exact HwR.
  rewrite Hk. change (kweights (st_model st')) with (st_w st'). change (kfactors (st_model st')) with (st_U st').
  unfold iprod_saved. apply sum_n_ext. intros r Hr. f_equal. apply sum_n_ext. intros j Hj. f_equal.
  unfold st'. cbn [als_update st_P st_U]. unfold mttkrp_mat. rewrite mget_tabmx by auto.
  unfold mttkrp_den. apply sum_over_ext. intros i _. now rewrite kex_upd.
Qed.

(* what cp_als reports after that update: normX^2 + ||M||^2 - 2*iprod(saved mttkrp) = ||X - M||^2 for the NEW state's model *)
Theorem reported_residual it st n :
  st_wf V R s st -> n < length s ->
  length (st_w (upd1 it st n)) = R -> nrows (nth n (st_U (upd1 it st n)) []) = nth n s 0 ->
  let st' := upd1 it st n in
  let ip := iprod_saved v0 vadd vmul R (nth n s 0) (st_w st') (nth n (st_U st') []) (fun j r => mg (st_P st') j r) in
  vsub (vadd (normsq_den v0 vadd vmul s X) (normsq_den v0 vadd vmul s (st_den V v0 v1 vadd vmul st'))) (vadd ip ip)
  = resid_den v0 vadd vmul vsub s X (st_den V v0 v1 vadd vmul st').
Proof.
  intros Hwf Hn HwR Hrows st' ip. unfold ip, st'. rewrite (reported_iprod it st n Hwf Hn HwR Hrows).
  now rewrite (resid_expand V v0 v1 vadd vmul vsub vopp Vring).
Qed.

(* the mode updated last in a sweep over dims = ds ++ [n] *)
Lemma sweep_last it ds n st :
  als_sweep v0 v1 vadd vmul mkX solve scale R it (ds ++ [n]) st
  = upd1 it (als_sweep v0 v1 vadd vmul mkX solve scale R it ds st) n.
Proof. unfold als_sweep. now rewrite fold_left_app. Qed.

End Rep.
