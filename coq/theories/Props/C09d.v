(* Props/C09d.v — C09, wave 5: innerprod / norm of every data holder AS cp_als CALLS THEM (normX in the set-up; the printing branch
   after the loop and the maxiters = 0 branch: normresidual = sqrt(normX^2 + M.norm()^2 - 2 * X.innerprod(M))) over the PROVED
   kernels of C02 (the holder's own ttv over all modes; ktensor.innerprod's loop over the components; Gram / Hadamard form for a
   Kruskal part; part-by-part sum for sum tensors), bridged to ||X - M||^2 of the denotation.  The square root is an oracle (statements
   are about the squares).  Only statements, `exact`, Print Assumptions and a non-vacuity example. *)
From Coq Require Import List Arith Bool ZArith Ring.
From PV Require Import Base.Index Base.Perm Base.Sum Np.Array Model.Sparse Model.Repr Model.C02Spec Model.C02Dense Model.C02Sparse
  Model.C02SpMore Model.C02Kruskal Model.C02Tucker Model.C02TuckerFull Model.C09Als Proofs.C02KruskalAnyProofs Proofs.C09Norm
  Proofs.C09Inner.
Import ListNotations.

Section C09d.
Variable V : Type.
Variables (v0 v1 : V) (vadd vmul vsub : V -> V -> V) (vopp : V -> V).
Hypothesis Vring : ring_theory v0 v1 vadd vmul vsub vopp (@eq V).
Variable isz : V -> bool.

(* ktensor.innerprod(holder) — what tensor / sptensor / ttensor.innerprod(ktensor) delegate to: res = sum_r weights[r] *
   holder.ttv([A_1[:, r], ..., A_N[:, r]]).  For ANY holder whose all-modes ttv is tied to the array X it denotes, the result is <X, M> *)
Theorem C09_innerprod_holder : forall (s : shape) (X : idx -> V) (ttv_all : list (list V) -> V) (K : ktensor V),
  kshape K = s -> ttvall_ok V v0 vadd vmul s X ttv_all ->
  iprod_k V v0 vadd vmul ttv_all K = innerprod_den v0 vadd vmul s X (den_k v0 v1 vadd vmul K).
Proof. exact (iprod_k_holder V v0 v1 vadd vmul vsub vopp Vring). Qed.

(* ... with tensor.ttv's algorithm (permute / reshape / matrix-vector products over all modes) *)
Theorem C09_innerprod_dense : forall (X : dense V) (K : ktensor V), wf_dense X -> kshape K = dshape X ->
  iprod_k V v0 vadd vmul (ttvall_dense V v0 vadd vmul X) K
  = innerprod_den v0 vadd vmul (dshape X) (den_dense v0 X) (den_k v0 v1 vadd vmul K).
Proof. exact (innerprod_dense_k V v0 v1 vadd vmul vsub vopp Vring). Qed.

(* ... with sptensor.ttv's algorithm (gather the vectors at the stored subscripts, scale the stored values, sum: remdims empty) *)
Theorem C09_innerprod_sparse : forall (S : sparse V) (K : ktensor V), wf_sp isz S -> kshape K = sshape S ->
  iprod_k V v0 vadd vmul (ttvall_sparse V v0 v1 vadd vmul S) K
  = innerprod_den v0 vadd vmul (sshape S) (den_sp v0 S) (den_k v0 v1 vadd vmul K).
Proof. exact (innerprod_sparse_k V v0 v1 vadd vmul vsub vopp Vring isz). Qed.

(* ... with ttensor.ttv's algorithm (core.ttv(U_n^T v_n)) *)
Theorem C09_innerprod_tucker : forall (T : ttensor V) (K : ktensor V),
  wf_dense (tcore T) -> length (dshape (tcore T)) = length (tfactors T) -> kshape K = tshape T ->
  iprod_k V v0 vadd vmul (ttvall_tucker V v0 v1 vadd vmul T) K
  = innerprod_den v0 vadd vmul (tshape T) (den_t v0 v1 vadd vmul T) (den_k v0 v1 vadd vmul K).
Proof. exact (innerprod_tucker_k V v0 v1 vadd vmul vsub vopp Vring). Qed.

(* a Kruskal part of a sum tensor: ktensor.innerprod(ktensor) = sum((w w'^T) * prod_n A_n^T B_n) *)
Theorem C09_innerprod_kruskal_part : forall (L K : ktensor V), kshape K = kshape L ->
  impl_innerprod_kk v0 vadd vmul L K
  = innerprod_den v0 vadd vmul (kshape L) (den_k v0 v1 vadd vmul L) (den_k v0 v1 vadd vmul K).
Proof. exact (innerprod_kruskal_k V v0 v1 vadd vmul vsub vopp Vring). Qed.

(* sumtensor.innerprod(M) = sum over the parts of part.innerprod(M): parts = (denotation, value returned by the part), each tied *)
Theorem C09_innerprod_sum : forall (s : shape) (M : idx -> V) (parts : list ((idx -> V) * V)),
  Forall (fun p => snd p = innerprod_den v0 vadd vmul s (fst p) M) parts ->
  sum_over v0 vadd parts (fun p => snd p) = innerprod_den v0 vadd vmul s (den_sum v0 vadd (map fst parts)) M.
Proof. exact (innerprod_sum V v0 v1 vadd vmul vsub vopp Vring). Qed.

(* normX^2 of the set-up: tensor.norm()^2 (x . x on the ravel), sptensor.norm()^2 (sum of squares of the stored values),
   ttensor.norm()^2 (both sides of its size switch) are the sum of squares of the denoted array *)
Theorem C09_normsq_dense : forall X : dense V, wf_dense X ->
  impl_normsq_dense v0 vadd vmul X = normsq_den v0 vadd vmul (dshape X) (den_dense v0 X).
Proof. exact (normsq_dense_holder V v0 vadd vmul). Qed.

Theorem C09_normsq_sparse : forall S : sparse V, wf_sp isz S ->
  impl_normsq_sp v0 vadd vmul S = normsq_den v0 vadd vmul (sshape S) (den_sp v0 S).
Proof. exact (normsq_sparse_holder V v0 v1 vadd vmul vsub vopp Vring isz). Qed.

Theorem C09_normsq_tucker : forall T : ttensor V, wf_dense (tcore T) -> length (dshape (tcore T)) = length (tfactors T) ->
  impl_normsq_t v0 vadd vmul T = normsq_den v0 vadd vmul (tshape T) (den_t v0 v1 vadd vmul T).
Proof. exact (normsq_tucker_holder V v0 v1 vadd vmul vsub vopp Vring). Qed.

(* the value under the square root in the printing branch after the loop and in the maxiters = 0 branch:
   normX^2 + M.norm()^2 (code's Gram / Hadamard form) - 2 * X.innerprod(M)  =  ||X - M||^2, for the values returned by ANY tied holder *)
Theorem C09_residual_by_innerprod : forall (s : shape) (X : idx -> V) (K : ktensor V) (normX2 ip : V),
  kshape K = s -> normX2 = normsq_den v0 vadd vmul s X -> ip = innerprod_den v0 vadd vmul s X (den_k v0 v1 vadd vmul K) ->
  vsub (vadd normX2 (knormsq_code V v0 vadd vmul K)) (vadd ip ip) = resid_den v0 vadd vmul vsub s X (den_k v0 v1 vadd vmul K).
Proof. exact (residual_by_innerprod V v0 v1 vadd vmul vsub vopp Vring). Qed.

(* sum-tensor data (norm reported as 0): the value is ||M||^2 - 2 <X,M> *)
Theorem C09_residual_by_innerprod_sum : forall (s : shape) (X : idx -> V) (K : ktensor V) (ip : V),
  kshape K = s -> ip = innerprod_den v0 vadd vmul s X (den_k v0 v1 vadd vmul K) ->
  vsub (knormsq_code V v0 vadd vmul K) (vadd ip ip)
  = vsub (normsq_den v0 vadd vmul s (den_k v0 v1 vadd vmul K))
         (vadd (innerprod_den v0 vadd vmul s X (den_k v0 v1 vadd vmul K)) (innerprod_den v0 vadd vmul s X (den_k v0 v1 vadd vmul K))).
Proof. exact (residual_by_innerprod_sum V v0 v1 vadd vmul vsub vopp Vring). Qed.

(* the loop's iprod (saved MTTKRP of ANY mode n) and the printing branch's X.innerprod(M) are the same number: in exact arithmetic the
   final report does not depend on printitn *)
Theorem C09_report_branches_agree : forall (s : shape) (X : idx -> V) (ttv_all : list (list V) -> V) (K : ktensor V) (n : nat),
  kshape K = s -> n < length s -> ttvall_ok V v0 vadd vmul s X ttv_all ->
  iprod_k V v0 vadd vmul ttv_all K =
  iprod_saved v0 vadd vmul (krank K) (nth n s 0) (kweights K) (nth n (kfactors K) []) (mttkrp_den v0 v1 vadd vmul s X (kfactors K) n).
Proof. exact (both_branches_agree V v0 v1 vadd vmul vsub vopp Vring). Qed.

End C09d.

Print Assumptions C09_innerprod_holder.
Print Assumptions C09_innerprod_dense.
Print Assumptions C09_innerprod_sparse.
Print Assumptions C09_innerprod_tucker.
Print Assumptions C09_innerprod_kruskal_part.
Print Assumptions C09_innerprod_sum.
Print Assumptions C09_normsq_dense.
Print Assumptions C09_normsq_sparse.
Print Assumptions C09_normsq_tucker.
Print Assumptions C09_residual_by_innerprod.
Print Assumptions C09_residual_by_innerprod_sum.
Print Assumptions C09_report_branches_agree.

(* non-vacuity: a concrete non-symmetric 2x3x2 array held dense, sparse (unsorted stored order) and as a Tucker tensor (core 1x2x1),
   a rank-2 Kruskal model with weights: X.innerprod(M) through each holder's own ttv, the three norms, and the value under the
   square root *)
Example C09_innerprod_example :
  let s := [2; 3; 2]%nat in
  let X := mkDense s [1; -2; 3; 0; 5; 4; -1; 2; 0; 7; -3; 1]%Z in
  let S := mkSp s [[1; 2; 1]; [0; 0; 0]; [1; 0; 1]; [0; 1; 0]]%nat [1; 1; 2; 3]%Z in
  let T := mkT (mkDense [1; 2; 1]%nat [2; -1]%Z) [[[1]; [2]]; [[1; 0]; [0; 1]; [1; 1]]; [[3]; [-1]]]%Z in
  let K := mkK [2; -1]%Z [ [[1; 0]; [2; 1]]; [[1; 2]; [-1; 1]; [0; 3]]; [[2; 1]; [1; -1]] ]%Z in
  iprod_k Z 0%Z Z.add Z.mul (ttvall_dense Z 0%Z Z.add Z.mul X) K
    = innerprod_den 0%Z Z.add Z.mul s (den_dense 0%Z X) (den_k 0%Z 1%Z Z.add Z.mul K) /\
  iprod_k Z 0%Z Z.add Z.mul (ttvall_dense Z 0%Z Z.add Z.mul X) K = (-40)%Z /\
  iprod_k Z 0%Z Z.add Z.mul (ttvall_sparse Z 0%Z 1%Z Z.add Z.mul S) K
    = innerprod_den 0%Z Z.add Z.mul s (den_sp 0%Z S) (den_k 0%Z 1%Z Z.add Z.mul K) /\
  iprod_k Z 0%Z Z.add Z.mul (ttvall_tucker Z 0%Z 1%Z Z.add Z.mul T) K
    = innerprod_den 0%Z Z.add Z.mul s (den_t 0%Z 1%Z Z.add Z.mul T) (den_k 0%Z 1%Z Z.add Z.mul K) /\
  impl_normsq_dense 0%Z Z.add Z.mul X = 119%Z /\
  impl_normsq_sp 0%Z Z.add Z.mul S = 15%Z /\
  impl_normsq_t 0%Z Z.add Z.mul T = normsq_den 0%Z Z.add Z.mul s (den_t 0%Z 1%Z Z.add Z.mul T) /\
  (119 + knormsq_code Z 0%Z Z.add Z.mul K - (-40 + -40))%Z
    = resid_den 0%Z Z.add Z.mul Z.sub s (den_dense 0%Z X) (den_k 0%Z 1%Z Z.add Z.mul K).
Proof. vm_compute. repeat split; reflexivity. Qed.
