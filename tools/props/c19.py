"""C19 — ill-formed requests are rejected, not answered (DESIGN §C19).

Every covered operation has an entry in c19_ops.OPS:
  coq(args)   -> Gallina application "guard_x ..." / "pre_x ..." argument text
  pre(args)   -> bool, the precondition re-implemented in pure Python (the brute-force oracle)
  call(args)  -> runs the operation on pyttb (operands built from the abstract descriptor); returns the receiver
                 snapshots (before, after) — raising means Rejected
  gen(rng, tier) -> [(args, tag)]: for each precondition a stream that violates exactly that one, across shapes
                 chosen so that the mismatch sometimes broadcasts / divides evenly, plus well-formed controls.
The Coq side evaluates guard_<op> (faithful transliteration of the code's checks) and pre_<op> on the same
descriptors; both must agree with pyttb's Rejected/Answered (a disagreement inside an open finding's trigger
region is attributed to that finding)."""
from vcheck import Case
try:
    from props import c19_ops as O
except ImportError:      # imported with tools/props on sys.path
    import c19_ops as O

PROP = "C19"
LEVEL = "proof"
INCLUDE = ['w7gen']   # wave 7 (lead, integration): tenmat.__init__ / sptenmat.__init__ generated from source (Gen/GenTenmat7.v, GenSptenmat7.v): bridges, acceptance / rejection laws (Props/W7C01*.v), differential stream of accepted and rejected constructor requests
GEN_UNITS = ["GenUtils", "GenUtils2", "GenUtils3", "GenUtils3b", "GenMethods3", "GenKtensor4", "GenKtensor4b", "GenSptensor4"]
COQ_TARGETS = ["Props/C19.vo", "Props/C19W4K.vo", "Props/C19W5.vo", "Props/C19W5K.vo", "Props/C19W5S.vo", "Props/C19W5F.vo", "Model/Harness.vo", "Props/W3C19.vo", "Props/W3C19b.vo"]
THEOREM_FILES = ["Props/C19.v", "Props/C19W4K.v", "Props/C19W5.v", "Props/C19W5K.v", "Props/C19W5S.v", "Props/C19W5F.v", "Props/W3C19.v", "Props/W3C19b.v"]
COQ_IMPORTS = ("From Coq Require Import List ZArith Bool.\n"
               "From PV Require Import Np.NpZ Np.NpZ2 Gen.GenUtils Gen.GenUtils2 Model.C19Guards.\nLocal Open Scope Z_scope.\n")
RULE = ("malformed stream: per operation and per precondition, descriptors violating exactly that precondition over a pool of "
        "shapes (distinct sizes, cubical, singleton modes, 1-way, 2-way) incl. length-1 vectors, swapped matrix dims, short "
        "factor lists (the offending multiplicand / factor matrix / list entry first, in the middle and last: tags *_first/_mid/_last/_only; "
        "wrong-size multiplicands under all four calling conventions of ttv/ttm), repeated/negative/out-of-range modes, non-permutations (too short, over-long with repeats that still mention "
        "every mode, shifted, negative, empty), size tuples rearranged or re-factored with the same product (ttv/ttm/mttkrp), "
        "operand pairs of different ORDER agreeing on every common mode (proper prefixes / suffixes of the shape, the shape extended by its last / first size or doubled: tags prefix / suffix); "
        "tenmat constructor with a mode listed twice and a data matrix consistent with the lists as given (tags rep_mode / rep_singleton, the repeated mode first / last in either list); "
        "wrong-count reshapes, inconsistent components, bad options; tensor.scale with mode lists in any order (factor sizes in ascending "
        "mode order = well-formed, in the caller's order of an unsorted list = ill-formed); linear indices on both sides of -prod(shape) and "
        "prod(shape); mttkrp with matrices without columns (sparse / Kruskal receivers); gcp_opt with a Kruskal or list guess next to a "
        "rank <= 0; tenmat + / - on pairs (tshape, rdims, cdims) incl. N x 1 against 1 x N "
        "and singleton-mode splits; every stream repeated on operand kinds (sparse: empty / X - X / one entry / explicit zeros / reversed; "
        "dense: C-ordered, all-zero, strided view; ktensor: C-ordered factors, normalised; multiplicands C-ordered / strided); "
        "plus well-formed controls. non-trivial = the case violates a precondition (controls are trivial); "
        "distinct = distinct (op, descriptor)")
EXPLANATION = ("Theorems: for every covered operation guard_<op> (transliteration of the checks the code performs, numpy's "
               "implicit checks and early returns included; mode selection is the tt_dimscheck regenerated from "
               "pyttb_utils.py on this run; linear indices go through the regenerated tt_ind2sub, matricisations through the regenerated "
               "gather_wrap_dims; the first step of every mttkrp is bridged to the regenerated get_mttkrp_factors) rejects exactly when pre_<op> fails (guard = decide pre, for all arguments); where the "
               "code is still weaker (known findings A-28, C19-N11, C19-N18; C19-N29 ttensor.reconstruct with negative / repeated modes, repair 9d2314a pending) "
               "the full statement is refuted by a witness, "
               "the partial version is proved and the answered set is characterised exactly (C19_tenmat_ctor_exact/_gap, "
               "C19_from_aggregator_no_rows, C19_reconstruct_exact/_gap; C19_reconstruct_repaired: the method with the pending repair rejects exactly when the precondition fails, "
               "and the correspondence runs that guard as soon as C19-N29 is listed as fixed); sptensor.scale with a numpy vector (C19-N27, repaired 98f7017) and tensor.ttsv "
               "(C19-N28, repaired 0478ea5) are full theorems now (C19_sptensor_scale_arr, C19_ttsv); the witness inputs of all repaired findings stay in the stream (tags regression_*); ktensor.update and sptensor.permute are "
               "proved over the WHOLE methods regenerated from source (C19_ktensor_update_gen: the two-pass method raises exactly when the guard "
               "rejects, and never after its first assignment; C19_sptensor_permute_gen); the argument checks of sptensor.from_aggregator are the regenerated tt_subscheck / tt_valscheck / "
               "tt_sizecheck and the mode check of ktensor.redistribute is proved over the regenerated method (C19_mode_redistribute_gen). "
               "Correspondence: pyttb vs guard_<op> and pre_<op> on the malformed stream (Rejected = any exception before a value is "
               "returned), receiver snapshot compared byte-for-byte; exactly one behaviour is accepted per request (inside the "
               "trigger of an open finding pyttb is compared with the precondition alone and the mismatch attributed).")
CORRESPONDENCE_ONLY = sorted(n for n in O.OPS if n not in O.PROVED)
ASSUMPTIONS = ["which exception type is raised is not part of the property and is not compared",
               "guard_<op> is a hand transliteration of the checks (tied to the code by the correspondence stream only), except for the "
               "helpers translated from source that the guards call or are bridged to: tt_dimscheck, gather_wrap_dims, tt_ind2sub, "
               "tt_subscheck / tt_valscheck / tt_sizecheck (from_aggregator), get_mttkrp_factors, ktensor.redistribute / permute / arrange / "
               "extract / update / from_vector, sptensor.permute (whole methods; the bridges of the last seven are w4/w5-translator's)",
               "ttensor.reconstruct has an empty docstring: the precondition is the property's own clause on mode arguments (distinct modes of the tensor) "
               "plus the written test len(samples) == len(modes)",
               "tensor.ttsv: only the default algorithm (version None / 2); the stated precondition is the source comment 'Sizes of all modes must be "
               "the same' + skip_dim a mode + a vector of the modes' length whenever a mode is multiplied; sptensor.scale with an array: 1-d vectors only",
               "values of operands are fixed small integers: rejection is assumed to depend on shapes/lengths/modes/options; "
               "memory layout, stored pattern (no entry / one / explicit zeros / reversed) and all-zero data are varied (operand kinds) "
               "and must not change the outcome",
               "tensor.nvecs: only the mode argument is modelled; gcp_opt: rank <= 0 is refused by an arithmetic accident modelled as one check",
               "tensor.scale(factor, dims): dims is read as a SET of modes (tt_dimscheck sorts it, C02's specification of scale does the same): "
               "the factor must have the sizes of the listed modes in ascending mode order",
               "linear indices follow Python's convention (pyttb_utils.tt_ind2sub shifts negative indices by prod(shape)): "
               "-prod(shape) <= k < prod(shape) is well-formed",
               "mttkrp with matrices that have no column is generated for sparse and Kruskal receivers only (tensor / ttensor / sumtensor.mttkrp "
               "refuse even the well-formed request: numpy cannot reshape the empty Khatri-Rao product; refusing a well-formed request is outside C19)",
               "subscript arrays are lists of rows of one length; a p x 0 array with p > 0 (the sparse constructor's 'empty array in weird format') "
               "and sptensor.extract with an array without rows are not modelled"]


CAP = {"quick": 180, "thorough": 1200}


def gen_cases(rng, tier):
    """per operation: all tags kept; within a tag a seeded sample so that an operation has <= CAP[tier] cases"""
    cases = []
    for name, op in O.OPS.items():
        bytag = {}
        seen = set()
        for args, tag in op.gen(rng, tier):
            c = Case(name, dict(args, tag=tag), tag != "control")
            k = c.key()
            if k in seen:
                continue
            seen.add(k)
            bytag.setdefault((tag, args.get("rk"), args.get("rk2"), args.get("mk")), []).append(c)
        total = sum(len(v) for v in bytag.values())
        cap = CAP[tier]
        if total > cap:
            # buckets = (violated precondition, operand kinds); the default kinds get the larger share
            ndef = sum(1 for k in bytag if k[1:] == (None, None, None))
            per = max(8, cap // max(1, ndef))
            per_kind = max(1, (cap // 2) // max(1, len(bytag) - ndef))      # the non-default kinds together get about cap/2 more
            for tag in bytag:
                lim = per if tag[1:] == (None, None, None) else per_kind
                if len(bytag[tag]) > lim:
                    bytag[tag] = rng.sample(bytag[tag], lim)
        # ill-formed requests first, controls last: the first reported mismatches then carry an input on which the property
        # itself fails (a control that is wrongly refused is a model mismatch, not a violation of C19)
        for tag in sorted(bytag, key=lambda k: k[0] == "control"):
            cases += bytag[tag]
    return cases


def run_impl(c):
    return O.run(c.op, c.args)


def coq_check(c, o):
    if "harness" in o:
        return "false"
    op = O.OPS[c.op]
    a = op.coq(c.args)
    rej = "true" if o["rejected"] else "false"
    same = "true" if (o["recv_same"] or (op.mutating and not o["rejected"])) else "false"
    if op.guard_c is None or any(trig(c) for trig in O.TRIGGERS.values()):
        # inside the trigger region of a known finding the faithful guard and the precondition differ by construction:
        # pyttb is compared with the precondition (a mismatch is attributed to the finding while the defect is present and
        # disappears once it is repaired); everywhere else pyttb must agree with both
        return f"c19_pre_agrees (pre_{op.pre_c} {a}) {rej} && {same}"
    return f"c19_agree (guard_{op.guard_c} {a}) (pre_{op.pre_c} {a}) {rej} && {same}"


def oracle(c, o):
    if "harness" in o:
        return None
    op = O.OPS[c.op]
    ok = op.pre(c.args)
    if not ok and not o["rejected"]:
        return f"{c.op}: ill-formed request (violates: {c.args.get('tag')}) was answered, not rejected"
    if o["rejected"] and not o["recv_same"]:
        return f"{c.op}: rejected request changed its receiver"
    return None


TRIGGERS = O.TRIGGERS
WITNESSES = O.WITNESSES
