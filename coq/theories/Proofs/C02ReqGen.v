(* Proofs/C02ReqGen.v — sptensor.ttv / ktensor.ttv / ttensor.ttv AS CALLED: the request (dims in any order | exclude_dims | neither;
   |dims| or N vectors) is resolved by the translator-GENERATED tt_dimscheck (Gen/GenUtils.v) exactly as each class does
       dims, vidx = tt_dimscheck(self.ndims, len(vector), dims, exclude_dims);  kernel(dims, [vector[vidx[i]] ...])
   and the result is the defining sum of ttv over the CALLER's own order of the designated modes with the vector the caller attaches
   to each.  One kernel-generic resolution theorem (ttv_req_resolves) + the proved kernels (C02_ttv_sparse / _kruskal / _tucker). *)
From Coq Require Import List ZArith Arith Bool Lia Permutation Ring.
From PV Require Import Base.Index Base.Perm Base.Sum Np.NpZ Np.Array Model.Sparse Model.Repr Model.C02Spec Model.C02Dense Model.C02Modes
                       Model.C02Kruskal Model.C02SpKernels Model.C02SpMore Model.C02KruskalMore Model.C02Tucker
                       Gen.GenUtils Proofs.NpZProofs Proofs.C02DenseProofs Proofs.C02ModesProofs Proofs.C02PermProofs
                       Proofs.C02IndicatorProofs Proofs.C02KruskalMoreProofs Proofs.C02TuckerTtvProofs.
Import ListNotations.

Section G.
Variable V : Type.
Variables (v0 v1 : V) (vadd vmul vsub : V -> V -> V) (vopp : V -> V).
Hypothesis Vring : ring_theory v0 v1 vadd vmul vsub vopp (@eq V).
Variable isz : V -> bool.

(* the request handed to a kernel that takes (sorted modes, aligned vectors) *)
Definition ttv_req {R : Type} (N : nat) (kernel : list nat -> list (list V) -> R) (dims excl : option vec) (vs : list (list V)) : res R :=
  match tt_dimscheck (Z.of_nat N) (Some (zlen vs)) dims excl with
  | Ok (sdims, Some vidx) => Ok (kernel (nats sdims) (map (znth [] vs) vidx))
  | _ => Err
  end.

Theorem ttv_req_resolves {R : Type} (N : nat) (kernel : list nat -> list (list V) -> R) dims excl (vs : list (list V)) :
  admissible (Z.of_nat N) dims excl (zlen vs) ->
  let d := req_modes (Z.of_nat N) dims excl in
  let cd := nats d in
  exists sd svs, ttv_req N kernel dims excl vs = Ok (kernel sd svs) /\
    length svs = length sd /\ NoDup sd /\ (forall x, In x sd -> x < N) /\ compl N sd = compl N cd /\
    forall (f : idx -> V) s i', length s = N -> length i' = length (compl N cd) ->
      spec_ttv v0 vadd vmul f s sd svs i' = spec_ttv v0 vadd vmul f s cd (map (attach [] d vs) cd) i'.
Proof.
  intros Hadm. cbn zeta.
  destruct (dimscheck_align (@nil V) _ dims excl vs Hadm) as (vidx & E & Hal & Hr & Hn).
  set (d := req_modes (Z.of_nat N) dims excl) in *.
  assert (HP : Permutation (nats (np_sort d)) (nats d)) by (apply Permutation_map, np_sort_perm).
  assert (Ec : compl N (nats (np_sort d)) = compl N (nats d)).
  { apply compl_ext. intros x. split; intros Hx; [now apply (Permutation_in x HP)|now apply (Permutation_in x (Permutation_sym HP))]. }
  assert (Hnd : NoDup (nats (np_sort d))).
  { apply (Permutation_NoDup (Permutation_sym HP)). apply nats_NoDup; auto. intros x Hx. apply Hr in Hx. lia. }
  assert (Hrs : forall x, In x (nats (np_sort d)) -> x < N).
  { intros x Hx. apply (Permutation_in x HP) in Hx. now apply (nats_range _ d). }
  exists (nats (np_sort d)), (map (attach [] d vs) (nats (np_sort d))).
  split; [unfold ttv_req; rewrite E, Hal; reflexivity|].
  split; [now rewrite map_length|]. split; [exact Hnd|]. split; [exact Hrs|]. split; [exact Ec|].
  intros f s i' Hs Hi. subst N.
  apply (spec_ttv_perm_pairs V v0 v1 vadd vmul vsub vopp Vring); auto.
  - now rewrite map_length.
  - now rewrite map_length.
  - now apply combine_map_perm.
  - now rewrite Ec.
Qed.

(* ---- sptensor.ttv as called (values; the 50% container switch denotes the same array: C02_sparse_switch) ---- *)
Theorem ttv_sparse_req_caller (S : sparse V) dims excl (vs : list (list V)) : wf_sp isz S ->
  admissible (Z.of_nat (length (sshape S))) dims excl (zlen vs) ->
  let d := req_modes (Z.of_nat (length (sshape S))) dims excl in
  let cd := nats d in
  exists Y, ttv_req (length (sshape S)) (impl_ttv_sp v0 v1 vadd vmul S) dims excl vs = Ok Y /\
    forall i', inb (ttv_shape (sshape S) cd) i' = true ->
      Y i' = spec_ttv v0 vadd vmul (den_sp v0 S) (sshape S) cd (map (attach [] d vs) cd) i'.
Proof.
  intros W Hadm. cbn zeta.
  destruct (ttv_req_resolves (length (sshape S)) (impl_ttv_sp v0 v1 vadd vmul S) dims excl vs Hadm) as (sd & svs & E & HL & Hnd & Hr & Ec & Hp).
  eexists. split; [exact E|]. intros i' Hi.
  rewrite (impl_ttv_sp_correct V v0 v1 vadd vmul vsub vopp Vring isz S sd svs i' W Hnd Hr HL) by (unfold ttv_shape in *; now rewrite Ec).
  apply Hp; [reflexivity|]. apply inb_length in Hi. unfold ttv_shape in Hi. now rewrite pick_length in Hi.
Qed.

(* ---- ktensor.ttv as called ---- *)
Theorem ttv_kruskal_req_caller (K : ktensor V) dims excl (vs : list (list V)) :
  admissible (Z.of_nat (length (kfactors K))) dims excl (zlen vs) ->
  let d := req_modes (Z.of_nat (length (kfactors K))) dims excl in
  let cd := nats d in
  exists Y, ttv_req (length (kfactors K)) (impl_ttv_k v0 v1 vadd vmul K) dims excl vs = Ok Y /\
    forall i', inb (ttv_shape (kshape K) cd) i' = true ->
      den_k v0 v1 vadd vmul Y i' = spec_ttv v0 vadd vmul (den_k v0 v1 vadd vmul K) (kshape K) cd (map (attach [] d vs) cd) i'.
Proof.
  intros Hadm. cbn zeta.
  assert (HN : length (kshape K) = length (kfactors K)) by (unfold kshape; apply map_length).
  destruct (ttv_req_resolves (length (kfactors K)) (impl_ttv_k v0 v1 vadd vmul K) dims excl vs Hadm) as (sd & svs & E & HL & Hnd & Hr & Ec & Hp).
  eexists. split; [exact E|]. intros i' Hi.
  rewrite (impl_ttv_k_correct V v0 v1 vadd vmul vsub vopp Vring K sd svs i' Hnd Hr HL) by (unfold ttv_shape in *; rewrite HN in *; now rewrite Ec).
  apply Hp; [exact HN|]. apply inb_length in Hi. unfold ttv_shape in Hi. rewrite pick_length, HN in Hi. exact Hi.
Qed.

(* ---- ttensor.ttv as called ---- *)
Theorem ttv_tucker_req_caller (T : ttensor V) dims excl (vs : list (list V)) :
  wf_dense (tcore T) -> length (dshape (tcore T)) = length (tfactors T) ->
  admissible (Z.of_nat (length (tfactors T))) dims excl (zlen vs) ->
  let d := req_modes (Z.of_nat (length (tfactors T))) dims excl in
  let cd := nats d in
  exists Y, ttv_req (length (tfactors T)) (impl_ttv_t v0 vadd vmul T) dims excl vs = Ok Y /\
    forall i', inb (ttv_shape (tshape T) cd) i' = true ->
      den_t v0 v1 vadd vmul Y i' = spec_ttv v0 vadd vmul (den_t v0 v1 vadd vmul T) (tshape T) cd (map (attach [] d vs) cd) i'.
Proof.
  intros W HC Hadm. cbn zeta.
  assert (HN : length (tshape T) = length (tfactors T)) by (unfold tshape; apply map_length).
  destruct (ttv_req_resolves (length (tfactors T)) (impl_ttv_t v0 vadd vmul T) dims excl vs Hadm) as (sd & svs & E & HL & Hnd & Hr & Ec & Hp).
  eexists. split; [exact E|]. intros i' Hi.
  rewrite (impl_ttv_t_correct V v0 v1 vadd vmul vsub vopp Vring T sd svs i' W HC Hnd Hr HL) by (unfold ttv_shape in *; rewrite HN in *; now rewrite Ec).
  apply Hp; [exact HN|]. apply inb_length in Hi. unfold ttv_shape in Hi. rewrite pick_length, HN in Hi. exact Hi.
Qed.
End G.
