(* Model/C15OldTable.v — wave 4: the OLD (version != None) body of tensor.symmetrize at code level, including the
   construction of the permutation table:

     combos[i] = list(itertools.permutations(grps[i]));  combo_lengths;  total_perms = prod(combo_lengths)
     sym_perms = np.tile(np.arange(n), [total_perms, 1])
     for i in range(ngrps):
         ntimes = prod(combo_lengths[:i]); ncopies = prod(combo_lengths[i+1:]); nelems = len(combos[i]); perm_idx = 0
         for _ in range(ntimes): for k in range(nelems): for _ in range(ncopies):
             sym_perms[perm_idx, grps[i]] = combos[i][k, :]; perm_idx += 1
     Y = zeros(shape);  for i in range(total_perms): Y += self.permute(sym_perms[i, :]);  Y /= total_perms
     for i in range(total_perms): Z = Y.permute(sym_perms[i, :]); Y.data[:] = np.maximum(Y.data, Z.data)

   Row r of the finished table: every group i has written combos[i][(r // ncopies_i) % nelems_i] at its positions
   (perm_idx runs through 0 .. ntimes*nelems*ncopies-1 = 0 .. total_perms-1 for every group).
   Definitions only; proofs in Proofs/C15OldTable.v. *)
From Coq Require Import List Arith Lia Bool.
From PV Require Import Base.Index Base.Perm Base.Sum Np.Array Model.Repr Model.C15Sym Model.C15Impl Model.C15Details.
Import ListNotations.

Definition combo_len (g : list nat) : nat := length (iperms g).
(* prod(combo_lengths) of a list of groups *)
Fixpoint total_perms (G : list (list nat)) : nat :=
  match G with [] => 1 | g :: G' => combo_len g * total_perms G' end.
(* the groups write into row r one after the other; ncopies of the head group = total_perms of the later groups *)
Fixpoint code_row (G : list (list nat)) (r : nat) (p : list nat) : list nat :=
  match G with
  | [] => p
  | g :: G' => code_row G' r (put g (nth ((r / total_perms G') mod combo_len g) (iperms g) []) p)
  end.
Definition code_table (N : nat) (G : list (list nat)) : list (list nat) :=
  map (fun r => code_row G r (seq 0 N)) (seq 0 (total_perms G)).

Section OT15.
Context {V : Type} (v0 v1 : V) (vadd vmul : V -> V -> V) (vinv : V -> V) (vmax : V -> V -> V).

(* the average and the max-fix over a given table, one materialised array per round *)
Definition sym_old_tbl (tbl : list (list nat)) (T : dense V) : dense V :=
  let s := dshape T in
  let Ysum := fold_left (fun Y p => tabulate s (fun i => vadd (den_dense v0 Y i) (permuted (den_dense v0 T) p i)))
                        tbl (tabulate s (fun _ => v0)) in
  let Y1 := tabulate s (fun i => vmul (den_dense v0 Ysum i) (vinv (of_nat v0 v1 vadd (length tbl)))) in
  fold_left (fun Y p => tabulate s (maxfix_step vmax (den_dense v0 Y) p)) tbl Y1.

Definition sym_old_code (T : dense V) (G : list (list nat)) : dense V :=
  sym_old_tbl (code_table (length (dshape T)) G) T.
End OT15.
