(* Np/NpZ3d.v — primitives for sptensor.allsubs (Gen/GenMethods2.v): Python list append, column matrices, squeeze of a
   one-column matrix.  Definitions only; validated by the differential stream of tools/props/w3gen.py (op method_allsubs
   exercises all of them against pyttb; ops named prim3d_...). *)
From Coq Require Import List ZArith Bool Lia.
From PV Require Import Np.NpZ Np.NpZ2 Np.NpZ3.
Import ListNotations.
Local Open Scope Z_scope.

(* l.append(x) *)
Definition list_append {A} (l : list A) (x : A) : list A := l ++ [x].
(* np.ones((n, 1)) for n >= 0  (n = 0: a 0 x 1 array is not representable as a row list) *)
Definition np_ones_col (n : Z) : mat := np_full n [1].
(* np.expand_dims(v, axis=1): a vector as a one-column matrix *)
Definition np_col_mat (v : vec) : mat := map (fun x => [x]) v.
(* np.squeeze(m) of a one-column matrix: its column (a 1 x 1 matrix squeezes to a scalar: kept as a length-1 vector, which
   numpy broadcasts the same way in the only use, a column store) *)
Definition np_squeeze_col_ok (m : mat) : bool := forallb (fun r => zlen r =? 1) m.
Definition np_squeeze_col (m : mat) : vec := map (fun r => znth 0 r 0) m.
(* self.ndims of an sptensor: len(self.shape) (the generated method sptensor_ndims of Gen/GenMethods.v) *)
Definition spt_ndims (t : sptz) : Z := zlen (spt_shape t).
