(* Proofs/C02DimsReqProofs.v — tensor.collapse / tensor.scale as called, with the GENERATED tt_dimscheck resolving the mode list:
   the kernels of Model/C02Tenmat.v run on the sorted modes (all modes, ascending, when dims is None). *)
From Coq Require Import List ZArith Arith Bool Lia Permutation Sorted.
From PV Require Import Base.Index Base.Perm Base.Sum Np.NpZ Np.Array Model.Sparse Model.Repr Model.C02Spec Model.C02Dense
                       Model.C02Modes Model.C02Tenmat Model.C02DimsReq Gen.GenUtils
                       Proofs.NpZProofs Proofs.UtilsProofs.
Import ListNotations.

Section P.
Variable V : Type.
Variables (v0 v1 : V) (vadd vmul : V -> V -> V).

Theorem impl_collapse_req_dims (red : list V -> V) (X : dense V) (d : vec) :
  dims_ok (Z.of_nat (length (dshape X))) None d ->
  impl_collapse_req v0 red X (Some d) = Ok (impl_collapse_dense v0 red X (nats (np_sort d))).
Proof. intros H. unfold impl_collapse_req. now rewrite (dimscheck_dims _ None d H). Qed.

Theorem impl_collapse_req_all (red : list V -> V) (X : dense V) :
  impl_collapse_req v0 red X None = Ok (impl_collapse_dense v0 red X (seq 0 (length (dshape X)))).
Proof.
  unfold impl_collapse_req. set (N := Z.of_nat (length (dshape X))).
  assert (H : dims_ok N None (np_arange 0 N)).
  { repeat split.
    - apply in_np_arange in H. lia.
    - apply in_np_arange in H. lia.
    - apply strict_sorted_nodup, np_arange_sorted. }
  rewrite (dimscheck_dims _ None _ H).
  rewrite np_sort_id by (apply sorted_lt_le, np_arange_sorted).
  f_equal. f_equal. unfold nats, np_arange, N. rewrite Z.sub_0_r, Nat2Z.id, map_map.
  rewrite <- (map_id (seq 0 _)) at 2. apply map_ext. intros k. lia.
Qed.

Theorem impl_scale_req_dims (X F : dense V) (d : vec) :
  dims_ok (Z.of_nat (length (dshape X))) None d ->
  impl_scale_req v0 vmul X d F = Ok (impl_scale_dense v0 vmul X (nats (np_sort d)) F).
Proof. intros H. unfold impl_scale_req. now rewrite (dimscheck_dims _ None d H). Qed.

End P.
