(* Model/C04Mat.v — C04, wave 3 (definitions only, executable, value type generic):
   tenmat.__getitem__/__setitem__ and sptenmat.__setitem__.  Under entry access a matricised tensor is a 2-way array of
   FIXED shape (rows, cols): the steps are the dense / sparse steps of C04Model, restricted to requests that keep the
   shape (numpy does not grow an ndarray on assignment; sptenmat rejects subscripts outside its shape). *)
From Coq Require Import List Arith Bool.
From PV Require Import Base.Index Np.Array Model.Sparse Model.C04Model.
Import ListNotations.

Section G.
Context {V : Type} (v0 : V) (isz : V -> bool).

Definition is_2way (s : shape) : bool := match s with [_; _] => true | _ => false end.

(* the specification for an array of fixed shape: spec_step, and the shape must not change *)
Definition spec_fixed_step (a : amap V) (o : op V) : option (amap V * outv (V:=V)) :=
  match spec_step v0 a o with
  | Some (a1, out) => if shape_eqb (ashape a1) (ashape a) then Some (a1, out) else None
  | None => None end.

Definition fixed_step_dense_g (T : dense V) (o : op V) : option (dense V * outv (V:=V)) :=
  if is_2way (dshape T) then
    match step_dense v0 T o with
    | Some (T1, out) => if shape_eqb (dshape T1) (dshape T) then Some (T1, out) else None
    | None => None end
  else None.

Definition fixed_step_sparse_g (S : sparse V) (o : op V) : option (sparse V * outv (V:=V)) :=
  if is_2way (sshape S) then
    match step_sparse v0 isz S o with
    | Some (S1, out) => if shape_eqb (sshape S1) (sshape S) then Some (S1, out) else None
    | None => None end
  else None.
End G.
