(* Props/C08c.v — C08, wave 3b: the column loop of ktensor.fixsigns(other) IS the one-shot flip model.
   Only statements, `exact`, Print Assumptions. *)
From Coq Require Import List Arith Bool ZArith Permutation Ring Sorted.
From PV Require Import Base.Index Base.Perm Base.Sum Model.Repr Model.C08Kruskal Model.C08More Model.C08Loop Model.Harness
  Model.C08Inst Model.C08Inst3 Proofs.C08Proofs Proofs.C08Signs Proofs.C08Loop Proofs.C08LoopQ.
Import ListNotations.
Local Open Scope nat_scope.

Section C08c.
Variable V : Type.
Variables (v0 v1 : V) (vadd vmul vsub : V -> V -> V) (vopp : V -> V).
Hypothesis Vring : ring_theory v0 v1 vadd vmul vsub vopp (@eq V).
Variables (neg : V -> bool) (leb : V -> V -> bool).
Hypothesis leb_total : forall a b, leb a b = false -> leb b a = true.
Hypothesis neg_mono : forall a b, leb a b = true -> neg b = true -> neg a = true.

(* fixsigns(other), the loop `for r in range(RB)` as written in the source — scores of component r computed from the factors
   as ALREADY MUTATED by the components before r, argsort, the literal breakpt/endpt arithmetic, `-1 *` applied in place to the
   chosen columns one after the other — returns, entry by entry, the Kruskal tensor of the one-shot model k_fixsigns_other_core
   (k_flip with the modes fso_modes decided on the ORIGINAL operands): every well-formed receiver A (all factor rows of length
   rank A; any number of modes, any mode sizes), every reference B — fewer, as many or MORE components than A (the loop runs over
   range(min(RA, RB)) since /repo 8ac87f0; former finding C08-N2) —, every commutative ring, every total comparison, every sign
   test that is downward closed w.r.t. it. *)
Theorem C08_fixsigns_other_loop : forall A B : ktensor V, wf_k A ->
  py_fixsigns_other_core v0 v1 vadd vmul vopp neg leb A B = k_fixsigns_other_core v0 v1 vadd vmul vopp neg leb A B.
Proof. exact (py_fixsigns_other_is_model V v0 v1 vadd vmul vsub vopp Vring neg leb leb_total neg_mono). Qed.

(* ... hence the sign-agreement normal form holds for the LOOP's result: per component of the reference, in the order of the
   sorted scores the new scores are the old ones with the first endpt negated; at most one stays negative, none when the number
   of negative scores was even *)
Theorem C08_fixsigns_other_loop_normal_form : (forall x, neg x = true -> neg (vopp x) = false) ->
  forall A B r, wf_k A -> r < krank B -> r < krank A ->
  let s := fso_scores v0 vadd vmul A B r in let idx := argsort leb s in let ss := pick v0 idx s in
  let A' := py_fixsigns_other_core v0 v1 vadd vmul vopp neg leb A B in
  Sorted (fun a b => leb a b = true) ss /\
  (forall q, q < length (kfactors A) ->
     nth (nth q idx 0) (fso_scores v0 vadd vmul A' B r) v0 = flipped_sorted V v0 vopp neg leb ss q) /\
  let cnt := length (filter (fun q => neg (nth (nth q idx 0) (fso_scores v0 vadd vmul A' B r) v0)) (seq 0 (length (kfactors A)))) in
  cnt <= 1 /\ (Nat.even (length (filter neg ss)) = true -> cnt = 0).
Proof. exact (py_fixsigns_other_scores V v0 v1 vadd vmul vsub vopp Vring neg leb leb_total neg_mono). Qed.

Section Oracles.
Variables (vinv : V -> V) (nrm : list V -> V) (pos : V -> bool) (root : V -> V) (srt : list V -> list nat).

(* normalize() (no absorption, no sort) keeps well-formedness and the number of components: the operands of the loop are
   well-formed whenever the arguments of fixsigns(other) are *)
Theorem C08_normalize_wf : forall K : ktensor V, wf_k K ->
  wf_k (k_normalize v0 v1 vmul vopp vinv nrm pos neg root srt WNone false None K) /\
  krank (k_normalize v0 v1 vmul vopp vinv nrm pos neg root srt WNone false None K) = krank K.
Proof. exact (wf_normalize V v0 v1 vmul vopp vinv nrm pos neg root srt). Qed.

(* the whole method (self.normalize(); other.copy().normalize(); loop) = the model C08_invariant_fixsigns_other speaks about *)
Theorem C08_fixsigns_other_loop_full : forall A B : ktensor V, wf_k A ->
  py_fixsigns_other V v0 v1 vadd vmul vopp vinv nrm pos neg root srt leb A B =
  k_fixsigns_other V v0 v1 vadd vmul vopp vinv nrm pos neg root srt leb A B.
Proof. exact (py_fixsigns_other_full V v0 v1 vadd vmul vsub vopp Vring vinv nrm pos neg root srt leb leb_total neg_mono). Qed.

(* ... and it preserves the denoted array, for every norm oracle that is positive on non-zero columns *)
Theorem C08_invariant_fixsigns_other_loop :
  (forall x, x <> v0 -> vmul x (vinv x) = v1) -> (forall x, pos x = true -> x <> v0) ->
  (forall l, pos (nrm l) = false -> Forall (fun y => y = v0) l) -> (forall l, is_perm (srt l) (length l)) ->
  forall A B : ktensor V, wf_k A ->
  forall i, den_k v0 v1 vadd vmul (py_fixsigns_other V v0 v1 vadd vmul vopp vinv nrm pos neg root srt leb A B) i =
            den_k v0 v1 vadd vmul A i.
Proof. exact (den_py_fixsigns_other V v0 v1 vadd vmul vsub vopp Vring vinv nrm pos neg root srt leb leb_total neg_mono). Qed.
End Oracles.
End C08c.
Print Assumptions C08_fixsigns_other_loop.
Print Assumptions C08_fixsigns_other_loop_normal_form.
Print Assumptions C08_normalize_wf.
Print Assumptions C08_fixsigns_other_loop_full.
Print Assumptions C08_invariant_fixsigns_other_loop.

(* the hypotheses are satisfiable: exact rationals, <=, "x < 0", exact 2-norm — the instance the correspondence check evaluates *)
Theorem C08_fixsigns_other_loop_Qc : forall A B : ktensor Qcanon.Qc, wf_k A ->
  qk_py_fixsigns_other A B = qk_fixsigns_other A B.
Proof. exact qk_py_fixsigns_other_is_model. Qed.
Print Assumptions C08_fixsigns_other_loop_Qc.

(* non-vacuity: 3 modes, 2 components, non-symmetric integer data.  Component 0 has three negative scores (-11, -2, -17):
   odd, and flipping the weakest one more is impossible (no further mode), so the two most negative modes 2 and 0 are flipped
   and mode 1 keeps its negative score; component 1 has two negative scores (modes 0 and 2).  The loop mutates the factors
   between the components and still returns the one-shot model's tensor. *)
Example C08_example_fixsigns_other_loop :
  let A := mkK [2; 3]%Z [[[1; 2]; [3; -1]]; [[2; 1]; [0; 1]; [1; 3]]; [[1; -2]; [4; 1]]]%Z in
  let B := mkK [1; 1]%Z [[[-2; -1]; [-3; 2]]; [[-1; 2]; [5; 1]; [0; 1]]; [[-1; 3]; [-4; 1]]]%Z in
  map (fso_scores 0%Z Z.add Z.mul A B) [0; 1] = [[-11; -2; -17]; [-4; 6; -5]]%Z /\
  zk_py_fso_core A B = mkK [2; 3]%Z [[[-1; -2]; [-3; 1]]; [[2; 1]; [0; 1]; [1; 3]]; [[-1; 2]; [-4; -1]]]%Z /\
  zk_py_fso_core A B = zk_fso_core A B.
Proof. vm_compute. repeat split; reflexivity. Qed.

(* a reference with MORE components than the receiver (the former C08-N2 witness after both normalisations would need square
   roots; integer stand-in with the same pattern): rank-1 receiver, rank-2 reference, both scores of component 0 negative ->
   both factors negated; component 1 of the reference has no counterpart and is ignored *)
Example C08_example_fixsigns_other_loop_more_components :
  let A := mkK [5]%Z [[[1]; [2]]; [[3]; [4]]]%Z in
  let B := mkK [1; 2]%Z [[[-1; -2]; [-2; 1]]; [[-3; 1]; [-4; -1]]]%Z in
  zk_py_fso_core A B = mkK [5]%Z [[[-1]; [-2]]; [[-3]; [-4]]]%Z /\ zk_py_fso_core A B = zk_fso_core A B.
Proof. vm_compute. split; reflexivity. Qed.
