(* Model/C02HarnessW5.v — executable glue for the wave-5 correspondence cases of property C02: sptensor.collapse / scale / contract and
   tensor.contract AS CALLED (Model/C02SpReq.v) at Z; every sparse collapse / scale / contract case and every dense contract case evaluates
   them on the caller's raw arguments, and the rejection stream demands Err exactly where pyttb raises. *)
From Coq Require Import List ZArith Bool.
From PV Require Import Base.Index Np.NpZ Np.Array Model.Sparse Model.Repr Model.Harness Model.C02Harness Model.C02SpReq.
Import ListNotations.

Definition zcollapse_req_sp := @impl_collapse_sp_req Z 0%Z Z.add.
Definition zscale_req_sp := @impl_scale_sp_req Z Z.mul zisz.
Definition zcontract_req_sp := @impl_contract_sp_req Z 0%Z Z.add.
Definition zcontract_req_dense := @impl_contract_dense_req Z 0%Z Z.add.
Definition zres_err {A} (r : res A) : bool := match r with Ok _ => false | Err => true end.
Definition zres_fun (r : res (idx -> Z)) : idx -> Z := match r with Ok k => k | Err => fun _ => 0%Z end.
Definition zres_sp (r : res (sparse Z)) : sparse Z := match r with Ok R => R | Err => mkSp [] [] [] end.
Definition zres_accepts {A} (r : res A) : bool := match r with Ok _ => true | Err => false end.

(* sumtensor.innerprod / mttkrp / ttv AS EXECUTED part by part, ktensor.innerprod(tensor | sptensor | ttensor) (Model/C02SumParts.v) at Z *)
From PV Require Import Model.C02SumParts Proofs.C02TuckerSpProofs.
Definition zinnerprod_sum_dense := @impl_innerprod_sum_dense Z 0%Z Z.add Z.mul.
Definition zinnerprod_sum_sp := @impl_innerprod_sum_sp Z 0%Z 1%Z Z.add Z.mul (impl_innerprod_t_sp Z 0%Z Z.add Z.mul).
Definition zinnerprod_sum_k := @impl_innerprod_sum_k Z 0%Z 1%Z Z.add Z.mul.
Definition zinnerprod_sum_t := @impl_innerprod_sum_t Z 0%Z 1%Z Z.add Z.mul (impl_innerprod_t_sp Z 0%Z Z.add Z.mul).
Definition zmttkrp_sum := @impl_mttkrp_sum Z 0%Z 1%Z Z.add Z.mul.
Definition zttv_sum := @impl_ttv_sum Z 0%Z 1%Z Z.add Z.mul.
Definition zinnerprod_k_dense_r := @impl_innerprod_k_dense Z 0%Z Z.add Z.mul.
Definition zinnerprod_k_sp_r := @impl_innerprod_k_sp Z 0%Z 1%Z Z.add Z.mul.
Definition zinnerprod_k_t_r := @impl_innerprod_k_t Z 0%Z 1%Z Z.add Z.mul.

(* ttensor.reconstruct AS CALLED (row selection in the model); the 50% container switch evaluated on the coordinate-list kernel's own result *)
From PV Require Import Model.C02Reconstruct Model.C02Switch.
Definition zimpl_reconstruct := @impl_reconstruct Z 0%Z Z.add Z.mul.
(* wave 6: the request test of 9d2314a in front (modes are the caller's integers); zimpl_reconstruct = the body behind the test *)
Definition zimpl_reconstruct_req := @impl_reconstruct_req Z 0%Z Z.add Z.mul.
Definition zopt_is (r : option (dense Z)) (T : dense Z) : bool := match r with Some Y => dense_eqb Y T | None => false end.
Definition zopt_none {A} (r : option A) : bool := match r with None => true | Some _ => false end.
(* tensor.ttsv "version 2", request test of 0478ea5 = the hypotheses of C02_ttsv_dense: every mode has the size of mode 0 and dnew = skip_dim + 1 <= ndims *)
Definition zttsv_accepts (s : shape) (dnew : nat) : bool := forallb (Nat.eqb (nth 0 s 0%nat)) s && (dnew <=? length s)%nat.
Definition zdensify := @densify Z zisz.

(* mttkrp AS CALLED, acceptance: the GENERATED get_mttkrp_factors (list length = ndims, 0 <= n < ndims, equal column counts of the non-skipped
   factors, Kruskal operand redistributed) and then the row-count test every class applies to the non-skipped factors (tensor.mttkrp,
   sptensor.mttkrp since dc71f18, ktensor.mttkrp, ttensor.mttkrp); order >= 2.  The skipped factor is never looked at. *)
From PV Require Import Np.NpZ3 Gen.GenUtils3 Model.C02MttkrpGen.
Definition zmttkrp_accepts (s : shape) (lam : option (list Z)) (Us : list (list (list Z))) (n : Z) : bool :=
  match get_mttkrp_factors (match lam with Some w => UKt (mkkt w Us) | None => USeq Us end) n (Z.of_nat (length s)) with
  | Ok fs => (2 <=? length s)%nat &&
             forallb (fun i => Nat.eqb i (Z.to_nat n) || Nat.eqb (length (nth i fs [])) (nth i s 0%nat)) (seq 0 (length s))
  | Err => false
  end.


(* tensor.innerprod(tensor) on the operands' RAW data arrays: memory order and buffer observed on the constructed pyttb objects (Model/C02Layout.v) *)
From PV Require Import Model.C02Layout.
Definition zinnerprod_l := @impl_innerprod_l Z 0%Z Z.add Z.mul.
Definition zmkL := @mkL Z.
