(* Proofs/C18HosvdScale.v — C18 "scaling the data by a positive constant" for the transliterated DRIVER of hosvd (Proofs/C18Print.v hv_run:
   concrete automatic rank rule `np.where(eigsum > eigsumthresh)[0][-1]`, user ranks, IndexError path, sequential or not, any verbosity).
   Simulation theorem over the reals: if the presentation X' = c X (c > 0) multiplies the squared norm and every eigenvalue list by
   k = c^2 > 0, the threshold map is homogeneous (eigsumthresh = tol^2 * normxsqr / d), and the leading eigenvectors / shrunk tensors /
   cores stay related, then the driver chooses the SAME number of columns in every mode (hosvd_rank_scale: the rule compares
   k * eigsum with k * thresh), raises the IndexError under both presentations or under none, and returns related results - for
   ANY two verbosities.  An absolute floor anywhere in the rule (seeded change C18-C) contradicts exactly this statement. *)
From Coq Require Import List Arith Lia Bool Reals Lra ZArith Ring RealField.
From PV Require Import Base.Index Base.Sum Np.Array Np.NpR Model.Sparse Model.Repr Model.C10Tucker Model.C14Nvecs Proofs.C18Tucker
                       Proofs.C18Print Proofs.C18TuckerPerm Proofs.C18HosvdRel.
Import ListNotations.
Local Open Scope R_scope.

Section ScaleSim.
Variables T T' M FS FS' : Type.
Variables (thresh : R -> R) (fleb : R -> R -> bool) (tol : R).
Variables (normsq : T -> R) (eigs : nat -> T -> list R) (lead : nat -> T -> nat -> M) (setf : FS -> nat -> M -> FS) (fs0 : FS)
          (shrink : T -> nat -> M -> T) (core_all : T -> FS -> T) (relnorm : T -> T -> FS -> R).
Variables (normsq' : T' -> R) (eigs' : nat -> T' -> list R) (lead' : nat -> T' -> nat -> M) (setf' : FS' -> nat -> M -> FS') (fs0' : FS')
          (shrink' : T' -> nat -> M -> T') (core_all' : T' -> FS' -> T') (relnorm' : T' -> T' -> FS' -> R).
Variables (ranks : nat -> nat) (sequential : bool).
Variable k : R.
Hypothesis kpos : 0 < k.
Variables (RT : T -> T' -> Prop) (RF : FS -> FS' -> Prop).
Hypothesis H_norm : forall X X', RT X X' -> normsq' X' = k * normsq X.
Hypothesis H_thresh : forall nx, thresh (k * nx) = k * thresh nx.
Hypothesis H_eigs : forall n Y Y', RT Y Y' -> eigs' n Y' = map (Rmult k) (eigs n Y).
Hypothesis H_lead : forall n Y Y' r, RT Y Y' -> lead' n Y' r = lead n Y r.
Hypothesis H_setf : forall n fs fs' U, RF fs fs' -> RF (setf fs n U) (setf' fs' n U).
Hypothesis H_shrink : forall n Y Y' U, RT Y Y' -> RT (shrink Y n U) (shrink' Y' n U).
Hypothesis H_core : forall Y Y' fs fs', RT Y Y' -> RF fs fs' -> RT (core_all Y fs) (core_all' Y' fs').

Local Notation LOOP := (hv_loop T M FS R 0 Rplus Rltb eigs lead setf shrink ranks sequential).
Local Notation LOOP' := (hv_loop T' M FS' R 0 Rplus Rltb eigs' lead' setf' shrink' ranks sequential).

Lemma hv_loop_scale v v' thr modes : forall Y Y' fs fs', RT Y Y' -> RF fs fs' ->
  rel_res T T' FS FS' RT RF (fst (LOOP v thr modes Y fs)) (fst (LOOP' v' (k * thr) modes Y' fs')).
Proof.
  induction modes as [|n ms IH]; intros Y Y' fs fs' HY Hfs; cbn [hv_loop fst]; [split; assumption|].
  rewrite (H_eigs n Y Y' HY).
  assert (E : (if Nat.eqb (ranks n) 0 then auto_rank 0 Rplus Rltb (map (Rmult k) (eigs n Y)) (k * thr) else Some (ranks n))
              = (if Nat.eqb (ranks n) 0 then auto_rank 0 Rplus Rltb (eigs n Y) thr else Some (ranks n))).
  { destruct (Nat.eqb (ranks n) 0); [apply hosvd_rank_scale; exact kpos|reflexivity]. }
  rewrite E.
  destruct (if Nat.eqb (ranks n) 0 then auto_rank 0 Rplus Rltb (eigs n Y) thr else Some (ranks n)) as [r|]; [|exact I].
  cbn [fst]. rewrite (H_lead n Y Y' r HY). apply IH; [|now apply H_setf].
  destruct sequential; [now apply H_shrink|exact HY].
Qed.

Theorem hv_run_scale : forall (v v' : Z) (dimorder : list nat) (X : T) (X' : T'), RT X X' -> RF fs0 fs0' ->
  rel_res T T' FS FS' RT RF
    (fst (hv_run T M FS R 0 Rplus Rltb normsq thresh eigs lead setf fs0 shrink core_all relnorm fleb tol ranks sequential v dimorder X))
    (fst (hv_run T' M FS' R 0 Rplus Rltb normsq' thresh eigs' lead' setf' fs0' shrink' core_all' relnorm' fleb tol ranks sequential v'
                 dimorder X')).
Proof.
  intros v v' dimorder X X' HX H0. unfold hv_run. rewrite (H_norm X X' HX), H_thresh.
  pose proof (hv_loop_scale v v' (thresh (normsq X)) dimorder X X' fs0 fs0' HX H0) as H.
  destruct (LOOP v (thresh (normsq X)) dimorder X fs0) as [[[Y fs]|] l];
  destruct (LOOP' v' (k * thresh (normsq X)) dimorder X' fs0') as [[[Y' fs']|] l']; cbn [fst rel_res] in H |- *; try exact H.
  destruct H as [H1 H2]. split; [|exact H2]. destruct sequential; [exact H1|now apply H_core].
Qed.
End ScaleSim.

(* ============================================================================================== dense real arrays *)
(* X' = c X as a dense array; the concrete operations of Proofs/C18HosvdRel.v (Gram matrix of the running tensor, shrink = Y.ttm(U^T, k)
   with the shape shrinking, non-sequential core = products with all U_m^T, ||X||^2 = sum of squares).  The eigen solver stays an
   oracle with the homogeneity contract: eigenvalues of k G are k times those of G, leading eigenvectors are the same. *)
Section DenseScale.
Notation rmatrix := (list (list R)).
Definition dscale (c : R) (Y : dense R) : dense R := tabulate (dshape Y) (fun i => c * den_dense 0 Y i).
Definition mscale (k : R) (G : rmatrix) : rmatrix := map (map (Rmult k)) G.

Lemma dshape_dscale c Y : dshape (dscale c Y) = dshape Y.
Proof. apply dshape_tabulate. Qed.

Lemma den_dscale c Y i : den_dense 0 (dscale c Y) i = c * den_dense 0 Y i.
Proof.
  unfold dscale. destruct (inb (dshape Y) i) eqn:E.
  - now rewrite den_tabulate.
  - rewrite den_tabulate_out by exact E. rewrite den_dense_out by exact E. ring.
Qed.

Lemma normsq_dscale c X : normsq_c R 0 Rplus Rmult (dscale c X) = (c * c) * normsq_c R 0 Rplus Rmult X.
Proof.
  unfold normsq_c. rewrite dshape_dscale.
  rewrite <- (sum_over_scale_l R 0 1 Rplus Rmult Rminus Ropp RTheory).
  apply sum_over_ext. intros i _. rewrite !den_dscale. ring.
Qed.

Lemma gram_dscale c Y n : gram_of R 0 Rplus Rmult (dscale c Y) n = mscale (c * c) (gram_of R 0 Rplus Rmult Y n).
Proof.
  unfold gram_of, gram_matrix, mscale, mtab. rewrite !dshape_dscale.
  rewrite map_map. apply map_ext. intros a. rewrite map_map. apply map_ext. intros b.
  unfold gram_spec. rewrite <- (sum_over_scale_l R 0 1 Rplus Rmult Rminus Ropp RTheory).
  apply sum_over_ext. intros i _. rewrite !den_dscale. ring.
Qed.

Lemma ttmd_ext (Y1 Y2 : idx -> R) d n Mx i : (forall j, Y1 j = Y2 j) -> ttm_den 0 Rplus Rmult Y1 d n Mx i = ttm_den 0 Rplus Rmult Y2 d n Mx i.
Proof. intros H. unfold ttm_den. apply sum_n_ext. intros a _. now rewrite H. Qed.

Lemma shrink_dscale c Y n U : shrink_c R 0 Rplus Rmult (dscale c Y) n U = dscale c (shrink_c R 0 Rplus Rmult Y n U).
Proof.
  unfold shrink_c, ttm. rewrite !dshape_dscale. unfold dscale at 2. rewrite dshape_tabulate.
  apply tabulate_ext. intros i Hi. rewrite den_tabulate by exact Hi.
  rewrite <- (ttm_den_scale R 0 1 Rplus Rmult Rminus Ropp RTheory).
  apply ttmd_ext. intros j. apply (den_dscale c Y j).
Qed.

Lemma mttm_scale c dims U ms : forall (Y : idx -> R) j,
  mttm_den R 0 Rplus Rmult dims U ms (fun i => c * Y i) j = c * mttm_den R 0 Rplus Rmult dims U ms Y j.
Proof.
  induction ms as [|m ms IH]; intros Y j; [reflexivity|]. rewrite !mttm_cons. rewrite <- IH.
  assert (E : forall Y1 Y2, (forall i, Y1 i = Y2 i) -> forall j, mttm_den R 0 Rplus Rmult dims U ms Y1 j = mttm_den R 0 Rplus Rmult dims U ms Y2 j).
  { clear. induction ms as [|m' ms IH]; intros Y1 Y2 H j; [apply H|]. rewrite !mttm_cons. apply IH. intros i. now apply ttmd_ext. }
  apply E. intros i. apply (ttm_den_scale R 0 1 Rplus Rmult Rminus Ropp RTheory).
Qed.

Lemma core_dscale c Y fs : core_all_c R 0 Rplus Rmult (dscale c Y) fs = dscale c (core_all_c R 0 Rplus Rmult Y fs).
Proof.
  unfold core_all_c, core_c. rewrite !dshape_dscale. unfold dscale at 2. rewrite dshape_tabulate.
  apply tabulate_ext. intros i Hi. rewrite den_tabulate by exact Hi.
  rewrite <- mttm_scale.
  assert (E : forall ms Y1 Y2, (forall i, Y1 i = Y2 i) ->
            mttm_den R 0 Rplus Rmult (dshape Y) fs ms Y1 i = mttm_den R 0 Rplus Rmult (dshape Y) fs ms Y2 i).
  { intros ms. generalize i. induction ms as [|m' ms IH]; intros j Y1 Y2 H; [apply H|]. rewrite !mttm_cons. apply IH. intros i'. now apply ttmd_ext. }
  apply E. intros j. apply (den_dscale c Y j).
Qed.

Variables (E : nat -> rmatrix -> list R) (L : nat -> rmatrix -> nat -> rmatrix).
Variables (thresh : R -> R) (fleb : R -> R -> bool) (tol : R) (relnorm relnorm' : dense R -> dense R -> list rmatrix -> R).
Variables (ranks : nat -> nat) (sequential : bool) (c : R).
Hypothesis cpos : 0 < c.
Hypothesis E_hom : forall n G, E n (mscale (c * c) G) = map (Rmult (c * c)) (E n G).     (* eigenvalues of k G = k * eigenvalues of G *)
Hypothesis L_hom : forall n G r, L n (mscale (c * c) G) r = L n G r.                     (* ... same leading eigenvectors *)
Hypothesis thresh_hom : forall nx, thresh (c * c * nx) = c * c * thresh nx.              (* eigsumthresh = tol^2 * normxsqr / d *)

Local Notation RUN := (hv_run (dense R) rmatrix (list rmatrix) R 0 Rplus Rltb (normsq_c R 0 Rplus Rmult) thresh
   (fun k Y => E k (gram_of R 0 Rplus Rmult Y k)) (fun k Y r => L k (gram_of R 0 Rplus Rmult Y k) r) (fun fs k U => upd fs k U)).

(* hosvd(c X) for c > 0, any two verbosities: the IndexError of the rank rule under both or none; otherwise the SAME factor matrices
   (hence the same chosen ranks in every mode) and the core scaled by c *)
Theorem hosvd_driver_scale_dense (v v' : Z) (dimorder : list nat) (X : dense R) (fs0 : list rmatrix) :
  rel_res (dense R) (dense R) (list rmatrix) (list rmatrix) (fun Y Y' => Y' = dscale c Y) eq
    (fst (RUN fs0 (shrink_c R 0 Rplus Rmult) (core_all_c R 0 Rplus Rmult) relnorm fleb tol ranks sequential v dimorder X))
    (fst (RUN fs0 (shrink_c R 0 Rplus Rmult) (core_all_c R 0 Rplus Rmult) relnorm' fleb tol ranks sequential v' dimorder (dscale c X))).
Proof.
  assert (kpos : 0 < c * c) by (apply Rmult_lt_0_compat; exact cpos).
  apply (hv_run_scale (dense R) (dense R) rmatrix (list rmatrix) (list rmatrix) thresh fleb tol
           (normsq_c R 0 Rplus Rmult) _ _ _ fs0 (shrink_c R 0 Rplus Rmult) (core_all_c R 0 Rplus Rmult) relnorm
           (normsq_c R 0 Rplus Rmult) _ _ _ fs0 (shrink_c R 0 Rplus Rmult) (core_all_c R 0 Rplus Rmult) relnorm' ranks sequential
           (c * c) kpos (fun Y Y' => Y' = dscale c Y) eq).
  - intros Y Y' ->. apply normsq_dscale.
  - exact thresh_hom.
  - intros n Y Y' ->. rewrite gram_dscale. apply E_hom.
  - intros n Y Y' r ->. rewrite gram_dscale. apply L_hom.
  - intros n fs fs' U ->. reflexivity.
  - intros n Y Y' U ->. apply shrink_dscale.
  - intros Y Y' fs fs' -> ->. apply core_dscale.
  - reflexivity.
  - reflexivity.
Qed.
End DenseScale.

(* ---------- non-vacuity: scalars as "tensors" (T = R), X' = 3 X, k = 9: eigenvalue lists [4 Y^2; Y^2; Y^2 / 16] ---------- *)
Module C18HosvdScaleExample.
Definition run (x : R) (v : Z) :=
  hv_run R nat (list nat) R 0 Rplus Rltb (fun y => y * y) (fun nx => nx / 8)
    (fun _ y => [4 * (y * y); y * y; (y * y) / 16]) (fun _ _ r => r) (fun fs _ r => fs ++ [r]) [] (fun y _ _ => y) (fun y _ => y)
    (fun _ _ _ => 0) (fun _ _ => true) 0 (fun _ => 0%nat) true v [0; 1]%nat x.
Example hosvd_scale_example : forall v v' : Z,
  rel_res R R (list nat) (list nat) (fun y y' => y' = 3 * y) eq (fst (run 2 v)) (fst (run 6 v')).
Proof.
  intros v v'. unfold run. assert (H9 : 0 < 9) by lra.
  apply (hv_run_scale R R nat (list nat) (list nat) (fun nx => nx / 8) (fun _ _ => true) 0
           (fun y => y * y) (fun _ y => [4 * (y * y); y * y; (y * y) / 16]) (fun _ _ r => r) (fun fs _ r => fs ++ [r]) []
           (fun y _ _ => y) (fun y _ => y) (fun _ _ _ => 0)
           (fun y => y * y) (fun _ y => [4 * (y * y); y * y; (y * y) / 16]) (fun _ _ r => r) (fun fs _ r => fs ++ [r]) []
           (fun y _ _ => y) (fun y _ => y) (fun _ _ _ => 0) (fun _ => 0%nat) true 9 H9 (fun y y' => y' = 3 * y) eq).
  - intros X X' ->. lra.
  - intros nx. lra.
  - intros n Y Y' ->. cbn [map]. repeat (apply f_equal2; [field|]). reflexivity.
  - reflexivity.
  - intros n fs fs' U ->. reflexivity.
  - intros n Y Y' U H. exact H.
  - intros Y Y' fs fs' H _. exact H.
  - lra.
  - reflexivity.
Qed.
End C18HosvdScaleExample.
