(* Proofs/C06Stm.v — sptenmat.__setitem__ (transliteration Model/C06Stm.v: impl_stm_setitem): for every well-formed coordinate
   list, every target list with pairwise distinct in-bounds subscripts and every value (zeros included), the result is
   well-formed (no duplicate, no explicit zero — also when a zero lands on a STORED entry and nothing is appended), keeps the
   shape and denotes the assigned array; hence it is the same for every stored order of the receiver. *)
From Coq Require Import List Arith Lia Bool Permutation.
From PV Require Import Base.Index Np.Array Model.Sparse Model.C03Ops Model.C06Ops Model.C01Conv Model.C06Stm
                       Proofs.C03Lemmas Proofs.C03Proofs Proofs.C06Proofs Proofs.C06Other.
Import ListNotations.

Section StmProofs.
Context {V : Type} (v0 : V) (isz : V -> bool).
Hypothesis isz_spec : forall v, isz v = true <-> v = v0.
Notation den := (den_sp v0).
Notation wf := (wf_sp isz).
Notation keys := (map (@fst idx V)).

Lemma NoDup_app_intro {A} (l1 l2 : list A) : NoDup l1 -> NoDup l2 -> (forall x, In x l1 -> In x l2 -> False) -> NoDup (l1 ++ l2).
Proof.
  induction l1 as [|a l1 IH]; cbn; intros H1 H2 Hd; auto. inversion H1; subst. constructor.
  - rewrite in_app_iff. intros [C|C]; [contradiction|]. apply (Hd a); auto.
  - apply IH; auto. intros x Hx. apply Hd. now right.
Qed.
Lemma NoDup_app_single {A} (l : list A) x : NoDup l -> ~ In x l -> NoDup (l ++ [x]).
Proof.
  intros Hl Hx. apply NoDup_app_intro; auto. { constructor; [intros []|constructor]. }
  intros y Hy [<-|[]]. contradiction.
Qed.

Lemma last_match_app i (l1 l2 : list (idx * V)) d : last_match i (l1 ++ l2) d = last_match i l2 (last_match i l1 d).
Proof. revert d. induction l1 as [|[j v] l1 IH]; intros d; cbn; auto. Qed.

Lemma combine_fst_snd (l : list (idx * V)) : combine (map fst l) (map snd l) = l.
Proof. induction l as [|[j v] l IH]; cbn; congruence. Qed.

Lemma keys_combine (subs : list idx) (vals : list V) : length subs = length vals -> keys (combine subs vals) = subs.
Proof. revert vals. induction subs as [|j subs IH]; intros [|v vals] H; cbn in *; try lia; auto. f_equal. apply IH. lia. Qed.

(* ---- overwrite ---- *)
Definition ow (j : idx) (v : V) (e : idx * V) : idx * V := (fst e, if idx_eqb (fst e) j then v else snd e).

Lemma combine_overwrite j (v : V) (subs : list idx) (vals : list V) : combine subs (overwrite j v subs vals) = map (ow j v) (combine subs vals).
Proof.
  unfold overwrite. revert vals. induction subs as [|s subs IH]; intros [|x vals]; cbn; auto.
  unfold ow at 1. cbn. f_equal. apply IH.
Qed.

Lemma overwrite_length j (v : V) (subs : list idx) (vals : list V) : length subs = length vals -> length (overwrite j v subs vals) = length subs.
Proof. intros H. unfold overwrite. rewrite map_length, combine_length. lia. Qed.

Lemma last_match_ow_other i j v es d : i <> j -> last_match i (map (ow j v) es) d = last_match i es d.
Proof.
  intros Hne. revert d. induction es as [|[k x] es IH]; intros d; cbn; auto.
  destruct (idx_eqb i k) eqn:E.
  - apply idx_eqb_spec in E. subst k. rewrite (idx_eqb_neq i j Hne). apply IH.
  - apply IH.
Qed.

Lemma last_match_ow_same j v es d : In j (keys es) -> last_match j (map (ow j v) es) d = v.
Proof.
  revert d. induction es as [|[k x] es IH]; intros d Hin; cbn in *; [tauto|].
  destruct (in_dec (list_eq_dec Nat.eq_dec) j (keys es)) as [Hi|Hn].
  - now apply IH.
  - destruct Hin as [->|Hin]; [|tauto]. rewrite idx_eqb_refl.
    apply last_match_notin.
    intros e He Hf. apply in_map_iff in He. destruct He as (e0 & <- & He0). cbn in Hf. apply Hn. rewrite <- Hf. now apply in_map.
Qed.

Lemma keys_ow j v es : keys (map (ow j v) es) = keys es.
Proof. rewrite map_map. now apply map_ext. Qed.

Lemma existsb_in j (subs : list idx) : existsb (idx_eqb j) subs = true <-> In j subs.
Proof.
  rewrite existsb_exists. split.
  - intros (x & Hx & E). apply idx_eqb_spec in E. now subst.
  - intros H. exists j. split; auto. apply idx_eqb_refl.
Qed.

(* ---- the loop ---- *)
Lemma set_loop_spec (subs : list idx) : forall (t : list (idx * V)) (vals : list V) (new : list (idx * V)) vals1 new1,
  length subs = length vals -> NoDup (map fst t) ->
  (forall j, In j (map fst new) -> ~ In j subs /\ ~ In j (map fst t)) -> NoDup (map fst new) ->
  set_loop subs vals t new = (vals1, new1) ->
  length vals1 = length subs /\ NoDup (map fst new1) /\
  (forall j, In j (map fst new1) -> ~ In j subs /\ (In j (map fst new) \/ In j (map fst t))) /\
  forall i d, last_match i (combine subs vals1 ++ new1) d = last_match i t (last_match i (combine subs vals ++ new) d).
Proof.
  induction t as [|[j v] t IH]; intros vals new vals1 new1 HL Ht Hnew Hnd E; cbn in E.
  - inversion E; subst. split; [now symmetry|]. split; [exact Hnd|]. split; [|reflexivity].
    intros k Hk. split; [now apply Hnew|now left].
  - cbn [map fst] in Ht. inversion Ht as [|? ? Hj Ht']; subst.
    destruct (existsb (idx_eqb j) subs) eqn:Ex.
    + apply existsb_in in Ex.
      destruct (IH (overwrite j v subs vals) new vals1 new1) as (L1 & N1 & D1 & F1); auto.
      * now rewrite overwrite_length.
      * intros k Hk. destruct (Hnew k Hk) as (A & B). split; auto. intros C. apply B. now right.
      * split; [exact L1|]. split; [exact N1|]. split.
        { intros k Hk. destruct (D1 k Hk) as (A & [B|B]); (split; [exact A|]); [now left|right; now right]. }
        intros i d. rewrite F1. cbn [last_match]. f_equal.
        rewrite !last_match_app. rewrite combine_overwrite.
        destruct (idx_eqb i j) eqn:Eij.
        -- apply idx_eqb_spec in Eij. subst i.
           rewrite last_match_ow_same by (now rewrite keys_combine).
           apply last_match_notin. intros e He Hf. destruct (Hnew j) as (A & _); [rewrite <- Hf; now apply in_map|]. contradiction.
        -- rewrite last_match_ow_other; auto. intros C. subst. now rewrite idx_eqb_refl in Eij.
    + assert (Hns : ~ In j subs) by (intros C; apply existsb_in in C; congruence).
      destruct (IH vals (new ++ [(j, v)]) vals1 new1) as (L1 & N1 & D1 & F1); auto.
      * intros k Hk. rewrite map_app, in_app_iff in Hk. cbn in Hk. destruct Hk as [Hk|[<-|[]]].
        -- destruct (Hnew k Hk) as (A & B). split; auto. intros C. apply B. now right.
        -- split; auto.
      * rewrite map_app. cbn. apply NoDup_app_single; auto. intros C. destruct (Hnew j C) as (_ & B). apply B. now left.
      * split; [exact L1|]. split; [exact N1|]. split.
        { intros k Hk. destruct (D1 k Hk) as (A & B). split; [exact A|]. rewrite map_app, in_app_iff in B. cbn in B.
          destruct B as [[B|[B|[]]]|B]; [now left|right; now left|right; now right]. }
        intros i d. rewrite F1. cbn [last_match]. f_equal. rewrite app_assoc, last_match_app. reflexivity.
Qed.

(* ---- sort, filter ---- *)
Lemma ins_entry_perm (e : idx * V) l : Permutation (ins_entry e l) (e :: l).
Proof.
  induction l as [|e' l IH]; cbn; auto. destruct (idx_leb (fst e) (fst e')); auto.
  etransitivity; [apply perm_skip, IH|apply perm_swap].
Qed.
Lemma sort_entries_perm (l : list (idx * V)) : Permutation (sort_entries l) l.
Proof.
  induction l as [|e l IH]; cbn; auto. etransitivity; [apply ins_entry_perm|now apply perm_skip].
Qed.

Lemma keys_filter_incl (p : idx * V -> bool) l j : In j (keys (filter p l)) -> In j (keys l).
Proof. intros H. apply in_map_iff in H. destruct H as (e & <- & He). apply filter_In in He. apply in_map. tauto. Qed.

Lemma keys_filter_nodup (p : idx * V -> bool) l : NoDup (keys l) -> NoDup (keys (filter p l)).
Proof.
  induction l as [|e l IH]; cbn; intros H; auto. inversion H; subst.
  destruct (p e); cbn; auto. constructor; auto. intros C. apply keys_filter_incl in C. contradiction.
Qed.

Lemma last_match_drop_zeros i l : NoDup (keys l) -> last_match i (drop_zeros isz l) v0 = last_match i l v0.
Proof.
  intros Hn. unfold drop_zeros.
  destruct (in_dec (list_eq_dec Nat.eq_dec) i (keys l)) as [Hi|Hi].
  - apply in_map_iff in Hi. destruct Hi as ([k v] & Hk & He). cbn in Hk. subst k.
    rewrite (last_match_in i v l v0 Hn He).
    destruct (isz v) eqn:Ez.
    + apply isz_spec in Ez. subst v. apply last_match_notin. intros [k x] Hf Hk. cbn in Hk. subst k.
      apply filter_In in Hf. destruct Hf as (Hin & Hnz). cbn in Hnz.
      assert (x = v0).
      { rewrite <- (last_match_in i x l v0 Hn Hin). now rewrite (last_match_in i v0 l v0 Hn He). }
      subst x. assert (isz v0 = true) by (now apply isz_spec). rewrite H in Hnz. discriminate.
    + apply last_match_in; [now apply keys_filter_nodup|]. apply filter_In. split; auto. cbn. now rewrite Ez.
  - rewrite (last_match_notin i l v0) by (intros e He Hf; apply Hi; rewrite <- Hf; now apply in_map).
    apply last_match_notin. intros e He Hf. apply Hi. apply (keys_filter_incl (fun e : idx * V => negb (isz (snd e))) l). rewrite <- Hf. now apply in_map.
Qed.

(* ---- the theorem ---- *)
Theorem impl_stm_setitem_correct (S : sparse V) (t : list (idx * V)) : wf S ->
  NoDup (map fst t) -> Forall (fun j => inb (sshape S) j = true) (map fst t) ->
  let R := impl_stm_setitem isz S t in
  wf R /\ sshape R = sshape S /\ forall i, den R i = assign_den (den S) t i.
Proof.
  intros (HL & HN & HB & HZ) Ht Hb. unfold impl_stm_setitem.
  destruct (set_loop (ssubs S) (svals S) t []) as [vals1 new] eqn:E.
  assert (H0 : forall j, In j (map fst (@nil (idx * V))) -> ~ In j (ssubs S) /\ ~ In j (map fst t)) by (intros j []).
  destruct (set_loop_spec (ssubs S) t (svals S) [] vals1 new HL Ht H0 (NoDup_nil _) E) as (L1 & N1 & D1 & F1).
  set (es := combine (ssubs S) vals1).
  set (es2 := match new with [] => es | _ => sort_entries (es ++ new) end).
  assert (P2 : Permutation es2 (es ++ new)).
  { unfold es2. destruct new; [now rewrite app_nil_r|apply sort_entries_perm]. }
  assert (K : keys (es ++ new) = ssubs S ++ keys new) by (rewrite map_app; unfold es; now rewrite keys_combine).
  assert (ND : NoDup (keys (es ++ new))).
  { rewrite K. apply NoDup_app_intro; auto. intros j Hj Hk. destruct (D1 j Hk) as (A & _). contradiction. }
  assert (ND2 : NoDup (keys es2)) by (eapply Permutation_NoDup; [apply Permutation_map; symmetry; exact P2|exact ND]).
  cbv zeta. split; [|split; [reflexivity|]].
  - (* well-formed *)
    unfold wf_sp. cbn [ssubs svals sshape]. split; [now rewrite !map_length|]. split; [now apply keys_filter_nodup|]. split.
    + rewrite Forall_forall in *. intros j Hj. apply keys_filter_incl in Hj.
      assert (Hj' : In j (keys (es ++ new))) by (eapply Permutation_in; [apply Permutation_map; exact P2|exact Hj]).
      rewrite K, in_app_iff in Hj'. destruct Hj' as [Hj'|Hj']; [now apply HB|].
      destruct (D1 j Hj') as (_ & [[]|B]). now apply Hb.
    + rewrite Forall_forall. intros v Hv. apply in_map_iff in Hv. destruct Hv as (e & <- & He).
      apply filter_In in He. destruct He as (_ & He). now apply negb_true_iff in He.
  - (* denotation *)
    intros i. unfold den_sp, entries. cbn [ssubs svals]. rewrite combine_fst_snd.
    rewrite last_match_drop_zeros by exact ND2.
    rewrite (last_match_perm i es2 (es ++ new) v0 ND2 P2).
    unfold es. rewrite F1. now rewrite app_nil_r.
Qed.

(* same result for every stored order of the receiver *)
Theorem indep_stm_setitem (S S' : sparse V) (t : list (idx * V)) : wf S -> wf S' -> sshape S' = sshape S ->
  Permutation (entries S) (entries S') ->
  NoDup (map fst t) -> Forall (fun j => inb (sshape S) j = true) (map fst t) ->
  same_result v0 isz (impl_stm_setitem isz S t) (impl_stm_setitem isz S' t).
Proof.
  intros W W' Hs P Ht Hb.
  destruct (impl_stm_setitem_correct S t W Ht Hb) as (W1 & S1 & D1).
  destruct (impl_stm_setitem_correct S' t W' Ht) as (W2 & S2 & D2); [now rewrite Hs|].
  apply (same_den_same_result v0 isz isz_spec); auto; [congruence|].
  intros i _. rewrite D1, D2. unfold assign_den. f_equal. now apply (perm_den v0 isz).
Qed.
End StmProofs.
