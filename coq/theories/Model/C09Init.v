(* Model/C09Init.v — the init='random' start of cp_als over a CAPTURED random stream (pyttb/cp_als.py:163-169):
     factor_matrices = []
     for n in range(N): factor_matrices.append(np.random.uniform(0, 1, (input_tensor.shape[n], rank)))
     init = ttb.ktensor(factor_matrices)
   The generator is an oracle delivering a sequence of numbers; a draw of an (I, R) array consumes the next I*R numbers and lays
   them out row-major (C order).  Definitions only (proofs in Proofs/C09InitProofs.v). *)
From Coq Require Import List Arith.
From PV Require Import Base.Index Model.Repr.
Import ListNotations.

Section Init.
Context {V : Type} (v1 : V).

(* np.reshape(l[0 : d*R], (d, R)) row-major, as a list of rows *)
Fixpoint chunks (R d : nat) (l : list V) : list (list V) :=
  match d with O => [] | S d' => firstn R l :: chunks R d' (skipn R l) end.

(* the loop over the modes: (factor matrices, rest of the stream) *)
Fixpoint draw_factors (s : shape) (R : nat) (stream : list V) : list (@matrix V) * list V :=
  match s with
  | [] => ([], stream)
  | d :: s' =>
      let r := draw_factors s' R (skipn (d * R) stream) in
      (chunks R d (firstn (d * R) stream) :: fst r, snd r)
  end.

(* ttb.ktensor(factor_matrices): unit weights *)
Definition init_random (s : shape) (R : nat) (stream : list V) : ktensor V := mkK (repeat v1 R) (fst (draw_factors s R stream)).
End Init.
