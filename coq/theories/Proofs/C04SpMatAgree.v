(* Proofs/C04SpMatAgree.v — C04, wave 4: the transliteration of sptenmat.__setitem__ and the executable specification of the
   fixed-shape refinement theorems agree. *)
From Coq Require Import List Arith ZArith Lia Bool.
From PV Require Import Base.Index Np.Array Model.Sparse Model.C04Model Model.C04Mat Model.C04SpMatImpl
  Proofs.C04Dense Proofs.C04Sparse Proofs.C04Mat Proofs.C04SpMatImpl.
Import ListNotations.

(* the transliteration and the executable specification of the fixed-shape refinement theorems agree: whenever the generic
   fixed-shape sparse step performs a region assignment, the transliterated sptenmat.__setitem__ accepts it and both results
   denote the same 2-way array *)
Section Agree.
Context {V : Type} (v0 : V) (isz : V -> bool).
Hypothesis isz_spec : forall v, isz v = true <-> v = v0.

Theorem sptenmat_impl_agrees (S S1 : sparse V) es (r : rhs V) out :
  wf_sp isz S -> fixed_step_sparse_g v0 isz S (OSet (KRegion es) r) = Some (S1, out) ->
  exists S2, sptenmat_setitem isz S es r = Some S2 /\ sshape S2 = sshape S1 /\ forall j, den_sp v0 S2 j = den_sp v0 S1 j.
Proof.
  intros W H.
  destruct (sptenmat_refine v0 isz isz_spec S _ S1 out W H) as (a' & Hs & [Hq1 Hq2] & _ & Hsh & H2).
  unfold spec_fixed_step in Hs. cbn [spec_step abs_sp ashape] in Hs.
  destruct (resolve_set cartF (sshape S) (KRegion es) r) as [[s' asg]|] eqn:Er; [|discriminate].
  cbn [ashape spec_set] in Hs. destruct (shape_eqb s' (sshape S)) eqn:Es; [|discriminate].
  apply shape_eqb_true in Es. subst s'. inversion Hs; subst a' out. clear Hs.
  cbn [resolve_set] in Er. destruct (region_ok (sshape S) es) eqn:Eo; [|discriminate].
  destruct (region_lists (grow (sshape S) (map elem_need es)) es) as [ls|] eqn:El; [|discriminate].
  assert (Eg : grow (sshape S) (map elem_need es) = sshape S).
  { unfold finish_set in Er. destruct (rhs_values r _); [|discriminate]. destruct (forallb _ _); [|discriminate]. injection Er as E1 E2. exact E1. }
  rewrite Eg in *.
  assert (Hlen : length es = 2).
  { rewrite Hsh in H2. destruct (sshape S) as [|d1 [|d2 [|d3 t]]] eqn:E; try discriminate.
    destruct es as [|e1 [|e2 [|e3 t]]]; cbn in El; try discriminate; try reflexivity. }
  rewrite Hsh in H2.
  destruct (sptenmat_setitem_total isz S es r ls _ _ H2 Hlen El Er) as (S2 & E2).
  exists S2. split; [exact E2|].
  destruct (sptenmat_setitem_refines v0 isz isz_spec S S2 es r W E2) as (ls' & asg' & El' & Ef' & [Hr1 Hr2] & _ & Hsh2 & _).
  rewrite El in El'. inversion El'; subst ls'. rewrite Er in Ef'. inversion Ef'; subst asg'.
  split; [congruence|]. intros j. specialize (Hr2 j). specialize (Hq2 j). cbn [abs_sp af] in Hr2, Hq2. congruence.
Qed.
End Agree.
