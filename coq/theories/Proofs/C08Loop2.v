(* Proofs/C08Loop2.v — wave 4: the column loops of ktensor.normalize (mode= and the all-modes phase) and ktensor.fixsigns()
   as written in the source (Model/C08Loop2.v: the state is mutated column after column, the norm / the sign of column r is
   read from the CURRENT state) EQUAL the vectorised models k_normalize_mode / k_normalize_cols / k_fixsigns of
   Model/C08Kruskal.v as Kruskal tensors (weights and every stored entry): every well-formed input (rows of length rank K),
   every commutative ring, every norm / positivity / sign oracle.  So the invariance and normal-form theorems proved for the
   models hold for the loops. *)
From Coq Require Import List Arith Lia Bool Permutation Ring.
From PV Require Import Base.Index Base.Perm Base.Sum Np.Array Model.Sparse Model.Repr Model.C08Kruskal Model.C08More
  Model.C08Loop Model.C08Loop2 Proofs.C08Proofs Proofs.C08NormalForm Proofs.C08Signs Proofs.C08More Proofs.C08Loop.
Import ListNotations.

Section PL82.
Variable V : Type.
Variables (v0 v1 : V) (vadd vmul vsub : V -> V -> V) (vopp vinv : V -> V).
Hypothesis Vring : ring_theory v0 v1 vadd vmul vsub vopp (@eq V).
Add Ring Vr8l2 : Vring.
Notation "x * y" := (vmul x y).
Notation m1 := (vm1 v1 vopp).
Notation mat := (list (list V)).
Notation zipm := (zipmul vmul).
Notation scols := (scale_cols vmul).
Notation flipf := (flip_factors v1 vmul vopp).
Notation rows_of R := (Forall (fun row : list V => length row = R)).
Notation colv := (col v0).

(* ---- generic list facts ---- *)
Lemma upd_nth_ext {A} (f g : A -> A) : (forall x, f x = g x) -> forall l n, upd_nth n f l = upd_nth n g l.
Proof. intros H. induction l as [|x l IH]; intros [|n]; cbn; auto; f_equal; auto. Qed.

Lemma upd_nth_const {A} (F : A -> A) (d : A) : forall l n, upd_nth n (fun _ => F (nth n l d)) l = upd_nth n F l.
Proof. induction l as [|x l IH]; intros [|n]; cbn; auto. f_equal. apply IH. Qed.

Lemma upd_nth_self {A} (d : A) : forall l n, upd_nth n (fun _ => nth n l d) l = l.
Proof. induction l as [|x l IH]; intros [|n]; cbn; auto. f_equal. apply IH. Qed.

Lemma upd_nth_twice {A} (g : A -> A) (X : A) : forall l n, upd_nth n g (upd_nth n (fun _ => X) l) = upd_nth n (fun _ => g X) l.
Proof. induction l as [|x l IH]; intros [|n]; cbn; auto. f_equal. apply IH. Qed.

Lemma nth_upd_nth_same {A} (f : A -> A) (d : A) : forall l n, n < length l -> nth n (upd_nth n f l) d = f (nth n l d).
Proof. induction l as [|x l IH]; intros [|n] H; cbn in *; try lia; auto. apply IH. lia. Qed.

Lemma fold_left_ext {A C} (h h' : C -> A -> C) : (forall c a, h c a = h' c a) -> forall (l : list A) c, fold_left h l c = fold_left h' l c.
Proof. intros H. induction l as [|a l IH]; intros c; cbn; [reflexivity|]. rewrite H. apply IH. Qed.

(* one entry of a scaled row updated = the scaling list updated *)
Lemma row_upd : forall (row : list V) (f f' : nat -> V) (g : V -> V) k r, r < length row ->
  (forall q, q <> k + r -> f' q = f q) -> (forall x, g (x * f (k + r)) = x * f' (k + r)) ->
  upd_nth r g (zipm row (map f (seq k (length row)))) = zipm row (map f' (seq k (length row))).
Proof.
  induction row as [|x row IH]; intros f f' g k r Hr Hne Hg; cbn in Hr; [lia|].
  cbn [length seq map zipmul]. destruct r as [|r]; cbn [upd_nth].
  - rewrite Nat.add_0_r in Hg, Hne. rewrite Hg. f_equal. f_equal. apply map_ext_in. intros q Hq. apply in_seq in Hq.
    symmetry. apply Hne. lia.
  - rewrite (Hne k) by lia. f_equal. apply IH; try lia.
    + intros q Hq. apply Hne. lia.
    + intros y. replace (S k + r) with (k + S r) by lia. apply Hg.
Qed.

Lemma mat_upd (A : mat) R (f f' : nat -> V) (g : V -> V) r : rows_of R A -> r < R ->
  (forall q, q <> r -> f' q = f q) -> (forall x, g (x * f r) = x * f' r) ->
  map_col g r (scols (map f (seq 0 R)) A) = scols (map f' (seq 0 R)) A.
Proof.
  intros HA Hr Hne Hg. unfold map_col, scale_cols. rewrite map_map.
  induction HA as [|row A Hrow _ IH]; cbn [map]; [reflexivity|]. f_equal; [|exact IH].
  pose proof (row_upd row f f' g 0 r) as E. rewrite Hrow in E. apply E; auto.
Qed.

Lemma col_scols_one cs (A : mat) r : nth r cs v0 = v1 -> colv (scols cs A) r = colv A r.
Proof.
  intros H. unfold col, scale_cols. rewrite map_map. apply map_ext. intros row.
  rewrite (nth_zipmul V v0 v1 vadd vmul vsub vopp Vring), H. ring.
Qed.

Lemma scols_ones R (A : mat) : rows_of R A -> scols (map (fun _ => v1) (seq 0 R)) A = A.
Proof.
  intros HA. unfold scale_cols. induction HA as [|row A Hrow _ IH]; cbn [map]; [reflexivity|]. f_equal; [|exact IH].
  rewrite <- Hrow. apply (zipm_ones V v0 v1 vadd vmul vsub vopp Vring).
Qed.

(* ================================================================================================= *)
(* normalize                                                                                         *)
(* ================================================================================================= *)
Section Norm.
Variables (nrm : list V -> V) (pos : V -> bool).
Notation nmode := (k_normalize_mode v0 v1 vmul vinv nrm pos).
Notation pymode := (py_normalize_mode v0 v1 vmul vinv nrm pos).
Notation step := (py_norm_step v0 v1 vmul vinv nrm pos).
Notation ipos := (inv_pos v1 vinv pos).

Theorem py_normalize_mode_is_model n K : wf_k K -> n < length (kfactors K) -> pymode n K = nmode n K.
Proof.
  intros Hwf Hn. unfold py_normalize_mode, k_normalize_mode.
  set (As := kfactors K). set (w := kweights K). set (R := krank K). set (A := nth n As []).
  set (tr := fun r => nrm (colv A r)).
  set (cw := fun t => map (fun r => if r <? t then tr r else v1) (seq 0 R)).
  set (ci := fun t => map (fun r => if r <? t then ipos (tr r) else v1) (seq 0 R)).
  assert (HA : rows_of R A).
  { unfold wf_k in Hwf. rewrite Forall_forall in Hwf. apply Hwf. apply nth_In. exact Hn. }
  assert (Hw : length w = R) by reflexivity.
  assert (Inv : forall t, t <= R ->
            fold_left (step n) (seq 0 t) (w, As) = (zipm w (cw t), upd_nth n (fun _ => scols (ci t) A) As)).
  { induction t as [|t IH]; intros Ht.
    - cbn [seq fold_left]. f_equal.
      + unfold cw. rewrite <- Hw. symmetry. etransitivity; [|apply (zipm_ones V v0 v1 vadd vmul vsub vopp Vring w 0)].
        f_equal; try (apply map_ext; intros r; reflexivity).
      + unfold ci. cbn [Nat.ltb Nat.leb]. rewrite (scols_ones R A HA). unfold A. symmetry. apply upd_nth_self.
    - rewrite seq_S, fold_left_app, IH by lia. cbn [fold_left Nat.add]. unfold py_norm_step. cbn [fst snd].
      rewrite (nth_upd_nth_same (fun _ => scols (ci t) A) [] As n Hn).
      assert (Etmp : nrm (colv (scols (ci t) A) t) = tr t).
      { unfold tr. f_equal. apply col_scols_one. unfold ci.
        rewrite (nth_map_seq (fun r => if r <? t then ipos (tr r) else v1) v0 R t) by lia. now rewrite Nat.ltb_irrefl. }
      rewrite Etmp. f_equal.
      + unfold cw. rewrite <- Hw. apply row_upd; [lia| |].
        * intros q Hq. cbn [Nat.add] in Hq. destruct (Nat.ltb_spec q t), (Nat.ltb_spec q (S t)); try lia; reflexivity.
        * intros x. cbn [Nat.add]. rewrite Nat.ltb_irrefl. replace (t <? S t) with true by (symmetry; apply Nat.ltb_lt; lia). ring.
      + destruct (pos (tr t)) eqn:Ep.
        * rewrite upd_nth_twice. apply upd_nth_ext.
          intros _. unfold ci. apply mat_upd; [exact HA|lia| |].
          -- intros q Hq. destruct (Nat.ltb_spec q t), (Nat.ltb_spec q (S t)); try lia; reflexivity.
          -- intros x. rewrite Nat.ltb_irrefl. replace (t <? S t) with true by (symmetry; apply Nat.ltb_lt; lia).
             unfold inv_pos. rewrite Ep. ring.
        * apply upd_nth_ext. intros _. f_equal. unfold ci.
          apply map_ext_in. intros q Hq. destruct (Nat.ltb_spec q t), (Nat.ltb_spec q (S t)); try lia; try reflexivity.
          assert (q = t) by lia. subst q. unfold inv_pos. now rewrite Ep. }
  rewrite (Inv R (le_n R)). cbn [fst snd]. f_equal.
  - f_equal. unfold cw, col_norms. apply map_ext_in. intros r Hr. apply in_seq in Hr.
    replace (r <? R) with true by (symmetry; apply Nat.ltb_lt; lia). reflexivity.
  - fold As A. rewrite <- (upd_nth_const (scols (map ipos (col_norms v0 nrm A R))) [] As n). fold A.
    apply upd_nth_ext. intros _. f_equal. unfold ci, col_norms. rewrite map_map. apply map_ext_in. intros r Hr. apply in_seq in Hr.
    replace (r <? R) with true by (symmetry; apply Nat.ltb_lt; lia). reflexivity.
Qed.

(* the all-modes phase of normalize(): for mode_idx in range(ndims): the inner loop *)
Lemma py_normalize_fold l : forall K, wf_k K -> (forall n, In n l -> n < length (kfactors K)) ->
  fold_left (fun K n => pymode n K) l K = fold_left (fun K n => nmode n K) l K.
Proof.
  induction l as [|n l IH]; intros K Hwf Hl; cbn [fold_left]; [reflexivity|].
  rewrite py_normalize_mode_is_model by (auto; apply Hl; now left).
  destruct (wf_normalize_mode V v0 v1 vmul vinv nrm pos n K Hwf) as [H1 _].
  apply IH; [exact H1|]. intros q Hq. rewrite (nfactors_normalize_mode V v0 v1 vmul vinv nrm pos). apply Hl. now right.
Qed.

Theorem py_normalize_cols_is_model K : wf_k K ->
  py_normalize_cols v0 v1 vmul vinv nrm pos K = k_normalize_cols v0 v1 vmul vinv nrm pos K.
Proof.
  intros Hwf. unfold py_normalize_cols, k_normalize_cols. apply py_normalize_fold; [exact Hwf|].
  intros n Hn. apply in_seq in Hn. lia.
Qed.
End Norm.

(* ================================================================================================= *)
(* fixsigns()                                                                                        *)
(* ================================================================================================= *)
Section Fix.
Variable negcol : list V -> bool.
Notation modes := (fs_modes v0 negcol).
Notation fstep := (py_fs_step v0 vopp negcol).

Lemma map_col_opp r (A : mat) : map_col vopp r A = neg_col v1 vmul vopp r A.
Proof. unfold map_col, neg_col. apply map_ext. intros row. apply upd_nth_ext. intros x. unfold vm1. ring. Qed.

Lemma negcols_unflipped fl R t : t < R -> forall (As : list mat) k, (forall n, fl n t = false) ->
  map (fun A => negcol (colv A t)) (flipf fl R k As) = map (fun A => negcol (colv A t)) As.
Proof.
  intros Ht. induction As as [|A As IH]; intros k Hfl; cbn [flip_factors map]; [reflexivity|]. f_equal; [|apply IH; exact Hfl].
  f_equal. apply col_scols_one.
  rewrite (nth_map_seq (fun r => if fl k r then m1 else v1) v0 R t Ht). now rewrite Hfl.
Qed.

Lemma where_true_spec (l : list bool) : NoDup (where_true l) /\ forall n, In n (where_true l) -> n < length l.
Proof.
  unfold where_true. split; [apply NoDup_filter, seq_NoDup|]. intros n Hn. apply filter_In in Hn as [Hn _]. apply in_seq in Hn. lia.
Qed.

Definition fs_upto (K : ktensor V) (t : nat) : nat -> nat -> bool := fun n r => (r <? t) && memb n (modes K r).

Theorem py_fixsigns_is_model K : wf_k K -> py_fixsigns v0 vopp negcol K = k_fixsigns v0 v1 vmul vopp negcol K.
Proof.
  intros Hwf. unfold py_fixsigns, k_fixsigns, k_flip. f_equal.
  set (As := kfactors K). set (R := krank K).
  assert (Inv : forall t, t <= R -> fold_left fstep (seq 0 t) As = flipf (fs_upto K t) R 0 As).
  { induction t as [|t IH]; intros Ht.
    - cbn [seq fold_left]. symmetry. etransitivity; [|apply (flipf_id V v0 v1 vadd vmul vsub vopp Vring R As 0 Hwf)].
      apply (flipf_ext V v1 vmul vopp). intros n r _ _. reflexivity.
    - rewrite seq_S, fold_left_app, IH by lia. cbn [fold_left Nat.add]. unfold py_fs_step.
      rewrite (negcols_unflipped (fs_upto K t) R t) by (try lia; intros n; unfold fs_upto; now rewrite Nat.ltb_irrefl).
      set (negidx := where_true (map (fun A => negcol (colv A t)) As)).
      set (l := firstn (2 * (length negidx / 2)) negidx).
      destruct (where_true_spec (map (fun A => negcol (colv A t)) As)) as [Hnd Hlt]. fold negidx in Hnd, Hlt.
      rewrite map_length in Hlt.
      rewrite (fold_left_ext (fun As' n => upd_nth n (map_col vopp t) As') (fun As' n => upd_nth n (neg_col v1 vmul vopp t) As'))
        by (intros c a; apply upd_nth_ext; intros A; apply map_col_opp).
      rewrite (flipf_fold V v0 v1 vadd vmul vsub vopp Vring R t As l (fs_upto K t)).
      + apply (flipf_ext V v1 vmul vopp). intros n r _ Hr. unfold fs_upto. destruct (Nat.eqb_spec r t) as [E|E].
        * subst r. rewrite Nat.ltb_irrefl. replace (t <? S t) with true by (symmetry; apply Nat.ltb_lt; lia).
          cbn [andb orb]. rewrite andb_true_r. reflexivity.
        * rewrite andb_false_r, orb_false_r. f_equal. destruct (Nat.ltb_spec r t), (Nat.ltb_spec r (S t)); auto; lia.
      + apply NoDup_firstn. exact Hnd.
      + intros n Hn. apply Hlt. eapply In_firstn; eauto.
      + intros n Hn. unfold wf_k in Hwf. rewrite Forall_forall in Hwf. apply Hwf. apply nth_In. apply Hlt. eapply In_firstn; eauto.
      + lia.
      + intros n _. unfold fs_upto. now rewrite Nat.ltb_irrefl. }
  rewrite (Inv R (le_n R)). apply (flipf_ext V v1 vmul vopp). intros n r _ Hr. unfold fs_upto.
  replace (r <? R) with true by (symmetry; apply Nat.ltb_lt; exact Hr). reflexivity.
Qed.
End Fix.

(* ---- the whole normalize(weight_factor, sort, normtype, mode) with its loops as written: the column loops, then the sign step,
        the absorption and the optional sort, which are array operations in the source as well (k_fix_neg, k_absorb, k_sort) ---- *)
Section Full.
Variables (nrm : list V -> V) (pos neg : V -> bool) (root : V -> V) (srt : list V -> list nat).
Definition py_normalize (wf : wfac) (sort : bool) (mode : option nat) (K : ktensor V) : ktensor V :=
  match mode with
  | Some n => py_normalize_mode v0 v1 vmul vinv nrm pos n K
  | None => let K1 := k_absorb v1 vmul root wf (k_fix_neg v1 vmul vopp neg (py_normalize_cols v0 v1 vmul vinv nrm pos K)) in
            if sort then k_sort v0 srt K1 else K1
  end.

Theorem py_normalize_is_model wf sort mode K : wf_k K -> (forall n, mode = Some n -> n < length (kfactors K)) ->
  py_normalize wf sort mode K = k_normalize v0 v1 vmul vopp vinv nrm pos neg root srt wf sort mode K.
Proof.
  intros Hwf Hm. unfold py_normalize, k_normalize. destruct mode as [n|].
  - apply py_normalize_mode_is_model; auto.
  - now rewrite py_normalize_cols_is_model.
Qed.

(* invariance, for the loops: every norm oracle positive on non-zero columns *)
Hypothesis vinv_r : forall x, x <> v0 -> x * vinv x = v1.
Hypothesis pos_nz : forall x, pos x = true -> x <> v0.
Hypothesis nrm_pos : forall l, pos (nrm l) = false -> Forall (fun y => y = v0) l.
Theorem den_py_normalize_mode n K : wf_k K -> n < length (kfactors K) ->
  forall i, den_k v0 v1 vadd vmul (py_normalize_mode v0 v1 vmul vinv nrm pos n K) i = den_k v0 v1 vadd vmul K i.
Proof.
  intros Hwf Hn i. rewrite py_normalize_mode_is_model by assumption.
  exact (den_normalize_mode V v0 v1 vadd vmul vsub vopp vinv Vring nrm pos vinv_r pos_nz nrm_pos n K Hn i).
Qed.
End Full.

(* fixsigns(other) with EVERY loop as written: self.normalize() and other.copy().normalize() by their column loops, then the
   component loop of Model/C08Loop.v — equals the model k_fixsigns_other of C08_invariant_fixsigns_other *)
Section AllLoops.
Variables (nrm : list V -> V) (pos neg : V -> bool) (root : V -> V) (srt : list V -> list nat) (leb : V -> V -> bool).
Hypothesis leb_total : forall a b, leb a b = false -> leb b a = true.
Hypothesis neg_mono : forall a b, leb a b = true -> neg b = true -> neg a = true.
Definition py_fixsigns_other_loops (A B : ktensor V) : ktensor V :=
  py_fixsigns_other_core v0 v1 vadd vmul vopp neg leb
    (py_normalize nrm pos neg root srt WNone false None A) (py_normalize nrm pos neg root srt WNone false None B).
Theorem py_fixsigns_other_loops_is_model A B : wf_k A -> wf_k B ->
  py_fixsigns_other_loops A B = k_fixsigns_other V v0 v1 vadd vmul vopp vinv nrm pos neg root srt leb A B.
Proof.
  intros HA HB. unfold py_fixsigns_other_loops.
  rewrite !py_normalize_is_model by (auto; intros n Hn; discriminate).
  exact (py_fixsigns_other_full V v0 v1 vadd vmul vsub vopp Vring vinv nrm pos neg root srt leb leb_total neg_mono A B HA).
Qed.
End AllLoops.

Theorem den_py_fixsigns (negcol : list V -> bool) K : wf_k K ->
  forall i, den_k v0 v1 vadd vmul (py_fixsigns v0 vopp negcol K) i = den_k v0 v1 vadd vmul K i.
Proof.
  intros Hwf i. rewrite py_fixsigns_is_model by assumption.
  exact (den_fixsigns V v0 v1 vadd vmul vsub vopp vinv Vring negcol K i).
Qed.
End PL82.
