(* Props/C02.v — multilinear products equal their definition in every representation.
   Only statements, `exact`, Print Assumptions. Specs: Model/C02Spec.v; models: Model/C02*.v; proofs: Proofs/C02*.v *)
From Coq Require Import List Arith Bool ZArith Ring.
From PV Require Import Base.Index Base.Perm Base.Sum Np.Array Model.Sparse Model.Repr
                       Model.C02Spec Model.C02Dense Model.C02Sparse Proofs.C02DenseProofs Proofs.C02SparseProofs.
Import ListNotations.

Section C02.
Variable V : Type.
Variables (v0 v1 : V) (vadd vmul vsub : V -> V -> V) (vopp : V -> V).
Hypothesis Vring : ring_theory v0 v1 vadd vmul vsub vopp (@eq V).

(* dense ttv (permute / reshape / matrix-vector route of tensor.py), any mode list, scalar result included (shape []) *)
Theorem C02_ttv_dense : forall (X : dense V) dims vs,
  wf_dense X -> length vs = length dims ->
  is_perm (compl (length (dshape X)) dims ++ dims) (length (dshape X)) ->
  let Y := impl_ttv_dense v0 vadd vmul X dims vs in
  dshape Y = ttv_shape (dshape X) dims /\ wf_dense Y /\
  forall i', inb (ttv_shape (dshape X) dims) i' = true ->
    den_dense v0 Y i' = spec_ttv v0 vadd vmul (den_dense v0 X) (dshape X) dims vs i'.
Proof. exact (impl_ttv_dense_correct V v0 vadd vmul). Qed.

(* dense innerprod / squared Frobenius norm (x.dot(y) on the F-order ravel) *)
Theorem C02_innerprod_dense : forall X Y : dense V, wf_dense X -> wf_dense Y -> dshape X = dshape Y ->
  impl_innerprod_dense v0 vadd vmul X Y = spec_innerprod v0 vadd vmul (den_dense v0 X) (den_dense v0 Y) (dshape X).
Proof. exact (impl_innerprod_dense_correct V v0 vadd vmul). Qed.

Theorem C02_normsq_dense : forall X : dense V, wf_dense X ->
  impl_normsq_dense v0 vadd vmul X = spec_normsq v0 vadd vmul (den_dense v0 X) (dshape X).
Proof. exact (impl_normsq_dense_correct V v0 vadd vmul). Qed.

(* dense ttm, single mode, plain (U is J x I_n) and transposed (U is I_n x J): permute / reshape / matmul / reshape / permute back *)
Theorem C02_ttm_dense : forall (X : dense V) n U J tr,
  wf_dense X -> n < length (dshape X) ->
  let Y := impl_ttm_dense v0 vadd vmul X n U J tr in
  dshape Y = upd (dshape X) n J /\ wf_dense Y /\
  forall i, inb (upd (dshape X) n J) i = true ->
    den_dense v0 Y i = spec_ttm v0 vadd vmul (den_dense v0 X) (dshape X) n U tr i.
Proof. exact (impl_ttm_dense_correct V v0 vadd vmul). Qed.

(* Khatri-Rao product with reverse=True: row sub2ind(shape, j) (first matrix fastest) holds Π_m U_m[j_m, r] *)
Theorem C02_khatrirao_rev : forall R Us j r, Us <> [] -> Forall (wf_cols V R) Us ->
  inb (map (@length _) Us) j = true -> r < R ->
  mget v0 (kr_rev vmul Us) (sub2ind (map (@length _) Us) j) r = kprod v0 v1 vmul Us j r.
Proof. exact (mget_kr_rev V v0 v1 vadd vmul vsub vopp Vring). Qed.

(* dense mttkrp, factor list, branch n = 0: reshape(data, (I_0, rest)) @ khatrirao(U[1:], reverse=True) *)
Theorem C02_mttkrp_dense_n0 : forall (X : dense V) Us R,
  wf_dense X -> 2 <= length (dshape X) -> length Us = length (dshape X) ->
  Forall (wf_cols V R) (skipn 1 Us) -> map (@length _) (skipn 1 Us) = skipn 1 (dshape X) ->
  let Y := impl_mttkrp_dense v0 vadd vmul X Us 0 R in
  dshape Y = [nth 0 (dshape X) 0; R] /\ wf_dense Y /\
  forall x r, x < nth 0 (dshape X) 0 -> r < R ->
    den_dense v0 Y [x; r] = spec_mttkrp v0 v1 vadd vmul (den_dense v0 X) (dshape X) 0 (repeat v1 R) Us x r.
Proof. exact (impl_mttkrp_dense_n0_correct V v0 v1 vadd vmul vsub vopp Vring). Qed.

(* ---- sparse: a sum over all subscripts of den_sp(i) g(i) is the sum over the stored entries ---- *)
Variable isz : V -> bool.

Theorem C02_sparse_sum : forall (S : sparse V) (g : idx -> V), wf_sp isz S ->
  sum_over v0 vadd (allsubs (sshape S)) (fun i => vmul (den_sp v0 S i) (g i)) =
  sum_over v0 vadd (entries S) (fun e => vmul (snd e) (g (fst e))).
Proof. exact (sparse_sum V v0 v1 vadd vmul vsub vopp Vring isz). Qed.

Theorem C02_innerprod_sparse_dense : forall (S : sparse V) (T : dense V), wf_sp isz S ->
  impl_innerprod_sp_dense v0 vadd vmul S T = spec_innerprod v0 vadd vmul (den_sp v0 S) (den_dense v0 T) (sshape S).
Proof. exact (impl_innerprod_sp_dense_correct V v0 v1 vadd vmul vsub vopp Vring isz). Qed.

(* both nnz orderings of sptensor.innerprod(sptensor) *)
Theorem C02_innerprod_sparse_sparse : forall A B : sparse V, wf_sp isz A -> wf_sp isz B -> sshape A = sshape B ->
  impl_innerprod_sp_sp v0 vadd vmul A B = spec_innerprod v0 vadd vmul (den_sp v0 A) (den_sp v0 B) (sshape A).
Proof. exact (impl_innerprod_sp_sp_correct V v0 v1 vadd vmul vsub vopp Vring isz). Qed.

Theorem C02_normsq_sparse : forall S : sparse V, wf_sp isz S ->
  impl_normsq_sp v0 vadd vmul S = spec_normsq v0 vadd vmul (den_sp v0 S) (sshape S).
Proof. exact (impl_normsq_sp_correct V v0 v1 vadd vmul vsub vopp Vring isz). Qed.

(* Kruskal ttv in one mode: weights * (A_n^T v), remaining factors kept *)
Theorem C02_ttv_k1 : forall (K : ktensor V) n v i',
  n < length (kfactors K) -> inb (remove_at n (kshape K)) i' = true ->
  den_k v0 v1 vadd vmul (impl_ttv_k1 v0 vadd vmul K n v) i' =
  spec_ttv1 v0 vadd vmul (den_k v0 v1 vadd vmul K) (kshape K) n v i'.
Proof. exact (impl_ttv_k1_correct V v0 v1 vadd vmul vsub vopp Vring). Qed.

(* representation independence, instance: the same array held sparse or dense gives the same inner product *)
Theorem C02_repr_indep_innerprod : forall (S : sparse V) (X T : dense V),
  wf_sp isz S -> wf_dense X -> wf_dense T -> sshape S = dshape X -> dshape X = dshape T ->
  (forall i, den_sp v0 S i = den_dense v0 X i) ->
  impl_innerprod_sp_dense v0 vadd vmul S T = impl_innerprod_dense v0 vadd vmul X T.
Proof. exact (repr_indep_innerprod V v0 v1 vadd vmul vsub vopp Vring isz). Qed.
End C02.

Print Assumptions C02_ttv_dense.
Print Assumptions C02_innerprod_dense.
Print Assumptions C02_normsq_dense.
Print Assumptions C02_ttm_dense.
Print Assumptions C02_khatrirao_rev.
Print Assumptions C02_mttkrp_dense_n0.
Print Assumptions C02_sparse_sum.
Print Assumptions C02_innerprod_sparse_dense.
Print Assumptions C02_innerprod_sparse_sparse.
Print Assumptions C02_normsq_sparse.
Print Assumptions C02_ttv_k1.
Print Assumptions C02_repr_indep_innerprod.

(* non-vacuity: concrete non-symmetric instances over Z *)
Local Open Scope Z_scope.
Example C02_ex_ttv : impl_ttv_dense 0 Z.add Z.mul (mkDense [2; 3]%nat [1; 2; 3; 4; 5; 6]) [1%nat] [[1; 0; 2]] = mkDense [2%nat] [11; 14].
Proof. reflexivity. Qed.
Example C02_ex_ttv_scalar : impl_ttv_dense 0 Z.add Z.mul (mkDense [2; 3]%nat [1; 2; 3; 4; 5; 6]) [0; 1]%nat [[1; -1]; [1; 0; 2]] = mkDense [] [-3].
Proof. reflexivity. Qed.
Example C02_ex_ttm : impl_ttm_dense 0 Z.add Z.mul (mkDense [2; 3]%nat [1; 2; 3; 4; 5; 6]) 1 [[1; 0; 2]; [0; 1; 0]] 2 false
                     = mkDense [2; 2]%nat [11; 14; 3; 4].
Proof. reflexivity. Qed.
Example C02_ex_ttm_T : impl_ttm_dense 0 Z.add Z.mul (mkDense [2; 3]%nat [1; 2; 3; 4; 5; 6]) 0 [[1; 0]; [2; 1]] 2 true
                     = mkDense [2; 3]%nat [5; 2; 11; 4; 17; 6].
Proof. reflexivity. Qed.
Example C02_ex_mttkrp : impl_mttkrp_dense 0 Z.add Z.mul (mkDense [2; 3; 2]%nat [1; 2; 3; 4; 5; 6; 7; 8; 9; 10; 11; 12])
                          [[[0]; [0]]; [[1]; [0]; [2]]; [[1]; [-1]]] 0 1 = mkDense [2; 1]%nat [-18; -18].
Proof. reflexivity. Qed.
Example C02_ex_innerprod_sp : impl_innerprod_sp_dense 0 Z.add Z.mul (mkSp [2; 3]%nat [[1; 2]; [0; 1]]%nat [5; 7]) (mkDense [2; 3]%nat [1; 2; 3; 4; 5; 6]) = 51.
Proof. reflexivity. Qed.
Example C02_ex_ttv_k : impl_ttv_k1 0 Z.add Z.mul (mkK [2; 3] [[[1; 0]; [2; 1]]; [[1; 1]; [0; 2]; [3; 0]]]) 1 [1; -1; 2]
                       = mkK [14; -3] [[[1; 0]; [2; 1]]].
Proof. reflexivity. Qed.
