(* Proofs/C06Proofs.v — canonical form, order independence as a corollary of denotational correctness. *)
From Coq Require Import List Arith Lia Bool Permutation ZArith.
From PV Require Import Base.Index Np.NpZ Np.Array Gen.GenUtils Model.Sparse Model.Harness Model.C03Ops Model.C03Gen Model.C06Ops
                       Proofs.C03Lemmas Proofs.C03Proofs Proofs.C03GenProofs.
Import ListNotations.

Section C06.
Context {V : Type} (v0 : V) (isz : V -> bool).
Hypothesis isz_spec : forall v, isz v = true <-> v = v0.
Notation den := (den_sp v0).
Notation wf := (wf_sp isz).
Notation canon := (canon v0 isz).

Lemma wf_bounds (S : sparse V) : wf S -> Forall (fun j => inb (sshape S) j = true) (ssubs S).
Proof. now intros (_ & _ & H & _). Qed.

(* canon is well-formed, denotes the same array, and is a re-ordering of the stored entries *)
Theorem canon_wf (S : sparse V) : wf (canon S).
Proof. apply to_sptensor_wf. apply wf_full. Qed.

Theorem canon_den (S : sparse V) i : wf S -> den (canon S) i = den S i.
Proof.
  intros W. unfold C06Ops.canon. rewrite (den_to_sptensor v0 isz isz_spec) by apply wf_full.
  apply den_full. now apply wf_bounds.
Qed.

Theorem canon_perm (S : sparse V) : wf S -> Permutation (entries S) (entries (canon S)).
Proof.
  intros W. apply (canon_unique v0 isz isz_spec); auto using canon_wf.
  intros i. symmetry. now apply canon_den.
Qed.

(* two well-formed tensors of one shape that denote the same array have THE SAME canonical form *)
Theorem canon_eq (X Y : sparse V) : wf X -> wf Y -> sshape X = sshape Y ->
  (forall i, inb (sshape X) i = true -> den X i = den Y i) -> canon X = canon Y.
Proof.
  intros WX WY Hs E. unfold C06Ops.canon. f_equal. apply (dense_ext v0); auto using wf_full.
  intros i Hi. cbn [dshape full] in Hi. rewrite !den_full by (now apply wf_bounds). now apply E.
Qed.

Theorem canon_of_perm (X Y : sparse V) : wf X -> wf Y -> sshape X = sshape Y ->
  Permutation (entries X) (entries Y) -> canon X = canon Y.
Proof.
  intros WX WY Hs HP. apply canon_eq; auto. intros i _. apply den_perm; auto. now apply (wf_sp_struct isz).
Qed.

(* order independence of ANY binary operation that is denotationally correct *)
Theorem order_indep2 (op : sparse V -> sparse V -> sparse V) (f : V -> V -> V) :
  (forall A B, wf A -> wf B -> sshape B = sshape A ->
     wf (op A B) /\ sshape (op A B) = sshape A /\
     forall i, inb (sshape A) i = true -> den (op A B) i = f (den A i) (den B i)) ->
  forall A A' B B', wf A -> wf A' -> wf B -> wf B' ->
    sshape A' = sshape A -> sshape B = sshape A -> sshape B' = sshape A ->
    Permutation (entries A) (entries A') -> Permutation (entries B) (entries B') ->
    canon (op A B) = canon (op A' B') /\ Permutation (entries (op A B)) (entries (op A' B')).
Proof.
  intros Hop A A' B B' WA WA' WB WB' SA SB SB' PA PB.
  destruct (Hop A B WA WB SB) as (W1 & S1 & D1).
  destruct (Hop A' B' WA' WB') as (W2 & S2 & D2); [congruence|].
  assert (E : forall i, inb (sshape (op A B)) i = true -> den (op A B) i = den (op A' B') i).
  { intros i Hi. rewrite S1 in Hi. rewrite D1 by auto. rewrite D2 by (now rewrite SA).
    rewrite (den_perm v0 A A' (wf_sp_struct isz A WA) PA i).
    now rewrite (den_perm v0 B B' (wf_sp_struct isz B WB) PB i). }
  split.
  - apply canon_eq; auto. congruence.
  - apply (canon_unique v0 isz isz_spec); auto. intros i.
    destruct (inb (sshape (op A B)) i) eqn:Hi; [now apply E|].
    rewrite (den_out v0 (op A B) i); [|apply (wf_sp_struct isz); auto|auto].
    rewrite (den_out v0 (op A' B') i); [auto|apply (wf_sp_struct isz); auto|congruence].
Qed.

Theorem order_indep1 (op : sparse V -> sparse V) (g : V -> V) :
  (forall A, wf A -> wf (op A) /\ sshape (op A) = sshape A /\
     forall i, inb (sshape A) i = true -> den (op A) i = g (den A i)) ->
  forall A A', wf A -> wf A' -> sshape A' = sshape A -> Permutation (entries A) (entries A') ->
    canon (op A) = canon (op A') /\ Permutation (entries (op A)) (entries (op A')).
Proof.
  intros Hop A A' WA WA' SA PA.
  destruct (Hop A WA) as (W1 & S1 & D1). destruct (Hop A' WA') as (W2 & S2 & D2).
  assert (E : forall i, inb (sshape (op A)) i = true -> den (op A) i = den (op A') i).
  { intros i Hi. rewrite S1 in Hi. rewrite D1 by auto. rewrite D2 by (now rewrite SA).
    now rewrite (den_perm v0 A A' (wf_sp_struct isz A WA) PA i). }
  split.
  - apply canon_eq; auto. congruence.
  - apply (canon_unique v0 isz isz_spec); auto. intros i.
    destruct (inb (sshape (op A)) i) eqn:Hi; [now apply E|].
    rewrite (den_out v0 (op A) i); [|apply (wf_sp_struct isz); auto|auto].
    rewrite (den_out v0 (op A') i); [auto|apply (wf_sp_struct isz); auto|congruence].
Qed.

End C06.

(* the same for an operation that may fail (transliterations over the generated helpers return `res`) *)
Section Res.
Context {V : Type} (v0 : V) (isz : V -> bool).
Hypothesis isz_spec : forall v, isz v = true <-> v = v0.
Notation den := (den_sp v0).
Notation wf := (wf_sp isz).
Notation canon := (canon v0 isz).

Definition indep2_res (adm : sparse V -> Prop) (op : sparse V -> sparse V -> res (sparse V)) : Prop :=
  forall A A' B B', wf A -> wf A' -> wf B -> wf B' -> adm A ->
    sshape A' = sshape A -> sshape B = sshape A -> sshape B' = sshape A ->
    Permutation (entries A) (entries A') -> Permutation (entries B) (entries B') ->
    exists R R', op A B = Ok R /\ op A' B' = Ok R' /\ wf R /\ wf R' /\
                 canon R = canon R' /\ Permutation (entries R) (entries R').

Theorem order_indep2_res (adm : sparse V -> Prop) (op : sparse V -> sparse V -> res (sparse V)) (f : V -> V -> V) :
  (forall A A', sshape A' = sshape A -> adm A -> adm A') ->
  (forall A B, wf A -> wf B -> sshape B = sshape A -> adm A ->
     exists R, op A B = Ok R /\ wf R /\ sshape R = sshape A /\
               forall i, inb (sshape A) i = true -> den R i = f (den A i) (den B i)) ->
  indep2_res adm op.
Proof.
  intros Hadm Hop A A' B B' WA WA' WB WB' HA SA SB SB' PA PB.
  destruct (Hop A B WA WB SB HA) as (R & E1 & W1 & S1 & D1).
  destruct (Hop A' B' WA' WB') as (R' & E2 & W2 & S2 & D2); [congruence|eauto|].
  exists R, R'. split; [exact E1|]. split; [exact E2|]. split; [exact W1|]. split; [exact W2|].
  assert (E : forall i, inb (sshape R) i = true -> den R i = den R' i).
  { intros i Hi. rewrite S1 in Hi. rewrite D1 by auto. rewrite D2 by (now rewrite SA).
    rewrite (den_perm v0 A A' (wf_sp_struct isz A WA) PA i).
    now rewrite (den_perm v0 B B' (wf_sp_struct isz B WB) PB i). }
  split.
  - apply (canon_eq v0 isz); auto. congruence.
  - apply (canon_unique v0 isz isz_spec); auto. intros i.
    destruct (inb (sshape R) i) eqn:Hi; [now apply E|].
    rewrite (den_out v0 R i); [|apply (wf_sp_struct isz); auto|auto].
    rewrite (den_out v0 R' i); [auto|apply (wf_sp_struct isz); auto|congruence].
Qed.
End Res.

(* ------------------------------------------------------------------------------------------ *)
(* instances: every modelled sparse-returning operator is order-independent and well-formed     *)
(* ------------------------------------------------------------------------------------------ *)
Section Instances.
Context {V : Type} (v0 : V) (isz : V -> bool).
Hypothesis isz_spec : forall v, isz v = true <-> v = v0.
Variables (one : V) (vadd vmul : V -> V -> V) (vopp : V -> V).
Hypothesis one_nz : one <> v0.
Hypothesis vadd_0_l : forall x, vadd v0 x = x.
Hypothesis vadd_0_r : forall x, vadd x v0 = x.
Hypothesis vopp_nz : forall v, v <> v0 -> vopp v <> v0.
Hypothesis vopp_0 : vopp v0 = v0.
Hypothesis vmul_0_l : forall x, vmul v0 x = v0.
Hypothesis vmul_0_r : forall x, vmul x v0 = v0.
Notation den := (den_sp v0).
Notation wf := (wf_sp isz).
Notation canon := (canon v0 isz).

Definition indep2 (op : sparse V -> sparse V -> sparse V) : Prop :=
  forall A A' B B', wf A -> wf A' -> wf B -> wf B' ->
    sshape A' = sshape A -> sshape B = sshape A -> sshape B' = sshape A ->
    Permutation (entries A) (entries A') -> Permutation (entries B) (entries B') ->
    wf (op A B) /\ canon (op A B) = canon (op A' B') /\ Permutation (entries (op A B)) (entries (op A' B')).
Definition indep1 (op : sparse V -> sparse V) : Prop :=
  forall A A', wf A -> wf A' -> sshape A' = sshape A -> Permutation (entries A) (entries A') ->
    wf (op A) /\ canon (op A) = canon (op A') /\ Permutation (entries (op A)) (entries (op A')).

Lemma mk_indep2 op (f : V -> V -> V) :
  (forall A B, wf A -> wf B -> sshape B = sshape A ->
     wf (op A B) /\ sshape (op A B) = sshape A /\
     forall i, inb (sshape A) i = true -> den (op A B) i = f (den A i) (den B i)) -> indep2 op.
Proof.
  intros H A A' B B' WA WA' WB WB' SA SB SB' PA PB. split; [now apply H|].
  now apply (order_indep2 v0 isz isz_spec op f H).
Qed.
Lemma mk_indep1 op (g : V -> V) :
  (forall A, wf A -> wf (op A) /\ sshape (op A) = sshape A /\
     forall i, inb (sshape A) i = true -> den (op A) i = g (den A i)) -> indep1 op.
Proof.
  intros H A A' WA WA' SA PA. split; [now apply H|]. now apply (order_indep1 v0 isz isz_spec op g H).
Qed.
Ltac weaken H := intros; destruct H as (W_ & S_ & D_); (split; [exact W_|split; [exact S_|intros; apply D_]]).

Theorem indep_add : indep2 (impl_add v0 isz vadd).
Proof. apply (mk_indep2 _ vadd). intros A B WA WB Hs. weaken (impl_add_correct v0 isz isz_spec vadd vadd_0_l vadd_0_r A B WA WB Hs). Qed.
Theorem indep_sub : indep2 (impl_sub v0 isz vadd vopp).
Proof.
  apply (mk_indep2 _ (fun a b => vadd a (vopp b))). intros A B WA WB Hs.
  weaken (impl_sub_correct v0 isz isz_spec vadd vopp vadd_0_l vadd_0_r vopp_nz vopp_0 A B WA WB Hs).
Qed.
Theorem indep_mul : indep2 (impl_mul v0 isz vmul).
Proof. apply (mk_indep2 _ vmul). intros A B WA WB Hs. weaken (impl_mul_correct v0 isz isz_spec vmul vmul_0_l vmul_0_r A B WA WB Hs). Qed.
Theorem indep_and : indep2 (impl_and v0 isz one).
Proof.
  apply (mk_indep2 _ (fun a b => bval v0 one (negb (isz a) && negb (isz b)))). intros A B WA WB Hs.
  weaken (impl_and_correct v0 isz isz_spec one A B WA WB Hs).
Qed.
Theorem indep_or : indep2 (impl_or v0 isz one).
Proof.
  apply (mk_indep2 _ (fun a b => bval v0 one (negb (isz a) || negb (isz b)))). intros A B WA WB Hs.
  weaken (impl_or_correct v0 isz isz_spec one A B WA WB Hs).
Qed.
Theorem indep_xor : indep2 (impl_xor v0 isz one).
Proof.
  apply (mk_indep2 _ (fun a b => bval v0 one (xorb (negb (isz a)) (negb (isz b))))). intros A B WA WB Hs.
  weaken (impl_xor_correct v0 isz isz_spec one A B WA WB Hs).
Qed.
Theorem indep_cmp cmp : indep2 (impl_cmp v0 one cmp).
Proof.
  apply (mk_indep2 _ (fun a b => bval v0 one (cmp a b))). intros A B WA WB Hs.
  exact (impl_cmp_correct v0 isz isz_spec one one_nz cmp A B WA WB Hs).
Qed.
Theorem indep_neg : indep1 (impl_neg vopp).
Proof. apply (mk_indep1 _ vopp). intros A WA. weaken (impl_neg_correct v0 isz isz_spec vopp vopp_nz vopp_0 A WA). Qed.
Theorem indep_not : indep1 (impl_not one).
Proof. apply (mk_indep1 _ (fun a => bval v0 one (isz a))). intros A WA. exact (impl_not_correct v0 isz isz_spec one A one_nz WA). Qed.
Theorem indep_ones : indep1 (impl_ones one).
Proof. apply (mk_indep1 _ (fun a => bval v0 one (negb (isz a)))). intros A WA. weaken (impl_ones_correct v0 isz isz_spec one A one_nz WA). Qed.
Theorem indep_elemfun g : indep1 (impl_elemfun isz g).
Proof. apply (mk_indep1 _ (fun a => if isz a then v0 else g a)). intros A WA. weaken (impl_elemfun_correct v0 isz isz_spec g A WA). Qed.
Theorem indep_mul_scalar c : indep1 (fun A => impl_mul_scalar isz vmul A c).
Proof. apply (mk_indep1 _ (fun a => vmul a c)). intros A WA. weaken (impl_mul_scalar_correct v0 isz isz_spec vmul vmul_0_l A c WA). Qed.
Theorem indep_mul_dense T : indep1 (fun A => impl_mul_dense v0 isz vmul A T).
Proof.
  intros A A' WA WA' SA PA.
  destruct (impl_mul_dense_correct v0 isz isz_spec vmul vmul_0_l A T WA) as (W1 & S1 & D1).
  destruct (impl_mul_dense_correct v0 isz isz_spec vmul vmul_0_l A' T WA') as (W2 & S2 & D2).
  assert (E : forall i, den (impl_mul_dense v0 isz vmul A T) i = den (impl_mul_dense v0 isz vmul A' T) i).
  { intros i. rewrite D1, D2. now rewrite (den_perm v0 A A' (wf_sp_struct isz A WA) PA i). }
  split; [exact W1|split].
  - apply (canon_eq v0 isz); auto; congruence.
  - now apply (canon_unique v0 isz isz_spec).
Qed.
Theorem indep_cmp_scalar cmp c : indep1 (fun A => impl_cmp_scalar v0 one cmp A c).
Proof. apply (mk_indep1 _ (fun a => bval v0 one (cmp a c))). intros A WA. exact (impl_cmp_scalar_correct v0 isz isz_spec one one_nz cmp A c WA). Qed.
Theorem indep_cmp_dense cmp T : indep1 (fun A => impl_cmp_dense v0 one cmp A T).
Proof.
  intros A A' WA WA' SA PA.
  destruct (impl_cmp_dense_correct v0 isz isz_spec one one_nz cmp A T WA) as (W1 & S1 & D1).
  destruct (impl_cmp_dense_correct v0 isz isz_spec one one_nz cmp A' T WA') as (W2 & S2 & D2).
  assert (E : forall i, inb (sshape (impl_cmp_dense v0 one cmp A T)) i = true ->
                        den (impl_cmp_dense v0 one cmp A T) i = den (impl_cmp_dense v0 one cmp A' T) i).
  { intros i Hi. rewrite S1 in Hi. rewrite D1, D2 by congruence. now rewrite (den_perm v0 A A' (wf_sp_struct isz A WA) PA i). }
  split; [exact W1|split].
  - apply (canon_eq v0 isz); auto; congruence.
  - apply (canon_unique v0 isz isz_spec); auto. intros i.
    destruct (inb (sshape (impl_cmp_dense v0 one cmp A T)) i) eqn:Hi; [now apply E|].
    rewrite (den_out v0 (impl_cmp_dense v0 one cmp A T) i); [|apply (wf_sp_struct isz); auto|auto].
    rewrite (den_out v0 (impl_cmp_dense v0 one cmp A' T) i); [auto|apply (wf_sp_struct isz); auto|congruence].
Qed.

(* the transliterations over the GENERATED row helpers (order >= 1) *)
Definition has_modes (A : sparse V) : Prop := sshape A <> [].
Lemma has_modes_shape (A A' : sparse V) : sshape A' = sshape A -> has_modes A -> has_modes A'.
Proof. unfold has_modes. congruence. Qed.

Theorem indep_mul_gen : (forall x y, x <> v0 -> y <> v0 -> vmul x y <> v0) ->
  indep2_res v0 isz has_modes (impl_mul_gen v0 vmul).
Proof.
  intros Hzd. apply (order_indep2_res v0 isz isz_spec _ _ vmul has_modes_shape). intros A B WA WB Hs HA.
  destruct (impl_mul_gen_correct v0 isz isz_spec vmul vmul_0_l vmul_0_r A B WA WB Hs HA) as (R & E & _ & S & D & W).
  exists R. split; [exact E|]. split; [now apply W|]. split; [exact S|]. intros i _. apply D.
Qed.

Theorem indep_eq_gen (veqb : V -> V -> bool) : (forall a b, veqb a b = true <-> a = b) ->
  indep2_res v0 isz has_modes (impl_eq_gen v0 one veqb).
Proof.
  intros Hv. apply (order_indep2_res v0 isz isz_spec _ _ (fun a b => bval v0 one (veqb a b)) has_modes_shape).
  intros A B WA WB Hs HA. exact (impl_eq_gen_correct v0 isz isz_spec one one_nz veqb Hv A B WA WB Hs HA).
Qed.

Theorem indep_cmp_gen cmp : indep2_res v0 isz has_modes (impl_cmp_gen v0 one cmp).
Proof.
  apply (order_indep2_res v0 isz isz_spec _ _ (fun a b => bval v0 one (cmp a b)) has_modes_shape).
  intros A B WA WB Hs HA. exists (impl_cmp v0 one cmp A B). split.
  - apply impl_cmp_gen_eq; auto using (wf_sp_struct isz).
  - exact (impl_cmp_correct v0 isz isz_spec one one_nz cmp A B WA WB Hs).
Qed.
End Instances.
