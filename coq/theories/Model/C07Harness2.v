(* Model/C07Harness2.v — Z instances and comparers for the second-wave C07 cases: sparse-core Tucker permute, the
   subset-reshape round trip, sparse subset reshape against the dense route, reshape / squeeze through full(). *)
From Coq Require Import List ZArith Bool Arith.
From PV Require Import Base.Index Base.Perm Base.Sum Np.Array Model.Sparse Model.Repr Model.Harness Model.C07Ops
  Model.C07Harness Model.C07Ops2.
Import ListNotations.

Definition zden_st (T : sttensor Z) : idx -> Z := den_st 0%Z 1%Z Z.add Z.mul T.

(* sparse-core Tucker: shape, the core as a sparse tensor (shape, nnz, well-formedness, array), the factor matrices
   entry by entry, and the denoted array *)
Definition st_same (A B : sttensor Z) : bool :=
  nvec_eqb (stshape A) (stshape B) && sp_same (stcore A) (stcore B) &&
  list_eqb mat_eqb (stfactors A) (stfactors B) && all_subs_ok (stshape A) (zden_st A) (zden_st B).
Definition ost_ok (m o : option (sttensor Z)) : bool := opt_eqb st_same m o.

(* S.reshape(new, old) ; .reshape(shape[old], trailing modes) ; .permute(argsort(keep ++ old)) *)
Definition reshape_sp_rt (S : sparse Z) (s' : shape) (old : list nat) : option (sparse Z) :=
  let s := sshape S in
  let keep := keep_modes (length s) old in
  match reshape_sp S s' old with
  | Some R =>
      match reshape_sp R (pick 0 old s) (seq (length keep) (length s')) with
      | Some R2 => permute_sp R2 (invperm (keep ++ old))
      | None => None
      end
  | None => None
  end.
(* the round trip returns the stored object itself (same rows in the same order) *)
Definition rt_ok (S : sparse Z) (m o : option (sparse Z)) : bool :=
  os_ok m o && match o with Some R => sp_raw_eqb S R | None => true end.

(* dense route of a subset reshape: permute(keep ++ old) then reshape(kept sizes ++ new) *)
Definition reshape_d_route (T : dense Z) (s' : shape) (old : list nat) : option (dense Z) :=
  let s := dshape T in
  let keep := keep_modes (length s) old in
  match permute_d 0%Z T (keep ++ old) with
  | Some T1 => reshape_d 0%Z T1 (pick 0 keep s ++ s')
  | None => None
  end.
(* model dense route = observed dense route, model sparse = observed sparse, and the two observations agree *)
Definition agree_ok (md od : option (dense Z)) (ms os : option (sparse Z)) : bool :=
  od_ok md od && os_ok ms os &&
  match od, os with
  | Some dd, Some ss => sp_denotes ss dd
  | None, None => true
  | _, _ => false
  end.

Definition zfull_k (K : ktensor Z) : dense Z := full_k 0%Z 1%Z Z.add Z.mul K.
Definition zfull_t (T : ttensor Z) : dense Z := full_t 0%Z 1%Z Z.add Z.mul T.
Definition zfull_st (T : sttensor Z) : dense Z := full_st 0%Z 1%Z Z.add Z.mul T.
