(* Props/C01.v — conversions preserve the tensor. Only statements, `exact`, Print Assumptions. *)
From Coq Require Import List Arith Bool ZArith Ring.
From PV Require Import Base.Index Base.Perm Base.Sum Np.Array Model.Sparse Model.Repr Model.C07Ops Model.C01Conv
  Model.C01Unique Model.C01Coo Model.C01Ttm Model.C01W3 Proofs.C01Proofs Proofs.C01Kruskal Proofs.C01Tucker Proofs.C01Unique
  Proofs.C01Converse Proofs.C01Coo Proofs.C01Ttm Proofs.C01W3.
From Coq Require Import Permutation.
From PV Require Np.NpZ Np.NpZ2 Gen.GenUtils Gen.GenUtils2 Proofs.NpZProofs Proofs.C01GenBridge.
Import ListNotations.

Section C01.
Context {V : Type} (v0 : V) (isz : V -> bool).
Hypothesis isz_spec : forall v, isz v = true <-> v = v0.

(* dense -> sparse: well-formed, same array, nnz = number of nonzero entries, and back = identity *)
Theorem C01_dense_sparse : forall T : dense V, wf_dense T ->
  wf_sp isz (to_sptensor v0 isz T) /\
  (forall i, den_sp v0 (to_sptensor v0 isz T) i = den_dense v0 T i) /\
  nnz (to_sptensor v0 isz T) = length (filter (fun v => negb (isz v)) (ddata T)) /\
  full v0 (to_sptensor v0 isz T) = T.
Proof.
  intros T W. exact (conj (to_sptensor_wf v0 isz T W)
    (conj (fun i => den_to_sptensor v0 isz isz_spec T i W)
    (conj (nnz_to_sptensor v0 isz T W) (full_to_sptensor v0 isz isz_spec T W)))).
Qed.

(* sparse -> dense: same array for EVERY in-bounds coordinate list (duplicates: last stored entry wins,
   any stored order), and the result is a well-formed dense tensor of the same shape *)
Theorem C01_sparse_dense : forall S : sparse V,
  Forall (fun j => inb (sshape S) j = true) (ssubs S) ->
  wf_dense (full v0 S) /\ dshape (full v0 S) = sshape S /\
  (forall i, den_dense v0 (full v0 S) i = den_sp v0 S i).
Proof.
  intros S Hb. exact (conj (wf_full v0 S) (conj eq_refl (fun i => den_full v0 S i Hb))).
Qed.
End C01.

Print Assumptions C01_dense_sparse.
Print Assumptions C01_sparse_dense.

(* non-vacuity: a concrete non-symmetric 2x3 instance *)
Example C01_example :
  let T := mkDense [2; 3] [0; 5; 7; 0; 0; 9]%Z in
  to_sptensor 0%Z (Z.eqb 0) T = mkSp [2; 3] [[1; 0]; [0; 1]; [1; 2]] [5; 7; 9]%Z
  /\ full 0%Z (to_sptensor 0%Z (Z.eqb 0) T) = T.
Proof. split; reflexivity. Qed.

(* ---------------------------------------------------------------------------------------------------------
   Matricisation, Kruskal / sum to dense (models in Model/C01Conv.v).
   [pick 0 r s] is numpy's s[r]; tm_pos s r c i = [sub2ind s[r] i[r]; sub2ind s[c] i[c]] is the matrix position of
   tensor entry i; den_tenmat / den_sptenmat read the matrix there. *)
Section C01conv.
Variable V : Type.
Variables (v0 v1 : V) (vadd vmul vsub : V -> V -> V) (vopp : V -> V) (isz : V -> bool).
Hypothesis Vring : ring_theory v0 v1 vadd vmul vsub vopp (@eq V).

(* every ordered partition (r, c) of the modes (either side may be empty): the matrix has Π s[r] rows and Π s[c] columns,
   entry (sub2ind s[r] i[r], sub2ind s[c] i[c]) is T[i], and to_tensor returns the identical tensor *)
Theorem C01_tenmat : forall (T : dense V) r c, wf_dense T -> is_perm (r ++ c) (length (dshape T)) ->
  exists M, to_tenmat v0 T r c = Some M /\ tm_r M = r /\ tm_c M = c /\ tm_tshape M = dshape T /\
    wf_dense (tm_data M) /\ dshape (tm_data M) = [size (pick 0 r (dshape T)); size (pick 0 c (dshape T))] /\
    (forall i, inb (dshape T) i = true ->
       inb (dshape (tm_data M)) (tm_pos (dshape T) r c i) = true /\ den_tenmat v0 M i = den_dense v0 T i) /\
    tenmat_to_tensor v0 M = T.
Proof. exact (to_tenmat_correct v0). Qed.

(* the request forms (rdims only, cdims only, both, and the fc / bc / t conventions for a single row mode) all produce
   an ordered partition, so C01_tenmat / C01_sptenmat apply to them *)
Theorem C01_request_forms : forall N rd cd cy, request_ok N rd cd ->
  exists r c, gather_wrap_dims N rd cd cy = Some (r, c) /\ is_perm (r ++ c) N /\
    (forall r0 c0, rd = Some r0 -> cd = Some c0 -> r = r0 /\ c = c0) /\
    (forall c0, rd = None -> cd = Some c0 -> c = c0) /\
    (forall r0, rd = Some r0 -> cd = None -> cy = None \/ length r0 <> 1 -> r = r0) /\
    (forall m, rd = Some [m] -> cd = None -> cy = Some CycT -> c = [m]) /\
    (forall m k, rd = Some [m] -> cd = None -> cy = Some k -> k <> CycT -> r = [m]).
Proof. exact gather_wrap_dims_partition. Qed.

(* sparse matricisation: same position law for every in-bounds coordinate list; values and nnz kept, triples in bounds,
   well-formedness preserved; full() of the sptenmat is the tenmat of the tensor; to_sptensor returns the identical object *)
Theorem C01_sptenmat : forall (S : sparse V) r c, is_perm (r ++ c) (length (sshape S)) ->
  Forall (fun j => inb (sshape S) j = true) (ssubs S) ->
  exists M, to_sptenmat S r c = Some M /\ stm_r M = r /\ stm_c M = c /\ stm_tshape M = sshape S /\
    stm_vals M = svals S /\ length (stm_subs M) = nnz S /\
    Forall (fun rc => inb (stm_shape M) rc = true) (stm_subs M) /\
    (wf_sp isz S -> wf_sp isz (stm_sp M)) /\
    (forall i, inb (sshape S) i = true -> den_sptenmat v0 M i = den_sp v0 S i) /\
    (forall i, inb (sshape S) i = true -> den_tenmat v0 (sptenmat_full v0 M) i = den_sp v0 S i) /\
    sptenmat_to_sptensor M = S.
Proof. exact (to_sptenmat_correct v0 isz). Qed.

(* Kruskal -> dense: the Khatri-Rao algorithm (two reversed Khatri-Rao products, weights, matrix product, F-order reshape)
   yields den_k for EVERY split point, any rank (0 included), any number >= 2 of modes *)
Theorem C01_kruskal_any_split : forall (K : ktensor V) isplit,
  rows_ok V (krank K) (kfactors K) -> 0 < isplit < length (kfactors K) ->
  exists D, ktensor_full_at v0 vadd vmul K isplit = Some D /\ wf_dense D /\ dshape D = kshape K /\
    forall i, den_dense v0 D i = den_k v0 v1 vadd vmul K i.
Proof. exact (ktensor_full_at_correct V v0 v1 vadd vmul vsub vopp Vring). Qed.

(* ... and ktensor.full as the code is, for every N >= 1: the single-mode branch (factor @ weights) and, for N >= 2, the
   split point the code chooses (min_split_dims) *)
Theorem C01_kruskal : forall K : ktensor V, rows_ok V (krank K) (kfactors K) -> 1 <= length (kfactors K) ->
  exists D, ktensor_full_impl v0 vadd vmul K = Some D /\ wf_dense D /\ dshape D = kshape K /\
    (forall i, den_dense v0 D i = den_k v0 v1 vadd vmul K i) /\
    D = ktensor_full_spec v0 v1 vadd vmul K.
Proof. exact (ktensor_full_correct V v0 v1 vadd vmul vsub vopp Vring). Qed.

(* Tucker -> dense: multiplying the core by U_0, U_1, ... mode by mode (each product defined on subscripts:
   Y[i] = sum_j U[i_n, j] X[i with n := j]) yields den_t; result well-formed with shape (rows of U_n)_n *)
Theorem C01_tucker : forall T : ttensor V, wf_dense (tcore T) -> length (dshape (tcore T)) = length (tfactors T) ->
  wf_dense (ttensor_full v0 vadd vmul T) /\ dshape (ttensor_full v0 vadd vmul T) = tshape T /\
  forall i, den_dense v0 (ttensor_full v0 vadd vmul T) i = den_t v0 v1 vadd vmul T i.
Proof. exact (ttensor_full_correct V v0 v1 vadd vmul vsub vopp Vring). Qed.

(* sum -> dense: densify the first part, add the others; parts of any kind whose own densification is right *)
Theorem C01_sum : forall s (parts : list (part V)), parts <> [] -> Forall (part_ok V v0 v1 vadd vmul s) parts ->
  exists R, sum_full v0 v1 vadd vmul parts = Some R /\ wf_dense R /\ dshape R = s /\
    forall i, inb s i = true -> den_dense v0 R i = den_sum v0 vadd (map (part_den v0 v1 vadd vmul) parts) i.
Proof. exact (sum_full_correct V v0 v1 vadd vmul vsub vopp Vring). Qed.

Theorem C01_sum_parts : (forall T : dense V, wf_dense T -> part_ok V v0 v1 vadd vmul (dshape T) (PD T)) /\
  (forall S : sparse V, Forall (fun j => inb (sshape S) j = true) (ssubs S) -> part_ok V v0 v1 vadd vmul (sshape S) (PS S)) /\
  (forall K : ktensor V, part_ok V v0 v1 vadd vmul (kshape K) (PK K)) /\
  (forall T : ttensor V, wf_dense (tcore T) -> length (dshape (tcore T)) = length (tfactors T) ->
     part_ok V v0 v1 vadd vmul (tshape T) (PT T)).
Proof. exact (conj (part_ok_dense V v0 v1 vadd vmul) (conj (part_ok_sparse V v0 v1 vadd vmul)
        (conj (part_ok_kruskal V v0 v1 vadd vmul) (part_ok_tucker V v0 v1 vadd vmul vsub vopp Vring)))). Qed.
End C01conv.

Print Assumptions C01_tenmat.
Print Assumptions C01_request_forms.
Print Assumptions C01_sptenmat.
Print Assumptions C01_kruskal_any_split.
Print Assumptions C01_kruskal.
Print Assumptions C01_tucker.
Print Assumptions C01_sum.
Print Assumptions C01_sum_parts.

(* non-vacuity on a non-symmetric 2x3x4 instance: rows = modes [2;0] (non-involutive order), columns = [1] *)
Example C01_example_tenmat :
  let T := mkDense [2; 3; 4] (map Z.of_nat (seq 0 24)) in
  option_map (fun M => (dshape (tm_data M), den_tenmat 0%Z M [1; 2; 3], tenmat_to_tensor 0%Z M)) (to_tenmat 0%Z T [2; 0] [1])
    = Some ([8; 3], 23%Z, T) /\
  tm_pos [2; 3; 4] [2; 0] [1] [1; 2; 3] = [7; 2] /\
  gather_wrap_dims 3 (Some [1]) None (Some CycBC) = Some ([1], [0; 2]) /\
  gather_wrap_dims 4 (Some [1]) None (Some CycFC) = Some ([1], [2; 3; 0]).
Proof. repeat split; reflexivity. Qed.

Example C01_example_sptenmat :
  let S := mkSp [2; 3; 4] [[1; 2; 3]; [0; 1; 0]] [5; 7]%Z in
  option_map (fun M => (stm_subs M, stm_shape M, sptenmat_to_sptensor M)) (to_sptenmat S [2; 0] [1])
    = Some ([[7; 2]; [0; 1]], [8; 3], S).
Proof. reflexivity. Qed.

Example C01_example_kruskal :
  let K := mkK [2; 3]%Z [[[1; 2]; [3; 4]]; [[5; 6]; [7; 8]; [9; 1]]; [[1; 0]; [2; 1]; [0; 3]; [1; 1]]]%Z in
  ktensor_full_impl 0%Z Z.add Z.mul K = Some (ktensor_full_spec 0%Z 1%Z Z.add Z.mul K) /\
  ktensor_full_at 0%Z Z.add Z.mul K 2 = ktensor_full_at 0%Z Z.add Z.mul K 1 /\
  den_k 0%Z 1%Z Z.add Z.mul K [1; 2; 3] = 66%Z /\ min_split_dims [2; 3; 4] = Some 2 /\
  ktensor_full_impl 0%Z Z.add Z.mul (mkK [2; 3]%Z [[[1; 2]; [3; 4]; [5; 6]]%Z]) = Some (mkDense [3] [8; 18; 28]%Z).
Proof. repeat split; reflexivity. Qed.

Example C01_example_sum :
  let T := mkDense [2; 3] [1; 2; 3; 4; 5; 6]%Z in
  let S := mkSp [2; 3] [[1; 2]] [10%Z] in
  let K := mkK [2%Z] [[[1]; [2]]; [[1]; [0]; [3]]]%Z in
  sum_full 0%Z 1%Z Z.add Z.mul [PS S; PD T; PK K] = Some (mkDense [2; 3] [3; 6; 3; 4; 11; 28]%Z).
Proof. reflexivity. Qed.

Example C01_example_tucker :
  let Tk := mkT (mkDense [2; 1; 2] [2; 3; 1; 4]%Z) [[[1; 2]; [3; 4]; [0; 5]]; [[5]; [7]]; [[1; 0]; [2; 1]; [0; 3]; [1; 1]]]%Z in
  dshape (ttensor_full 0%Z Z.add Z.mul Tk) = [3; 2; 4] /\
  den_dense 0%Z (ttensor_full 0%Z Z.add Z.mul Tk) [2; 1; 3] = den_t 0%Z 1%Z Z.add Z.mul Tk [2; 1; 3] /\
  den_t 0%Z 1%Z Z.add Z.mul Tk [2; 1; 3] = 245%Z.
Proof. repeat split; reflexivity. Qed.

(* ---------------------------------------------------------------------------------------------------------
   Second wave: the constructors behind the matricised holders (Model/C01Unique.v), the converse direction, the scipy
   views / from_array (Model/C01Coo.v), and pyttb's own ttm route inside ttensor.full (Model/C01Ttm.v). *)
Section C01deep.
Variable V : Type.
Variables (v0 v1 : V) (vadd vmul vsub : V -> V -> V) (vopp : V -> V) (isz : V -> bool).
Hypothesis Vring : ring_theory v0 v1 vadd vmul vsub vopp (@eq V).
Hypothesis isz_spec : forall v, isz v = true <-> v = v0.

(* np.unique(axis=0) + accumarray(sum) + nonzero of sptenmat.__init__ (insertion into a sorted accumulator): rows come out
   strictly increasing in (row, col) order, hence pairwise distinct; no zero value is kept; every position denotes the SUM
   of the values given for it; distinct zero-free input is only reordered; strictly sorted zero-free input is unchanged *)
Theorem C01_unique : forall (M : sptenmat V) k, length (stm_subs M) = length (stm_vals M) ->
  Forall (fun rc => length rc = k) (stm_subs M) ->
  let M' := stm_norm vadd isz M in
  stm_r M' = stm_r M /\ stm_c M' = stm_c M /\ stm_tshape M' = stm_tshape M /\
  length (stm_subs M') = length (stm_vals M') /\
  ssorted (stm_subs M') /\ NoDup (stm_subs M') /\
  Forall (fun v => isz v = false) (stm_vals M') /\
  (forall rc, In rc (stm_subs M') -> In rc (stm_subs M)) /\
  (forall rc, den_sp v0 (stm_sp M') rc = vsum_at v0 vadd rc (stm_entries V M)) /\
  (NoDup (stm_subs M) -> Forall (fun v => isz v = false) (stm_vals M) ->
     Permutation (stm_entries V M') (stm_entries V M) /\ forall rc, den_sp v0 (stm_sp M') rc = den_sp v0 (stm_sp M) rc) /\
  (ssorted (stm_subs M) -> Forall (fun v => isz v = false) (stm_vals M) -> M' = M).
Proof. exact (stm_norm_correct V v0 v1 vadd vmul vsub vopp isz Vring isz_spec). Qed.

(* sptensor.to_sptenmat WITH the constructor (what pyttb stores): strictly sorted triples; for a well-formed sparse tensor a
   reordering of the per-entry images, nnz kept, the same array (also through full()), and back to an equivalent tensor *)
Theorem C01_sptenmat_sorted : forall (S : sparse V) r c, is_perm (r ++ c) (length (sshape S)) ->
  Forall (fun j => inb (sshape S) j = true) (ssubs S) -> length (ssubs S) = length (svals S) ->
  exists M0 M, to_sptenmat S r c = Some M0 /\ to_sptenmat_sorted vadd isz S r c = Some M /\ M = stm_norm vadd isz M0 /\
    stm_r M = r /\ stm_c M = c /\ stm_tshape M = sshape S /\ ssorted (stm_subs M) /\ wf_sp isz (stm_sp M) /\
    (forall rc, den_sp v0 (stm_sp M) rc = vsum_at v0 vadd rc (stm_entries V M0)) /\
    (wf_sp isz S ->
       Permutation (stm_entries V M) (stm_entries V M0) /\ length (stm_subs M) = nnz S /\
       (forall i, inb (sshape S) i = true -> den_sptenmat v0 M i = den_sp v0 S i) /\
       (forall i, inb (sshape S) i = true -> den_tenmat v0 (sptenmat_full v0 M) i = den_sp v0 S i) /\
       let B := sptenmat_to_sptensor M in
       wf_sp isz B /\ sshape B = sshape S /\ nnz B = nnz S /\ forall i, den_sp v0 B i = den_sp v0 S i).
Proof. exact (to_sptenmat_sorted_correct V v0 v1 vadd vmul vsub vopp isz Vring isz_spec). Qed.

(* tenmat.__init__ (argument checks transliterated as tm_ctor): what an accepted call guarantees ... *)
Theorem C01_tenmat_guard : forall (D : dense V) rd cd ts M, wf_dense D -> tm_ctor (Some D) rd cd ts = CtorOk M ->
  wf_dense (tm_data M) /\ ddata (tm_data M) = ddata D /\ length (dshape (tm_data M)) = 2 /\
  (length (dshape D) = 2 -> tm_data M = D) /\
  is_perm (tm_r M ++ tm_c M) (length (tm_tshape M)) /\ size (dshape (tm_data M)) = size (tm_tshape M) /\
  gather_wrap_dims (length (tm_tshape M)) rd cd None = Some (tm_r M, tm_c M) /\
  (forall t, ts = Some t -> tm_tshape M = t) /\ (ts = None -> tm_tshape M = dshape (tm_data M)).
Proof. exact (@tm_ctor_sound V). Qed.

(* ... and the converse of C01_tenmat: every tenmat that passes the constructor checks converts back (to_tensor) to a
   well-formed tensor of shape tshape whose matricisation along the same modes has the same data list, reports
   (prod tshape[r], prod tshape[c]), and IS the object whenever its data matrix has that shape (the constructor compares
   only the element count: known finding C19-N11) *)
Theorem C01_tenmat_converse : forall (D : dense V) rd cd ts M, wf_dense D -> tm_ctor (Some D) rd cd ts = CtorOk M ->
  let T := tenmat_to_tensor v0 M in
  wf_dense T /\ dshape T = tm_tshape M /\ is_perm (tm_r M ++ tm_c M) (length (tm_tshape M)) /\
  exists M', to_tenmat v0 T (tm_r M) (tm_c M) = Some M' /\ tm_r M' = tm_r M /\ tm_c M' = tm_c M /\
    tm_tshape M' = tm_tshape M /\ dshape (tm_data M') = tm_rc M /\ ddata (tm_data M') = ddata (tm_data M) /\
    (dshape (tm_data M) = tm_rc M -> M' = M) /\
    (forall i, inb (tm_tshape M) i = true -> den_tenmat v0 M' i = den_dense v0 T i) /\
    tenmat_to_tensor v0 M' = T.
Proof. exact (tm_ctor_converse v0). Qed.

(* sptenmat.__init__ (stm_ctor): accepts every in-bounds triple list along a mode partition; an accepted call had one *)
Theorem C01_sptenmat_guard :
  (forall subs vals r c ts, is_perm (r ++ c) (length ts) ->
     Forall (fun rc => inb [size (pick 0 r ts); size (pick 0 c ts)] rc = true) subs ->
     stm_ctor vadd isz (Some subs) (Some vals) (Some r) (Some c) ts = Some (stm_norm vadd isz (mkSTM subs vals r c ts))) /\
  (forall subs vals rd cd ts M, stm_ctor vadd isz subs vals rd cd ts = Some M ->
     (rd = None /\ cd = None /\ subs = None /\ vals = None /\ M = mkSTM [] [] [] [] []) \/
     exists r c, gather_wrap_dims (length ts) rd cd None = Some (r, c) /\ is_perm (r ++ c) (length ts) /\
       Forall (fun rc => nth 0 rc 0 < size (pick 0 r ts) /\ nth 1 rc 0 < size (pick 0 c ts)) (olist subs) /\
       M = stm_norm vadd isz (mkSTM (olist subs) (olist vals) r c ts)).
Proof. exact (conj (stm_ctor_accepts V vadd isz) (stm_ctor_sound V vadd isz)). Qed.

(* the converse of C01_sptenmat: every sptenmat that passes the constructor checks (subs an nnz x 2 array, vals nnz values)
   is strictly sorted and well-formed, denotes the per-position sums of the given values, and converts back (to_sptensor)
   to a well-formed sparse tensor of shape tshape whose to_sptenmat — with or without the constructor's sorting — is that
   very object *)
Theorem C01_sptenmat_converse : forall subs vals rd cd ts M, stm_ctor vadd isz subs vals rd cd ts = Some M ->
  rd <> None \/ cd <> None -> length (olist subs) = length (olist vals) -> Forall (fun rc => length rc = 2) (olist subs) ->
  stm_tshape M = ts /\ is_perm (stm_r M ++ stm_c M) (length ts) /\
  ssorted (stm_subs M) /\ wf_sp isz (stm_sp M) /\
  (forall rc, den_sp v0 (stm_sp M) rc = vsum_at v0 vadd rc (combine (olist subs) (olist vals))) /\
  let S := sptenmat_to_sptensor M in
  wf_sp isz S /\ sshape S = ts /\ nnz S = length (stm_subs M) /\
  to_sptenmat S (stm_r M) (stm_c M) = Some M /\ to_sptenmat_sorted vadd isz S (stm_r M) (stm_c M) = Some M /\
  (forall i, inb ts i = true -> den_sp v0 S i = den_sptenmat v0 M i).
Proof. exact (stm_ctor_converse V v0 v1 vadd vmul vsub vopp isz Vring isz_spec). Qed.

(* scipy views: for distinct in-bounds positions the coo matrix (toarray sums repeated positions) is the scatter *)
Theorem C01_spmatrix : forall S : sparse V, length (sshape S) = 2 -> length (ssubs S) = length (svals S) -> NoDup (ssubs S) ->
  Forall (fun rc => inb (sshape S) rc = true) (ssubs S) ->
  exists C, spmatrix S = Some C /\ coo_shape C = sshape S /\ coo_toarray v0 vadd C = full v0 S /\
    forall rc, den_coo v0 vadd C rc = den_sp v0 S rc.
Proof. exact (spmatrix_correct V v0 v1 vadd vmul vsub vopp Vring). Qed.

Theorem C01_sptenmat_double : forall M : sptenmat V, length (stm_subs M) = length (stm_vals M) -> NoDup (stm_subs M) ->
  Forall (fun rc => inb (stm_shape M) rc = true) (stm_subs M) ->
  coo_shape (stm_double M) = stm_shape M /\
  coo_toarray v0 vadd (stm_double M) = tm_data (sptenmat_full v0 M) /\
  forall rc, den_coo v0 vadd (stm_double M) rc = den_sp v0 (stm_sp M) rc.
Proof. exact (stm_double_correct V v0 v1 vadd vmul vsub vopp Vring). Qed.

Theorem C01_tenmat_double : forall M : tenmat V, tm_double M = tm_data M /\
  forall i, den_dense v0 (tm_double M) (tm_pos (tm_tshape M) (tm_r M) (tm_c M) i) = den_tenmat v0 M i.
Proof. exact (tm_double_correct V v0). Qed.

(* sptenmat.from_array of a dense matrix / of a scipy matrix: the sptenmat denotes that matrix (a coo matrix denotes the
   sums of its stored values) and satisfies everything C01_sptenmat_converse gives *)
Theorem C01_from_array_dense : forall (A : dense V) R C rd cd ts M, wf_dense A -> dshape A = [R; C] ->
  from_array_dense v0 vadd isz A rd cd ts = Some M -> rd <> None \/ cd <> None ->
  (forall rc, den_sp v0 (stm_sp M) rc = den_dense v0 A rc) /\
  exists subs vals, stm_converse_concl V v0 vadd isz subs vals ts M.
Proof. exact (from_array_dense_correct V v0 v1 vadd vmul vsub vopp isz Vring isz_spec). Qed.

Theorem C01_from_array_coo : forall (Cm : coo V) rd cd ts M, length (coo_subs Cm) = length (coo_data Cm) ->
  Forall (fun rc => length rc = 2) (coo_subs Cm) ->
  from_array_coo vadd isz Cm rd cd ts = Some M -> rd <> None \/ cd <> None ->
  (forall rc, den_sp v0 (stm_sp M) rc = vsum_at v0 vadd rc (coo_entries Cm)) /\
  (forall rc, inb (coo_shape Cm) rc = true -> den_sp v0 (stm_sp M) rc = den_coo v0 vadd Cm rc) /\
  exists subs vals, stm_converse_concl V v0 vadd isz subs vals ts M.
Proof. exact (from_array_coo_correct V v0 v1 vadd vmul vsub vopp isz Vring isz_spec). Qed.

(* ttensor.full with a dense core as the code runs it: tensor.ttm (permute, F-reshape, matrix product, F-reshape, inverse
   permute; Model/C02Dense.v) over the modes 0..N-1 is the subscript-level product of C01_tucker, hence den_t *)
Theorem C01_tucker_impl : forall T : ttensor V, wf_dense (tcore T) -> length (dshape (tcore T)) = length (tfactors T) ->
  ttensor_full_impl v0 vadd vmul T = ttensor_full v0 vadd vmul T /\
  wf_dense (ttensor_full_impl v0 vadd vmul T) /\ dshape (ttensor_full_impl v0 vadd vmul T) = tshape T /\
  forall i, den_dense v0 (ttensor_full_impl v0 vadd vmul T) i = den_t v0 v1 vadd vmul T i.
Proof. exact (ttensor_full_impl_correct V v0 v1 vadd vmul vsub vopp Vring). Qed.
End C01deep.

Print Assumptions C01_unique.
Print Assumptions C01_sptenmat_sorted.
Print Assumptions C01_tenmat_guard.
Print Assumptions C01_tenmat_converse.
Print Assumptions C01_sptenmat_guard.
Print Assumptions C01_sptenmat_converse.
Print Assumptions C01_spmatrix.
Print Assumptions C01_sptenmat_double.
Print Assumptions C01_tenmat_double.
Print Assumptions C01_from_array_dense.
Print Assumptions C01_from_array_coo.
Print Assumptions C01_tucker_impl.

(* non-vacuity *)
Example C01_example_unique :
  (* rows given unsorted, (1,2) twice, (0,1) cancelling to zero: sorted, summed, the zero dropped *)
  let M := mkSTM [[1; 2]; [0; 1]; [1; 0]; [1; 2]; [0; 1]] [5; 3; 7; 2; -3]%Z [0] [1] [2; 3] in
  stm_norm Z.add (Z.eqb 0) M = mkSTM [[1; 0]; [1; 2]] [7; 7]%Z [0] [1] [2; 3] /\
  stm_ctor Z.add (Z.eqb 0) (Some (stm_subs M)) (Some (stm_vals M)) (Some [0]) None [2; 3] = Some (stm_norm Z.add (Z.eqb 0) M) /\
  stm_ctor Z.add (Z.eqb 0) (Some [[2; 0]]) (Some [1%Z]) (Some [0]) (Some [1]) [2; 3] = None /\
  (* a sparse tensor stored in F order, matricised with rows = mode 1: pyttb stores the triples row-major *)
  option_map (fun M => (stm_subs M, stm_vals M))
    (to_sptenmat_sorted Z.add (Z.eqb 0) (mkSp [2; 3] [[1; 0]; [0; 1]; [1; 2]; [0; 2]] [5; 7; 9; 4]%Z) [1] [0])
    = Some ([[0; 1]; [1; 0]; [2; 0]; [2; 1]], [5; 7; 4; 9]%Z).
Proof. repeat split; reflexivity. Qed.

Example C01_example_converse :
  let D := mkDense [3; 8] (map Z.of_nat (seq 0 24)) in
  (* accepted: rows = mode 1, columns = modes 2, 0 of a 2x3x4 tensor; converts back and forth to itself *)
  (match tm_ctor (Some D) (Some [1]) (Some [2; 0]) (Some [2; 3; 4]) with
   | CtorOk M => to_tenmat 0%Z (tenmat_to_tensor 0%Z M) [1] [2; 0] = Some M /\ den_dense 0%Z (tenmat_to_tensor 0%Z M) [1; 2; 3] = 23%Z
   | _ => False end) /\
  tm_ctor (Some D) (Some [1]) (Some [2; 1]) (Some [2; 3; 4]) = CtorReject /\
  tm_ctor (Some D) (Some [1]) None (Some [2; 3; 5]) = CtorReject /\
  tm_ctor (@None (dense Z)) None None None = CtorEmpty /\
  (* the element-count check alone: an 8x3 matrix is accepted for a 3x8 split (C19-N11), and then M' <> M *)
  (match tm_ctor (Some (mkDense [8; 3] (ddata D))) (Some [1]) (Some [2; 0]) (Some [2; 3; 4]) with
   | CtorOk M => option_map (fun M' => dshape (tm_data M')) (to_tenmat 0%Z (tenmat_to_tensor 0%Z M) [1] [2; 0]) = Some [3; 8]
   | _ => False end).
Proof. repeat split; reflexivity. Qed.

Example C01_example_coo :
  let A := mkDense [2; 3] [0; 5; 7; 0; 0; 9]%Z in
  option_map (fun M => (stm_subs M, stm_vals M)) (from_array_dense 0%Z Z.add (Z.eqb 0) A (Some [1]) (Some [0]) [3; 2])
    = Some ([[0; 1]; [1; 0]; [1; 2]], [7; 5; 9]%Z) /\
  option_map (fun M => (stm_subs M, stm_vals M))
    (from_array_coo Z.add (Z.eqb 0) (mkCoo [2; 3] [[1; 2]; [0; 0]; [1; 2]; [0; 1]] [4; 0; 5; 7]%Z) (Some [0]) (Some [1]) [2; 3])
    = Some ([[0; 1]; [1; 2]], [7; 9]%Z) /\
  coo_toarray 0%Z Z.add (mkCoo [2; 3] [[1; 2]; [0; 0]; [1; 2]; [0; 1]] [4; 0; 5; 7]%Z) = mkDense [2; 3] [0; 0; 7; 0; 0; 9]%Z.
Proof. repeat split; reflexivity. Qed.

Example C01_example_tucker_impl :
  let Tk := mkT (mkDense [2; 1; 2] [2; 3; 1; 4]%Z) [[[1; 2]; [3; 4]; [0; 5]]; [[5]; [7]]; [[1; 0]; [2; 1]; [0; 3]; [1; 1]]]%Z in
  ttensor_full_impl 0%Z Z.add Z.mul Tk = ttensor_full 0%Z Z.add Z.mul Tk /\
  den_dense 0%Z (ttensor_full_impl 0%Z Z.add Z.mul Tk) [2; 1; 3] = 245%Z.
Proof. split; reflexivity. Qed.

(* ---------------------------------------------------------------------------------------------------------
   Third wave (Model/C01W3.v): the conversions that were tied by correspondence only. *)
Section C01w3.
Variable V : Type.
Variables (v0 v1 : V) (vadd vmul vsub : V -> V -> V) (vopp : V -> V) (isz : V -> bool).
Hypothesis Vring : ring_theory v0 v1 vadd vmul vsub vopp (@eq V).
Hypothesis isz_spec : forall v, isz v = true <-> v = v0.

(* ktensor.to_tenmat = full().to_tenmat(rdims, cdims, cdims_cyclic), for every admissible request form: the matrix holds
   sum_r w_r prod_n A_n[i_n, r] at (sub2ind i[r], sub2ind i[c]) and converts back to the dense Kruskal tensor *)
Theorem C01_kruskal_to_tenmat : forall (K : ktensor V) rd cd cy,
  rows_ok V (krank K) (kfactors K) -> 1 <= length (kfactors K) -> request_ok (length (kfactors K)) rd cd ->
  exists r c M, gather_wrap_dims (length (kshape K)) rd cd cy = Some (r, c) /\ is_perm (r ++ c) (length (kshape K)) /\
    ktensor_to_tenmat v0 vadd vmul K rd cd cy = Some M /\ tm_r M = r /\ tm_c M = c /\ tm_tshape M = kshape K /\
    wf_dense (tm_data M) /\ dshape (tm_data M) = [size (pick 0 r (kshape K)); size (pick 0 c (kshape K))] /\
    (forall i, inb (kshape K) i = true -> den_tenmat v0 M i = den_k v0 v1 vadd vmul K i) /\
    tenmat_to_tensor v0 M = ktensor_full_spec v0 v1 vadd vmul K.
Proof. exact (ktensor_to_tenmat_correct V v0 v1 vadd vmul vsub vopp Vring). Qed.

(* ktensor.double / ttensor.double / sumtensor.double = full().double(): the arrays of C01_kruskal / C01_tucker_impl / C01_sum *)
Theorem C01_double_aliases :
  (forall K : ktensor V, rows_ok V (krank K) (kfactors K) -> 1 <= length (kfactors K) ->
     ktensor_double v0 vadd vmul K = ktensor_full_impl v0 vadd vmul K /\
     ktensor_double v0 vadd vmul K = Some (ktensor_full_spec v0 v1 vadd vmul K)) /\
  (forall T : ttensor V, wf_dense (tcore T) -> length (dshape (tcore T)) = length (tfactors T) ->
     ttensor_double v0 vadd vmul T = ttensor_full_impl v0 vadd vmul T /\
     wf_dense (ttensor_double v0 vadd vmul T) /\ dshape (ttensor_double v0 vadd vmul T) = tshape T /\
     forall i, den_dense v0 (ttensor_double v0 vadd vmul T) i = den_t v0 v1 vadd vmul T i) /\
  (forall s (parts : list (part V)), parts <> [] -> Forall (part_ok V v0 v1 vadd vmul s) parts ->
     sum_double v0 v1 vadd vmul parts = sum_full v0 v1 vadd vmul parts /\
     exists R, sum_double v0 v1 vadd vmul parts = Some R /\ wf_dense R /\ dshape R = s /\
       forall i, inb s i = true -> den_dense v0 R i = den_sum v0 vadd (map (part_den v0 v1 vadd vmul) parts) i).
Proof. exact (double_aliases_correct V v0 v1 vadd vmul vsub vopp Vring). Qed.

(* sptenmat(subs, vals, rdims, cdims, tshape, copy=False): the same argument checks; the arguments are stored as given
   (any order, stored zeros kept); copy=True stores the normal form (C01_unique) of exactly this object, and the same
   object when the triples are strictly sorted and zero-free; the object converts back to a sparse tensor with in-bounds
   (for distinct positions: distinct) subscripts whose to_sptenmat is that object, with the same array through
   to_sptensor and full *)
Theorem C01_sptenmat_nocopy : forall subs vals rd cd ts M, stm_ctor_nocopy subs vals rd cd ts = Some M ->
  length subs = length vals -> Forall (fun rc => length rc = 2) subs ->
  exists r c, gather_wrap_dims (length ts) rd cd None = Some (r, c) /\ is_perm (r ++ c) (length ts) /\
    M = mkSTM subs vals r c ts /\
    Forall (fun rc => inb (stm_shape M) rc = true) (stm_subs M) /\
    stm_ctor vadd isz (Some subs) (Some vals) rd cd ts = Some (stm_norm vadd isz M) /\
    (ssorted subs -> Forall (fun v => isz v = false) vals -> stm_ctor vadd isz (Some subs) (Some vals) rd cd ts = Some M) /\
    let S := sptenmat_to_sptensor M in
    sshape S = ts /\ Forall (fun j => inb ts j = true) (ssubs S) /\ svals S = vals /\ nnz S = length subs /\
    (NoDup subs -> NoDup (ssubs S)) /\
    to_sptenmat S r c = Some M /\
    (forall i, inb ts i = true -> den_sp v0 S i = den_sptenmat v0 M i) /\
    (forall i, inb ts i = true -> den_tenmat v0 (sptenmat_full v0 M) i = den_sptenmat v0 M i).
Proof. exact (stm_ctor_nocopy_correct V v0 v1 vadd vmul vsub vopp isz Vring isz_spec). Qed.

(* tenmat(..., copy=False): the checks and the stored matrix of copy=True — C01_tenmat_guard / C01_tenmat_converse apply *)
Theorem C01_tenmat_nocopy : forall (data : option (dense V)) rd cd ts, tm_ctor_nocopy data rd cd ts = tm_ctor data rd cd ts.
Proof. exact (tm_ctor_nocopy_correct V). Qed.

(* sptensor.ttm in one mode n as the code runs it — to_sptenmat([n], "t") with the sorting constructor, the scipy view,
   Z = X @ U.T, sptenmat.from_array(Z, rdims, cdims, new shape), to_sptensor, to_tensor — is the mode-n product of the
   densified tensor: Y[i] = sum_j U[i_n, j] * S[i with n := j] *)
Theorem C01_sptensor_ttm : forall (G : sparse V) (U : matrix (V:=V)) n, wf_sp isz G -> n < length (sshape G) ->
  sp_ttm v0 vadd vmul isz G U n = Some (ttm_mode v0 vadd vmul (full v0 G) U n).
Proof. exact (sp_ttm_correct V v0 v1 vadd vmul vsub vopp isz Vring isz_spec). Qed.

(* ttensor.full() with a SPARSE core as the code runs it (sptensor.ttm in mode 0 — its result is dense — then tensor.ttm
   for the modes 1..N-1): the Tucker array sum_j G[j] prod_n U_n[i_n, j_n] of the stored core *)
Theorem C01_tucker_sparse_core : forall (G : sparse V) (Us : list (matrix (V:=V))),
  wf_sp isz G -> length (sshape G) = length Us -> Us <> [] ->
  let T := mkT (full v0 G) Us in
  ttensor_full_spcore v0 vadd vmul isz G Us = Some (ttensor_full v0 vadd vmul T) /\
  wf_dense (ttensor_full v0 vadd vmul T) /\ dshape (ttensor_full v0 vadd vmul T) = tshape T /\
  (forall j, den_dense v0 (tcore T) j = den_sp v0 G j) /\
  forall i, den_dense v0 (ttensor_full v0 vadd vmul T) i = den_t v0 v1 vadd vmul T i.
Proof. exact (ttensor_full_spcore_correct V v0 v1 vadd vmul vsub vopp isz Vring isz_spec). Qed.
End C01w3.

Print Assumptions C01_kruskal_to_tenmat.
Print Assumptions C01_double_aliases.
Print Assumptions C01_sptenmat_nocopy.
Print Assumptions C01_tenmat_nocopy.
Print Assumptions C01_sptensor_ttm.
Print Assumptions C01_tucker_sparse_core.

(* non-vacuity *)
Example C01_example_w3 :
  (* Kruskal 2x3 of rank 2 matricised with the transposed single-mode convention: rows = mode 1, column = mode 0 *)
  let K := mkK [2; 3]%Z [[[1; 2]; [3; 4]]; [[5; 6]; [7; 8]; [9; 1]]]%Z in
  option_map (fun M => (tm_r M, tm_c M, dshape (tm_data M), ddata (tm_data M)))
    (ktensor_to_tenmat 0%Z Z.add Z.mul K (Some [0]) None (Some CycT))
    = Some ([1], [0], [3; 2], [46; 62; 24; 102; 138; 66]%Z) /\
  ktensor_double 0%Z Z.add Z.mul K = Some (mkDense [2; 3] [46; 102; 62; 138; 24; 66]%Z) /\
  (* copy=False keeps the triples as given (unsorted, a stored zero); copy=True sorts and drops the zero *)
  stm_ctor_nocopy [[1; 2]; [0; 1]; [1; 0]] [5; 0; 7]%Z (Some [0]) (Some [1]) [2; 3]
    = Some (mkSTM [[1; 2]; [0; 1]; [1; 0]] [5; 0; 7]%Z [0] [1] [2; 3]) /\
  stm_ctor Z.add (Z.eqb 0) (Some [[1; 2]; [0; 1]; [1; 0]]) (Some [5; 0; 7]%Z) (Some [0]) (Some [1]) [2; 3]
    = Some (mkSTM [[1; 0]; [1; 2]] [7; 5]%Z [0] [1] [2; 3]) /\
  stm_ctor_nocopy [[2; 0]] [1%Z] (Some [0]) (Some [1]) [2; 3] = None /\
  (* a 2x1x2 sparse core stored in reversed order, three factor matrices *)
  let G := mkSp [2; 1; 2] [[1; 0; 1]; [0; 0; 1]; [0; 0; 0]] [4; 1; 2]%Z in
  let Us := [[[1; 2]; [3; 4]; [0; 5]]; [[5]; [7]]; [[1; 0]; [2; 1]; [0; 3]; [1; 1]]]%Z in
  sp_ttm 0%Z Z.add Z.mul (Z.eqb 0) G [[1; 2]; [3; 4]; [0; 5]]%Z 0 = Some (mkDense [3; 1; 2] [2; 6; 0; 9; 19; 20]%Z) /\
  ttensor_full_spcore 0%Z Z.add Z.mul (Z.eqb 0) G Us = Some (ttensor_full 0%Z Z.add Z.mul (mkT (full 0%Z G) Us)) /\
  option_map (fun D => den_dense 0%Z D [2; 1; 3]) (ttensor_full_spcore 0%Z Z.add Z.mul (Z.eqb 0) G Us) = Some 140%Z.
Proof. repeat split; vm_compute; reflexivity. Qed.

(* ---------------------------------------------------------------------------------------------------------
   Tie to the translator: the function GENERATED from pyttb_utils.gather_wrap_dims on every run (Gen/GenUtils2.v, over
   numpy integer vectors) answers, for every request form and every N, exactly what the hand model gather_wrap_dims of
   C01_request_forms / to_tenmat_req / to_sptenmat_req / stm_ctor / tm_ctor answers (zv = map Z.of_nat, cyc_gen = the
   cdims_cyclic string). An edit of gather_wrap_dims in /repo breaks this proof. *)
Theorem C01_gather_wrap_dims_generated : forall N rd cd cy,
  PV.Gen.GenUtils2.gather_wrap_dims (Z.of_nat N) (option_map C01GenBridge.zv rd) (option_map C01GenBridge.zv cd)
    (option_map C01GenBridge.cyc_gen cy)
  = match gather_wrap_dims N rd cd cy with
    | Some (r, c) => NpZ.Ok (C01GenBridge.zv r, C01GenBridge.zv c)
    | None => NpZ.Err
    end.
Proof. exact C01GenBridge.gather_wrap_dims_generated. Qed.

(* ... and the per-side index computations of the sparse matricisation: the GENERATED tt_sub2ind applied to the row (side 0)
   or column (side 1) subscripts of the stored entries yields exactly the row / column indices the model's to_sptenmat stores,
   and the GENERATED tt_ind2sub applied to the stored row / column indices yields the per-side subscripts the model's
   to_sptensor reassembles (the sides with no mode are separate branches of the code and of the model) *)
Theorem C01_sparse_index_generated : forall V : Type,
  (forall (S : sparse V) r c M side, is_perm (r ++ c) (length (sshape S)) ->
     Forall (fun j => inb (sshape S) j = true) (ssubs S) -> to_sptenmat S r c = Some M ->
     let q := nth side [r; c] [] in q <> [] -> side < 2 ->
     PV.Gen.GenUtils.tt_sub2ind (NpZProofs.zs (pick 0 q (sshape S))) (NpZProofs.zm (map (pick 0 q) (ssubs S))) NpZ.OrdF
       = NpZ.Ok (map (fun rc => Z.of_nat (nth side rc 0)) (stm_subs M))) /\
  (forall (M : sptenmat V) side, Forall (fun rc => inb (stm_shape M) rc = true) (stm_subs M) -> side < 2 ->
     let q := nth side [stm_r M; stm_c M] [] in
     PV.Gen.GenUtils.tt_ind2sub (NpZProofs.zs (pick 0 q (stm_tshape M)))
         (NpZProofs.zs (map (fun rc => nth side rc 0) (stm_subs M))) NpZ.OrdF
       = NpZ.Ok (map (fun rc => NpZProofs.zs (ind2sub (pick 0 q (stm_tshape M)) (nth side rc 0))) (stm_subs M))).
Proof. exact (fun V => conj (@C01GenBridge.to_sptenmat_side_generated V) (@C01GenBridge.sptenmat_back_side_generated V)). Qed.

Print Assumptions C01_gather_wrap_dims_generated.
Print Assumptions C01_sparse_index_generated.

Example C01_example_generated :
  PV.Gen.GenUtils2.gather_wrap_dims 4%Z (Some [1%Z]) None (Some NpZ2.CycBC) = NpZ.Ok ([1%Z], [0; 3; 2]%Z) /\
  gather_wrap_dims 4 (Some [1]) None (Some CycBC) = Some ([1], [0; 3; 2]) /\
  PV.Gen.GenUtils2.gather_wrap_dims 3%Z None (Some [2; 0]%Z) None = NpZ.Ok ([1%Z], [2; 0]%Z) /\
  (* rows = modes [2; 0] of a 2x3x4 sparse tensor: the generated tt_sub2ind gives the stored row indices 7 and 0 *)
  PV.Gen.GenUtils.tt_sub2ind [4; 2]%Z [[3; 1]; [0; 0]]%Z NpZ.OrdF = NpZ.Ok [7; 0]%Z /\
  option_map (fun M => map (fun rc => nth 0 rc 0) (stm_subs M)) (to_sptenmat (mkSp [2; 3; 4] [[1; 2; 3]; [0; 1; 0]] [5; 7]%Z) [2; 0] [1])
    = Some [7; 0] /\
  PV.Gen.GenUtils.tt_ind2sub [4; 2]%Z [7; 0]%Z NpZ.OrdF = NpZ.Ok [[3; 1]; [0; 0]]%Z.
Proof. repeat split; reflexivity. Qed.
