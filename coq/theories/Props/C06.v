(* Props/C06.v — sparse results are well-formed and independent of the stored order of the nonzeros.
   Only statements, `exact`, Print Assumptions.  V: any value type with decidable zero; operands: arbitrary
   well-formed coordinate lists; "stored order" = any Permutation of the entry list. *)
From Coq Require Import List Arith Bool ZArith Permutation Ring.
From PV Require Import Base.Index Base.Perm Np.NpZ Np.Array Model.Sparse Model.Repr Model.Harness Model.C03Ops Model.C03Gen Model.C06Ops
                       Model.C07Ops Model.C01Conv Model.C04Model Model.C06Stm
                       Model.C02Spec Model.C02Sparse Model.C02SpKernels Model.C02SpMore
                       Proofs.C03Lemmas Proofs.C03Proofs Proofs.C03GenProofs Proofs.C06Proofs Proofs.C06Other Proofs.C06Stm Proofs.C06Squash Proofs.C06Kernels.
Import ListNotations.

Section C06.
Context {V : Type} (v0 : V) (isz : V -> bool).
Hypothesis isz_spec : forall v, isz v = true <-> v = v0.
Notation den := (den_sp v0).
Notation wf := (wf_sp isz).
Notation canon := (canon v0 isz).

(* two well-formed coordinate lists that denote the same array store the same entries, in some order *)
Theorem C06_canon_unique : forall X Y : sparse V, wf X -> wf Y ->
  (forall i, den X i = den Y i) -> Permutation (entries X) (entries Y).
Proof. exact (canon_unique v0 isz isz_spec). Qed.

(* re-ordering the stored entries does not change the array denoted *)
Theorem C06_den_perm : forall X Y : sparse V, wf_struct X -> Permutation (entries X) (entries Y) ->
  forall i, den X i = den Y i.
Proof. exact (den_perm v0). Qed.

(* canonical form: well-formed, same array, a re-ordering of the stored entries, and equal for equal arrays *)
Theorem C06_canon : forall S : sparse V, wf S ->
  wf (canon S) /\ (forall i, den (canon S) i = den S i) /\ Permutation (entries S) (entries (canon S)).
Proof.
  intros S W. exact (conj (canon_wf v0 isz S) (conj (fun i => canon_den v0 isz isz_spec S i W) (canon_perm v0 isz isz_spec S W))).
Qed.

Theorem C06_canon_eq : forall X Y : sparse V, wf X -> wf Y -> sshape X = sshape Y ->
  Permutation (entries X) (entries Y) -> canon X = canon Y.
Proof. exact (canon_of_perm v0 isz). Qed.

(* any binary / unary operation that computes an element-wise function of the denotations returns the same result
   (same canonical form, entries equal up to order) whatever the stored order of its operands *)
Theorem C06_order_indep_binary : forall (op : sparse V -> sparse V -> sparse V) (f : V -> V -> V),
  (forall A B, wf A -> wf B -> sshape B = sshape A ->
     wf (op A B) /\ sshape (op A B) = sshape A /\
     forall i, inb (sshape A) i = true -> den (op A B) i = f (den A i) (den B i)) ->
  forall A A' B B', wf A -> wf A' -> wf B -> wf B' ->
    sshape A' = sshape A -> sshape B = sshape A -> sshape B' = sshape A ->
    Permutation (entries A) (entries A') -> Permutation (entries B) (entries B') ->
    canon (op A B) = canon (op A' B') /\ Permutation (entries (op A B)) (entries (op A' B')).
Proof. exact (order_indep2 v0 isz isz_spec). Qed.

Theorem C06_order_indep_unary : forall (op : sparse V -> sparse V) (g : V -> V),
  (forall A, wf A -> wf (op A) /\ sshape (op A) = sshape A /\
     forall i, inb (sshape A) i = true -> den (op A) i = g (den A i)) ->
  forall A A', wf A -> wf A' -> sshape A' = sshape A -> Permutation (entries A) (entries A') ->
    canon (op A) = canon (op A') /\ Permutation (entries (op A)) (entries (op A')).
Proof. exact (order_indep1 v0 isz isz_spec). Qed.

(* ---- sparse-returning operations proved correct under other properties (C07 permute/reshape/squeeze, C01 to_sptenmat /
        to_sptensor, C04 every __setitem__/__getitem__ path): results well-formed, same result for every stored order ---- *)
Theorem C06_ops_permute : forall (S S' : sparse V) p, wf S -> wf S' -> sshape S' = sshape S ->
  Permutation (entries S) (entries S') -> is_perm p (length (sshape S)) ->
  exists R R', permute_sp S p = Some R /\ permute_sp S' p = Some R' /\ same_result v0 isz R R'.
Proof. exact (indep_permute v0 isz isz_spec). Qed.

Theorem C06_ops_reshape : forall (S S' : sparse V) s', wf S -> wf S' -> sshape S' = sshape S ->
  Permutation (entries S) (entries S') -> size s' = size (sshape S) ->
  exists R R', reshape_sp_all S s' = Some R /\ reshape_sp_all S' s' = Some R' /\ same_result v0 isz R R'.
Proof. exact (indep_reshape v0 isz isz_spec). Qed.

Theorem C06_ops_reshape_modes : forall (S S' : sparse V) s' old, wf S -> wf S' -> sshape S' = sshape S ->
  Permutation (entries S) (entries S') ->
  Forall (fun k => k < length (sshape S)) old -> size s' = size (pick 0 old (sshape S)) ->
  exists R R', reshape_sp S s' old = Some R /\ reshape_sp S' s' old = Some R' /\ same_result v0 isz R R'.
Proof. exact (indep_reshape_modes v0 isz). Qed.

Theorem C06_ops_squeeze : forall (S S' : sparse V), wf S -> wf S' -> sshape S' = sshape S ->
  Permutation (entries S) (entries S') ->
  match squeeze_sp v0 S, squeeze_sp v0 S' with
  | SqT R, SqT R' => same_result v0 isz R R'
  | SqScalar v, SqScalar v' => v = v'
  | _, _ => False
  end.
Proof. exact (indep_squeeze v0 isz isz_spec). Qed.

Theorem C06_ops_sptenmat : forall (S S' : sparse V) r c, wf S -> wf S' -> sshape S' = sshape S ->
  Permutation (entries S) (entries S') -> is_perm (r ++ c) (length (sshape S)) ->
  exists M M', to_sptenmat S r c = Some M /\ to_sptenmat S' r c = Some M' /\
    wf (stm_sp M) /\ wf (stm_sp M') /\ length (stm_subs M) = nnz S /\
    (forall i, inb (sshape S) i = true -> den_sptenmat v0 M i = den_sptenmat v0 M' i) /\
    sptenmat_to_sptensor M = S /\ sptenmat_to_sptensor M' = S'.
Proof. exact (indep_to_sptenmat v0 isz). Qed.

Theorem C06_ops_setitem : forall (S S' : sparse V) (o : op V) S1 out S1' out', wf S -> wf S' -> sshape S' = sshape S ->
  Permutation (entries S) (entries S') ->
  step_sparse v0 isz S o = Some (S1, out) -> step_sparse v0 isz S' o = Some (S1', out') ->
  same_result v0 isz S1 S1' /\ out = out'.
Proof. exact (indep_step v0 isz isz_spec). Qed.

(* sptenmat.__setitem__ (transliteration impl_stm_setitem of pyttb/sptenmat.py on the 2-way coordinate list behind the sptenmat;
   t = the (subscript, value) targets in pyttb's loop order, pairwise distinct, values may be zero): the result is well-formed
   (no explicit zero also when a zero lands on a stored entry and nothing is appended), keeps the shape, denotes the assigned
   array, and is the same for every stored order of the receiver *)
Theorem C06_stm_setitem : forall (S : sparse V) (t : list (idx * V)), wf S ->
  NoDup (map fst t) -> Forall (fun j => inb (sshape S) j = true) (map fst t) ->
  let R := impl_stm_setitem isz S t in
  wf R /\ sshape R = sshape S /\ forall i, den R i = assign_den (den S) t i.
Proof. exact (impl_stm_setitem_correct v0 isz isz_spec). Qed.

Theorem C06_ops_stm_setitem : forall (S S' : sparse V) (t : list (idx * V)), wf S -> wf S' -> sshape S' = sshape S ->
  Permutation (entries S) (entries S') ->
  NoDup (map fst t) -> Forall (fun j => inb (sshape S) j = true) (map fst t) ->
  same_result v0 isz (impl_stm_setitem isz S t) (impl_stm_setitem isz S' t).
Proof. exact (indep_stm_setitem v0 isz isz_spec). Qed.

(* squash ("remove empty slices": every mode renumbered by the rank of each index among the distinct indices used in that mode):
   well-formed, same stored values, extent of mode n = number of distinct indices used in mode n, and the same result for
   every stored order.  (pyttb's squash gives every mode the extent nnz instead — open finding A-27; subscripts and values of
   pyttb's result are compared with this model in the correspondence.) *)
Theorem C06_squash : forall S : sparse V, wf S ->
  wf (squash S) /\ nnz (squash S) = nnz S /\ svals (squash S) = svals S /\
  sshape (squash S) = map (fun n => length (uniq_nat (column n (ssubs S)))) (seq 0 (length (sshape S))).
Proof. exact (squash_wf isz). Qed.

Theorem C06_ops_squash : forall S S' : sparse V, wf S -> wf S' -> sshape S' = sshape S ->
  Permutation (entries S) (entries S') -> same_result v0 isz (squash S) (squash S').
Proof. exact (indep_squash v0 isz). Qed.

(* instances: the modelled operators (result well-formed + same result for every stored order of each operand) *)
Variables (one : V) (vadd vmul : V -> V -> V) (vopp : V -> V).
Hypothesis one_nz : one <> v0.
Hypothesis vadd_0_l : forall x, vadd v0 x = x.
Hypothesis vadd_0_r : forall x, vadd x v0 = x.
Hypothesis vopp_nz : forall v, v <> v0 -> vopp v <> v0.
Hypothesis vopp_0 : vopp v0 = v0.
Hypothesis vmul_0_l : forall x, vmul v0 x = v0.
Hypothesis vmul_0_r : forall x, vmul x v0 = v0.

Theorem C06_ops_binary :
  indep2 v0 isz (impl_add v0 isz vadd) /\ indep2 v0 isz (impl_sub v0 isz vadd vopp) /\ indep2 v0 isz (impl_mul v0 isz vmul) /\
  indep2 v0 isz (impl_and v0 isz one) /\ indep2 v0 isz (impl_or v0 isz one) /\ indep2 v0 isz (impl_xor v0 isz one) /\
  forall cmp, indep2 v0 isz (impl_cmp v0 one cmp).
Proof.
  exact (conj (indep_add v0 isz isz_spec vadd vadd_0_l vadd_0_r)
        (conj (indep_sub v0 isz isz_spec vadd vopp vadd_0_l vadd_0_r vopp_nz vopp_0)
        (conj (indep_mul v0 isz isz_spec vmul vmul_0_l vmul_0_r)
        (conj (indep_and v0 isz isz_spec one) (conj (indep_or v0 isz isz_spec one) (conj (indep_xor v0 isz isz_spec one)
              (indep_cmp v0 isz isz_spec one one_nz))))))).
Qed.

Theorem C06_ops_unary :
  indep1 v0 isz (impl_neg vopp) /\ indep1 v0 isz (impl_not one) /\ indep1 v0 isz (impl_ones one) /\
  (forall g, indep1 v0 isz (impl_elemfun isz g)) /\
  (forall c, indep1 v0 isz (fun A => impl_mul_scalar isz vmul A c)) /\
  (forall T, indep1 v0 isz (fun A => impl_mul_dense v0 isz vmul A T)) /\
  (forall cmp c, indep1 v0 isz (fun A => impl_cmp_scalar v0 one cmp A c)) /\
  (forall cmp T, indep1 v0 isz (fun A => impl_cmp_dense v0 one cmp A T)).
Proof.
  exact (conj (indep_neg v0 isz isz_spec vopp vopp_nz vopp_0)
        (conj (indep_not v0 isz isz_spec one one_nz) (conj (indep_ones v0 isz isz_spec one one_nz)
        (conj (indep_elemfun v0 isz isz_spec)
        (conj (indep_mul_scalar v0 isz isz_spec vmul vmul_0_l)
        (conj (indep_mul_dense v0 isz isz_spec vmul vmul_0_l)
        (conj (indep_cmp_scalar v0 isz isz_spec one one_nz) (indep_cmp_dense v0 isz isz_spec one one_nz)))))))).
Qed.

(* the repaired sparse*sparse, sparse==sparse and the sparse/sparse comparisons, transliterated over the row helpers
   GENERATED from pyttb_utils.py: for operands of order >= 1 they succeed, return well-formed tensors and the same result
   for every stored order of each operand (for *: in a value ring without zero divisors) *)
Theorem C06_ops_generated :
  ((forall x y, x <> v0 -> y <> v0 -> vmul x y <> v0) -> indep2_res v0 isz (@has_modes V) (impl_mul_gen v0 vmul)) /\
  (forall veqb, (forall a b, veqb a b = true <-> a = b) -> indep2_res v0 isz (@has_modes V) (impl_eq_gen v0 one veqb)) /\
  (forall cmp, indep2_res v0 isz (@has_modes V) (impl_cmp_gen v0 one cmp)).
Proof.
  exact (conj (indep_mul_gen v0 isz isz_spec vmul vmul_0_l vmul_0_r)
        (conj (indep_eq_gen v0 isz isz_spec one one_nz) (indep_cmp_gen v0 isz isz_spec one one_nz))).
Qed.
End C06.

(* ---- the multilinear kernels of a sparse tensor (models and denotational theorems: C02): values in any commutative ring with
        decidable zero.  `reordered isz S S'` = S and S' are well-formed, have the same shape and store the same entries in
        some order.  ttv / ttm / collapse / contract: the C02 models give the value of the result at a subscript, so the
        statement is "the same value (the defining sum over the denoted array) at every subscript for every stored order";
        scale returns a coordinate list and is also well-formed; mask returns the values in the order of the mask's rows. ---- *)
Section C06K.
Variable V : Type.
Variables (v0 v1 : V) (vadd vmul vsub : V -> V -> V) (vopp : V -> V).
Hypothesis Vring : ring_theory v0 v1 vadd vmul vsub vopp (@eq V).
Variable isz : V -> bool.
Hypothesis isz_spec : forall v, isz v = true <-> v = v0.
Notation den := (den_sp v0).
Notation wf := (wf_sp isz).
Notation reord := (reordered V isz).

Theorem C06_reordered_def : forall S S' : sparse V,
  reord S S' <-> (wf S /\ wf S' /\ sshape S' = sshape S /\ Permutation (entries S) (entries S')).
Proof. exact (fun S S' => iff_refl _). Qed.

Theorem C06_ops_ttv : forall (S S' : sparse V) dims vs i', reord S S' ->
  NoDup dims -> (forall x, In x dims -> x < length (sshape S)) -> length vs = length dims ->
  inb (ttv_shape (sshape S) dims) i' = true ->
  impl_ttv_sp v0 v1 vadd vmul S dims vs i' = impl_ttv_sp v0 v1 vadd vmul S' dims vs i' /\
  impl_ttv_sp v0 v1 vadd vmul S dims vs i' = spec_ttv v0 vadd vmul (den S) (sshape S) dims vs i'.
Proof. exact (indep_ttv V v0 v1 vadd vmul vsub vopp Vring isz). Qed.

Theorem C06_ops_ttm : forall (S S' : sparse V) n U tr i, reord S S' ->
  n < length (sshape S) -> length i = length (sshape S) ->
  inb (remove_at n (sshape S)) (remove_at n i) = true ->
  impl_ttm_sp v0 vadd vmul S n U tr i = impl_ttm_sp v0 vadd vmul S' n U tr i /\
  impl_ttm_sp v0 vadd vmul S n U tr i = spec_ttm v0 vadd vmul (den S) (sshape S) n U tr i.
Proof. exact (indep_ttm V v0 v1 vadd vmul vsub vopp Vring isz). Qed.

Theorem C06_ops_collapse : forall (S S' : sparse V) dims i', reord S S' ->
  NoDup dims -> (forall x, In x dims -> x < length (sshape S)) ->
  inb (ttv_shape (sshape S) dims) i' = true ->
  impl_collapse_sp v0 vadd S dims i' = impl_collapse_sp v0 vadd S' dims i' /\
  impl_collapse_sp v0 vadd S dims i' = spec_collapse v0 vadd (den S) (sshape S) dims i'.
Proof. exact (indep_collapse V v0 v1 vadd vmul vsub vopp Vring isz). Qed.

Theorem C06_ops_contract : forall (S S' : sparse V) i1 i2 i', reord S S' ->
  i1 <> i2 -> i1 < length (sshape S) -> i2 < length (sshape S) ->
  nth i1 (sshape S) 0 = nth i2 (sshape S) 0 ->
  inb (ttv_shape (sshape S) [i1; i2]) i' = true ->
  impl_contract_sp v0 vadd S i1 i2 i' = impl_contract_sp v0 vadd S' i1 i2 i' /\
  impl_contract_sp v0 vadd S i1 i2 i' = spec_contract v0 vadd (den S) (sshape S) i1 i2 i'.
Proof. exact (indep_contract V v0 v1 vadd vmul vsub vopp Vring isz). Qed.

Theorem C06_ops_scale : forall (S S' : sparse V) dims (g : idx -> V), reord S S' ->
  same_result v0 isz (impl_scale_sp vmul isz S dims g) (impl_scale_sp vmul isz S' dims g).
Proof. exact (indep_scale V v0 v1 vadd vmul vsub vopp Vring isz isz_spec). Qed.

Theorem C06_ops_mask : forall (S S' : sparse V) wsubs, reord S S' ->
  impl_mask_sp v0 S wsubs = impl_mask_sp v0 S' wsubs /\ impl_mask_sp v0 S wsubs = map (den S) wsubs.
Proof. exact (indep_mask V v0 isz). Qed.

Theorem C06_ops_innerprod :
  (forall (S S' : sparse V) (T : dense V), reord S S' ->
     impl_innerprod_sp_dense v0 vadd vmul S T = impl_innerprod_sp_dense v0 vadd vmul S' T) /\
  (forall A A' B B' : sparse V, reord A A' -> reord B B' -> sshape A = sshape B ->
     impl_innerprod_sp_sp v0 vadd vmul A B = impl_innerprod_sp_sp v0 vadd vmul A' B').
Proof.
  exact (conj (indep_innerprod_dense V v0 v1 vadd vmul vsub vopp Vring isz)
              (indep_innerprod_sparse V v0 v1 vadd vmul vsub vopp Vring isz)).
Qed.

Theorem C06_ops_normsq : forall S S' : sparse V, reord S S' ->
  impl_normsq_sp v0 vadd vmul S = impl_normsq_sp v0 vadd vmul S'.
Proof. exact (indep_normsq V v0 v1 vadd vmul vsub vopp Vring isz). Qed.
End C06K.

Print Assumptions C06_ops_reshape_modes.
Print Assumptions C06_squash.
Print Assumptions C06_ops_squash.
Print Assumptions C06_stm_setitem.
Print Assumptions C06_ops_stm_setitem.
Print Assumptions C06_reordered_def.
Print Assumptions C06_ops_ttv.
Print Assumptions C06_ops_ttm.
Print Assumptions C06_ops_collapse.
Print Assumptions C06_ops_contract.
Print Assumptions C06_ops_scale.
Print Assumptions C06_ops_mask.
Print Assumptions C06_ops_innerprod.
Print Assumptions C06_ops_normsq.
Print Assumptions C06_canon_unique.
Print Assumptions C06_den_perm.
Print Assumptions C06_canon.
Print Assumptions C06_canon_eq.
Print Assumptions C06_order_indep_binary.
Print Assumptions C06_order_indep_unary.
Print Assumptions C06_ops_binary.
Print Assumptions C06_ops_unary.
Print Assumptions C06_ops_generated.
Print Assumptions C06_ops_permute.
Print Assumptions C06_ops_reshape.
Print Assumptions C06_ops_squeeze.
Print Assumptions C06_ops_sptenmat.
Print Assumptions C06_ops_setitem.

(* non-vacuity: the same 2x3 tensor stored in two orders; + and the comparison <= give the same canonical result *)
Local Open Scope Z_scope.
Definition c6A : sparse Z := mkSp [2; 3]%nat [[1; 2]; [0; 1]; [1; 0]]%nat [9; -7; 5].
Definition c6A' : sparse Z := mkSp [2; 3]%nat [[1; 0]; [1; 2]; [0; 1]]%nat [5; 9; -7].
Definition c6B : sparse Z := mkSp [2; 3]%nat [[1; 0]; [0; 0]; [1; 2]]%nat [5; 4; -2].
Example C06_example :
  wf_spb zisz c6A = true /\ wf_spb zisz c6A' = true /\
  canon 0 zisz c6A = mkSp [2; 3]%nat [[1; 0]; [0; 1]; [1; 2]]%nat [5; -7; 9] /\
  canon 0 zisz c6A = canon 0 zisz c6A' /\
  canon 0 zisz (impl_add 0 zisz Z.add c6A c6B) = canon 0 zisz (impl_add 0 zisz Z.add c6A' c6B) /\
  canon 0 zisz (impl_cmp 0 1 Z.leb c6A c6B) = canon 0 zisz (impl_cmp 0 1 Z.leb c6A' c6B) /\
  squash c6B = mkSp [2; 2]%nat [[1; 0]; [0; 0]; [1; 1]]%nat [5; 4; -2].
Proof. repeat split; reflexivity. Qed.

(* sptenmat.__setitem__: a zero written onto the stored entry [1;2] (nothing appended) removes it; a mixed call (zero onto
   stored [0;1], 8 onto absent [0;0]) appends, sorts by (row, column) and drops the zero; both stored orders agree *)
Definition c6M : sparse Z := mkSp [2; 3]%nat [[1; 2]; [0; 1]; [1; 0]]%nat [9; -7; 5].
Definition c6M' : sparse Z := mkSp [2; 3]%nat [[1; 0]; [1; 2]; [0; 1]]%nat [5; 9; -7].
Example C06_stm_example :
  impl_stm_setitem zisz c6M [([1; 2]%nat, 0)] = mkSp [2; 3]%nat [[0; 1]; [1; 0]]%nat [-7; 5] /\
  impl_stm_setitem zisz c6M [([0; 1]%nat, 0); ([0; 0]%nat, 8)] = mkSp [2; 3]%nat [[0; 0]; [1; 0]; [1; 2]]%nat [8; 5; 9] /\
  canon 0 zisz (impl_stm_setitem zisz c6M [([1; 2]%nat, 0)]) = canon 0 zisz (impl_stm_setitem zisz c6M' [([1; 2]%nat, 0)]).
Proof. repeat split; reflexivity. Qed.

(* kernels: ttv in mode 1 with the vector (1, 2, 3) and scale by a factor that vanishes at a stored position, both stored orders *)
Example C06_kernel_example :
  map (impl_ttv_sp 0 1 Z.add Z.mul c6A [1%nat] [[1; 2; 3]]) [[0%nat]; [1%nat]] = [-14; 32] /\
  map (impl_ttv_sp 0 1 Z.add Z.mul c6A' [1%nat] [[1; 2; 3]]) [[0%nat]; [1%nat]] = [-14; 32] /\
  canon 0 zisz (impl_scale_sp Z.mul zisz c6A [1%nat] (fun j => nth (nth 0 j 0%nat) [2; 0; 3] 0)) =
    mkSp [2; 3]%nat [[1; 0]; [1; 2]]%nat [10; 27] /\
  canon 0 zisz (impl_scale_sp Z.mul zisz c6A' [1%nat] (fun j => nth (nth 0 j 0%nat) [2; 0; 3] 0)) =
    mkSp [2; 3]%nat [[1; 0]; [1; 2]]%nat [10; 27].
Proof. repeat split; reflexivity. Qed.
