(* Props/W4C04.v — sptensor.subdims as GENERATED from /repo/pyttb/sptensor.py on every run (Gen/GenSptensor4.v): the loop
   that pares the list of stored positions down mode by mode (np.isin masks) equals one filter over the stored rows
   (hand reference H_subdims of Model/W4Sptensor.v).  Only statements, `exact`, Print Assumptions. *)
From Coq Require Import List ZArith Arith Bool.
From PV Require Import Np.NpZ Np.NpZ2 Np.NpZ3 Np.NpZ3c Np.NpZ3d Np.NpZ3e Np.NpZ4 Np.NpZ4b Model.W4Sptensor Proofs.W4Subdims Gen.GenSptensor4.
Import ListNotations.
Local Open Scope Z_scope.

Theorem C04_gen_subdims_bridge : forall (self : sptz) (region : list pyidx), sptensor_subdims self region = H_subdims self region.
Proof. exact subdims_bridge. Qed.
Print Assumptions C04_gen_subdims_bridge.

(* the answer is exactly the positions (ascending) of the stored rows whose every subscript passes the key of its mode:
   int = that index, list / array = membership, slice = membership in range(size)[slice] (Python slice semantics) *)
Theorem C04_gen_subdims_spec : forall (self : sptz) (region : list pyidx) (loc : vec),
  np_size2 (spt_subs self) <> 0 -> sptensor_subdims self region = Ok loc ->
  loc = filter (H_row_in self region) (np_arange 0 (zlen (spt_subs self))) /\
  (forall l, In l loc <-> 0 <= l < zlen (spt_subs self) /\ H_row_in self region l = true).
Proof. exact gen_subdims_spec. Qed.
Print Assumptions C04_gen_subdims_spec.

Theorem C04_gen_subdims_empty : forall (self : sptz) (region : list pyidx),
  zlen region = zlen (spt_shape self) -> np_size2 (spt_subs self) = 0 -> sptensor_subdims self region = Ok [].
Proof. exact gen_subdims_empty. Qed.
Print Assumptions C04_gen_subdims_empty.

Theorem C04_gen_subdims_rejects_count : forall (self : sptz) (region : list pyidx),
  zlen region <> zlen (spt_shape self) -> sptensor_subdims self region = Err.
Proof. exact gen_subdims_rejects_count. Qed.
Print Assumptions C04_gen_subdims_rejects_count.

Theorem C04_gen_subdims_rejects_key : forall (self : sptz) (region : list pyidx) (i : Z),
  np_size2 (spt_subs self) <> 0 -> 0 <= i < zlen (spt_shape self) ->
  H_key_ok (spt_shape self) i (znth IxNone region i) = false -> sptensor_subdims self region = Err.
Proof. exact gen_subdims_rejects_key. Qed.
Print Assumptions C04_gen_subdims_rejects_key.

Example C04_gen_subdims_example :
  sptensor_subdims (mkspt [[0; 1; 3]; [2; 0; 1]; [1; 1; 1]] [5; -7; 2] [3; 2; 4])
                   [IxSlice (mkslice (Some 1) None None); IxSeq [0; 1]; IxInt 1] = Ok [1; 2] /\
  sptensor_subdims (mkspt [[0; 1; 3]; [2; 0; 1]; [1; 1; 1]] [5; -7; 2] [3; 2; 4])
                   [IxSlice (mkslice None None (Some (-1))); IxArr [1]; IxSlice (mkslice None None None)] = Ok [0; 2] /\
  sptensor_subdims (mkspt [[0; 1; 3]; [2; 0; 1]; [1; 1; 1]] [5; -7; 2] [3; 2; 4]) [IxInt 0; IxNone; IxInt 3] = Err /\
  sptensor_subdims (mkspt [[0; 1; 3]] [5] [3; 2; 4]) [IxInt 0; IxInt 1] = Err /\
  sptensor_subdims (mkspt [[]] [] [3; 2; 4]) [IxInt 0; IxNone; IxInt 3] = Ok [].
Proof. repeat split; reflexivity. Qed.
