(* Props/C18Rows.v — C18 "whatever the printing / verbosity settings" for cp_apr PDNR / PQNR and gcp_opt + LBFGSB, on the
   statement-by-statement transliterations of Proofs/C18PrintRows.v (numerics = oracles on abstract state; printing settings are
   Python ints = Z, negative values included).  Only statements, `exact`, Print Assumptions; concrete runs in
   Proofs/C18PrintRows.v (Module C18PrintRowsExamples). *)
From Coq Require Import List Arith Bool ZArith.
From PV Require Import Proofs.C18Print Proofs.C18PrintRows.
Import ListNotations.

Section C18print_rows.
Variables St Rw F W : Type.
Variable N : nat.
Hypothesis Npos : 1 <= N.
Variables (is_pdnr prestep inexact sparse_precomp : bool) (maxinner : nat).
Variables (redist : nat -> St -> St) (nrows : nat -> St -> nat) (row_empty : nat -> nat -> bool) (zero_row : nat -> nat -> St -> St)
          (row_init : nat -> nat -> nat -> St -> Rw) (row_pre : Rw -> Rw) (pre_warn : Rw -> list W) (row_kkt row_obj : Rw -> F)
          (row_step : nat -> Rw -> option Rw) (step_warn : nat -> Rw -> list W) (row_evals : Rw -> nat)
          (write_row : nat -> nat -> Rw -> St -> St) (renorm : nat -> St -> St) (count_zeros : St -> nat)
          (f0 : F) (fneg : F -> F) (fltb : F -> F -> bool) (fmaxl : list F -> F) (stoptol : F) (rowtol_le : F -> bool)
          (timeup : nat -> bool) (loglik : St -> St * F) (finish : St -> St) (lsfit : St -> F).
Local Notation RUN := (rs_run St Rw F W N is_pdnr prestep inexact sparse_precomp maxinner redist nrows row_empty zero_row row_init row_pre
                         pre_warn row_kkt row_obj row_step step_warn row_evals write_row renorm count_zeros f0 fneg fltb fmaxl stoptol
                         rowtol_le timeup loglik finish lsfit).

(* the contract: the in-place normalisation done by the log-likelihood call of a printed iteration is invisible to
   M.redistribute(mode=0) and to the final M.normalize(sort=True, normtype=1) on states whose factor columns are all normalised,
   and every mode step (redistribute n; row writes in mode n; normalize n) re-establishes that *)
Variables (allnorm : St -> Prop) (offnorm : nat -> St -> Prop).
Hypothesis redist_off : forall n s, allnorm s -> offnorm n (redist n s).
Hypothesis zero_off : forall n jj s, offnorm n s -> offnorm n (zero_row n jj s).
Hypothesis write_off : forall n jj rw s, offnorm n s -> offnorm n (write_row n jj rw s).
Hypothesis renorm_all : forall n s, offnorm n s -> allnorm (renorm n s).
Hypothesis touch_redist : forall s, allnorm s -> redist 0 (touch St F loglik s) = redist 0 s.
Hypothesis touch_finish : forall s, allnorm s -> finish (touch St F loglik s) = finish s.

(* cp_apr(algorithm = "pdnr" | "pqnr"): returned model, KKT / inner-iteration / zero-count / function-evaluation traces and
   objective (everything in `output` except the echoed parameters, the wall-clock times and fnVals) are the same for ANY two
   settings of printitn and printinneritn; a failing run (PQNR's assert, NameError corners) fails under both *)
Theorem C18_print_cp_apr_rows : forall (p1 q1 p2 q2 : Z) (maxiters : nat) (s0 : St), allnorm s0 ->
  option_map fst (fst (RUN p1 q1 maxiters s0)) = option_map fst (fst (RUN p2 q2 maxiters s0)).
Proof.
  exact (cp_apr_rows_print_indep St Rw F W N Npos is_pdnr prestep inexact sparse_precomp maxinner redist nrows row_empty zero_row row_init
           row_pre pre_warn row_kkt row_obj row_step step_warn row_evals write_row renorm count_zeros f0 fneg fltb fmaxl stoptol rowtol_le
           timeup loglik finish lsfit allnorm offnorm redist_off zero_off write_off renorm_all touch_redist touch_finish).
Qed.

(* printitn <= 0 and printinneritn <= 0: nothing is printed but the unconditional time-limit message, no warning is raised,
   output["fnVals"] keeps its initial zeros *)
Theorem C18_print_cp_apr_rows_silent : forall (p q : Z) (maxiters : nat) (s0 : St), (p <= 0)%Z -> (q <= 0)%Z ->
  Forall (only_time F W) (snd (RUN p q maxiters s0)) /\
  (forall r, fst (RUN p q maxiters s0) = Some r -> exists m, snd r = repeat f0 m).
Proof.
  exact (cp_apr_rows_silent St Rw F W N Npos is_pdnr prestep inexact sparse_precomp maxinner redist nrows row_empty zero_row row_init
           row_pre pre_warn row_kkt row_obj row_step step_warn row_evals write_row renorm count_zeros f0 fneg fltb fmaxl stoptol rowtol_le
           timeup loglik finish lsfit).
Qed.
End C18print_rows.

Section C18print_gcp.
Variables Data Model Info Handles Msg : Type.
Variables (validate : Data -> option (Data * Handles * nat * nat)) (initial_guess : Data -> option Model) (optimizer_ok : Data -> bool)
          (welcome : Data -> nat -> nat -> Msg) (solve : Model -> Data -> Handles -> Model * Info).
Local Notation GCP := (gcp_run Data Model Info Handles Msg validate initial_guess optimizer_ok welcome solve).

(* gcp_opt with an LBFGSB optimizer: (result, initial guess, info) do not depend on printitn; printitn <= 0 prints nothing *)
Theorem C18_print_gcp : forall (p1 p2 : Z) (data : Data), fst (GCP p1 data) = fst (GCP p2 data).
Proof. exact (gcp_print_indep Data Model Info Handles Msg validate initial_guess optimizer_ok welcome solve). Qed.
Theorem C18_print_gcp_silent : forall (p : Z) (data : Data), (p <= 0)%Z -> snd (GCP p data) = [].
Proof. exact (gcp_silent Data Model Info Handles Msg validate initial_guess optimizer_ok welcome solve). Qed.
End C18print_gcp.

Print Assumptions C18_print_cp_apr_rows.
Print Assumptions C18_print_cp_apr_rows_silent.
Print Assumptions C18_print_gcp.
Print Assumptions C18_print_gcp_silent.
