(* Proofs/C06Set.v — C06 for sptensor.__setitem__ / __getitem__ in TOTAL form, as corollaries of C04's strengthened theorems
   (Proofs/C04Region.v: refine_sparse_total, sparse_region_admissible — no hypothesis on the key is left: index lists may
   repeat an index; scalar, zero and tensor-valued (sparse or dense) right-hand sides; growth of extent and order):
   whenever the specification accepts the request on the array the receiver denotes, the sparse model performs it for EVERY
   stored order of the receiver, the new state is well-formed (in bounds, no duplicate subscript, no stored zero,
   |subs| = |vals|) and the same up to stored order, and the read result is the same. *)
From Coq Require Import List Arith Lia Bool Permutation.
From PV Require Import Base.Index Base.Perm Np.Array Model.Sparse Model.C03Ops Model.C06Ops Model.C04Model
                       Proofs.C03Lemmas Proofs.C03Proofs Proofs.C06Proofs Proofs.C06Other
                       Proofs.C04Sparse Proofs.C04History Proofs.C04Region.
Import ListNotations.

Section SetTotal.
Context {V : Type} (v0 : V) (isz : V -> bool).
Hypothesis isz_spec : forall v, isz v = true <-> v = v0.
Notation den := (den_sp v0).
Notation wf := (wf_sp isz).

Theorem indep_step_total (S S' : sparse V) (o : op V) a' out : wf S -> wf S' -> sshape S' = sshape S ->
  Permutation (entries S) (entries S') -> sparse_op_ok o ->
  spec_step v0 (abs_sp v0 S) o = Some (a', out) ->
  exists S1 S1', step_sparse v0 isz S o = Some (S1, out) /\ step_sparse v0 isz S' o = Some (S1', out) /\
                 same_result v0 isz S1 S1' /\ eq_amap (abs_sp v0 S1) a' /\ eq_amap (abs_sp v0 S1') a'.
Proof.
  intros W W' Hs P Hok E.
  destruct (refine_sparse_total v0 isz isz_spec S o a' out W Hok E) as (S1 & E1 & Q1 & W1).
  assert (Q : eq_amap (abs_sp v0 S) (abs_sp v0 S')).
  { split; [cbn; congruence|]. intros i. cbn. now apply (perm_den v0 isz). }
  pose proof (spec_step_congr v0 _ _ o Q) as C. rewrite E in C.
  destruct (spec_step v0 (abs_sp v0 S') o) as [[b' out']|] eqn:E'; [|contradiction]. destruct C as [Cq Co]. subst out'.
  destruct (refine_sparse_total v0 isz isz_spec S' o b' out W' Hok E') as (S1' & E1' & Q1' & W1').
  exists S1, S1'. split; [exact E1|]. split; [exact E1'|].
  destruct (indep_step v0 isz isz_spec S S' o S1 out S1' out W W' Hs P E1 E1') as (R & _).
  split; [exact R|]. split; [exact Q1|].
  destruct Q1' as [Qs Qf]. destruct Cq as [Cs Cf]. split; [congruence|]. intros i. now rewrite Qf, Cf.
Qed.

(* region writes S[region] = rhs: index lists that may repeat an index, scalar / zero / tensor-valued right-hand side, growth *)
Theorem indep_region_set (S S' : sparse V) es (r : rhs V) s' asg : wf S -> wf S' -> sshape S' = sshape S ->
  Permutation (entries S) (entries S') ->
  resolve_set cartF (sshape S) (KRegion es) r = Some (s', asg) ->
  exists S1 S1', step_sparse v0 isz S (OSet (KRegion es) r) = Some (S1, ([], [])) /\
                 step_sparse v0 isz S' (OSet (KRegion es) r) = Some (S1', ([], [])) /\
                 same_result v0 isz S1 S1' /\ sshape S1 = s'.
Proof.
  intros W W' Hs P E.
  destruct (sparse_region_admissible v0 isz S es r s' asg W E) as (S1 & E1).
  assert (E0 : resolve_set cartF (sshape S') (KRegion es) r = Some (s', asg)) by (now rewrite Hs).
  destruct (sparse_region_admissible v0 isz S' es r s' asg W' E0) as (S1' & E1').
  exists S1, S1'. split; [exact E1|]. split; [exact E1'|].
  destruct (indep_step v0 isz isz_spec S S' _ S1 _ S1' _ W W' Hs P E1 E1') as (R & _). split; [exact R|].
  destruct (refine_sparse v0 isz isz_spec S _ S1 _ W E1) as (a & Ea & [Qs _] & _).
  cbn [spec_step abs_sp ashape] in Ea. rewrite E in Ea. inversion Ea; subst. cbn in Qs. exact Qs.
Qed.
End SetTotal.
