(* Props/C02w5d.v — property C02, wave 5: dense MTTKRP over the translator-GENERATED pyttb.khatrirao (Gen/GenKernels.v, regenerated from
   pyttb/khatrirao.py on every run; "Khatri-Rao product used by dense MTTKRP" of the property's mechanism list): tensor.mttkrp with its
   Khatri-Rao products computed by the generated function, at the three places tensor.py calls it, IS the transliteration of C02_mttkrp_dense
   and returns the defining sum for every mode.  Integer instance (the generated code is over Z).
   Only statements, `exact`, Print Assumptions (and closed Examples).  Proofs: Proofs/C02MttkrpGenProofs.v (bridge: Proofs/C12KrTie.v). *)
From Coq Require Import List Arith Bool ZArith.
From PV Require Import Base.Index Base.Perm Base.Sum Np.NpZ Np.Array Model.Repr Model.C02Spec Model.C02Dense Gen.GenKernels
                       Model.C02MttkrpGen Proofs.C02DenseProofs Proofs.C02MttkrpGenProofs.
Import ListNotations.

Theorem C02_mttkrp_dense_genkr_is_model : forall (X : dense Z) (Us : list (list (list Z))) (n R : nat),
  2 <= length (dshape X) -> n < length (dshape X) -> length Us = length (dshape X) -> 1 <= R ->
  Forall (fun B => B <> [] /\ wf_cols Z R B) (remove_at n Us) ->
  zmttkrp_dense_genkr X Us n R = Ok (impl_mttkrp_dense 0%Z Z.add Z.mul X Us n R).
Proof. exact zmttkrp_dense_genkr_eq. Qed.

Theorem C02_mttkrp_dense_genkr : forall (X : dense Z) (Us : list (list (list Z))) (n R : nat),
  wf_dense X -> 2 <= length (dshape X) -> n < length (dshape X) -> length Us = length (dshape X) -> 1 <= R ->
  Forall (fun B => B <> [] /\ wf_cols Z R B) (remove_at n Us) ->
  map (@length _) (remove_at n Us) = remove_at n (dshape X) ->
  exists Y, zmttkrp_dense_genkr X Us n R = Ok Y /\
    dshape Y = [nth n (dshape X) 0; R] /\ wf_dense Y /\
    forall x r, x < nth n (dshape X) 0 -> r < R ->
      den_dense 0%Z Y [x; r] = spec_mttkrp 0%Z 1%Z Z.add Z.mul (den_dense 0%Z X) (dshape X) n (repeat 1%Z R) Us x r.
Proof. exact zmttkrp_dense_genkr_correct. Qed.
Print Assumptions C02_mttkrp_dense_genkr_is_model.
Print Assumptions C02_mttkrp_dense_genkr.

Local Open Scope Z_scope.
(* X (2 x 3 x 2) = 1..12 in F order, middle mode: both Khatri-Rao products come from the generated khatrirao *)
Example C02_ex_mttkrp_genkr :
  zmttkrp_dense_genkr (mkDense [2; 3; 2]%nat [1; 2; 3; 4; 5; 6; 7; 8; 9; 10; 11; 12]) [[[1; 0]; [0; 1]]; [[9; 9]; [9; 9]; [9; 9]]; [[1; 2]; [1; -1]]] 1 2
  = Ok (impl_mttkrp_dense 0 Z.add Z.mul (mkDense [2; 3; 2]%nat [1; 2; 3; 4; 5; 6; 7; 8; 9; 10; 11; 12]) [[[1; 0]; [0; 1]]; [[9; 9]; [9; 9]; [9; 9]]; [[1; 2]; [1; -1]]] 1 2)
  /\ zmttkrp_dense_genkr (mkDense [2; 3; 2]%nat [1; 2; 3; 4; 5; 6; 7; 8; 9; 10; 11; 12]) [[[1; 0]; [0; 1]]; [[9; 9]; [9; 9]; [9; 9]]; [[1; 2]; [1; -1]]] 1 2
  = Ok (mkDense [3; 2]%nat [8; 12; 16; -4; -2; 0]).
Proof. split; reflexivity. Qed.
