"""c05_util — measurement machinery for property C05 (no mutation of operands, no aliasing).

Everything here is pyttb-agnostic: objects are walked generically (``__slots__`` / ``__dict__`` of anything that
lives in a ``pyttb`` module, tuples, lists, dicts, scipy sparse matrices, ndarrays), so a new attribute holding an
array is picked up without editing this file.
"""
import hashlib


def _is_pyttb(x):
    return type(x).__module__.split(".")[0] == "pyttb"


def _attrs(x):
    names = []
    for klass in type(x).__mro__:
        for n in getattr(klass, "__slots__", ()) or ():
            if n not in names and n not in ("__dict__", "__weakref__"):
                names.append(n)
    for n in getattr(x, "__dict__", {}) or {}:
        if n not in names:
            names.append(n)
    return names


def reach(np, x, path="", arrays=None, conts=None, scalars=None, seen=None, depth=0):
    """walk x; collect (path, ndarray), (path, mutable container object), (path, repr of immutable leaf)"""
    if arrays is None:
        arrays, conts, scalars, seen = [], [], [], set()
    if depth > 8:
        return arrays, conts, scalars
    if isinstance(x, np.ndarray):
        arrays.append((path, x))
        return arrays, conts, scalars
    if x is None or isinstance(x, (bool, int, float, complex, str, bytes, np.generic)):
        scalars.append((path, repr(x)))
        return arrays, conts, scalars
    if id(x) in seen:
        return arrays, conts, scalars
    seen.add(id(x))
    if isinstance(x, tuple):
        for k, y in enumerate(x):
            reach(np, y, f"{path}[{k}]", arrays, conts, scalars, seen, depth + 1)
        return arrays, conts, scalars
    if isinstance(x, list):
        conts.append((path, x))
        for k, y in enumerate(x):
            reach(np, y, f"{path}[{k}]", arrays, conts, scalars, seen, depth + 1)
        return arrays, conts, scalars
    if isinstance(x, dict):
        conts.append((path, x))
        for k in x:
            reach(np, x[k], f"{path}[{k!r}]", arrays, conts, scalars, seen, depth + 1)
        return arrays, conts, scalars
    mod = type(x).__module__
    if mod.startswith("scipy.sparse"):
        conts.append((path, x))
        for n in ("data", "row", "col", "indices", "indptr"):
            if hasattr(x, n):
                reach(np, getattr(x, n), f"{path}.{n}", arrays, conts, scalars, seen, depth + 1)
        scalars.append((path + ".shape", repr(tuple(x.shape))))
        return arrays, conts, scalars
    if _is_pyttb(x) and not callable(x) and not isinstance(x, type):
        conts.append((path, x))
        for n in _attrs(x):
            try:
                y = getattr(x, n)
            except AttributeError:
                continue
            reach(np, y, f"{path}.{n}", arrays, conts, scalars, seen, depth + 1)
        return arrays, conts, scalars
    # anything else (functions, enums, solver objects' leaves ...): identity-free leaf
    scalars.append((path, type(x).__name__))
    return arrays, conts, scalars


def digest(a):
    h = hashlib.sha1()
    h.update(str(a.dtype).encode())
    h.update(repr(a.shape).encode())
    h.update(a.tobytes())
    return h.hexdigest()[:16]


def snapshot(np, named):
    """named: list of (name, object).  -> {path: [kind, ...]} bit-exact, JSON-able"""
    out = {}
    for name, x in named:
        arrays, conts, scalars = reach(np, x, name)
        for p, a in arrays:
            out[p] = ["array", str(a.dtype), list(a.shape), digest(a)]
        for p, s in scalars:
            out[p] = ["leaf", s]
        for p, c in conts:
            out[p + "#"] = ["cont", type(c).__name__, len(c) if isinstance(c, (list, dict)) else 0]
    return out


def diff(s0, s1):
    """paths whose bit-exact state differs between two snapshots (including appearing/disappearing paths)"""
    return sorted(p for p in set(s0) | set(s1) if s0.get(p) != s1.get(p))


def arrays_of(np, named):
    out = []
    for name, x in named:
        out += reach(np, x, name)[0]
    return out


def conts_of(np, named):
    out = []
    for name, x in named:
        out += reach(np, x, name)[1]
    return out


def shared_pairs(np, res_named, opd_arrays, opd_conts):
    """[(result path, operand path)] for arrays sharing memory, or mutable containers that are the same object"""
    pairs = []
    r_arrays, r_conts, _ = [], [], None
    for name, x in res_named:
        a, c, _s = reach(np, x, name)
        r_arrays += a
        r_conts += c
    for pr, ar in r_arrays:
        if ar.size == 0:
            continue
        for po, ao in opd_arrays:
            if ao.size == 0:
                continue
            try:
                sh = np.shares_memory(ar, ao)
            except Exception:           # too hard / exotic dtypes: fall back to the conservative bound
                sh = np.may_share_memory(ar, ao)
            if sh:
                pairs.append([pr, po])
    for pr, cr in r_conts:
        for po, co in opd_conts:
            if cr is co:
                pairs.append([pr + "#", po + "#"])
    return pairs


def poke(np, arrays):
    """write in place through every element of every array; returns number of arrays actually written"""
    n = 0
    done = []
    for _p, a in arrays:
        if a.size == 0 or not a.flags.writeable:
            continue
        if any(a is b for b in done):
            continue
        done.append(a)
        try:
            if a.dtype == np.bool_:
                np.logical_not(a, out=a)
            elif np.issubdtype(a.dtype, np.number):
                np.add(a, 1, out=a, casting="unsafe")
            else:
                continue
            n += 1
        except Exception:
            continue
    return n


def measure(np, build, call, receiver=None):
    """build() -> ordered dict name -> operand (fresh every time); call(ops) -> result.
    receiver: name of the operand a documented in-place operation may change (None for pure operations).
    Returns the raw observation (JSON-able)."""
    # ---- run 1: operands before/after, sharing, write through the result ----------------------------
    ops = build()
    named = list(ops.items())
    others = [(n, x) for n, x in named if n != receiver]
    recv = [(n, x) for n, x in named if n == receiver]
    before = snapshot(np, named)
    pre_arrays = arrays_of(np, others)
    pre_conts = conts_of(np, others)
    result = call(ops)
    after = snapshot(np, named)
    changed = diff(before, after)
    post_arrays = arrays_of(np, others)
    post_conts = conts_of(np, others)
    opd_arrays = pre_arrays + [(p, a) for p, a in post_arrays if not any(a is b for _q, b in pre_arrays)]
    opd_conts = pre_conts + [(p, c) for p, c in post_conts if not any(c is d for _q, d in pre_conts)]
    # "result side": what the call returned, plus (in-place operations) the receiver as it is now
    res_named = [("result", result)] + recv
    shared = shared_pairs(np, res_named, opd_arrays, opd_conts)
    res_arrays = arrays_of(np, res_named)
    n_res_arrays = sum(1 for _p, a in arrays_of(np, [("result", result)]) if a.size > 0)
    n_opd_arrays = sum(1 for _p, a in arrays_of(np, named) if a.size > 0)
    others_after = snapshot(np, others)
    poked_res = poke(np, res_arrays)
    vis_result = diff(others_after, snapshot(np, others))
    # ---- run 2 (fresh operands): write through the operands, observe the result --------------------
    ops2 = build()
    named2 = list(ops2.items())
    others2 = [(n, x) for n, x in named2 if n != receiver]
    recv2 = [(n, x) for n, x in named2 if n == receiver]
    pre2 = arrays_of(np, others2)
    result2 = call(ops2)
    res_named2 = [("result", result2)] + recv2
    res_before = snapshot(np, res_named2)
    post2 = arrays_of(np, others2)
    poked_opd = poke(np, pre2 + [(p, a) for p, a in post2 if not any(a is b for _q, b in pre2)])
    vis_operand = diff(res_before, snapshot(np, res_named2))
    return {
        "before": {p: v for p, v in before.items() if p in changed},
        "after": {p: v for p, v in after.items() if p in changed},
        "changed": changed,
        "shared": shared[:40],
        "vis_result": vis_result[:12],
        "vis_operand": vis_operand[:12],
        "n_res_arrays": n_res_arrays, "n_opd_arrays": n_opd_arrays,
        "poked": [poked_res, poked_opd],
        "result_type": type(result).__name__,
    }


# ---- memory-layout variants of the operands (wave 3) ---------------------------------------------------------
LAYOUTS = ("C", "F", "strided")
# wave 4: views a caller may hand in.  "Tview" = F-contiguous window that does NOT own its data (transpose of a C-ordered
# array; tensor.data / tenmat.data are replaced by such a window too), "negstride" = a reversed view (negative stride
# in the first mode), "readonly" = every array reachable from a non-receiver operand has write=False: an operation that
# writes into an operand then RAISES instead of silently mutating it (second detector, independent of the digests)
LAYOUTS_W4 = ("Tview", "negstride", "readonly")


def lay(np, a, mode):
    """a in another memory layout, same dtype/shape/contents: C-contiguous, F-contiguous, or a non-contiguous view
    (every other row of an array twice as long) — what a caller may legitimately hand over (a slice of his data)"""
    if not isinstance(a, np.ndarray) or a.ndim == 0 or a.size == 0:
        return a
    if mode == "C":
        return np.ascontiguousarray(a)
    if mode == "F":
        return np.asfortranarray(a)
    if mode == "strided":
        big = np.zeros((2 * a.shape[0],) + tuple(a.shape[1:]), dtype=a.dtype)
        big[::2] = a
        return big[::2]
    if mode == "Tview":
        if a.ndim >= 2:
            return np.ascontiguousarray(a.T).T
        big = np.concatenate([a, a])
        return big[:a.shape[0]]
    if mode == "negstride":
        return a[::-1].copy()[::-1]
    if mode == "readonly":
        return a
    raise ValueError(mode)


def freeze(np, x, name="x"):
    """write=False on every array reachable from x (the caller's operand is a read-only array / built on one)"""
    n = 0
    for _p, a in reach(np, x, name)[0]:
        if a.flags.writeable:
            a.setflags(write=False)
            n += 1
    return n


def relayout(np, x, mode, depth=0):
    """apply `lay` to every array a caller can choose the layout of: bare ndarrays, ndarrays in lists, ktensor / ttensor
    factor matrices and weights (assignable, and C-ordered after normalize), sptensor / sptenmat subs and vals (what a
    copy=False construction stores as given).  tensor.data / tenmat.data are always converted to F order by their
    constructors and are left alone.  Returns the (possibly replaced) object."""
    if depth > 4:
        return x
    if isinstance(x, np.ndarray):
        return lay(np, x, mode)
    if isinstance(x, list):
        for k in range(len(x)):
            x[k] = relayout(np, x[k], mode, depth + 1)
        return x
    if not _is_pyttb(x):
        return x
    tn = type(x).__name__
    if tn in ("ktensor", "ttensor"):
        x.factor_matrices = [lay(np, f, mode) for f in x.factor_matrices]
        if tn == "ktensor":
            x.weights = lay(np, x.weights, mode)
        else:
            relayout(np, x.core, mode, depth + 1)
    elif tn in ("sptensor", "sptenmat"):
        x.subs = lay(np, x.subs, mode)
        x.vals = lay(np, x.vals, mode)
    elif tn in ("tensor", "tenmat") and mode == "Tview":
        x.data = lay(np, x.data, mode)          # still F-contiguous (the class invariant), but a window onto another base
    elif tn == "sumtensor":
        for p in x.parts:
            relayout(np, p, mode, depth + 1)
    return x
