"""W4GEN — differential stream for the fourth translator batch (Gen/GenKtensor4.v; Np/NpZ4.v): whole ktensor methods generated
from /repo/pyttb/ktensor.py (permute, extract, arrange, tovec, update) and the new Np primitives are run against pyttb / numpy /
Python on the same explicit inputs (same shape as w3gen.py / c17.py).

Ops: permute, extract, arrange (normalize is an oracle: pyttb's own normalize() on a copy supplies its answer), tovec, update
(generated methods vs pyttb.ktensor) and prim4_* (Np/NpZ4.v primitives vs the Python / numpy construct they stand for)."""
import itertools
from vcheck import Case, gz, gzlist, gzmat, gopt, gbool, gblist

PROP = "W4GEN"
LEVEL = "proof"
GEN_UNITS = ["GenKtensor4", "GenKtensor4b", "GenSptensor4", "GenSptensor4b", "GenSptensor4c", "GenSptensor4d", "GenUtils3", "GenUtils", "GenUtils2", "GenKernels", "GenMethods2"]
COQ_TARGETS = ["Props/W4C08.vo", "Props/W4C08b.vo", "Props/W4C08c.vo", "Props/W4C08d.vo", "Props/W4C07.vo", "Props/W4C07b.vo", "Props/W4C07c.vo", "Props/W4C07d.vo", "Props/W4C04.vo", "Model/W4Harness.vo", "Model/W4Harness2.vo", "Model/Harness.vo"]
THEOREM_FILES = ["Props/W4C08.v", "Props/W4C08b.v", "Props/W4C08c.v", "Props/W4C08d.v", "Props/W4C07.v", "Props/W4C07b.v", "Props/W4C07c.v", "Props/W4C07d.v", "Props/W4C04.v"]
COQ_IMPORTS = ("From Coq Require Import List ZArith Bool.\n"
               "From PV Require Import Np.NpZ Np.NpZ2 Np.NpZ3 Np.NpZ3c Np.NpZ3d Np.NpZ3e Np.NpZ4 Np.NpZ4b Np.NpZ4c Np.NpZ4d Np.NpZ4e Np.NpZ4f Gen.GenUtils3 Gen.GenKtensor4 Gen.GenKtensor4b Gen.GenSptensor4 Gen.GenSptensor4b Gen.GenSptensor4c Gen.GenSptensor4d Model.Harness Model.W4Sptensor Model.W4Harness2 "
               "Model.W4Harness.\n")
RULE = ("small Kruskal tensors (1-4 modes, 0-4 components, sizes 1-3, integer-valued float data, C- / F-ordered / strided factor "
        "buffers) x every argument family incl. malformed ones (non-permutations, repeated / negative / out-of-range component "
        "indices, wrong lengths, None / int / slice keys, short and long data vectors, unsorted modes); a case is non-trivial "
        "unless the tensor has no component; distinct = distinct (op, arguments)")
EXPLANATION = ("Theorems (Props/W4C08.v) are stated over Gen/GenKtensor4.v, regenerated from pyttb/ktensor.py on this run; the "
               "correspondence stream runs the same generated methods and every Np/NpZ4.v primitive against pyttb / numpy.")
SHARD = 300
ASSUMPTIONS = ["np.argsort is modelled by the stable insertion sort np_argsort of Np/NpZ.v; numpy's default sort is not stable (SIMD "
               "quicksort), so the arrange() sort branch is compared only when the normalized weights are pairwise distinct"]
CORRESPONDENCE_ONLY = []


# ------------------------------------------------------------------------------------------------- literals
def gslice(s):
    return f"(mkslice {gopt(s[0], gz)} {gopt(s[1], gz)} {gopt(s[2], gz)})"


def gix(x):
    k = x[0]
    if k == "int":
        return f"(IxInt {gz(x[1])})"
    if k == "slice":
        return f"(IxSlice {gslice(x[1:4])})"
    if k == "list":
        return f"(IxSeq {gzlist(x[1])})"
    if k == "arr":
        return f"(IxArr {gzlist(x[1])})"
    return "IxNone"


def gmatlist(ms):
    return "(@nil (list (list Z)))" if not ms else "[" + "; ".join(gzmat(m) for m in ms) + "]"


def gkt(k):
    return f"(mkkt {gzlist(k['w'])} {gmatlist(k['f'])})"


def gixlist(l):
    return "(@nil pyidx)" if not l else "[" + "; ".join(gix(x) for x in l) + "]"


def gspt(t):
    return f"(mkspt {gzmat(t['subs'])} {gzlist(t['vals'])} {gzlist(t['shape'])})"


# ------------------------------------------------------------------------------------------------- python values
def py_ix(np, x):
    k = x[0]
    if k == "int":
        return int(x[1])
    if k == "slice":
        return slice(x[1], x[2], x[3])
    if k == "list":
        return list(x[1])
    if k == "arr":
        return np.array(x[1], dtype=int)
    return None


def _fmat(np, m, R, layout):
    """float matrix with len(m) rows and R columns in one of the buffer layouts a user may hand in"""
    a = np.array(m, dtype=float).reshape((len(m), R))
    if layout == 1:
        a = np.asfortranarray(a)
    elif layout == 2:      # non-contiguous view
        big = np.zeros((len(m), 2 * R + 1))
        big[:, :2 * R:2] = a
        a = big[:, :2 * R:2]
    elif layout == 3:      # transposed view of a C buffer
        a = np.ascontiguousarray(a.T).T
    return a


def py_kt(np, ttb, k, layout=0):
    R = len(k["w"])
    K = ttb.ktensor([_fmat(np, m, R, layout) for m in k["f"]], np.array(k["w"], dtype=float))
    if layout:           # the constructor copies into F order; put the requested buffers back as a user assignment would
        for i, m in enumerate(k["f"]):
            K.factor_matrices[i] = _fmat(np, m, R, layout)
    return K


def py_spt(np, ttb, t, layout=0):
    N = len(t["shape"])
    if not t["subs"]:
        return ttb.sptensor(shape=tuple(t["shape"]))
    subs = np.array(t["subs"], dtype=int).reshape((len(t["subs"]), N))
    vals = np.array(t["vals"], dtype=float).reshape((len(t["vals"]), 1))
    if layout == 1:
        subs = np.asfortranarray(subs)
    elif layout == 2:
        big = np.zeros((len(t["subs"]), 2 * N + 1), dtype=int)
        big[:, :2 * N:2] = subs
        subs = big[:, :2 * N:2]
    return ttb.sptensor(subs, vals, tuple(t["shape"]))


def obs_spt(np, S):
    subs = np.asarray(S.subs)
    vals = _ints(np, np.asarray(S.vals).reshape(-1))
    if vals is None:
        return None
    return {"subs": [] if subs.size == 0 else _ints(np, subs), "vals": vals, "shape": [int(d) for d in S.shape]}


def rand_spt(rng):
    N = rng.choice([1, 2, 2, 3, 3, 4])
    shape = [rng.randint(1, 4) for _ in range(N)]
    nnz = rng.choice([0, 0, 1, 2, 3, 5])
    subs = [[rng.randrange(d) for d in shape] for _ in range(nnz)]
    vals = [rng.choice([-3, -2, -1, 0, 1, 2, 3, 4]) for _ in range(nnz)]
    return {"subs": subs, "vals": vals, "shape": shape}


def rand_key(rng, d):
    r = rng.random()
    if r < 0.25:
        return ["int", rng.randint(-1, d)]
    if r < 0.55:
        return [rng.choice(["list", "arr"]), [rng.randint(-1, d) for _ in range(rng.randint(0, d + 1))]]
    if r < 0.93:
        b = [None] + list(range(-d - 1, d + 2))
        return ["slice", rng.choice(b), rng.choice(b), rng.choice([None, None, 1, 2, -1, -2, 0])]
    return ["none"]


def _ints(np, a):
    a = np.asarray(a)
    if a.size and not np.all(a == np.round(a)):
        return None
    return a.astype(int).tolist()


def obs_kt(np, K):
    w = _ints(np, K.weights)
    fs = [_ints(np, m) for m in K.factor_matrices]
    if w is None or any(f is None for f in fs) or np.asarray(K.weights).ndim != 1 or any(np.asarray(m).ndim != 2 for m in K.factor_matrices):
        return None
    return {"w": w, "f": fs}


# ------------------------------------------------------------------------------------------------- generators
def rand_kt(rng, monomial=False, minR=0):
    nd = rng.choice([1, 2, 2, 3, 3, 4])
    R = rng.choice([0, 1, 2, 2, 3, 3, 4]) if minR == 0 else rng.randint(minR, 4)
    fs = []
    for _ in range(nd):
        rows = rng.randint(1, 3)
        if monomial:      # every column has at most one non-zero entry: normalize() keeps the data integer-valued
            m = [[0] * R for _ in range(rows)]
            for r in range(R):
                if rng.random() < 0.9:
                    m[rng.randrange(rows)][r] = rng.choice([-3, -2, -1, 1, 2, 3])
        else:
            m = [[rng.randint(-3, 4) for _ in range(R)] for _ in range(rows)]
        fs.append(m)
    if monomial:          # mostly distinct magnitudes: the tie order of numpy's default argsort is not modelled
        w = rng.sample([-7, -6, -5, -4, -3, -2, -1, 0, 1, 2, 3, 4, 5, 6, 7], R)
    else:
        w = [rng.choice([-2, -1, 0, 1, 1, 2, 3, 3]) for _ in range(R)]
    return {"w": w, "f": fs}


def gen_cases(rng, tier):
    big = tier == "thorough"
    n = 700 if big else 220
    cases = []
    # --- permute: every order of range(nd) for small nd, plus malformed orders
    for _ in range(n):
        k = rand_kt(rng)
        nd = len(k["f"])
        lay = rng.randrange(4)
        orders = [list(p) for p in itertools.permutations(range(nd))] if nd <= 3 else [rng.sample(range(nd), nd) for _ in range(4)]
        for o in rng.sample(orders, min(len(orders), 3)):
            cases.append(Case("permute", {"kt": k, "order": o, "as": rng.choice(["list", "tuple", "arr"]), "layout": lay}, bool(k["w"])))
        bad = [rng.randint(-nd, nd + 1) for _ in range(rng.choice([max(nd - 1, 0), nd, nd, nd + 1]))]
        cases.append(Case("permute", {"kt": k, "order": bad, "as": rng.choice(["list", "arr"]), "layout": lay}, bool(k["w"])))
    # --- extract
    for _ in range(n):
        k = rand_kt(rng)
        R = len(k["w"])
        lay = rng.randrange(4)
        keys = [["none"], ["int", rng.randint(-R - 1, R + 1)], ["slice", None, None, None], ["slice", 0, 1, None]]
        for _ in range(3):
            cnt = rng.randint(0, R + 1)
            good = rng.random() < 0.7
            l = [rng.randrange(R) for _ in range(cnt)] if (good and R) else [rng.randint(-R - 1, R + 1) for _ in range(cnt)]
            keys.append([rng.choice(["list", "arr"]), l])
        if R:
            keys.append([rng.choice(["list", "arr"]), rng.sample(range(R), R)])
        for key in keys:
            cases.append(Case("extract", {"kt": k, "idx": key, "layout": lay}, bool(k["w"])))
    # --- arrange: permutation branch, sort branch (monomial columns keep normalize() integer-valued), both / malformed
    for _ in range(n):
        k = rand_kt(rng, monomial=True)
        R, nd = len(k["w"]), len(k["f"])
        lay = rng.randrange(4)
        perms = [["none"], ["none"], ["int", rng.randint(0, R)], ["slice", None, None, None]]
        if R:
            perms.append([rng.choice(["list", "arr"]), rng.sample(range(R), R)])
            perms.append([rng.choice(["list", "arr"]), rng.sample(range(R), R)])
        perms.append([rng.choice(["list", "arr"]), [rng.randint(-1, R) for _ in range(rng.choice([R, R, max(R - 1, 0), R + 1]))]])
        for p in perms:
            wf = rng.choice([None, None, None, rng.randrange(nd), rng.randint(-nd - 1, nd)])
            if p[0] in ("list", "arr") and rng.random() < 0.8:
                wf = None
            cases.append(Case("arrange", {"kt": k, "wf": wf, "perm": p, "layout": lay}, bool(k["w"])))
    # --- tovec / update
    for _ in range(n):
        k = rand_kt(rng)
        R, nd = len(k["w"]), len(k["f"])
        lay = rng.randrange(4)
        cases.append(Case("tovec", {"kt": k, "incl": rng.random() < 0.5, "layout": lay}, bool(k["w"])))
        shape = [len(m) for m in k["f"]]
        modes = sorted(rng.sample(range(-1, nd), rng.randint(0, nd + 1)))
        r = rng.random()
        if r < 0.12:
            rng.shuffle(modes)
        elif r < 0.2:
            modes = modes + [rng.choice([nd, nd + 1])]
        elif r < 0.3 and nd >= 2:
            modes = [-2] + [m for m in modes if m >= 0]
        elif r < 0.36 and modes:
            modes = modes + [modes[-1]]
        need = sum(R if m == -1 else (shape[m] * R if -nd <= m < nd else 0) for m in modes)
        ln = need if rng.random() < 0.7 else max(0, need + rng.choice([-2, -1, 1, 3]))
        data = [rng.randint(-9, 9) for _ in range(ln)]
        cases.append(Case("update", {"kt": k, "modes": modes, "data": data, "layout": lay}, bool(k["w"])))
    # --- from_vector (1-d data; mode sizes >= 1: a factor without rows is not representable as a row list)
    for _ in range(n):
        shape = [rng.randint(1, 3) for _ in range(rng.choice([0, 1, 2, 2, 3]))]
        cw = rng.random() < 0.5
        d = sum(shape) + (1 if cw else 0)
        R = rng.choice([0, 1, 2, 3])
        ln = R * d if rng.random() < 0.75 else rng.randint(0, 3 * d + 2)
        cases.append(Case("from_vector", {"data": [rng.randint(-9, 9) for _ in range(ln)], "shape": shape, "cw": cw}, ln > 0))
        a_, b_ = rng.randint(0, 12), rng.randint(-3, 4)
        cases.append(Case("prim4c_rat", {"a": a_, "b": b_, "v": [rng.randint(-2, 2) for _ in range(rng.randint(0, 3))]}, True))
    # --- sptensor: ones / permute / subdims
    for _ in range(n):
        t = rand_spt(rng)
        N = len(t["shape"])
        lay = rng.randrange(3)
        cases.append(Case("sp_ones", {"t": t, "layout": lay}, bool(t["subs"])))
        cases.append(Case("sp_logical_not", {"t": t, "layout": lay}, bool(t["subs"])))
        t2 = dict(t)
        if rng.random() < 0.6:        # singleton modes (some / all)
            sh = [d if rng.random() < 0.5 else 1 for d in t["shape"]] if rng.random() < 0.7 else [1] * N
            t2 = {"subs": [[min(x, d - 1) for x, d in zip(row, sh)] for row in t["subs"]], "vals": t["vals"], "shape": sh}
        cases.append(Case("sp_squeeze", {"t": t2, "layout": lay}, bool(t2["subs"])))
        # wave 6: modes of size 0 (only an empty tensor has them) next to singletons / larger modes.  /repo reads `shapeArray > 1`
        # up to fix f390850 (the size-0 mode is dropped) and `shapeArray != 1` after it (kept): generated text and pyttb are compared
        # on whichever tree is under test.
        sh0 = [rng.choice([0, 0, 1, 1, 2, 3]) for _ in range(N)]
        # (the sptensor constructor rejects such a shape: the receiver is made the way they arise, tensor.to_sptensor())
        cases.append(Case("sp_squeeze", {"t": {"subs": [], "vals": [], "shape": sh0}, "layout": 0, "via": "dense"}, False))
        orders = [list(p) for p in itertools.permutations(range(N))] if N <= 3 else [rng.sample(range(N), N) for _ in range(4)]
        for o in rng.sample(orders, min(len(orders), 2)):
            cases.append(Case("sp_permute", {"t": t, "order": o, "as": rng.choice(["list", "tuple", "arr"]), "layout": lay}, bool(t["subs"])))
        bad = [rng.randint(-N, N + 1) for _ in range(rng.choice([max(N - 1, 0), N, N, N + 1]))]
        cases.append(Case("sp_permute", {"t": t, "order": bad, "as": rng.choice(["list", "arr"]), "layout": lay}, bool(t["subs"])))
        # boolean orders (/repo 9c8fdd5): 0/1 vectors handed over with dtype bool — the ones that sort to range(N) included
        bo = rng.choice([p_ for p_ in orders if all(x in (0, 1) for x in p_)] or [[rng.randint(0, 1) for _ in range(N)]])
        if rng.random() < 0.3:
            bo = [rng.randint(0, 1) for _ in range(rng.choice([N, N, max(N - 1, 0), N + 1]))]
        cases.append(Case("sp_permute", {"t": t, "order": bo, "as": rng.choice(["blist", "barr", "btuple"]), "layout": lay}, bool(t["subs"])))
        # reshape: all modes / a subset (any order) folded into a random factorisation of their element count; malformed:
        # mode numbers outside [0, N) (negative ones included: /repo b27c529), negative sizes, changed element count
        for _ in range(3):
            if rng.random() < 0.4:
                om, oas = None, "none"
            else:
                om = rng.sample(range(N), rng.randint(1 if rng.random() < 0.9 else 0, N))
                oas = "int" if len(om) == 1 and rng.random() < 0.5 else ("arr" if not om else rng.choice(["list", "arr", "tuple"]))
            cnt = 1
            for j in (range(N) if om is None else om):
                cnt *= t["shape"][j]
            ns = _factorisation(rng, cnt)
            r = rng.random()
            if r < 0.1 and om:
                om = list(om)
                om[rng.randrange(len(om))] = rng.choice([-1, -2, -N, N, N + 1])
                oas = "arr" if oas == "int" and rng.random() < 0.5 else oas
            elif r < 0.18:
                ns = ns + [rng.choice([2, 3])] if rng.random() < 0.5 else [d + 1 for d in ns] or [2]
            elif r < 0.24:
                ns = [-d for d in ns] if len(ns) % 2 == 0 and ns else [-1] + ns
            elif r < 0.28 and om:
                om = list(om) + [om[0]]          # a repeated mode (pyttb does not reject it: model = code)
                oas = rng.choice(["list", "arr"])
            cases.append(Case("sp_reshape", {"t": t, "new": ns, "nas": rng.choice(["tuple", "list", "arr"]), "old": om, "oas": oas,
                                             "layout": lay}, bool(t["subs"])))
        for _ in range(3):
            region = [rand_key(rng, d) for d in t["shape"]]
            if rng.random() < 0.06:
                region = region[:-1] if rng.random() < 0.5 else region + [["int", 0]]
            cases.append(Case("sp_subdims", {"t": t, "region": region, "as": rng.choice(["list", "tuple"]), "layout": lay}, bool(t["subs"])))
    # --- primitives of Np/NpZ4b.v
    for _ in range(500 if big else 150):
        N = rng.randint(1, 3)
        shape = [rng.randint(1, 3) for _ in range(N)]
        nnz = rng.choice([0, 1, 2, 3])
        cols = N if rng.random() < 0.85 else rng.randint(1, 4)
        subs = [[(rng.randrange(shape[j]) if j < N and rng.random() < 0.9 else rng.randint(-1, 3)) for j in range(cols)] for _ in range(nnz)]
        nv = nnz if rng.random() < 0.85 else rng.randint(0, 3)
        cases.append(Case("prim4b_spt_make", {"subs": subs, "vals": [rng.randint(-2, 2) for _ in range(nv)], "shape": shape, "cols": cols}, True))
        a1 = [rng.randint(0, 2) for _ in range(rng.randint(0, 3))]
        b1 = list(a1) if rng.random() < 0.3 else [rng.randint(0, 2) for _ in range(rng.choice([len(a1), len(a1), 1, len(a1) + 1]))]
        cases.append(Case("prim4b_eq_vv", {"a": a1, "b": b1}, True))
        cases.append(Case("prim4b_isin_ix", {"a": [rng.randint(-1, 3) for _ in range(rng.randint(0, 4))], "x": rand_key(rng, 3)}, True))
    # --- primitives of Np/NpZ4.v
    m4 = 500 if big else 150
    for _ in range(m4):
        a = [rng.randint(0, 2) for _ in range(rng.randint(0, 3))]
        b = list(a) if rng.random() < 0.4 else [rng.randint(0, 2) for _ in range(rng.randint(0, 3))]
        cases.append(Case("prim4_seq_eq", {"a": a, "b": b}, True))
        cases.append(Case("prim4_seqops", {"a": [rng.randint(-4, 4) for _ in range(rng.randint(0, 5))]}, True))
        # constructor: column counts / weight length may disagree, the list may be empty
        R = rng.randint(0, 3)
        fs = [[[rng.randint(-2, 2) for _ in range(R if rng.random() < 0.85 else rng.randint(0, 3))] for _ in range(rng.randint(1, 3))]
              for _ in range(rng.randint(0, 3))]
        fs = [[row[:len(m[0])] + [0] * (len(m[0]) - len(row)) for row in m] for m in fs]
        w = [rng.randint(-2, 2) for _ in range(R if rng.random() < 0.8 else rng.randint(0, 3))]
        cases.append(Case("prim4_kt_make", {"f": fs, "w": w, "copy": rng.random() < 0.5}, True))
        rows, cols = rng.randint(1, 3), rng.randint(0, 3)
        m = [[rng.randint(-4, 4) for _ in range(cols)] for _ in range(rows)]
        v = [rng.randint(-cols - 1, cols) for _ in range(rng.randint(0, 3))]
        cases.append(Case("prim4_cols", {"m": m, "v": v, "as": rng.choice(["list", "arr"])}, True))
        wv = [rng.randint(-3, 3) for _ in range(rng.choice([cols, cols, 1, cols + 1, 0]))]
        cases.append(Case("prim4_mul_cols", {"m": m, "w": wv}, True))
        a1 = [rng.randint(-2, 2) for _ in range(rng.randint(0, 3))]
        b1 = [rng.randint(-2, 2) for _ in range(rng.choice([len(a1), len(a1), 1, len(a1) + 1]))]
        cases.append(Case("prim4_le_vv", {"a": a1, "b": b1}, True))
        nx = rng.randint(0, 5)
        x = [rng.randint(1, 9) for _ in range(nx)]
        lo = rng.choice([None] + list(range(-nx - 2, nx + 3)))
        hi = rng.choice([None] + list(range(-nx - 2, nx + 3)))
        span = len(range(nx)[slice(lo, hi)])
        vv = [rng.randint(-9, -1) for _ in range(rng.choice([span, span, 1, span + 1, 0]))]
        cases.append(Case("prim4_set_slice", {"x": x, "lo": lo, "hi": hi, "v": vv}, True))
        aa, bb = rng.randint(0, 3), rng.randint(0, 3)
        vlen = aa * bb if rng.random() < 0.8 else rng.randint(0, 9)
        cases.append(Case("prim4_reshape2", {"v": [rng.randint(-9, 9) for _ in range(vlen)], "a": aa, "b": bb,
                                             "order": rng.choice(["F", "C"])}, True))
        cases.append(Case("prim4_kt_shape", {"kt": rand_kt(rng)}, True))
        ra, rb = rng.randint(1, 3), rng.randint(1, 3) if rng.random() < 0.8 else 0
        ma = [[rng.randint(-5, 5) for _ in range(rng.randint(0, 2))] * 1 for _ in range(ra)]
        wa = len(ma[0])
        ma = [(row + [0] * wa)[:wa] for row in ma]
        wb = rng.randint(0, 2)
        mb = [[rng.randint(-5, 5) for _ in range(wb)] for _ in range(rb if rb else ra)]
        if rng.random() < 0.75:
            mb = (mb * 3)[:ra]
        cases.append(Case("prim5_hstack", {"a": ma, "b": mb, "wa": wa, "wb": wb}, True))
        cases.append(Case("prim5_ge_s", {"v": [rng.randint(-4, 4) for _ in range(rng.randint(0, 5))], "c": rng.randint(-3, 3)}, True))
        # primitives of Np/NpZ4f.v (translator option "m6"): ndarray != int, ndarray == int
        v6 = [rng.randint(-2, 3) for _ in range(rng.randint(0, 5))]
        cases.append(Case("prim6_ne_s", {"v": v6, "c": rng.randint(-2, 3)}, True))
        cases.append(Case("prim6_eq_s", {"v": v6, "c": rng.randint(-2, 3)}, True))
    return cases


def _factorisation(rng, n):
    """a random list of sizes with product n (n >= 0); sometimes with extra 1s; [] possible for n = 1"""
    if n == 0:
        return [0] + [rng.randint(1, 3) for _ in range(rng.randint(0, 2))]
    out = []
    while n > 1:
        ds = [d for d in range(2, n + 1) if n % d == 0]
        d = rng.choice(ds) if rng.random() < 0.6 else ds[0]
        out.append(d)
        n //= d
    for _ in range(rng.choice([0, 0, 1, 2])):
        out.insert(rng.randint(0, len(out)), 1)
    rng.shuffle(out)
    if not out and rng.random() < 0.7:
        out = [1]
    return out


def _order_isbool(a):
    """dtype of parse_one_d(order) is bool: a boolean ndarray, or a NON-EMPTY list / tuple of Python bools (np.array([]) is float64)"""
    return a["as"] == "barr" or (a["as"] in ("blist", "btuple") and len(a["order"]) > 0)


# ------------------------------------------------------------------------------------------------- pyttb side
def run_impl(c):
    import warnings
    import logging
    import numpy as np
    logging.disable(logging.WARNING)
    import pyttb as ttb
    a = c.args
    warnings.simplefilter("ignore")
    try:
        if c.op == "permute":
            K = py_kt(np, ttb, a["kt"], a["layout"])
            o = {"list": list, "tuple": tuple, "arr": lambda l: np.array(l, dtype=int)}[a["as"]](a["order"])
            r = obs_kt(np, K.permute(o))
            return {"ok": r} if r is not None else {"bad": "non-integer result"}
        if c.op == "extract":
            K = py_kt(np, ttb, a["kt"], a["layout"])
            r = obs_kt(np, K.extract(py_ix(np, a["idx"])))
            return {"ok": r} if r is not None else {"bad": "non-integer result"}
        if c.op == "arrange":
            K = py_kt(np, ttb, a["kt"], a["layout"])
            K1 = py_kt(np, ttb, a["kt"], a["layout"])
            try:
                K1.normalize()
                k1 = obs_kt(np, K1)
            except Exception:
                k1 = "exc"
            try:
                K.arrange(weight_factor=a["wf"], permutation=py_ix(np, a["perm"]))
            except Exception as ex:
                return {"exc": type(ex).__name__, "k1": k1}
            r = obs_kt(np, K)
            if r is None or k1 is None:
                return {"bad": "non-integer result"}
            return {"ok": r, "k1": k1}
        if c.op == "tovec":
            K = py_kt(np, ttb, a["kt"], a["layout"])
            v = K.tovec(include_weights=a["incl"])
            r = _ints(np, v)
            return {"ok": r} if r is not None and np.asarray(v).ndim == 1 else {"bad": "non-integer result"}
        if c.op == "update":
            K = py_kt(np, ttb, a["kt"], a["layout"])
            before = obs_kt(np, K)
            try:
                K.update(a["modes"], np.array(a["data"], dtype=float))
            except Exception as ex:      # /repo b9311d6: a rejected request must leave the receiver as it was
                return {"exc": type(ex).__name__, "receiver_changed": obs_kt(np, K) != before}
            r = obs_kt(np, K)
            return {"ok": r} if r is not None else {"bad": "non-integer result"}
        if c.op == "from_vector":
            K = ttb.ktensor.from_vector(np.array(a["data"], dtype=float), tuple(a["shape"]), a["cw"])
            r = obs_kt(np, K)
            return {"ok": r} if r is not None else {"bad": "non-integer result"}
        if c.op == "prim4c_rat":
            import pyttb.pyttb_utils as U
            q = a["a"] / a["b"]
            v = np.array(a["v"], dtype=float)
            return {"ok": [round(q) != q, int(q) if round(q) == q else None, bool(U.isvector(v)), bool(U.isrow(v)), _ints(np, v.T)]}
        if c.op == "sp_ones":
            r = obs_spt(np, py_spt(np, ttb, a["t"], a["layout"]).ones())
            return {"ok": r} if r is not None else {"bad": "non-integer result"}
        if c.op == "sp_logical_not":
            r = obs_spt(np, py_spt(np, ttb, a["t"], a["layout"]).logical_not())
            return {"ok": r} if r is not None else {"bad": "non-integer result"}
        if c.op == "sp_squeeze":
            if a.get("via") == "dense":
                r = ttb.tensor(np.zeros(tuple(a["t"]["shape"]))).to_sptensor().squeeze()
            else:
                r = py_spt(np, ttb, a["t"], a["layout"]).squeeze()
            if isinstance(r, ttb.sptensor):
                o_ = obs_spt(np, r)
                return {"ok": {"t": o_}} if o_ is not None else {"bad": "non-integer result"}
            return {"ok": {"v": int(r)}} if float(r) == int(r) else {"bad": "non-integer result"}
        if c.op == "sp_permute":
            o = {"list": list, "tuple": tuple, "arr": lambda l: np.array(l, dtype=int), "blist": lambda l: [bool(x) for x in l],
                 "btuple": lambda l: tuple(bool(x) for x in l), "barr": lambda l: np.array(l, dtype=bool)}[a["as"]](a["order"])
            r = obs_spt(np, py_spt(np, ttb, a["t"], a["layout"]).permute(o))
            return {"ok": r} if r is not None else {"bad": "non-integer result"}
        if c.op == "sp_reshape":
            mk = {"list": list, "tuple": tuple, "arr": lambda l: np.array(l, dtype=int), "int": lambda l: int(l[0]), "none": lambda l: None}
            r = obs_spt(np, py_spt(np, ttb, a["t"], a["layout"]).reshape(mk[a["nas"]](a["new"]), mk[a["oas"]](a["old"])))
            return {"ok": r} if r is not None else {"bad": "non-integer result"}
        if c.op == "prim5_hstack":
            A = np.array(a["a"], dtype=int).reshape((len(a["a"]), a["wa"]))
            B = np.array(a["b"], dtype=int).reshape((len(a["b"]), a["wb"]))
            return {"ok": _ints(np, np.concatenate((A, B), axis=1))}
        if c.op == "prim5_ge_s":
            return {"ok": [bool(x) for x in (np.array(a["v"], dtype=int) >= a["c"])]}
        if c.op == "prim6_ne_s":
            return {"ok": [bool(x) for x in (np.array(a["v"], dtype=int) != a["c"])]}
        if c.op == "prim6_eq_s":
            return {"ok": [bool(x) for x in (np.array(a["v"], dtype=int) == a["c"])]}
        if c.op == "sp_subdims":
            reg = [py_ix(np, x) for x in a["region"]]
            r = py_spt(np, ttb, a["t"], a["layout"]).subdims(reg if a["as"] == "list" else tuple(reg))
            return {"ok": _ints(np, r)}
        if c.op == "prim4b_spt_make":
            subs = np.array(a["subs"], dtype=int).reshape((len(a["subs"]), a["cols"])) if a["subs"] else np.array([], dtype=int)
            vals = np.array(a["vals"], dtype=float).reshape((len(a["vals"]), 1))
            r = obs_spt(np, ttb.sptensor(subs, vals, tuple(a["shape"])))
            return {"ok": r}
        if c.op == "prim4b_eq_vv":
            r = np.array(a["a"], dtype=int) == np.array(a["b"], dtype=int)
            if not isinstance(r, np.ndarray):
                return {"exc": "not-elementwise"}
            v = np.array(a["a"], dtype=float)
            v.fill(7)
            return {"ok": [bool(x) for x in r.tolist()], "any_ne": bool(np.any(np.array(a["a"], dtype=int) != np.array(a["b"], dtype=int))),
                    "fill": _ints(np, v)}
        if c.op == "prim4b_isin_ix":
            x = py_ix(np, a["x"])
            if a["x"][0] == "slice":
                x = range(0, 3)[x]
            return {"ok": [bool(b) for b in np.isin(np.array(a["a"], dtype=int), x).tolist()]}
        if c.op == "prim4_seq_eq":
            return {"ok": [tuple(a["a"]) == tuple(a["b"]), list(a["a"]) == list(a["b"]), sorted(a["a"]) != list(range(len(a["a"])))]}
        if c.op == "prim4_seqops":
            arr = np.array(a["a"], dtype=int)
            return {"ok": [int(sum(a["a"])), sorted(arr.tolist()), _ints(np, arr[::-1]), _ints(np, -arr), _ints(np, np.ones_like(arr)),
                           _ints(np, np.argsort(arr)[::-1]) if len(set(a["a"])) == len(a["a"]) else None,
                           [bool(x) for x in (arr > 1).tolist()], _ints(np, np.where(arr > 1)[0]), _ints(np, arr[np.where(arr > 1)[0]])]}
        if c.op == "prim4_kt_make":
            fs = [np.array(m, dtype=float).reshape((len(m), len(m[0]))) for m in a["f"]]
            K = ttb.ktensor(fs, np.array(a["w"], dtype=float), copy=a["copy"])
            return {"ok": obs_kt(np, K)}
        if c.op == "prim4_cols":
            m = np.array(a["m"], dtype=float).reshape((len(a["m"]), len(a["m"][0])))
            v = list(a["v"]) if a["as"] == "list" else np.array(a["v"], dtype=int)
            return {"ok": _ints(np, m[:, v])}
        if c.op == "prim4_mul_cols":
            m = np.array(a["m"], dtype=float).reshape((len(a["m"]), len(a["m"][0])))
            m *= np.array(a["w"], dtype=float)
            return {"ok": _ints(np, m)}
        if c.op == "prim4_le_vv":
            r = np.array(a["a"], dtype=int) <= np.array(a["b"], dtype=int)
            return {"ok": [bool(x) for x in r.tolist()], "all": bool(np.all(r)),
                    "lt": [bool(x) for x in (np.array(a["a"], dtype=int) < np.array(a["b"], dtype=int)).tolist()]}
        if c.op == "prim4_set_slice":
            x = np.array(a["x"], dtype=float)
            x[a["lo"]:a["hi"]] = np.array(a["v"], dtype=float)
            return {"ok": _ints(np, x), "get": _ints(np, np.array(a["x"], dtype=float)[a["lo"]:a["hi"]])}
        if c.op == "prim4_reshape2":
            return {"ok": _ints(np, np.reshape(np.array(a["v"], dtype=float), (a["a"], a["b"]), order=a["order"]))}
        if c.op == "prim4_kt_shape":
            K = py_kt(np, ttb, a["kt"])
            return {"ok": [int(x) for x in K.shape], "nd": int(K.ndims), "R": int(K.ncomponents), "order": K.order}
    except Exception as ex:
        return {"exc": type(ex).__name__}
    raise ValueError(c.op)


# ------------------------------------------------------------------------------------------------- model side
def _res(eqb, call, o, lit):
    if "bad" in o:
        return "false"
    exp = "Err" if "exc" in o else f"(Ok {lit(o['ok'])})"
    return f"res_eqb {eqb} ({call}) {exp}"


def _guarded(okexpr, eqexpr, o):
    """a primitive with a guard: Python raised <-> the guard is false; otherwise the values agree"""
    return f"negb ({okexpr})" if "exc" in o else f"({okexpr}) && ({eqexpr})"


def coq_check(c, o):
    a = c.args
    if c.op == "permute":
        return _res("w4_kt_eqb", f"ktensor_permute {gkt(a['kt'])} {gzlist(a['order'])}", o, gkt)
    if c.op == "extract":
        return _res("w4_kt_eqb", f"ktensor_extract {gkt(a['kt'])} {gix(a['idx'])}", o, gkt)
    if c.op == "arrange":
        if "bad" in o:
            return "false"
        k1 = o.get("k1")
        if a["perm"][0] in ("list", "arr"):
            orc = "(fun _ => Err)"          # the permutation branch must not consult normalize
        elif k1 == "exc":
            orc = "(fun _ => Err)"
        elif k1 is None:
            return None
        elif len(set(k1["w"])) != len(k1["w"]):
            return None                     # tied weights after normalize: numpy's default argsort is not stable (not modelled)
        else:
            orc = f"(fun _ => Ok {gkt(k1)})"
        return _res("w4_kt_eqb", f"ktensor_arrange {orc} {gkt(a['kt'])} {gopt(a['wf'], gz)} {gix(a['perm'])}", o, gkt)
    if c.op == "tovec":
        return _res("vec_eqb", f"ktensor_tovec {gkt(a['kt'])} {gbool(a['incl'])}", o, gzlist)
    if c.op == "update":
        if o.get("receiver_changed"):
            return "false"        # C08_gen_update_rejected_before_store: the generated text rejects before its first store
        return _res("w4_kt_eqb", f"ktensor_update {gkt(a['kt'])} {gzlist(a['modes'])} {gzlist(a['data'])}", o, gkt)
    if c.op == "from_vector":
        return _res("w4_kt_eqb", f"ktensor_from_vector tt {gzlist(a['data'])} {gzlist(a['shape'])} {gbool(a['cw'])}", o, gkt)
    if c.op == "prim4c_rat":
        if "exc" in o:
            return f"({gz(a['b'])} =? 0)%Z"
        r = o["ok"]
        q = f"(rat_div {gz(a['a'])} {gz(a['b'])})"
        V = gzlist(a["v"])
        parts = [f"negb ({gz(a['b'])} =? 0)%Z", f"Bool.eqb (negb (rat_is_int {q})) {gbool(r[0])}",
                 f"res_eqb Bool.eqb (isvector (nd_of_vec {V})) (Ok {gbool(r[2])})", f"res_eqb Bool.eqb (isrow (nd_of_vec {V})) (Ok {gbool(r[3])})",
                 f"vec_eqb {V} {gzlist(r[4])}"]
        if r[1] is not None:
            parts.append(f"(rat_int {q} =? {gz(r[1])})%Z")
        return " && ".join(parts)
    if c.op == "sp_ones":
        return _res("w4_spt_eqb", f"sptensor_ones {gspt(a['t'])}", o, gspt)
    if c.op == "sp_logical_not":
        return _res("w4_spt_eqb", f"sptensor_logical_not {gspt(a['t'])}", o, gspt)
    if c.op == "sp_squeeze":
        return _res("w4_sq_eqb", f"sptensor_squeeze {gspt(a['t'])}", o,
                    lambda r: f"(SqTensor {gspt(r['t'])})" if "t" in r else f"(SqScalar {gz(r['v'])})")
    if c.op == "sp_reshape":
        om = "None" if a["old"] is None else f"(Some {gzlist(a['old'])})"
        return _res("w4_spt_eqb", f"sptensor_reshape {gspt(a['t'])} {gzlist(a['new'])} {om}", o, gspt)
    if c.op == "prim5_hstack":
        call = f"{gzmat(a['a'])} {gzmat(a['b'])}"
        return _guarded(f"np_hstack_ok {call}", f"mat_eqb (np_hstack {call}) {gzmat(o['ok'])}" if "exc" not in o else "", o)
    if c.op == "prim5_ge_s":
        return f"bvec_eqb (np_ge_s {gzlist(a['v'])} {gz(a['c'])}) {gblist(o['ok'])}"
    if c.op in ("prim6_ne_s", "prim6_eq_s"):
        return f"bvec_eqb ({'np_ne_s' if c.op == 'prim6_ne_s' else 'np_eq_s'} {gzlist(a['v'])} {gz(a['c'])}) {gblist(o['ok'])}"
    if c.op == "sp_permute":
        isb = "true" if _order_isbool(a) else "false"      # the dtype flag of the generated function (order.dtype == bool)
        return _res("w4_spt_eqb", f"sptensor_permute {gspt(a['t'])} {gzlist(a['order'])} {isb}", o, gspt)
    if c.op == "sp_subdims":
        gen = f"sptensor_subdims {gspt(a['t'])} {gixlist(a['region'])}"
        ref = f"H_subdims {gspt(a['t'])} {gixlist(a['region'])}"
        return _res("vec_eqb", gen, o, gzlist) + " && " + _res("vec_eqb", ref, o, gzlist)
    if c.op == "prim4b_spt_make":
        call = f"{gzmat(a['subs'])} {gzlist(a['vals'])} {gzlist(a['shape'])}"
        if "exc" not in o and o["ok"] is None:
            return "false"
        return _guarded(f"spt_make_ok {call}", f"w4_spt_eqb (spt_make {call}) {gspt(o['ok'])}" if "exc" not in o else "", o)
    if c.op == "prim4b_eq_vv":
        call = f"{gzlist(a['a'])} {gzlist(a['b'])}"
        if "exc" in o:
            return f"negb (np_bcast_ok {call})"
        return (f"np_bcast_ok {call} && bvec_eqb (np_eq_vv {call}) {gblist(o['ok'])} && "
                f"Bool.eqb (np_any (map negb (np_eq_vv {call}))) {gbool(o['any_ne'])} && vec_eqb (np_fill {gzlist(a['a'])} 7%Z) {gzlist(o['fill'])}")
    if c.op == "prim4b_isin_ix":
        A = gzlist(a["a"])
        if a["x"][0] == "slice":
            if "exc" in o:
                return f"negb (slice_ok (ix_slice {gix(a['x'])}))"
            return (f"ix_is_slice {gix(a['x'])} && slice_ok (ix_slice {gix(a['x'])}) && "
                    f"bvec_eqb (np_isin {A} (py_slice 0%Z (np_arange 0%Z 3%Z) (ix_slice {gix(a['x'])}))) {gblist(o['ok'])}")
        return f"bvec_eqb (np_isin_ix {A} {gix(a['x'])}) {gblist(o['ok'])}"
    if c.op == "prim4_seq_eq":
        r = o["ok"]
        A, B = gzlist(a["a"]), gzlist(a["b"])
        return (f"Bool.eqb (zlist_eqb {A} {B}) {gbool(r[0])} && Bool.eqb (zlist_eqb {A} {B}) {gbool(r[1])} && "
                f"Bool.eqb (negb (zlist_eqb (np_sort {A}) (np_arange 0 (zlen {A})))) {gbool(r[2])}")
    if c.op == "prim4_seqops":
        r = o["ok"]
        A = gzlist(a["a"])
        parts = [f"(zsum {A} =? {gz(r[0])})%Z", f"vec_eqb (np_sort {A}) {gzlist(r[1])}", f"vec_eqb (rev {A}) {gzlist(r[2])}",
                 f"vec_eqb (map Z.opp {A}) {gzlist(r[3])}", f"vec_eqb (map (fun _ => 1%Z) {A}) {gzlist(r[4])}"]
        if r[5] is not None:
            parts.append(f"vec_eqb (rev (np_argsort {A})) {gzlist(r[5])}")
        parts += [f"bvec_eqb (np_gt_s {A} 1%Z) {gblist(r[6])}", f"vec_eqb (np_where1 (np_gt_s {A} 1%Z)) {gzlist(r[7])}",
                  f"vec_eqb (np_take 0%Z {A} (np_where1 (np_gt_s {A} 1%Z))) {gzlist(r[8])}"]
        return " && ".join(parts)
    if c.op == "prim4_kt_make":
        ok = f"kt_make_ok {gmatlist(a['f'])} {gzlist(a['w'])}"
        if "exc" not in o and o["ok"] is None:
            return "false"
        return _guarded(ok, f"w4_kt_eqb (kt_make {gmatlist(a['f'])} {gzlist(a['w'])}) {gkt(o['ok'])}" if "exc" not in o else "", o)
    if c.op == "prim4_cols":
        call = f"{gzmat(a['m'])} {gzlist(a['v'])}"
        v = a["v"]
        if a["as"] == "list":
            lit = f"(IxSeq {gzlist(v)})"
        else:
            lit = f"(IxArr {gzlist(v)})"
        seq = f"ix_len_ok {lit} && vec_eqb (ix_seq {lit}) {gzlist(v)}"
        return f"({seq}) && (" + _guarded(f"np_cols_ok {call}", f"mat_eqb (np_cols {call}) {gzmat(o.get('ok') or [])}", o) + ")"
    if c.op == "prim4_mul_cols":
        call = f"{gzmat(a['m'])} {gzlist(a['w'])}"
        return _guarded(f"np_mul_cols_ok {call}", f"mat_eqb (np_mul_cols {call}) {gzmat(o.get('ok') or [])}", o)
    if c.op == "prim4_le_vv":
        call = f"{gzlist(a['a'])} {gzlist(a['b'])}"
        if "exc" in o:
            return f"negb (np_bcast_ok {call})"
        return (f"np_bcast_ok {call} && bvec_eqb (np_le_vv {call}) {gblist(o['ok'])} && Bool.eqb (np_all (np_le_vv {call})) {gbool(o['all'])}"
                f" && bvec_eqb (np_lt_vv {call}) {gblist(o['lt'])}")
    if c.op == "prim4_set_slice":
        sl = f"(mkslice {gopt(a['lo'], gz)} {gopt(a['hi'], gz)} None)"
        call = f"{gzlist(a['x'])} {sl} {gzlist(a['v'])}"
        return _guarded(f"np_set_slice_ok {call}", f"vec_eqb (np_set_slice {call}) {gzlist(o.get('ok') or [])} && "
                        f"vec_eqb (py_slice 0%Z {gzlist(a['x'])} {sl}) {gzlist(o.get('get') or [])}", o)
    if c.op == "prim4_reshape2":
        call = f"{gzlist(a['v'])} {gz(a['a'])} {gz(a['b'])}"
        o_ = "OrdF" if a["order"] == "F" else "OrdC"
        return _guarded(f"np_reshape2_ok {call}", f"mat_eqb (np_reshape2 {o_} {call}) {gzmat(o.get('ok') or [])}", o)
    if c.op == "prim4_kt_shape":
        K = gkt(a["kt"])
        return (f"vec_eqb (kt_shape {K}) {gzlist(o['ok'])} && (kt_ndims {K} =? {gz(o['nd'])})%Z && (kt_ncomponents {K} =? {gz(o['R'])})%Z"
                f" && {gbool(o['order'] == 'F')}")
    raise ValueError(c.op)


# ------------------------------------------------------------------------------------------------- oracle
def oracle(c, o):
    """independent brute-force reading of what the properties demand of pyttb's own output (pure Python, no numpy)"""
    a = c.args
    if c.op == "permute":
        k, order = a["kt"], a["order"]
        nd = len(k["f"])
        if sorted(order) != list(range(nd)):
            return None if "exc" in o else f"a non-permutation {order} of the {nd} modes was accepted"
        if "ok" not in o:
            return f"a permutation of the modes was rejected ({o})"
        want = {"w": k["w"], "f": [k["f"][i] for i in order]}
        return None if o["ok"] == want else f"permute returned {o['ok']}, the factors in the requested order are {want}"
    if c.op == "extract":
        k, key = a["kt"], a["idx"]
        R = len(k["w"])
        if key[0] == "none":
            return None if o.get("ok") == k else f"extract() is not a copy: {o}"
        if key[0] == "slice":
            return None if "exc" in o else "a slice key was accepted"
        comps = [key[1]] if key[0] == "int" else key[1]
        if not (1 <= len(comps) <= R) or any(not (0 <= x < R) for x in comps):
            return None if "exc" in o else f"invalid component request {comps} (R = {R}) was accepted"
        if "ok" not in o:
            return f"valid component request {comps} rejected ({o})"
        want = {"w": [k["w"][x] for x in comps], "f": [[[row[x] for x in comps] for row in m] for m in k["f"]]}
        return None if o["ok"] == want else f"extract returned {o['ok']}, the selected components are {want}"
    if c.op == "arrange" and a["perm"][0] in ("list", "arr"):
        k, p = a["kt"], a["perm"][1]
        R = len(k["w"])
        if a["wf"] is not None or sorted(p) != list(range(R)):
            return None if "exc" in o else f"arrange(weight_factor={a['wf']}, permutation={p}) accepted (R = {R})"
        if "ok" not in o:
            return f"a permutation of the components was rejected ({o})"
        want = {"w": [k["w"][x] for x in p], "f": [[[row[x] for x in p] for row in m] for m in k["f"]]}
        return None if o["ok"] == want else f"arrange(permutation) returned {o['ok']}, expected {want}"
    if c.op == "arrange":
        if "ok" not in o or not isinstance(o.get("k1"), dict):
            return None
        k1, r = o["k1"], o["ok"]
        R = len(k1["w"])
        if a["wf"] is None:
            if r["w"] != sorted(k1["w"], reverse=True):
                return f"arrange(): weights {r['w']} are not the normalized weights {k1['w']} in descending order"
            comps = lambda k: sorted((k["w"][j], tuple(tuple(row[j] for row in m) for m in k["f"])) for j in range(R))
            return None if comps(r) == comps(k1) else "arrange(): the components are not those of the normalized tensor"
        return None
    if c.op == "from_vector":
        data, shape, cw = a["data"], a["shape"], a["cw"]
        d = sum(shape) + (1 if cw else 0)
        if d == 0 or len(data) % d:
            return None if "exc" in o else f"a data vector of length {len(data)} was accepted for shape {shape} (contains_weights={cw})"
        R = len(data) // d
        if not shape:
            return None
        if "ok" not in o:
            return f"a data vector of the right length was rejected ({o})"
        off = R if cw else 0
        fs = []
        for m in shape:
            fs.append([[data[off + i + m * r] for r in range(R)] for i in range(m)])
            off += m * R
        want = {"w": data[:R] if cw else [1] * R, "f": fs}
        return None if o["ok"] == want else f"from_vector returned {o['ok']}, expected {want}"
    if c.op == "sp_ones":
        t = a["t"]
        want = {"subs": t["subs"], "vals": [1] * len(t["vals"]), "shape": t["shape"]}
        return None if o.get("ok") == want else f"ones() returned {o}, expected {want}"
    if c.op == "sp_logical_not":
        t = a["t"]
        if "ok" not in o:
            return f"logical_not raised ({o})"
        stored = {tuple(r) for r in t["subs"]}
        allsubs = [[]]
        for d in reversed(t["shape"]):          # first mode fastest
            allsubs = [[i] + r for r in allsubs for i in range(d)]
        want = sorted(tuple(r) for r in allsubs if tuple(r) not in stored)
        got = o["ok"]
        if sorted(tuple(r) for r in got["subs"]) != want or len(set(map(tuple, got["subs"]))) != len(got["subs"]):
            return f"logical_not: pattern {got['subs']} is not the complement {want} of the stored pattern"
        if got["vals"] != [1] * len(got["subs"]) or got["shape"] != t["shape"]:
            return f"logical_not: values / shape {got['vals']} {got['shape']}"
        return None
    if c.op == "sp_squeeze":
        t = a["t"]
        if 0 in t["shape"]:
            # a mode of size 0 (finding N-C07-7 of C07, fix f390850 pending): the accepted behaviour keeps it (`!= 1`), /repo before
            # the fix drops it (`> 1`).  This oracle accepts exactly these two readings here; which one the tree under test
            # shows is judged by C07's comparer (status of the finding), the generated text is compared with pyttb either way.
            outs = []
            for keep in ([j for j, d in enumerate(t["shape"]) if d > 1], [j for j, d in enumerate(t["shape"]) if d != 1]):
                outs.append({"t": {"subs": [], "vals": [], "shape": [t["shape"][j] for j in keep]}} if keep else {"v": 0})
            return None if o.get("ok") in outs else f"squeeze returned {o}, expected one of {outs}"
        keep = [j for j, d in enumerate(t["shape"]) if d > 1]
        if not keep:
            if len(t["vals"]) > 1:
                return None          # several stored values for the one cell (duplicates handed to the constructor): not judged
            want = {"v": t["vals"][0] if t["vals"] else 0}
        else:
            want = {"t": {"subs": [[row[j] for j in keep] for row in t["subs"]], "vals": t["vals"], "shape": [t["shape"][j] for j in keep]}}
        return None if o.get("ok") == want else f"squeeze returned {o}, expected {want}"
    if c.op == "sp_permute":
        t, order = a["t"], a["order"]
        N = len(t["shape"])
        if _order_isbool(a):
            return None if "exc" in o else f"a boolean order {order} was accepted"
        if sorted(order) != list(range(N)):
            return None if "exc" in o else f"a non-permutation {order} of the {N} modes was accepted"
        if "ok" not in o:
            return f"a permutation of the modes was rejected ({o})"
        want = {"subs": [[row[j] for j in order] for row in t["subs"]], "vals": t["vals"], "shape": [t["shape"][j] for j in order]}
        return None if o["ok"] == want else f"permute returned {o['ok']}, expected {want}"
    if c.op == "sp_reshape":
        t, ns, om = a["t"], a["new"], a["old"]
        N = len(t["shape"])
        old_ = list(range(N)) if om is None else om
        if len(set(old_)) != len(old_):
            return None          # a repeated mode: the property does not say what is demanded
        cnt, cnt2 = 1, 1
        valid = all(0 <= j < N for j in old_) and all(d >= 0 for d in ns)
        if valid:
            for j in old_:
                cnt *= t["shape"][j]
            for d in ns:
                cnt2 *= d
            valid = cnt == cnt2
        if valid and ((t["subs"] and not old_) or not ns):
            # not pinned here: no mode folded (pyttb raises inside numpy for a tensor with entries) / the EMPTY new shape
            # (pyttb refuses it by a dtype accident: np.concatenate((keep_shape, ())) is float64 — reported to C07 as an observation)
            return None
        if not valid:
            return None if "exc" in o else f"an invalid reshape request (new {ns}, old modes {om}) was accepted"
        if "ok" not in o:
            return f"a valid reshape request (new {ns}, old modes {om}) was rejected ({o})"
        keep = [j for j in range(N) if j not in old_]
        rows = []
        for row in t["subs"]:
            lin, mul = 0, 1
            for j in old_:
                lin += row[j] * mul
                mul *= t["shape"][j]
            new = []
            for d in ns:
                new.append(lin % d)
                lin //= d
            rows.append([row[j] for j in keep] + new)
        want = {"subs": rows, "vals": t["vals"] if t["subs"] else [], "shape": [t["shape"][j] for j in keep] + ns}
        return None if o["ok"] == want else f"reshape returned {o['ok']}, expected {want}"
    if c.op == "sp_subdims":
        t, region = a["t"], a["region"]
        if len(region) != len(t["shape"]):
            return None if "exc" in o else "a region with the wrong number of keys was accepted"
        if not t["subs"]:
            return None if o.get("ok") == [] else f"subdims on a tensor without stored entries returned {o}"
        if any(x[0] == "none" or (x[0] == "slice" and x[3] == 0) for x in region):
            return None if "exc" in o else "an invalid key (None / zero-step slice) was accepted"
        def sel(x, d, s):
            if x[0] == "int":
                return s == x[1]
            if x[0] in ("list", "arr"):
                return s in x[1]
            return s in list(range(d))[slice(x[1], x[2], x[3])]
        want = [l for l, row in enumerate(t["subs"]) if all(sel(x, d, s) for x, d, s in zip(region, t["shape"], row))]
        return None if o.get("ok") == want else f"subdims returned {o}, the stored rows inside the region are {want}"
    if c.op == "tovec":
        k = a["kt"]
        R = len(k["w"])
        want = (list(k["w"]) if a["incl"] else []) + [m[i][r] for m in k["f"] for r in range(R) for i in range(len(m))]
        return None if o.get("ok") == want else f"tovec returned {o}, weights then the columns of every factor are {want}"
    if c.op == "update":
        k, modes, data = a["kt"], a["modes"], a["data"]
        R, nd = len(k["w"]), len(k["f"])
        if o.get("receiver_changed"):
            return f"update({modes}, {len(data)} values) was rejected ({o['exc']}) after it had overwritten part of the receiver"
        valid = all(x < y for x, y in zip(modes, modes[1:])) and all(m == -1 or 0 <= m < nd for m in modes)
        need = sum(R if m == -1 else len(k["f"][m]) * R for m in modes) if valid else 0
        if not valid or len(data) < need:
            return None if "exc" in o else f"an invalid update request (modes {modes}, {len(data)} values, {need} needed) was accepted"
        if "ok" not in o:
            return f"a valid update request (modes {modes}) was rejected ({o})"
        w, fs, loc = list(k["w"]), [[list(r) for r in m] for m in k["f"]], 0
        for m in modes:
            if m == -1:
                w = data[loc:loc + R]
                loc += R
            else:
                n = len(fs[m])
                fs[m] = [[data[loc + i + n * r] for r in range(R)] for i in range(n)]
                loc += n * R
        want = {"w": w, "f": fs}
        return None if o["ok"] == want else f"update returned {o['ok']}, the blocks of the data vector give {want}"
    return None
