(* Props/C03.v — sparse element-wise arithmetic, logic and comparison match dense semantics.
   Only statements, `exact`, Print Assumptions.  V is ANY value type with a decidable zero; the operations are
   section variables constrained only by the laws each theorem needs (identity of +, annihilation of *, ...), so the
   statements hold for Z, Qc, R, floats-as-a-set...  Operands are arbitrary well-formed coordinate lists: NO hypothesis
   on the stored order.  den_sp = value at a subscript (implicit zeros included), wf_sp = C06 well-formedness. *)
From Coq Require Import List Arith Bool ZArith.
From PV Require Import Base.Index Np.Array Model.Sparse Model.Harness Model.C03Ops Model.C03AsIs
                       Proofs.C03Lemmas Proofs.C03Proofs Proofs.C03AsIsProofs.
Import ListNotations.

Section C03.
Context {V : Type} (v0 : V) (isz : V -> bool).
Hypothesis isz_spec : forall v, isz v = true <-> v = v0.
Notation den := (den_sp v0).
Notation wf := (wf_sp isz).
Notation nz x := (negb (isz x)).

(* ---- unary ---- *)
Theorem C03_neg : forall (vopp : V -> V), (forall v, v <> v0 -> vopp v <> v0) -> vopp v0 = v0 ->
  forall A : sparse V, wf A ->
  wf (impl_neg vopp A) /\ sshape (impl_neg vopp A) = sshape A /\ forall i, den (impl_neg vopp A) i = vopp (den A i).
Proof. exact (impl_neg_correct v0 isz isz_spec). Qed.

Theorem C03_ones : forall (one : V) (A : sparse V), one <> v0 -> wf A ->
  wf (impl_ones one A) /\ sshape (impl_ones one A) = sshape A /\
  forall i, den (impl_ones one A) i = bval v0 one (nz (den A i)).
Proof. exact (impl_ones_correct v0 isz isz_spec). Qed.

Theorem C03_not : forall (one : V) (A : sparse V), one <> v0 -> wf A ->
  wf (impl_not one A) /\ sshape (impl_not one A) = sshape A /\
  forall i, inb (sshape A) i = true -> den (impl_not one A) i = bval v0 one (isz (den A i)).
Proof. exact (impl_not_correct v0 isz isz_spec). Qed.

Theorem C03_elemfun : forall (g : V -> V) (A : sparse V), wf A ->
  wf (impl_elemfun isz g A) /\ sshape (impl_elemfun isz g A) = sshape A /\
  forall i, den (impl_elemfun isz g A) i = if isz (den A i) then v0 else g (den A i).
Proof. exact (impl_elemfun_correct v0 isz isz_spec). Qed.

(* ---- the aggregating constructor all sparse (+ - and or xor) go through ---- *)
Theorem C03_from_aggregator : forall (func : list V -> V) s subs vals,
  (forall i, In i subs -> inb s i = true) ->
  wf (from_aggregator isz func s subs vals) /\ sshape (from_aggregator isz func s subs vals) = s /\
  forall i, den (from_aggregator isz func s subs vals) i =
            if mem i subs then func (collect i (combine subs vals)) else v0.
Proof. exact (from_aggregator_correct v0 isz isz_spec). Qed.

(* ---- + and - (sparse, sparse) ---- *)
Theorem C03_add_sparse : forall (vadd : V -> V -> V), (forall x, vadd v0 x = x) -> (forall x, vadd x v0 = x) ->
  forall A B : sparse V, wf A -> wf B -> sshape B = sshape A ->
  wf (impl_add v0 isz vadd A B) /\ sshape (impl_add v0 isz vadd A B) = sshape A /\
  forall i, den (impl_add v0 isz vadd A B) i = vadd (den A i) (den B i).
Proof. exact (impl_add_correct v0 isz isz_spec). Qed.

Theorem C03_sub_sparse : forall (vadd : V -> V -> V) (vopp : V -> V),
  (forall x, vadd v0 x = x) -> (forall x, vadd x v0 = x) -> (forall v, v <> v0 -> vopp v <> v0) -> vopp v0 = v0 ->
  forall A B : sparse V, wf A -> wf B -> sshape B = sshape A ->
  wf (impl_sub v0 isz vadd vopp A B) /\ sshape (impl_sub v0 isz vadd vopp A B) = sshape A /\
  forall i, den (impl_sub v0 isz vadd vopp A B) i = vadd (den A i) (vopp (den B i)).
Proof. exact (impl_sub_correct v0 isz isz_spec). Qed.

(* ---- * (scalar, dense, sparse) ---- *)
Theorem C03_mul_scalar : forall (vmul : V -> V -> V), (forall x, vmul v0 x = v0) -> (forall x, vmul x v0 = v0) ->
  forall (A : sparse V) (c : V), wf A ->
  wf (impl_mul_scalar isz vmul A c) /\ sshape (impl_mul_scalar isz vmul A c) = sshape A /\
  forall i, den (impl_mul_scalar isz vmul A c) i = vmul (den A i) c.
Proof. intros vmul H1 _. exact (impl_mul_scalar_correct v0 isz isz_spec vmul H1). Qed.

Theorem C03_mul_dense : forall (vmul : V -> V -> V), (forall x, vmul v0 x = v0) -> (forall x, vmul x v0 = v0) ->
  forall (A : sparse V) (T : dense V), wf A ->
  wf (impl_mul_dense v0 isz vmul A T) /\ sshape (impl_mul_dense v0 isz vmul A T) = sshape A /\
  forall i, den (impl_mul_dense v0 isz vmul A T) i = vmul (den A i) (den_dense v0 T i).
Proof. intros vmul H1 _. exact (impl_mul_dense_correct v0 isz isz_spec vmul H1). Qed.

Theorem C03_mul_sparse : forall (vmul : V -> V -> V), (forall x, vmul v0 x = v0) -> (forall x, vmul x v0 = v0) ->
  forall A B : sparse V, wf A -> wf B -> sshape B = sshape A ->
  wf (impl_mul v0 isz vmul A B) /\ sshape (impl_mul v0 isz vmul A B) = sshape A /\
  forall i, den (impl_mul v0 isz vmul A B) i = vmul (den A i) (den B i).
Proof. exact (impl_mul_correct v0 isz isz_spec). Qed.

(* ---- logical and / or / xor ---- *)
Theorem C03_and_sparse : forall (one : V), one <> v0 -> forall A B : sparse V, wf A -> wf B -> sshape B = sshape A ->
  wf (impl_and v0 isz one A B) /\ sshape (impl_and v0 isz one A B) = sshape A /\
  forall i, den (impl_and v0 isz one A B) i = bval v0 one (nz (den A i) && nz (den B i)).
Proof. intros one _. exact (impl_and_correct v0 isz isz_spec one). Qed.

Theorem C03_or_sparse : forall (one : V), one <> v0 -> forall A B : sparse V, wf A -> wf B -> sshape B = sshape A ->
  wf (impl_or v0 isz one A B) /\ sshape (impl_or v0 isz one A B) = sshape A /\
  forall i, den (impl_or v0 isz one A B) i = bval v0 one (nz (den A i) || nz (den B i)).
Proof. intros one _. exact (impl_or_correct v0 isz isz_spec one). Qed.

Theorem C03_xor_sparse : forall (one : V), one <> v0 -> forall A B : sparse V, wf A -> wf B -> sshape B = sshape A ->
  wf (impl_xor v0 isz one A B) /\ sshape (impl_xor v0 isz one A B) = sshape A /\
  forall i, den (impl_xor v0 isz one A B) i = bval v0 one (xorb (nz (den A i)) (nz (den B i))).
Proof. intros one _. exact (impl_xor_correct v0 isz isz_spec one). Qed.

Theorem C03_and_scalar : forall (one : V), one <> v0 -> forall (A : sparse V) (c : V), wf A ->
  wf (impl_and_scalar isz one A c) /\ sshape (impl_and_scalar isz one A c) = sshape A /\
  forall i, den (impl_and_scalar isz one A c) i = bval v0 one (nz (den A i) && nz c).
Proof. exact (impl_and_scalar_correct v0 isz isz_spec). Qed.

(* ---- comparisons: ANY decidable relation cmp (so == != < <= > >= are all instances); a comparison that holds
        for zero marks every implicit-zero position of the shape ---- *)
Theorem C03_cmp_scalar : forall (one : V), one <> v0 -> forall (cmp : V -> V -> bool) (A : sparse V) (c : V), wf A ->
  wf (impl_cmp_scalar v0 one cmp A c) /\ sshape (impl_cmp_scalar v0 one cmp A c) = sshape A /\
  forall i, inb (sshape A) i = true -> den (impl_cmp_scalar v0 one cmp A c) i = bval v0 one (cmp (den A i) c).
Proof. exact (impl_cmp_scalar_correct v0 isz isz_spec). Qed.

Theorem C03_cmp_sparse : forall (one : V), one <> v0 -> forall (cmp : V -> V -> bool) (A B : sparse V),
  wf A -> wf B -> sshape B = sshape A ->
  wf (impl_cmp v0 one cmp A B) /\ sshape (impl_cmp v0 one cmp A B) = sshape A /\
  forall i, inb (sshape A) i = true -> den (impl_cmp v0 one cmp A B) i = bval v0 one (cmp (den A i) (den B i)).
Proof. exact (impl_cmp_correct v0 isz isz_spec). Qed.

Theorem C03_cmp_dense : forall (one : V), one <> v0 -> forall (cmp : V -> V -> bool) (A : sparse V) (T : dense V), wf A ->
  wf (impl_cmp_dense v0 one cmp A T) /\ sshape (impl_cmp_dense v0 one cmp A T) = sshape A /\
  forall i, inb (sshape A) i = true ->
            den (impl_cmp_dense v0 one cmp A T) i = bval v0 one (cmp (den A i) (den_dense v0 T i)).
Proof. exact (impl_cmp_dense_correct v0 isz isz_spec). Qed.

(* ---- operators answered with a dense tensor (sparse + - or xor / with scalar or dense, scalar / sparse): for ANY
        element function f into ANY result type W (so IEEE division into xval is an instance) ---- *)
Theorem C03_dense_result_scalar : forall (W : Type) (w0 : W) (f : V -> V -> W) (A : sparse V) (c : V), wf_struct A ->
  wf_dense (impl_dense_scalar v0 f A c) /\ dshape (impl_dense_scalar v0 f A c) = sshape A /\
  forall i, inb (sshape A) i = true -> den_dense w0 (impl_dense_scalar v0 f A c) i = f (den A i) c.
Proof. intros W. exact (@impl_dense_scalar_correct V v0 W). Qed.

Theorem C03_dense_result_dense : forall (W : Type) (w0 : W) (f : V -> V -> W) (A : sparse V) (T : dense V),
  wf_struct A -> wf_dense T -> dshape T = sshape A ->
  wf_dense (impl_dense_dense v0 f A T) /\ dshape (impl_dense_dense v0 f A T) = sshape A /\
  forall i, inb (sshape A) i = true -> den_dense w0 (impl_dense_dense v0 f A T) i = f (den A i) (den_dense v0 T i).
Proof. intros W. exact (@impl_dense_dense_correct V v0 W). Qed.
End C03.

(* finding A-06: the code as it is (position pairing over the GENERATED tt_intersect_rows) is refuted *)
Theorem C03_mul_sparse_asis_refuted : ~ mul_asis_stmt.
Proof. exact mul_asis_refuted. Qed.

Print Assumptions C03_neg.
Print Assumptions C03_ones.
Print Assumptions C03_not.
Print Assumptions C03_elemfun.
Print Assumptions C03_from_aggregator.
Print Assumptions C03_add_sparse.
Print Assumptions C03_sub_sparse.
Print Assumptions C03_mul_scalar.
Print Assumptions C03_mul_dense.
Print Assumptions C03_mul_sparse.
Print Assumptions C03_and_sparse.
Print Assumptions C03_or_sparse.
Print Assumptions C03_xor_sparse.
Print Assumptions C03_and_scalar.
Print Assumptions C03_cmp_scalar.
Print Assumptions C03_cmp_sparse.
Print Assumptions C03_cmp_dense.
Print Assumptions C03_dense_result_scalar.
Print Assumptions C03_dense_result_dense.
Print Assumptions C03_mul_sparse_asis_refuted.

(* non-vacuity on concrete, non-symmetric 2x3 operands stored in different (unsorted) orders *)
Local Open Scope Z_scope.
Definition exA : sparse Z := mkSp [2; 3]%nat [[1; 2]; [0; 1]; [1; 0]]%nat [9; -7; 5].
Definition exB : sparse Z := mkSp [2; 3]%nat [[1; 0]; [0; 0]; [1; 2]]%nat [5; 4; -2].
Example C03_example_wf : wf_spb zisz exA = true /\ wf_spb zisz exB = true.
Proof. split; reflexivity. Qed.
Example C03_example_unary :
  full 0 (impl_neg Z.opp exA) = mkDense [2; 3]%nat [0; -5; 7; 0; 0; -9] /\
  full 0 (impl_not 1 exA) = mkDense [2; 3]%nat [1; 0; 0; 1; 1; 0] /\
  full 0 (impl_elemfun zisz (fun v => v - 5) exA) = mkDense [2; 3]%nat [0; 0; -12; 0; 0; 4].
Proof. repeat split; reflexivity. Qed.
Example C03_example_arith :
  full 0 (impl_add 0 zisz Z.add exA exB) = mkDense [2; 3]%nat [4; 10; -7; 0; 0; 7] /\
  full 0 (impl_sub 0 zisz Z.add Z.opp exA exB) = mkDense [2; 3]%nat [-4; 0; -7; 0; 0; 11] /\
  full 0 (impl_mul 0 zisz Z.mul exA exB) = mkDense [2; 3]%nat [0; 25; 0; 0; 0; -18] /\
  full 0 (impl_mul_scalar zisz Z.mul exA 0) = mkDense [2; 3]%nat [0; 0; 0; 0; 0; 0] /\
  nnz (impl_mul_scalar zisz Z.mul exA 0) = 0%nat.
Proof. repeat split; reflexivity. Qed.
Example C03_example_logic_cmp :
  full 0 (impl_and 0 zisz 1 exA exB) = mkDense [2; 3]%nat [0; 1; 0; 0; 0; 1] /\
  full 0 (impl_xor 0 zisz 1 exA exB) = mkDense [2; 3]%nat [1; 0; 1; 0; 0; 0] /\
  full 0 (impl_cmp 0 1 Z.leb exA exB) = mkDense [2; 3]%nat [1; 1; 1; 1; 1; 0] /\
  full 0 (impl_cmp 0 1 Z.eqb exA exB) = mkDense [2; 3]%nat [0; 1; 0; 1; 1; 0] /\
  full 0 (impl_cmp_scalar 0 1 Z.gtb exA (-1)) = mkDense [2; 3]%nat [1; 1; 0; 1; 1; 1].
Proof. repeat split; reflexivity. Qed.
