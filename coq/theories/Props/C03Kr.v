(* Props/C03Kr.v — sparse * Kruskal and sparse / Kruskal (pyttb.sptensor.__mul__ / __truediv__ with a ktensor operand; the
   "gather ... Kruskal values at stored subscripts" mechanism of the property's anchors).  Only statements, `exact`,
   Print Assumptions.
   CLAIMED for S * K: C03_mul_kruskal_filtered — the code as it is since /repo d4293a0 (findings C03-K1 / C03-K2 repaired: the
   loops followed by keep = cvals[:, 0] != 0) returns a FULLY well-formed tensor holding the element-wise product at every position;
   list-for-list forms and the early return for an empty operand: Props/C03W5.v.  C03_mul_kruskal / _wf_iff / _Z / _Z_wf_iff /
   _wf_refuted are statements about the loops BEFORE the filter (impl_mul_k = the intermediate csubs, cvals): kept as lemmas and as
   the record of why the filter is needed (they were the presentation of the then-open finding C03-K2 in wave 4).
   impl_mul_k / impl_div_k transliterate pyttb's double loop (for r in range(R): for n in range(N): ...
   cvals += tvals) column for column (Model/C03Kr.v); V is any commutative ring; operands are arbitrary structurally
   well-formed coordinate lists in any stored order, any rank R >= 0 (R = 0: every product is 0), any number of modes. *)
From Coq Require Import List Arith Bool ZArith Ring.
From PV Require Import Base.Index Base.Sum Np.Array Model.Sparse Model.Repr Model.Harness Model.C03Ops Model.C03Gen Model.C03Chk
                       Model.C03Kr Proofs.C03Lemmas Proofs.C03Kr.
From PV Require Import Np.NpZ Gen.GenUtils Model.C03More Model.C03Gen2 Model.C03Src Model.C03Ord0 Proofs.C03Ord0.
Import ListNotations.

Section C03Kr.
Variable V : Type.
Variables (v0 v1 : V) (vadd vmul vsub : V -> V -> V) (vopp : V -> V).
Hypothesis Vring : ring_theory v0 v1 vadd vmul vsub vopp (@eq V).
Notation den := (den_sp v0).
Notation denk := (den_k v0 v1 vadd vmul).

(* the loops (before the filter) hold the stored rows of S in their stored order, each with x * K[s] (list for list): structurally
   well-formed, the element-wise product at EVERY position *)
Theorem C03_mul_kruskal : forall (A : sparse V) (K : ktensor V), wf_struct A -> kshape K = sshape A ->
  impl_mul_k v0 vadd vmul A K = mkSp (sshape A) (ssubs A) (zipw (fun x s => vmul x (denk K s)) (svals A) (ssubs A)) /\
  wf_struct (impl_mul_k v0 vadd vmul A K) /\ sshape (impl_mul_k v0 vadd vmul A K) = sshape A /\
  forall i, den (impl_mul_k v0 vadd vmul A K) i = vmul (den A i) (denk K i).
Proof. exact (impl_mul_k_correct V v0 v1 vadd vmul vsub vopp Vring). Qed.

(* ... and that intermediate is fully well-formed (no explicit zero) exactly when no stored product vanishes: this is what the
   filter removes (repaired finding C03-K2) *)
Theorem C03_mul_kruskal_wf_iff : forall (isz : V -> bool), (forall v, isz v = true <-> v = v0) ->
  forall (A : sparse V) (K : ktensor V), wf_struct A -> kshape K = sshape A ->
  (wf_sp isz (impl_mul_k v0 vadd vmul A K) <-> forall s, In s (ssubs A) -> vmul (den A s) (denk K s) <> v0).
Proof. intros isz Hz. exact (impl_mul_k_wf_iff V v0 v1 vadd vmul vsub vopp isz Vring Hz). Qed.

(* THE CLAIMED THEOREM for S * K — the code as it is (loops + keep = cvals[:, 0] != 0, /repo d4293a0): fully well-formed (no
   duplicate, no explicit zero), same shape, the element-wise product at EVERY position; any commutative ring, rank, order, stored order *)
Theorem C03_mul_kruskal_filtered : forall (isz : V -> bool), (forall v, isz v = true <-> v = v0) ->
  forall (A : sparse V) (K : ktensor V), wf_struct A -> kshape K = sshape A ->
  wf_sp isz (impl_mul_k_filtered v0 vadd vmul isz A K) /\ sshape (impl_mul_k_filtered v0 vadd vmul isz A K) = sshape A /\
  forall i, den (impl_mul_k_filtered v0 vadd vmul isz A K) i = vmul (den A i) (denk K i).
Proof. intros isz Hz. exact (impl_mul_k_filtered_correct V v0 v1 vadd vmul vsub vopp isz Vring Hz). Qed.

(* S / K for ANY element function dv (pyttb: dv x k = x / max(eps, k)): the stored rows of S, each with dv x K[s];
   nothing is stored elsewhere *)
Theorem C03_div_kruskal : forall (X : Type) (x0 : X) (dv : V -> V -> X) (A : sparse V) (K : ktensor V),
  wf_struct A -> kshape K = sshape A ->
  impl_div_k v0 v1 vadd vmul dv A K = mkSp (sshape A) (ssubs A) (zipw (fun x s => dv x (denk K s)) (svals A) (ssubs A)) /\
  wf_struct (impl_div_k v0 v1 vadd vmul dv A K) /\ sshape (impl_div_k v0 v1 vadd vmul dv A K) = sshape A /\
  forall i, den_sp x0 (impl_div_k v0 v1 vadd vmul dv A K) i = if mem i (ssubs A) then dv (den A i) (denk K i) else x0.
Proof. intros X x0 dv. exact (impl_div_k_correct V v0 v1 vadd vmul vsub vopp Vring x0 dv). Qed.
End C03Kr.

Local Open Scope Z_scope.

(* integer operands (what the correspondence cases use) *)
Theorem C03_mul_kruskal_Z : forall (A : sparse Z) (K : ktensor Z), wf_struct A -> kshape K = sshape A ->
  zmul_k A K = mkSp (sshape A) (ssubs A) (zipw (fun x s => x * zden_k K s) (svals A) (ssubs A)) /\
  wf_struct (zmul_k A K) /\ sshape (zmul_k A K) = sshape A /\
  forall i, zden_sp (zmul_k A K) i = zden_sp A i * zden_k K i.
Proof. exact zmul_k_correct. Qed.

(* over Z: the intermediate holds an explicit zero iff the Kruskal tensor vanishes at a stored subscript (class of the repaired C03-K2) *)
Theorem C03_mul_kruskal_Z_wf_iff : forall (A : sparse Z) (K : ktensor Z), wf_sp zisz A -> kshape K = sshape A ->
  (wf_sp zisz (zmul_k A K) <-> forall s, In s (ssubs A) -> zden_k K s <> 0).
Proof. exact zmul_k_wf_iff. Qed.

Theorem C03_mul_kruskal_wf_refuted : ~ mul_kruskal_wf_stmt.
Proof. exact mul_kruskal_wf_refuted. Qed.

(* S / K with IEEE results and the eps clamp, as the code is: kdivz x k = x / max(2^-52, k), always finite *)
Theorem C03_div_kruskal_ieee : forall (A : sparse Z) (K : ktensor Z), wf_struct A -> kshape K = sshape A ->
  zdiv_k A K = mkSp (sshape A) (ssubs A) (zipw (fun x s => kdivz x (zden_k K s)) (svals A) (ssubs A)) /\
  wf_struct (zdiv_k A K) /\ sshape (zdiv_k A K) = sshape A /\
  forall i, xden_sp (zdiv_k A K) i = if mem i (ssubs A) then kdivz (zden_sp A i) (zden_k K i) else x0.
Proof. exact zdiv_k_correct. Qed.

(* it is the element-wise IEEE quotient at every position (stored or not) where the Kruskal tensor is >= 1 *)
Theorem C03_div_kruskal_partial : forall (A : sparse Z) (K : ktensor Z), wf_struct A -> kshape K = sshape A ->
  forall i, 1 <= zden_k K i -> xden_sp (zdiv_k A K) i = xdivz (zden_sp A i) (zden_k K i).
Proof. exact zdiv_k_ieee_partial. Qed.

(* the exact class of finding C03-K3, position by position: the quotient is the element-wise IEEE quotient iff the Kruskal tensor is
   >= 1 there (stored subscripts) resp. nonzero there (implicit zeros of S) *)
Theorem C03_div_kruskal_exact_iff : forall (A : sparse Z) (K : ktensor Z), wf_sp zisz A -> kshape K = sshape A ->
  forall i, (xden_sp (zdiv_k A K) i = xdivz (zden_sp A i) (zden_k K i) <->
             if mem i (ssubs A) then 1 <= zden_k K i else zden_k K i <> 0).
Proof. exact zdiv_k_exact_iff. Qed.

(* ... and not in general (finding C03-K3: K <= 0 at a stored subscript gives x / eps) *)
Theorem C03_div_kruskal_refuted : ~ div_kruskal_stmt.
Proof. exact div_kruskal_refuted. Qed.

Print Assumptions C03_mul_kruskal.
Print Assumptions C03_mul_kruskal_wf_iff.
Print Assumptions C03_mul_kruskal_filtered.
Print Assumptions C03_div_kruskal.
Print Assumptions C03_mul_kruskal_Z.
Print Assumptions C03_mul_kruskal_Z_wf_iff.
Print Assumptions C03_mul_kruskal_wf_refuted.
Print Assumptions C03_div_kruskal_ieee.
Print Assumptions C03_div_kruskal_partial.
Print Assumptions C03_div_kruskal_refuted.
Print Assumptions C03_div_kruskal_exact_iff.

(* non-vacuity: 2x2 operand stored unsorted, rank-2 Kruskal tensor [[2,0],[5,3]] (zero at the stored [0;1]); rank 0 *)
Example C03_example_kruskal :
  zmul_k wkA wkK = mkSp [2; 2]%nat [[1; 1]; [0; 0]; [0; 1]]%nat [9; 4; 0] /\
  map (zden_k wkK) [[0; 0]; [1; 0]; [0; 1]; [1; 1]]%nat = [2; 5; 0; 3] /\
  full 0 (zmul_k wkA wkK) = mkDense [2; 2]%nat [4; 0; 0; 9] /\
  zmul_k wkA (mkK [] [[[]; []]; [[]; []]]) = mkSp [2; 2]%nat [[1; 1]; [0; 0]; [0; 1]]%nat [0; 0; 0] /\
  ssubs (zdiv_k wkA wkK) = [[1; 1]; [0; 0]; [0; 1]]%nat /\
  xden_sp (zdiv_k wkA wkK) [1; 1]%nat = xdivz 3 3 /\ xden_sp (zdiv_k wkA wkK) [1; 0]%nat = x0.
Proof. repeat split; vm_compute; reflexivity. Qed.

(* ---- order-0 operands.  pyttb's tensor of shape () is the EMPTY tensor (no cell: sptensor(shape=()) stores no row, tensor()
   has no data, allsubs() lists nothing), so "at every position" is vacuous and every operator must return the empty
   container; the operand E0 is unique.  Algorithms that never enumerate the shape, for any value type: ---- *)
Theorem C03_order0_generic : forall (V : Type) (v0 one : V) (isz : V -> bool) (vadd vmul : V -> V -> V) (vopp g : V -> V) (c : V),
  let E := mkSp [] [] [] : sparse V in
  impl_add v0 isz vadd E E = E /\ impl_sub v0 isz vadd vopp E E = E /\ impl_mul v0 isz vmul E E = E /\
  impl_and v0 isz one E E = E /\ impl_or v0 isz one E E = E /\ impl_xor v0 isz one E E = E /\
  impl_neg vopp E = E /\ impl_ones one E = E /\ impl_elemfun isz g E = E /\ impl_mul_scalar isz vmul E c = E /\
  impl_and_scalar isz one E c = E /\
  (forall K : ktensor V, impl_mul_k v0 vadd vmul E K = E) /\
  (forall (X : Type) (dv : V -> V -> X) (K : ktensor V) (v1 : V), impl_div_k v0 v1 vadd vmul dv E K = mkSp [] [] []).
Proof. exact @order0_generic. Qed.

(* the transliterations over the GENERATED row-set helpers (run on matrices without a row / with one zero-width row); where the
   enumeration of the shape is a parameter it is pyttb's: allsubsP [] = [].  Not claimed for order 0: __eq__ / _compare with a
   dense operand (raise in pyttb: finding C03-Z0) and the hand models over Base.Index.allsubs (numpy's one-cell reading of ()) *)
Theorem C03_order0_generated :
  impl_mul_gen 0 Z.mul E0 E0 = Ok E0 /\ impl_eq_gen 0 1 Z.eqb E0 E0 = Ok E0 /\ impl_not_gen 1 E0 = Ok E0 /\
  impl_ne_sparse_gen 0 1 Z.eqb E0 E0 = Ok E0 /\
  impl_cmp_gen 0 1 zcmp_lt E0 E0 = Ok E0 /\ impl_cmp_gen 0 1 zcmp_le E0 E0 = Ok E0 /\
  impl_cmp_gen 0 1 zcmp_gt E0 E0 = Ok E0 /\ impl_cmp_gen 0 1 zcmp_ge E0 E0 = Ok E0 /\
  (forall c, impl_cmp_scalar_gen 0 1 zcmp_lt E0 c = Ok E0) /\ (forall c, impl_cmp_scalar_gen 0 1 zcmp_le E0 c = Ok E0) /\
  (forall c, impl_cmp_scalar_gen 0 1 zcmp_gt E0 c = Ok E0) /\ (forall c, impl_cmp_scalar_gen 0 1 zcmp_ge E0 c = Ok E0) /\
  impl_div_sparse_gen 0 xdivz XNaN x0 (allsubsP []) E0 E0 = Ok EX0 /\
  impl_ne_dense_gen 0 zisz 1 Z.eqb (allsubsP []) E0 D0 = Ok E0.
Proof. exact order0_generated. Qed.

Print Assumptions C03_order0_generic.
Print Assumptions C03_order0_generated.

Example C03_example_order0 : ord0_sp_ok E0 = true /\ ord0_dense_ok (mkDense [0]%nat (@nil Z)) = true /\
  ord0_sp_ok (mkSp [] [[]]%nat [1]) = false /\ allsubsP [2; 1]%nat = [[0; 0]; [1; 0]]%nat /\ allsubs [] = [[]]%nat.
Proof. repeat split. Qed.
