(* Proofs/C09Identity.v — the identity behind the fit that cp_als reports:
   <X, M> = sum_r lambda_r sum_j A_n[j,r] * MTTKRP_n(X; A)[j,r]   for every mode n, hence
   ||X - M||^2 = ||X||^2 + ||M||^2 - 2 * iprod_saved.  All shapes, orders, ranks, values of a commutative ring. *)
From Coq Require Import List Arith Lia Bool Ring Permutation.
From PV Require Import Base.Index Base.Sum Np.Array Model.Sparse Model.Repr Model.C09Als.
Import ListNotations.

Section Id.
Variable V : Type.
Variables (v0 v1 : V) (vadd vmul vsub : V -> V -> V) (vopp : V -> V).
Hypothesis Vring : ring_theory v0 v1 vadd vmul vsub vopp (@eq V).
Add Ring Vr1 : Vring.

Local Notation mx := (@matrix V).
Local Notation "x + y" := (vadd x y).
Local Notation "x * y" := (vmul x y).
Local Notation "x - y" := (vsub x y).
Local Notation SUM := (sum_over v0 vadd).
Local Notation SUMN := (sum_n v0 vadd).
Local Notation mg := (mget v0).
Local Notation kpr := (kprod v0 v1 vmul).
Local Notation kex := (kprod_ex v0 v1 vmul).
Local Notation denk := (den_k v0 v1 vadd vmul).

Local Ltac sring := ring.

(* shorthand for the Base/Sum lemmas at this ring *)
Let S_ext := @sum_over_ext V v0 vadd.
Let S_swap := @sum_over_swap V v0 v1 vadd vmul vsub vopp Vring.
Let S_scale_l := @sum_over_scale_l V v0 v1 vadd vmul vsub vopp Vring.
Let S_scale_r := @sum_over_scale_r V v0 v1 vadd vmul vsub vopp Vring.
Let S_add := @sum_over_add V v0 v1 vadd vmul vsub vopp Vring.
Let S_zero := @sum_over_zero V v0 v1 vadd vmul vsub vopp Vring.
Let S_single := @sum_over_single V v0 v1 vadd vmul vsub vopp Vring.

(* ---------- index facts ---------- *)
Lemma inb_nth_lt s i n : inb s i = true -> n < length s -> nth n i 0 < nth n s 0.
Proof.
  revert i n; induction s as [|d s IH]; intros [|x i] n H Hn; cbn in *; try discriminate; try lia.
  apply andb_true_iff in H as [Hx Hi]. apply Nat.ltb_lt in Hx.
  destruct n as [|n]; auto. apply IH; auto. lia.
Qed.

(* sum_j [x = j] g j = g x *)
Lemma sum_indicator d x (g : nat -> V) : x < d ->
  SUMN d (fun j => if Nat.eqb x j then g j else v0) = g x.
Proof.
  intros Hx. unfold sum_n.
  rewrite (S_single _ (seq 0 d) x).
  - now rewrite Nat.eqb_refl.
  - apply seq_NoDup.
  - apply in_seq. lia.
  - intros a _ Hne. destruct (Nat.eqb_spec x a); congruence.
Qed.

(* ---------- the Kruskal product splits off mode n ---------- *)
Lemma kprod_split As : forall n i r, n < length As -> length i = length As ->
  kpr As i r = mg (nth n As []) (nth n i 0) r * kex n As i r.
Proof.
  induction As as [|A As IH]; intros n i r Hn Hi; cbn in Hn; [lia|].
  destruct i as [|x i]; cbn in Hi; [lia|].
  destruct n as [|n]; cbn [kprod kprod_ex nth]; [reflexivity|].
  rewrite (IH n i r) by lia. sring.
Qed.

Lemma kshape_length (K : ktensor V) : length (kshape K) = length (kfactors K).
Proof. unfold kshape. now rewrite map_length. Qed.

Lemma denk_in K i : inb (kshape K) i = true ->
  denk K i = SUMN (krank K) (fun r => nth r (kweights K) v0 * kpr (kfactors K) i r).
Proof. intros H. unfold den_k. now rewrite H. Qed.

(* the model as a linear function of the weight-absorbed mode-n factor *)
Lemma denk_kmodel K n i : inb (kshape K) i = true -> n < length (kfactors K) ->
  denk K i = kmodel v0 v1 vadd vmul n (kfactors K) (krank K)
               (fun j r => nth r (kweights K) v0 * mg (nth n (kfactors K) []) j r) i.
Proof.
  intros H Hn. rewrite denk_in by auto. unfold kmodel. apply sum_n_ext. intros r _.
  rewrite (kprod_split _ n) by (auto; rewrite (inb_length _ _ H); apply kshape_length). sring.
Qed.

(* ---------- <X, kmodel a> = sum_r sum_j a[j,r] * P[j,r] ---------- *)
Lemma innerprod_kmodel s X n As R (a : nat -> nat -> V) : n < length s ->
  innerprod_den v0 vadd vmul s X (kmodel v0 v1 vadd vmul n As R a) =
  SUMN R (fun r => SUMN (nth n s 0) (fun j => a j r * mttkrp_den v0 v1 vadd vmul s X As n j r)).
Proof.
  intros Hn. unfold innerprod_den, kmodel, mttkrp_den.
  (* LHS: sum_i X i * sum_r ...  ->  sum_r sum_i *)
  transitivity (SUM (allsubs s) (fun i => SUMN R (fun r => X i * (a (nth n i 0) r * kex n As i r)))).
  { apply S_ext. intros i _. unfold sum_n. now rewrite S_scale_l. }
  unfold sum_n at 1. rewrite S_swap. apply sum_n_ext. intros r _.
  (* RHS: sum_j a j r * sum_i [..]  ->  sum_i sum_j *)
  transitivity (SUMN (nth n s 0) (fun j => SUM (allsubs s)
      (fun i => if Nat.eqb (nth n i 0) j then a j r * (X i * kex n As i r) else v0))).
  2:{ apply sum_n_ext. intros j _. rewrite <- S_scale_l. apply S_ext. intros i _.
      destruct (Nat.eqb (nth n i 0) j); sring. }
  unfold sum_n. rewrite S_swap. apply S_ext. intros i Hi.
  apply in_allsubs in Hi.
  fold (SUMN (nth n s 0) (fun j => if Nat.eqb (nth n i 0) j then a j r * (X i * kex n As i r) else v0)).
  rewrite (sum_indicator _ _ (fun j => a j r * (X i * kex n As i r))) by (apply inb_nth_lt; auto).
  sring.
Qed.

(* <X, M> from the saved MTTKRP — cp_als.py line 238 ("This is equivalent to innerprod(X,P)") *)
Theorem innerprod_saved_mttkrp (s : shape) (X : idx -> V) (K : ktensor V) (n : nat) :
  kshape K = s -> n < length s ->
  innerprod_den v0 vadd vmul s X (denk K) =
  iprod_saved v0 vadd vmul (krank K) (nth n s 0) (kweights K) (nth n (kfactors K) [])
              (mttkrp_den v0 v1 vadd vmul s X (kfactors K) n).
Proof.
  intros Hs Hn. unfold iprod_saved.
  assert (HnK : n < length (kfactors K)) by (rewrite <- kshape_length, Hs; auto).
  transitivity (innerprod_den v0 vadd vmul s X (kmodel v0 v1 vadd vmul n (kfactors K) (krank K)
      (fun j r => nth r (kweights K) v0 * mg (nth n (kfactors K) []) j r))).
  { unfold innerprod_den. apply S_ext. intros i Hi. apply in_allsubs in Hi. f_equal.
    apply denk_kmodel; auto. now rewrite Hs. }
  rewrite innerprod_kmodel by auto. apply sum_n_ext. intros r _.
  unfold sum_n. rewrite <- S_scale_l. apply S_ext. intros j _. sring.
Qed.

(* ---------- ||X - M||^2 = ||X||^2 + ||M||^2 - 2 <X,M>  ---------- *)
Lemma resid_expand s (X M : idx -> V) :
  resid_den v0 vadd vmul vsub s X M =
  normsq_den v0 vadd vmul s X + normsq_den v0 vadd vmul s M
  - (innerprod_den v0 vadd vmul s X M + innerprod_den v0 vadd vmul s X M).
Proof.
  unfold resid_den, normsq_den, innerprod_den.
  induction (allsubs s) as [|i l IH]; [cbn; sring|].
  rewrite !sum_over_cons, IH. sring.
Qed.

(* C09_fit_identity: what cp_als reports (normX^2 + ||M||^2 - 2 iprod, from the saved MTTKRP of the LAST-updated mode)
   is the squared residual recomputed from the returned model *)
Theorem fit_identity (s : shape) (X : idx -> V) (K : ktensor V) (n : nat) :
  kshape K = s -> n < length s ->
  let iprod := iprod_saved v0 vadd vmul (krank K) (nth n s 0) (kweights K) (nth n (kfactors K) [])
                 (mttkrp_den v0 v1 vadd vmul s X (kfactors K) n) in
  normsq_den v0 vadd vmul s X + normsq_den v0 vadd vmul s (denk K) - (iprod + iprod)
  = resid_den v0 vadd vmul vsub s X (denk K).
Proof.
  intros Hs Hn iprod. rewrite resid_expand. unfold iprod.
  now rewrite <- (innerprod_saved_mttkrp s X K n Hs Hn).
Qed.

(* sum-tensor data (normX reported as 0): the reported value ||M||^2 - 2 iprod is ||M||^2 - 2 <X,M> *)
Theorem fit_identity_sum (s : shape) (X : idx -> V) (K : ktensor V) (n : nat) :
  kshape K = s -> n < length s ->
  let iprod := iprod_saved v0 vadd vmul (krank K) (nth n s 0) (kweights K) (nth n (kfactors K) [])
                 (mttkrp_den v0 v1 vadd vmul s X (kfactors K) n) in
  normsq_den v0 vadd vmul s (denk K) - (iprod + iprod)
  = normsq_den v0 vadd vmul s (denk K)
    - (innerprod_den v0 vadd vmul s X (denk K) + innerprod_den v0 vadd vmul s X (denk K)).
Proof.
  intros Hs Hn iprod. unfold iprod. now rewrite <- (innerprod_saved_mttkrp s X K n Hs Hn).
Qed.

End Id.
