(* Props/C09c.v — C09, wave 4: the sweep function of w4-skel's outer-loop bridge (Props/W4SC09.v W4S_C09_cpals_bridge: generated main of
   cp_als = Model/C09Loop.v cpals_run over h_sweep) is the hand model's als_sweep.  Depends on Proofs/W4SCpAls.v (w4-skel).
   Only statements, `exact`, Print Assumptions. *)
From Coq Require Import List Arith Bool.
From PV Require Import Base.Index Np.Array Model.Sparse Model.Repr Model.C09Als Model.W4SPrelude Gen.GenCpAls Proofs.W4SCpAls
  Proofs.C09GenSweep Proofs.C09GenLoop.
Import ListNotations.

Section C09c.
Variable V : Type.
Variables (v0 v1 : V) (vadd vmul : V -> V -> V).
Variables T_F T_K T_X : Type.
Variable R : nat.
Variable mk : T_X -> list (@matrix V) -> nat -> @matrix V.
Variable all_zero_mat : @matrix V -> bool.
Variable zeros_like : @matrix V -> @matrix V.
Variable lapack : @matrix V -> @matrix V -> @matrix V.
Variables norm2_cols normmax_cols : @matrix V -> list V.
Variable all_zero_wt : list V -> bool.
Variable scale_cols : @matrix V -> list V -> @matrix V.
Variable k_ktensor : list (@matrix V) -> list V -> T_K.
Variable k_iprod : T_K -> list nat -> @matrix V -> list V -> T_F.

(* one pass of the generated outer loop body up to `M = ttb.ktensor(U, weights)` and iprod: the factor list and weights are those of
   als_sweep over the reduced mode order, with solve / scale composed from the code's kernels and guards *)
Theorem C09_gen_hsweep_bridge : forall (X : T_X) (N : nat) (dimorder : list nat) (k : nat) (U : list (@matrix V)) (Um : @matrix V)
    (n0 : option nat) (mi : option (T_K * T_F)) (w : list V) (P : @matrix V),
  dimorder <> [] -> (forall x, In x dimorder -> x < length U) ->
  let st' := als_sweep v0 v1 vadd vmul (mk X) (code_solve V all_zero_mat zeros_like lapack)
               (code_scale V norm2_cols normmax_cols all_zero_wt scale_cols) R k dimorder (mkAls w U P) in
  exists Um' n',
    h_sweep T_F (@matrix V) (list (@matrix V)) (list V) T_K T_X (g_set_gram V) mk (g_hadamard_others V v0 v1 vadd vmul R)
      all_zero_mat zeros_like lapack norm2_cols normmax_cols all_zero_wt scale_cols k_ktensor k_iprod N dimorder X k ((U, Um, U, n0), mi)
    = ((st_U st', Um', st_U st', n'),
       Some (k_ktensor (st_U st') (st_w st'), k_iprod (k_ktensor (st_U st') (st_w st')) dimorder Um' (st_w st'))).
Proof. exact (gen_hsweep_bridge V v0 v1 vadd vmul T_F T_K T_X R mk all_zero_mat zeros_like lapack norm2_cols normmax_cols all_zero_wt
  scale_cols k_ktensor k_iprod). Qed.
End C09c.

Print Assumptions C09_gen_hsweep_bridge.
