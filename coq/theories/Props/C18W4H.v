(* Props/C18W4H.v — C18, wave 4: RELABELLING for the transliterated hosvd DRIVER (Proofs/C18Print.v hv_run: concrete rank rule, user /
   automatic ranks, IndexError path, sequential or not, any verbosity).  Only statements, `exact`, Print Assumptions; proofs and a
   concrete run (sequential and non-sequential, verbosity 0 vs 10) in Proofs/C18HosvdRel.v. *)
From Coq Require Import List Arith Bool ZArith Ring Permutation Reals.
From PV Require Import Base.Index Base.Perm Base.Sum Np.Array Model.Sparse Model.Repr Model.C10Tucker Model.C14Nvecs
                       Np.NpR Proofs.C18Tucker Proofs.C18Print Proofs.C18TuckerPerm Proofs.C18HosvdRel Proofs.C18TuckerLoop.
Import ListNotations.

Section C18_hosvd_sim.
Variables T T' M FS FS' F : Type.
Variables (f0 : F) (fadd : F -> F -> F) (fltb : F -> F -> bool) (thresh : F -> F) (fleb : F -> F -> bool) (tol : F).
Variables (normsq : T -> F) (eigs : nat -> T -> list F) (lead : nat -> T -> nat -> M) (setf : FS -> nat -> M -> FS) (fs0 : FS)
          (shrink : T -> nat -> M -> T) (core_all : T -> FS -> T) (relnorm : T -> T -> FS -> F) (ranks : nat -> nat).
Variables (normsq' : T' -> F) (eigs' : nat -> T' -> list F) (lead' : nat -> T' -> nat -> M) (setf' : FS' -> nat -> M -> FS') (fs0' : FS')
          (shrink' : T' -> nat -> M -> T') (core_all' : T' -> FS' -> T') (relnorm' : T' -> T' -> FS' -> F) (ranks' : nat -> nat).
Variable sequential : bool.
Variable q : nat -> nat.
Variable okmode : nat -> Prop.
Variables (RT : T -> T' -> Prop) (RF : FS -> FS' -> Prop).
Hypothesis H_norm : forall X X', RT X X' -> normsq' X' = normsq X.
Hypothesis H_ranks : forall k, okmode k -> ranks' (q k) = ranks k.
Hypothesis H_eigs : forall k Y Y', okmode k -> RT Y Y' -> eigs' (q k) Y' = eigs k Y.
Hypothesis H_lead : forall k Y Y' r, okmode k -> RT Y Y' -> lead' (q k) Y' r = lead k Y r.
Hypothesis H_setf : forall k fs fs' U, okmode k -> RF fs fs' -> RF (setf fs k U) (setf' fs' (q k) U).
Hypothesis H_shrink : forall k Y Y' U, okmode k -> RT Y Y' -> RT (shrink Y k U) (shrink' Y' (q k) U).
Hypothesis H_core : forall Y Y' fs fs', RT Y Y' -> RF fs fs' -> RT (core_all Y fs) (core_all' Y' fs').

(* two presentations of a HOSVD problem whose numerical oracles are equivariant w.r.t. the mode map q (same squared norm, same
   eigenvalue lists and leading vectors in corresponding modes, related shrunk tensors / cores / factor lists): for ANY two
   verbosities the driver raises the rank rule's IndexError under both or returns under both, with related cores and factor lists *)
Theorem C18_hosvd_driver_sim : forall (v v' : Z) (dimorder : list nat) (X : T) (X' : T'),
  Forall okmode dimorder -> RT X X' -> RF fs0 fs0' ->
  rel_res T T' FS FS' RT RF
    (fst (hv_run T M FS F f0 fadd fltb normsq thresh eigs lead setf fs0 shrink core_all relnorm fleb tol ranks sequential v dimorder X))
    (fst (hv_run T' M FS' F f0 fadd fltb normsq' thresh eigs' lead' setf' fs0' shrink' core_all' relnorm' fleb tol ranks' sequential v'
                 (map q dimorder) X')).
Proof. exact (hv_run_sim T T' M FS FS' F f0 fadd fltb thresh fleb tol normsq eigs lead setf fs0 shrink core_all relnorm ranks
                         normsq' eigs' lead' setf' fs0' shrink' core_all' relnorm' ranks' sequential q okmode RT RF
                         H_norm H_ranks H_eigs H_lead H_setf H_shrink H_core). Qed.
End C18_hosvd_sim.
Print Assumptions C18_hosvd_driver_sim.

Section C18_hosvd_dense.
Variable V : Type.
Variables (v0 v1 : V) (vadd vmul vsub : V -> V -> V) (vopp : V -> V).
Hypothesis Vring : ring_theory v0 v1 vadd vmul vsub vopp (@eq V).
Local Notation matrix := (list (list V)).

(* ||X.permute(p)||^2 = ||X||^2 (the quantity hosvd's eigenvalue-sum threshold is computed from) *)
Theorem C18_normsq_permute : forall (X : dense V) (p : list nat), is_perm p (length (dshape X)) ->
  normsq_c V v0 vadd vmul (np_transpose v0 X p) = normsq_c V v0 vadd vmul X.
Proof. exact (normsq_permute V v0 v1 vadd vmul vsub vopp Vring). Qed.

(* Y.ttm(M, k) with the mode-k size changing to the number of rows of M commutes with relabelling (dense arrays, shapes included) *)
Theorem C18_ttm_permute_dense : forall (Y : dense V) (p : list nat) (k : nat) (Mx : matrix),
  is_perm p (length (dshape Y)) -> k < length (dshape Y) ->
  ttm v0 vadd vmul (np_transpose v0 Y p) (index_of k p) Mx = np_transpose v0 (ttm v0 vadd vmul Y k Mx) p.
Proof. exact (ttm_permute_dense V v0 vadd vmul). Qed.

Variables (E E' : nat -> matrix -> list V) (L L' : nat -> matrix -> nat -> matrix).
Variables (f0 : V) (fadd : V -> V -> V) (fltb fleb : V -> V -> bool) (thresh : V -> V) (tol : V).
Variables (relnorm relnorm' : dense V -> dense V -> list matrix -> V) (ranks ranks' : nat -> nat) (sequential : bool).
Variables (p : list nat) (N : nat).
Hypothesis Hp : is_perm p N.
Hypothesis HE : forall k, k < N -> E' (index_of k p) = E k.
Hypothesis HL : forall k, k < N -> L' (index_of k p) = L k.
Hypothesis Hr : forall k, k < N -> ranks' (index_of k p) = ranks k.
Local Notation RUN EE LL := (hv_run (dense V) matrix (list matrix) V f0 fadd fltb (normsq_c V v0 vadd vmul) thresh
   (fun k Y => EE k (gram_of V v0 vadd vmul Y k)) (fun k Y r => LL k (gram_of V v0 vadd vmul Y k) r) (fun fs k U => upd fs k U)).

(* hosvd on dense holders: the driver run on X.permute(p) with dimorder mapped by q = p.index, user ranks and per-mode parameters
   moved along - eigenvalue list and leading eigenvectors ANY functions of (mode parameter, Gram matrix of the mode-k unfolding of the
   running tensor), shrink = Y.ttm(U^T, k), non-sequential core = products with all U_m^T, ||X||^2 = sum of squares - for ANY two
   verbosities raises the automatic rank rule's IndexError exactly when the original run does, and otherwise returns the relabelled
   core and the permuted factor list (same matrices, hence the same chosen ranks) *)
Theorem C18_relabel_hosvd_driver_dense : forall (v v' : Z) (dimorder : list nat) (X : dense V) (fs0 : list matrix),
  length (dshape X) = N -> length fs0 = N -> Forall (fun k => k < N) dimorder ->
  rel_res (dense V) (dense V) (list matrix) (list matrix)
    (fun Y Y' => length (dshape Y) = N /\ Y' = np_transpose v0 Y p)
    (fun fs fs' => length fs = N /\ fs' = pick [] p fs)
    (fst (RUN E L fs0 (shrink_c V v0 vadd vmul) (core_all_c V v0 vadd vmul) relnorm fleb tol ranks sequential v dimorder X))
    (fst (RUN E' L' (pick [] p fs0) (shrink_c V v0 vadd vmul) (core_all_c V v0 vadd vmul) relnorm' fleb tol ranks' sequential v'
              (map (fun k => index_of k p) dimorder) (np_transpose v0 X p))).
Proof. exact (hosvd_driver_relabel_dense V v0 v1 vadd vmul vsub vopp Vring E E' L L' f0 fadd fltb fleb thresh tol relnorm relnorm' ranks ranks'
                                          sequential p N Hp HE HL Hr). Qed.
End C18_hosvd_dense.
Print Assumptions C18_normsq_permute.
Print Assumptions C18_ttm_permute_dense.
Print Assumptions C18_relabel_hosvd_driver_dense.

Section C18_tucker_loop.
Variables (s rk : list nat) (eig eig' : nat -> list (list R) -> list (list R)) (p : list nat) (dimorder : list nat) (X : dense R) (stoptol : R).
Hypothesis HX : dshape X = s.
Hypothesis Hp : is_perm p (length s).
Hypothesis Hrk : length rk = length s.
Hypothesis Hd : Forall (fun n => n < length s) dimorder.
Hypothesis He : forall n, In n dimorder -> eig' (index_of n p) = eig n.

(* tucker_als, the WHOLE main loop on dense real arrays (sweeps with the concrete mode update, fit = 1 - sqrt|normX^2 - core.norm()^2| / normX
   from sums of squares, test abs(fitold - fit) < stoptol, iteration count): the run on X.permute(p) with rank list, start list and
   per-mode parameters permuted and dimorder mapped by q performs the same number of iterations, reports the same fit, ends with the
   permuted factor list and the relabelled core - C18_relabel_tucker_als_loop with all four contracts (upd_perm, A_perm, nrm_perm,
   innerF_perm) discharged; the eigen step is ANY function of (mode parameter, Gram matrix of Utilde) *)
Theorem C18_relabel_tucker_als_loop_dense : forall (maxiters : nat) (U : list (list (list R))) (fit0 : R), length U = length s ->
  let r := als_loop (dense R) dinnerR (list (list (list R))) (dense R) (coreR s rk) dinnerR (updR s rk eig) stoptol dimorder maxiters U fit0 X in
  let r' := als_loop (dense R) dinnerR (list (list (list R))) (dense R) (coreR (pick 0 p s) (pick 0 p rk)) dinnerR
                     (updR (pick 0 p s) (pick 0 p rk) eig') stoptol (map (fun n => index_of n p) dimorder) maxiters (pick [] p U) fit0
                     (np_transpose 0%R X p) in
  fst (fst r') = pick [] p (fst (fst r)) /\ snd (fst r') = snd (fst r) /\ snd r' = snd r /\
  coreR (pick 0 p s) (pick 0 p rk) (fst (fst r')) (np_transpose 0%R X p) = np_transpose 0%R (coreR s rk (fst (fst r)) X) p.
Proof. exact (tucker_als_loop_relabel_dense s rk eig eig' p dimorder X stoptol HX Hp Hrk Hd He). Qed.
End C18_tucker_loop.
Print Assumptions C18_relabel_tucker_als_loop_dense.
