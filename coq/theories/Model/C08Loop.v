(* Model/C08Loop.v — the column loop of ktensor.fixsigns(other), literally (wave 3b):

     for r in range(min(RA, RB)):                  (/repo 8ac87f0: a reference with more components than self — only the
                                                    first RA have a counterpart; before the repair: range(RB), IndexError)
         sgn_score[n] = self.factor_matrices[n][:, r].T @ other.factor_matrices[n][:, r]        (n in range(N))
         sort_idx = np.argsort(sgn_score); sort_sgn_score = sgn_score[sort_idx]
         breakpt / endpt arithmetic                                                            (py_endpt, Model/C08More.v)
         for i in range(endpt):
             self.factor_matrices[sort_idx[i]][:, r] = -1 * self.factor_matrices[sort_idx[i]][:, r]

   The state is the factor list of `self`, mutated component after component: the scores of component r are computed
   from the factors as they are AFTER the flips of the components before r.  Definitions only; the theorem
   "loop = k_fixsigns_other_core (the one-shot k_flip model)" is in Proofs/C08Loop.v. *)
From Coq Require Import List Arith Lia Bool.
From PV Require Import Base.Index Base.Perm Base.Sum Np.Array Model.Sparse Model.Repr Model.C08Kruskal Model.C08More.
Import ListNotations.

Section L8.
Context {V : Type} (v0 v1 : V) (vadd vmul : V -> V -> V) (vopp : V -> V).
Notation mat := (list (list V)).

(* A[:, r] = -1 * A[:, r] *)
Definition neg_col (r : nat) (A : mat) : mat := map (upd_nth r (vmul (vm1 v1 vopp))) A.

Section Loop.
Variables (neg : V -> bool) (leb : V -> V -> bool).
(* one pass of the body for component r on the current factor list As of self (w = the weights, never touched) *)
Definition py_fso_step (B : ktensor V) (w : list V) (As : list mat) (r : nat) : list mat :=
  let s := fso_scores v0 vadd vmul (mkK w As) B r in
  let idx := argsort leb s in
  let e := py_endpt v0 vopp neg leb (pick v0 idx s) in
  fold_left (fun As' n => upd_nth n (neg_col r) As') (firstn e idx) As.
(* the whole loop, both operands already normalised *)
Definition py_fixsigns_other_core (A B : ktensor V) : ktensor V :=
  mkK (kweights A) (fold_left (py_fso_step B (kweights A)) (seq 0 (Nat.min (krank A) (krank B))) (kfactors A)).
End Loop.
End L8.
