"""helpers of the C13 check: capture of numpy.random draws and of the solver's objective estimates (wrappers live in the
harness process only), pyttb runners, scaling of float observations to integers, brute-force oracle, finding witnesses."""
import math
from fractions import Fraction

D53 = 2 ** 53


# --------------------------------------------------------------------------------------- capture of numpy.random
class Capture:
    """wraps numpy.random.uniform / choice (and poisson) for the duration of a `with` block; records every result.
    force='zero': the first entry of every uniform block is replaced by 0.0 and the last by 1-2^-53 (draws are inputs)"""

    def __init__(self, force=None):
        self.force = force
        self.uniform = []
        self.choice = []

    def __enter__(self):
        import numpy as np
        self.np = np
        self.o_u, self.o_c = np.random.uniform, np.random.choice
        cap = self

        def w_uniform(low=0.0, high=1.0, size=None):
            r = cap.o_u(low, high, size)
            if cap.force == "zero" and getattr(r, "size", 0) > 0:
                r = np.array(r, dtype=float)
                r.flat[0] = 0.0
                r.flat[r.size - 1] = 1.0 - 2.0 ** -53
            cap.uniform.append(np.array(r, dtype=float).copy())
            return r

        def w_choice(a, size=None, replace=True, p=None):
            r = cap.o_c(a, size=size, replace=replace, p=p)
            cap.choice.append(np.array(r).copy())
            return r
        np.random.uniform, np.random.choice = w_uniform, w_choice
        return self

    def __exit__(self, *exc):
        self.np.random.uniform, self.np.random.choice = self.o_u, self.o_c
        return False


def _numerators(block):
    out = []
    for row in block.reshape((block.shape[0], -1)):
        r = []
        for u in row:
            f = Fraction(float(u)) * D53
            assert f.denominator == 1, "draw is not a multiple of 2^-53"
            r.append(int(f))
        out.append(r)
    return out


def _fr(x):
    return str(Fraction(float(x)))


def _ivals(np, v):
    out = []
    for x in np.atleast_1d(np.asarray(v, dtype=float)).ravel():
        out.append(int(x) if float(x) == int(x) else str(Fraction(float(x))))
    return out


# --------------------------------------------------------------------------------------- samplers
def run_uniform(a):
    import numpy as np
    import pyttb as ttb
    from pyttb.gcp import samplers
    T = ttb.tensor(np.array(a["data"], dtype=float).reshape(tuple(a["shape"]), order="F"), tuple(a["shape"]), copy=True)
    np.random.seed(a["seed"])
    with Capture(a["force"]) as cap:
        subs, vals, wgts = samplers.uniform(T, a["n"])
    draws = _numerators(cap.uniform[0]) if cap.uniform else []
    return {"subs": [[int(x) for x in r] for r in np.asarray(subs).reshape((-1, len(a["shape"])))],
            "subs_shape": [int(d) for d in np.shape(subs)],
            "vals": _ivals(np, vals), "vals_shape": [int(d) for d in np.shape(vals)],
            "weights": [_fr(w) for w in np.atleast_1d(wgts)], "weights_shape": [int(d) for d in np.shape(wgts)],
            "draws": draws, "meta": {"zero_draw": any(0 in r for r in draws)}}


def run_stratified(a, semi):
    import numpy as np
    import pyttb as ttb
    from pyttb.gcp import samplers
    shp = tuple(a["shape"])
    nd = len(shp)
    size, nnz = math.prod(shp), len(a["subs"])
    if nnz:
        S = ttb.sptensor(np.array(a["subs"], dtype=int).reshape((nnz, nd)), np.array(a["vals"], dtype=float).reshape((nnz, 1)), shp, copy=True)
    else:
        S = ttb.sptensor(shape=shp)
    cnt = samplers.StratifiedCount(num_zeros=a["cz"], num_nonzeros=a["cn"])
    meta = {"total": a["cn"] + a["cz"], "short": (not semi) and size == nnz}
    np.random.seed(a["seed"])
    try:
        with Capture(a["force"]) as cap:
            if semi:
                g = samplers.GCPSampler(S, gradient_sampler=samplers.Samplers.SEMISTRATIFIED, gradient_samples=cnt)
                subs, vals, wgts = g.gradient_sample(S)
            else:
                g = samplers.GCPSampler(S, function_sampler=samplers.Samplers.STRATIFIED, function_samples=cnt)
                subs, vals, wgts = g.function_sample(S)
    except Exception as ex:
        try:
            meta["zero_draw"] = any(0 in r for blk in cap.uniform if blk.size for r in _numerators(blk))
        except Exception:
            pass
        return {"exc": type(ex).__name__, "msg": str(ex)[:200], "meta": meta}
    nidx = [int(x) for x in cap.choice[0]] if cap.choice else (list(range(nnz)) if a["cn"] == nnz else [])
    draws = _numerators(cap.uniform[0]) if cap.uniform and cap.uniform[0].size else []
    subs_l = [[int(x) for x in r] for r in np.asarray(subs).reshape((-1, nd))]
    stored = {tuple(s) for s in a["subs"]}
    zpart = subs_l[a["cn"]:]
    meta.update({"zero_draw": any(0 in r for r in draws), "total": len(subs_l) if not semi else a["cn"] + a["cz"],
                 "short": meta["short"] or ((not semi) and len(zpart) < a["cz"]),
                 "semi_hit": semi and any(tuple(r) in stored for r in zpart)})
    if not semi:
        meta["total"] = a["cn"] + a["cz"]
    return {"subs": subs_l, "vals": _ivals(np, vals), "vals_shape": [int(d) for d in np.shape(vals)],
            "weights": [_fr(w) for w in np.atleast_1d(wgts)], "weights_shape": [int(d) for d in np.shape(wgts)],
            "nidx": nidx, "draws": draws, "meta": meta}


# --------------------------------------------------------------------------------------- solves
def rand_problem(rng, shp):
    n = math.prod(shp)
    R = rng.randint(1, 2)
    obj = rng.choice(["gaussian", "gaussian_lb", "poisson"])
    data = [rng.randint(0, 4) for _ in range(n)]
    if not any(data):
        data[0] = 2
    sparse = rng.random() < 0.35
    if sparse:          # a sparse tensor without zeros cannot be sampled at all (finding C13-S1): keep two zeros here
        for k in range(1, n, 2):
            data[k] = 0
        data[2 % n] = 0
        data[0] = data[0] or 2
    fac = [[[rng.randint(1, 8) / 4.0 for _ in range(R)] for _ in range(d)] for d in shp]
    return {"shape": list(shp), "data": data, "R": R, "init": fac, "obj": obj, "seed": rng.randrange(10 ** 6),
            "sparse": sparse, "fs": rng.randint(2, 6), "gs": rng.randint(1, 4)}


def _objective(a):
    import numpy as np
    from pyttb.gcp import handles
    if a["obj"] == "gaussian":
        return handles.gaussian, handles.gaussian_grad, -np.inf
    if a["obj"] == "gaussian_lb":
        return handles.gaussian, handles.gaussian_grad, 0.25
    return handles.poisson, handles.poisson_grad, 0.0


def _mk_problem(a):
    import numpy as np
    import pyttb as ttb
    from pyttb.gcp import samplers
    shp = tuple(a["shape"])
    arr = np.array(a["data"], dtype=float).reshape(shp, order="F")
    X = ttb.tensor(arr, shp, copy=True)
    if a["sparse"]:
        X = X.to_sptensor()
        smp = samplers.GCPSampler(X, function_samples=samplers.StratifiedCount(num_zeros=1, num_nonzeros=max(1, min(a["fs"], X.nnz))),
                                  gradient_sampler=samplers.Samplers.SEMISTRATIFIED,
                                  gradient_samples=samplers.StratifiedCount(num_zeros=a["gs"], num_nonzeros=a["gs"]))
    else:
        smp = samplers.GCPSampler(X, function_samples=max(2, a["fs"]), gradient_samples=max(2, a["gs"]))
    M0 = ttb.ktensor([np.array(A, dtype=float).reshape((len(A), a["R"])) for A in a["init"]])
    return X, M0, smp


def _mk_opt(a):
    from pyttb.gcp import optimizers
    cls = {"sgd": optimizers.SGD, "adam": optimizers.Adam, "adagrad": optimizers.Adagrad}[a["opt"]]
    return cls(rate=a["rate"], decay=a["decay"], max_fails=a["max_fails"], epoch_iters=a["epoch_iters"],
               f_est_tol=(-math.inf if a["tol"] is None else a["tol"]), max_iters=a["max_iters"], printitn=0)


class EstCapture:
    """records (model factor matrices, value) of every FUNCTION estimate the solver computes (epoch boundaries)"""

    def __enter__(self):
        from pyttb.gcp import optimizers
        self.mod = optimizers
        self.orig = optimizers.estimate
        self.rec = []
        cap = self

        def wrapped(model, data_subs, data_vals, weights, function_handle=None, gradient_handle=None, lambda_check=True, crng=None):
            r = cap.orig(model, data_subs, data_vals, weights, function_handle, gradient_handle, lambda_check, crng)
            if function_handle is not None and gradient_handle is None:
                cap.rec.append(([f.copy() for f in model.factor_matrices], float(r)))
            return r
        optimizers.estimate = wrapped
        return self

    def __exit__(self, *exc):
        self.mod.estimate = self.orig
        return False


def run_solve(a):
    import numpy as np
    X, M0, smp = _mk_problem(a)
    fh, gh, lb = _objective(a)
    opt = _mk_opt(a)
    np.random.seed(a["seed"])
    init_copy = [f.copy() for f in M0.factor_matrices]
    with EstCapture() as cap:
        result, info = opt.solve(M0, X, fh, gh, lb, smp)
    ests = [v for _, v in cap.rec]
    if any(not math.isfinite(v) for v in ests):
        return {"skip": "non-finite estimate"}
    cands = [k for k, (fm, _) in enumerate(cap.rec) if all(np.array_equal(x, y) for x, y in zip(fm, result.factor_matrices))]
    mn = min(float(np.min(f)) for f in result.factor_matrices)
    bmin = [min(float(np.min(f)) for f in fm) for fm, _ in cap.rec[1:]]
    return {"ests": [_fr(v) for v in ests], "trace": [_fr(v) for v in info["f_est_trace"]], "n_epoch": int(info["n_epoch"]),
            "nfails": int(opt._nfails), "ret_cands": cands, "lb_ok": bool(mn >= lb),
            "boundary_lb_ok": all(m >= lb for m in bmin), "min_entry": mn,
            "init_unchanged": all(np.array_equal(x, y) for x, y in zip(init_copy, M0.factor_matrices)),
            "step_trace_len": int(len(info["step_trace"]))}


def _flat(result, info):
    out = [_fr(v) for v in info["f_est_trace"]]
    for f in result.factor_matrices:
        out += [_fr(v) for v in f.ravel(order="F")]
    return out


def run_reuse(a):
    import numpy as np
    reused, fresh = [], []
    shared = _mk_opt(a)
    for mode, sink in (("reused", reused), ("fresh", fresh)):
        for p in a["probs"]:
            q = dict(a)
            q.update(p)
            X, M0, smp = _mk_problem(q)
            fh, gh, lb = _objective(q)
            opt = shared if mode == "reused" else _mk_opt(a)
            np.random.seed(p["seed"])
            try:
                result, info = opt.solve(M0, X, fh, gh, lb, smp)
                flat = _flat(result, info)
                if any("nan" in v or "inf" in v for v in flat):
                    sink.append({"exc": "non-finite"})
                else:
                    sink.append({"flat": flat})
            except Exception as ex:
                sink.append({"exc": type(ex).__name__, "msg": str(ex)[:120]})
    return {"reused": reused, "fresh": fresh}


def scale(ests, trace, tol):
    fe = [Fraction(x) for x in ests]
    ft = [Fraction(x) for x in trace]
    ftol = None if tol is None else Fraction(float(tol))
    L = 1
    for f in fe + ft + ([ftol] if ftol is not None else []):
        L = L * f.denominator // math.gcd(L, f.denominator)
    return [int(f * L) for f in fe], [int(f * L) for f in ft], (None if ftol is None else int(ftol * L))


def scale_many(A, B):
    L = 1
    for row in A + B:
        for x in row:
            d = Fraction(x).denominator
            L = L * d // math.gcd(L, d)
    conv = lambda rows: [[int(Fraction(x) * L) for x in row] for row in rows]
    return conv(A), conv(B)



# --------------------------------------------------------------------------------------- L-BFGS-B wrapper
def run_lbfgsb(a):
    """two solves on ONE LBFGSB object (the second must not depend on the first) + what C13 states about the result"""
    import numpy as np
    import pyttb as ttb
    from pyttb.gcp import optimizers, fg
    q = dict(a)
    q["sparse"] = False
    X, M0, _ = _mk_problem(q)
    fh, gh, lb = _objective(q)
    mask = None if a["mask"] is None else np.array(a["mask"], dtype=float).reshape(tuple(a["shape"]), order="F")
    calls = []
    user_cb = (lambda xk: calls.append(1)) if a["callback"] else None
    opt = optimizers.LBFGSB(maxiter=a["maxiter"], callback=user_cb)
    before = dict(opt._solver_kwargs)
    f0 = float(fg.evaluate(M0, X, mask, fh, None))
    outs = []
    # what LBFGSB.solve hands to scipy and gets back (scipy is the oracle of C13_lbfgsb_wrap)
    seen = []
    orig_scipy = optimizers.fmin_l_bfgs_b

    def spy(func, x0, fprime=None, approx_grad=False, bounds=None, **kw):
        rec = {"x0": np.array(x0, dtype=float).copy(), "bounds": list(bounds), "cb": kw.get("callback"),
               "slot_during": opt._solver_kwargs.get("callback"), "none_passed": any(v is None for v in kw.values()),
               "approx_grad": approx_grad, "fprime": fprime}
        r = orig_scipy(func, x0, fprime=fprime, approx_grad=approx_grad, bounds=bounds, **kw)
        rec["final_vector"], rec["final_f"] = np.array(r[0], dtype=float).copy(), float(r[1])
        seen.append(rec)
        return r
    optimizers.fmin_l_bfgs_b = spy
    wrap_ok = True
    try:
      for rep in range(2):
        init = M0.copy()
        res, info = opt.solve(init, X, fh, gh, lb, mask)
        f_end = float(fg.evaluate(res, X, mask, fh, None))
        rec = seen[-1]
        nvec = sum(a["shape"]) * a["R"]
        wrap_ok = wrap_ok and bool(
            len(rec["x0"]) == nvec and np.array_equal(rec["x0"], M0.tovec(False))
            and rec["bounds"] == [(lb, np.inf)] * nvec
            and isinstance(rec["cb"], optimizers.LBFGSB.Monitor) and rec["cb"].callback is user_cb
            and rec["slot_during"] is rec["cb"] and not rec["none_passed"]
            and rec["approx_grad"] is False and rec["fprime"] is None
            and np.array_equal(res.tovec(False), rec["final_vector"]) and float(info["final_f"]) == rec["final_f"]
            and len(seen) == rep + 1)
        outs.append({"final_f": _fr(info["final_f"]), "f_end": _fr(f_end),
                     "min_entry": min(float(np.min(f)) for f in res.factor_matrices),
                     "flat": [_fr(v) for f in res.factor_matrices for v in f.ravel(order="F")],
                     "init_unchanged": all(np.array_equal(x, y) for x, y in zip(init.factor_matrices, M0.factor_matrices)),
                     "shapes_ok": [f.shape for f in res.factor_matrices] == [f.shape for f in M0.factor_matrices]})
    finally:
        optimizers.fmin_l_bfgs_b = orig_scipy
    after = opt._solver_kwargs
    restored = after.get("callback") is user_cb and all(after[k] == before[k] or (after[k] is before[k]) for k in before if k not in ("callback", "pgtol"))
    return {"f0": _fr(f0), "outs": outs, "lb": (None if lb == -np.inf else lb), "callback_restored": bool(restored),
            "callback_called": len(calls) > 0 if a["callback"] else None, "wrap_ok": bool(wrap_ok)}

# --------------------------------------------------------------------------------------- brute-force oracle
def _cell(shape, data, sub):
    k, mul = 0, 1
    for x, d in zip(sub, shape):
        k += x * mul
        mul *= d
    return data[k]


def oracle(op, a, o):
    if op.startswith("uniform") or op.startswith("strat") or op.startswith("semi"):
        shp = a["shape"]
        size = math.prod(shp)
        subs, vals, ws = o["subs"], o["vals"], [Fraction(w) for w in o["weights"]]
        if not (len(subs) == len(vals) == len(ws)) or o["vals_shape"] != [len(subs)]:
            return f"{len(subs)} subscripts, values of shape {o['vals_shape']}, {len(ws)} weights"
        for r in subs:
            if any(not (0 <= x < d) for x, d in zip(r, shp)):
                return f"subscript {r} is outside the tensor of shape {shp}"
        if op.startswith("uniform"):
            for r, v in zip(subs, vals):
                if _cell(shp, a["data"], r) != v:
                    return f"value {v} at {r} is not the data there"
            if abs(sum(ws) - size) > Fraction(1, 10 ** 6):
                return f"weights total {float(sum(ws))}, the tensor has {size} entries"
            return None
        stored = {tuple(s): v for s, v in zip(a["subs"], a["vals"])}
        for k, (r, v) in enumerate(zip(subs, vals)):
            if stored.get(tuple(r), 0) != v:
                return f"sample {k}: value {v} at {r} but the data there is {stored.get(tuple(r), 0)}"
        cn = a["cn"]
        nnz = len(a["subs"])
        ztot = size if op.startswith("semi") else size - nnz
        if cn and abs(sum(ws[:cn]) - nnz) > Fraction(1, 10 ** 6):
            return f"nonzero weights total {float(sum(ws[:cn]))} for {nnz} nonzeros"
        if a["cz"] and abs(sum(ws[cn:]) - ztot) > Fraction(1, 10 ** 6):
            return f"zero weights total {float(sum(ws[cn:]))} for {ztot} entries"
        return None
    if op in ("solve", "solve_trace"):
        ests = [Fraction(x) for x in o["ests"]]
        trace = [Fraction(x) for x in o["trace"]]
        if trace != ests:
            return (f"the reported trace has {len(trace)} values {[float(t) for t in trace]}; the start plus {len(ests) - 1} completed "
                    f"epochs were estimated: {[float(e) for e in ests]}")
        best = min(ests)
        if not o["ret_cands"]:
            return "returned model is none of the models held at an epoch boundary"
        if not any(ests[k] == best for k in o["ret_cands"]):
            return f"returned model is the boundary model #{o['ret_cands']} but the smallest estimate {float(best)} belongs to #{ests.index(best)}"
        if not (o["lb_ok"] or 0 in o["ret_cands"]):
            return f"returned factor entry {o['min_entry']} below the lower bound"
        return None
    if op == "lbfgsb":
        f0 = Fraction(o["f0"])
        for k, r in enumerate(o["outs"]):
            if Fraction(r["final_f"]) > f0 or Fraction(r["f_end"]) > f0:
                return f"L-BFGS-B solve #{k + 1} returned objective {float(Fraction(r['f_end']))} above the starting objective {float(f0)}"
            if o["lb"] is not None and r["min_entry"] < o["lb"]:
                return f"factor entry {r['min_entry']} below the lower bound {o['lb']}"
        if o["outs"][0]["flat"] != o["outs"][1]["flat"]:
            return "second solve on the same LBFGSB object differs from the first identical solve"
        if not o["callback_restored"]:
            return "the user's callback slot was not restored after the solve"
        if not o.get("wrap_ok", True):
            return "LBFGSB.solve: bounds / start vector / callback handed to scipy or the vector read back do not match the model"
        return None
    if op == "config":
        c, size, nnz = o["conf"], o["size"], o["nnz"]
        r = a["req"]
        if c[0] == "bad":
            return f"sampler configuration cannot be read back: {c[1]}"
        if c[0] == "error":
            return None
        if r is None:          # defaults never ask for more than the tensor holds
            if c[0] == "uniform" and not (0 <= c[1] <= size):
                return f"default uniform sample count {c[1]} for a tensor with {size} entries"
            if c[0] in ("stratified", "semistrat") and not (0 <= c[1] <= nnz and 0 <= c[2] <= size - nnz):
                return f"default stratified counts ({c[1]} nonzeros, {c[2]} zeros) for a tensor with {nnz} nonzeros and {size - nnz} zeros"
        elif isinstance(r, int):
            if c[0] in ("uniform", "poisson") and c[1] != r:
                return f"requested {r} samples, configured {c[1]}"
            if c[0] in ("stratified", "semistrat") and (c[1], c[2]) != (r, r):
                return f"requested {r} nonzero and {r} zero samples, configured {c[1:]}"
        elif c[0] in ("stratified", "semistrat") and [c[1], c[2]] != list(r):
            return f"requested StratifiedCount{tuple(r)}, configured {c[1:]}"
        if (c[0] == "semistrat") != (len(o["crng"]) > 0) and not (c[0] == "semistrat" and c[1] == 0):
            return f"correction range {o['crng']} for a {c[0]} sampler"
        return None
    if op == "reuse":
        for k, (r, f) in enumerate(zip(o["reused"], o["fresh"])):
            if r != f:
                return f"solve #{k + 1} on the reused object differs from the same solve on a fresh object"
        return None
    return None


# --------------------------------------------------------------------------------------- witnesses of the findings


def rand_witness_problem():
    return {"shape": [2, 3], "data": [1, 0, 2, 3, 0, 1], "R": 1, "init": [[[1.0], [0.5]], [[0.5], [1.0], [1.5]]],
            "obj": "gaussian", "seed": 7, "sparse": False, "fs": 6, "gs": 3}




def _w_a47():
    a = {"shape": [2, 2], "subs": [[0, 0], [1, 0], [0, 1], [1, 1]], "vals": [1, 2, 3, 5], "cn": 1, "cz": 2, "seed": 3, "force": None}
    o = run_stratified(a, semi=True)
    if o["meta"]["semi_hit"]:
        return f"semistrat returns value 0 at {o['subs'][1:]} where the data are nonzero"
    return None


def _w_short():
    a = {"shape": [2, 3], "subs": [[0, 0], [1, 0], [0, 1], [1, 1], [0, 2]], "vals": [1, 2, 3, 4, 5], "cn": 2, "cz": 3, "force": None}
    for seed in range(40):
        a["seed"] = seed
        o = run_stratified(a, semi=False)
        if "exc" not in o and len(o["subs"]) != len(o["vals"]):
            return f"stratified(2 nonzeros, 3 zeros) on a 2x3 tensor with one zero (seed {seed}): {len(o['subs'])} subscripts, {len(o['vals'])} values"
    return None




def _w_empty():
    a = {"shape": [2, 3], "subs": [], "vals": [], "cn": 0, "cz": 2, "seed": 3, "force": None}
    o = run_stratified(a, semi=False)
    return f"stratified sampling of an all-zero sptensor raises {o['exc']}" if "exc" in o else None




# only the OPEN findings are replayed as witnesses; the inputs of the repaired ones (A-35, A-36, A-37, A-48, C13-S2) are fixed
# regression cases in c13.gen_cases
WITNESSES = {"C13-S3": _w_empty, "A-47": _w_a47, "C13-S1": _w_short}


# --------------------------------------------------------------------------------------- GCPSampler configuration table
_KINDS = [None, "uniform", "stratified", "semistratified"]


def config_cases(rng, big):
    from vcheck import Case
    cases = []
    tensors = [(False, [2, 3], 3), (True, [2, 3], 5), (True, [2, 3], 0), (False, [15, 10, 10], 1500), (True, [1000, 1000, 1000], 1500),
               (True, [1000, 1000, 1000], 120000), (True, [40, 50], 2000), (False, [120, 100, 100], 7)]
    if big:
        tensors += [(True, [1000, 1000, 1000], 250000), (False, [300, 200, 200], 12000000), (True, [700, 30], 20990)]
    reqs = [None, 4, [2, 3], [0, 1]]
    for (sparse, shape, nnz) in tensors:
        for mi in ([1000, 7] if not big else [1000, 7, 1, 3]):
            for side in ("f", "g"):
                for kind in _KINDS:
                    for req in reqs:
                        cases.append(Case("config", {"sparse": sparse, "shape": shape, "nnz": nnz, "max_iters": mi, "side": side,
                                                     "kind": kind, "req": req}, True))
    # max_iters = 0 divides by zero in the gradient defaults
    cases.append(Case("config", {"sparse": True, "shape": [2, 3], "nnz": 5, "max_iters": 0, "side": "g", "kind": None, "req": None}, True))
    cases.append(Case("config", {"sparse": False, "shape": [2, 3], "nnz": 5, "max_iters": 0, "side": "g", "kind": None, "req": None}, True))
    return cases


_DATA_CACHE = {}


def _config_data(np, ttb, sparse, shape, nnz):
    key = (sparse, tuple(shape), nnz)
    if key in _DATA_CACHE:
        return _DATA_CACHE[key]
    size = math.prod(shape)
    step = max(1, size // max(nnz, 1))
    lin = np.arange(nnz, dtype=np.int64) * step
    if sparse:
        if nnz:
            subs = np.array(np.unravel_index(lin, tuple(shape), order="F")).T.copy()
            X = ttb.sptensor(subs, np.ones((nnz, 1)), tuple(shape))
        else:
            X = ttb.sptensor(shape=tuple(shape))
    else:
        arr = np.zeros(size)
        arr[lin] = 1.0
        X = ttb.tensor(arr.reshape(tuple(shape), order="F"))
    _DATA_CACHE.clear()
    _DATA_CACHE[key] = X
    return X


def _read_conf(np, size, nnz, fn):
    """the configured sampler, read back from the object"""
    import functools
    if isinstance(fn, functools.partial):
        kw = fn.keywords
        name = fn.func.__name__
        if name == "uniform":
            return ["uniform", int(kw["samples"])]
        if name in ("stratified", "semistrat"):
            if name == "stratified" and not (len(kw["nz_idx"]) == nnz and bool(np.all(np.diff(kw["nz_idx"]) >= 0))):
                return ["bad", "nz_idx is not the sorted list of the nonzeros' linear indices"]
            return [name, int(kw["num_nonzeros"]), int(kw["num_zeros"])]
        return ["bad", name]
    cells = dict(zip(fn.__code__.co_freevars, [c.cell_contents for c in fn.__closure__]))
    en, ez = Fraction(float(cells["exp_nonzeros"])), Fraction(float(cells["exp_zeros"]))
    n = round(en + ez)
    ok = size > 0 and abs(en - Fraction(n * nnz, size)) < Fraction(1, 10 ** 6) and abs(ez - Fraction(n * (size - nnz), size)) < Fraction(1, 10 ** 6)
    return ["poisson", n, size, nnz] if ok else ["bad", f"expected counts {float(en)}, {float(ez)}"]


def run_config(a):
    import numpy as np
    import pyttb as ttb
    from pyttb.gcp import samplers
    X = _config_data(np, ttb, a["sparse"], a["shape"], a["nnz"])
    size, nnz = int(np.prod(X.shape)), int(X.nnz)
    K = {None: None, "uniform": samplers.Samplers.UNIFORM, "stratified": samplers.Samplers.STRATIFIED,
         "semistratified": samplers.Samplers.SEMISTRATIFIED}

    def req(r):
        return r if not isinstance(r, list) else samplers.StratifiedCount(num_nonzeros=r[0], num_zeros=r[1])
    # the other side of the constructor gets a request that is always accepted
    safe_kind = samplers.Samplers.STRATIFIED if a["sparse"] else samplers.Samplers.UNIFORM
    safe_req = samplers.StratifiedCount(num_nonzeros=1, num_zeros=1) if a["sparse"] else 2
    kw = {"function_sampler": safe_kind, "function_samples": safe_req, "gradient_sampler": safe_kind, "gradient_samples": safe_req,
          "max_iters": a["max_iters"]}
    if a["side"] == "f":
        kw["function_sampler"], kw["function_samples"] = K[a["kind"]], req(a["req"])
    else:
        kw["gradient_sampler"], kw["gradient_samples"] = K[a["kind"]], req(a["req"])
    try:
        g = samplers.GCPSampler(X, **kw)
    except (ValueError, ZeroDivisionError) as ex:
        return {"conf": ["error", type(ex).__name__], "size": size, "nnz": nnz}
    fn = g._fsampler if a["side"] == "f" else g._gsampler
    return {"conf": _read_conf(np, size, nnz, fn), "crng": [int(x) for x in g.crng], "size": size, "nnz": nnz}


def config_check(a, o):
    from vcheck import gz
    c = o["conf"]
    if c[0] == "bad":
        return "false"
    obs = {"uniform": lambda: f"(CUniform {gz(c[1])})", "stratified": lambda: f"(CStratified {gz(c[1])} {gz(c[2])})",
           "semistrat": lambda: f"(CSemistrat {gz(c[1])} {gz(c[2])})", "poisson": lambda: f"(CPoisson {gz(c[1])} {gz(c[2])} {gz(c[3])})",
           "error": lambda: "CError"}[c[0]]()
    kind = {None: "None", "uniform": "(Some Uniform)", "stratified": "(Some Stratified)", "semistratified": "(Some Semistratified)"}[a["kind"]]
    r = a["req"]
    req = "RNone" if r is None else (f"(RInt {gz(r)})" if isinstance(r, int) else f"(RStrat {gz(r[0])} {gz(r[1])})")
    sp = "true" if a["sparse"] else "false"
    if a["side"] == "f":
        model = f"(fn_config {sp} {gz(o['size'])} {gz(o['nnz'])} {kind} {req})"
    else:
        model = f"(gr_config {sp} {gz(o['size'])} {gz(o['nnz'])} {gz(a['max_iters'])} {kind} {req})"
    crng = "true"
    if c[0] != "error":
        crng = f"Z.eqb (crng_len {model}) {gz(len(o['crng']))} && {'true' if o['crng'] == list(range(len(o['crng']))) else 'false'}"
    return f"sconf_eqb {model} {obs} && {crng}"
