(* Proofs/W3Laws.v — laws of the hand references of Model/W3Utils.v, transported to the generated functions of
   Gen/GenUtils3.v through the bridge lemmas of Proofs/W3Bridge.v.  The statements used by Props/W3C*.v are the
   `gen_…` lemmas at the end of each section. *)
From Coq Require Import List ZArith Arith Bool Lia.
From PV Require Import Np.NpZ Np.NpZ2 Np.NpZ3 Proofs.NpZProofs Gen.GenUtils3 Model.W3Utils Proofs.W3Bridge.
Import ListNotations.
Local Open Scope Z_scope.

(* ------------------------------------------------------------------------------------------ *)
(* list updates                                                                                 *)
(* ------------------------------------------------------------------------------------------ *)

Lemma upd_length {A} (l : list A) : forall k v, length (upd l k v) = length l.
Proof. induction l as [|x l IH]; intros [|k] v; cbn; auto. Qed.

Lemma upd_nth_same {A} (l : list A) d : forall k v, (k < length l)%nat -> nth k (upd l k v) d = v.
Proof. induction l as [|x l IH]; intros [|k] v H; cbn in *; try lia; auto. apply IH. lia. Qed.

Lemma upd_nth_other {A} (l : list A) d : forall k j v, j <> k -> nth j (upd l k v) d = nth j l d.
Proof. induction l as [|x l IH]; intros [|k] [|j] v H; cbn; auto; try congruence. Qed.

Lemma np_set_nonneg {A} (l : list A) i x : 0 <= i -> np_set l i x = upd l (Z.to_nat i) x.
Proof. intros H. unfold np_set. destruct (Z.ltb_spec i 0); [lia|reflexivity]. Qed.

Lemma idx_ok_range {A} (l : list A) i : 0 <= i < zlen l -> idx_ok l i = true.
Proof. intros H. unfold idx_ok. apply andb_true_intro. split; [apply Z.leb_le|apply Z.ltb_lt]; lia. Qed.

Lemma znth_nonneg {A} (d : A) l i : 0 <= i -> znth d l i = nth (Z.to_nat i) l d.
Proof. intros H. unfold znth. destruct (Z.ltb_spec i 0); [lia|]. destruct (Z.ltb_spec i 0); [lia|reflexivity]. Qed.

(* ------------------------------------------------------------------------------------------ *)
(* tt_renumberdim: the renumbered subscripts are the positions inside the selection               *)
(* ------------------------------------------------------------------------------------------ *)

Lemma fill_from_spec sel : forall m k,
  NoDup sel -> (forall x, In x sel -> 0 <= x < zlen m) ->
  exists m', fill_from m sel k = Ok m' /\ length m' = length m /\
    (forall p, (p < length sel)%nat -> nth (Z.to_nat (nth p sel 0)) m' 0 = k + Z.of_nat p) /\
    (forall y, ~ In (Z.of_nat y) sel -> nth y m' 0 = nth y m 0).
Proof.
  induction sel as [|x sel IH]; intros m k Hnd Hr.
  - exists m. repeat split; auto. intros p Hp. cbn in Hp. lia.
  - inversion Hnd as [|? ? Hx Hnd']; subst.
    assert (Hxr : 0 <= x < zlen m) by (apply Hr; left; reflexivity).
    cbn [fill_from]. rewrite idx_ok_range by exact Hxr. rewrite np_set_nonneg by lia.
    destruct (IH (upd m (Z.to_nat x) k) (k + 1) Hnd') as (m' & E & Hl & Hp & Hu).
    { intros y Hy. unfold zlen. rewrite upd_length. apply Hr. right. exact Hy. }
    exists m'. split; [exact E|]. split; [rewrite Hl; apply upd_length|]. split.
    + intros [|p] Hlt; cbn [nth].
      * rewrite Hu by (rewrite Z2Nat.id by lia; exact Hx).
        rewrite upd_nth_same; [lia|]. unfold zlen in Hxr. lia.
      * rewrite Hp by (cbn in Hlt; lia). lia.
    + intros y Hy. rewrite Hu by (intros HH; apply Hy; right; exact HH).
      apply upd_nth_other. intros ->. apply Hy. left. rewrite Z2Nat.id by lia. reflexivity.
Qed.

Lemma In_nth_pos (l : vec) x : In x l -> exists p, (p < length l)%nat /\ nth p l 0 = x.
Proof. intros H. destruct (In_nth l x 0 H) as (p & Hp & E). exists p. auto. Qed.

Lemma np_take_ok_range (m idx : vec) : (forall x, In x idx -> 0 <= x < zlen m) -> np_take_ok m idx = true.
Proof. intros H. unfold np_take_ok. apply forallb_forall. intros x Hx. apply idx_ok_range. auto. Qed.

Theorem renumberdim_positions (idx : vec) (shape : Z) (nr : pyidx) (sel : vec) :
  H_selection shape nr = Ok (sel, zlen sel) -> 0 <= shape ->
  NoDup sel -> (forall x, In x sel -> 0 <= x < shape) -> (forall x, In x idx -> In x sel) ->
  exists newidx, tt_renumberdim idx shape nr = Ok (newidx, zlen sel) /\ length newidx = length idx /\
    forall j, (j < length idx)%nat ->
      0 <= nth j newidx 0 < zlen sel /\ znth 0 sel (nth j newidx 0) = nth j idx 0.
Proof.
  intros Hsel Hs Hnd Hr Hin. rewrite tt_renumberdim_bridge. unfold H_renumberdim. rewrite Hsel. cbn [bind fst snd].
  destruct (Z.leb_spec 0 shape); [|lia].
  unfold zlen at 1. rewrite Nat2Z.id, firstn_all.
  assert (Hz : zlen (np_zeros shape) = shape).
  { unfold zlen, np_zeros, np_full. rewrite repeat_length. lia. }
  destruct (fill_from_spec sel (np_zeros shape) 0 Hnd) as (m & E & Hl & Hp & _).
  { intros x Hx. rewrite Hz. auto. }
  rewrite E. cbn [bind].
  assert (Hzm : zlen m = shape) by (unfold zlen in *; rewrite Hl; exact Hz).
  rewrite np_take_ok_range by (intros x Hx; rewrite Hzm; auto).
  exists (np_take 0 m idx). split; [reflexivity|]. split; [unfold np_take; apply map_length|].
  intros j Hj. unfold np_take. rewrite (nth_indep _ 0 (znth 0 m 0)) by (rewrite map_length; exact Hj).
  rewrite map_nth.
  assert (Hx : In (nth j idx 0) sel) by (apply Hin, nth_In, Hj).
  destruct (In_nth_pos sel _ Hx) as (p & Hp1 & Hp2).
  assert (Hxr := Hr _ Hx).
  rewrite znth_nonneg by lia. rewrite <- Hp2, Hp by exact Hp1. rewrite Z.add_0_l.
  split; [unfold zlen; lia|]. rewrite znth_nat. reflexivity.
Qed.

Lemma znth_zeros n i : znth 0 (np_zeros n) i = 0.
Proof.
  unfold znth, np_zeros, np_full. destruct (_ <? 0); [reflexivity|]. apply nth_repeat.
Qed.

(* an integer key: every stored subscript is renumbered to 0 and the mode is reported with size 0 *)
Theorem renumberdim_int (idx : vec) (shape k : Z) :
  0 <= shape -> (forall x, In x idx -> - shape <= x < shape) ->
  tt_renumberdim idx shape (IxInt k) = Ok (map (fun _ => 0) idx, 0).
Proof.
  intros Hs Hr. rewrite tt_renumberdim_bridge. unfold H_renumberdim. cbn [H_selection bind fst snd Z.to_nat firstn fill_from].
  destruct (Z.leb_spec 0 shape); [|lia].
  assert (Hz : zlen (np_zeros shape) = shape).
  { unfold zlen, np_zeros, np_full. rewrite repeat_length. lia. }
  assert (E : np_take_ok (np_zeros shape) idx = true).
  { unfold np_take_ok. apply forallb_forall. intros x Hx. unfold idx_ok. rewrite Hz.
    specialize (Hr x Hx). apply andb_true_intro. split; [apply Z.leb_le|apply Z.ltb_lt]; lia. }
  rewrite E. f_equal. f_equal. unfold np_take. apply map_ext. intros x. apply znth_zeros.
Qed.

(* a negative mode size or the key None is rejected *)
Theorem renumberdim_rejects_none idx shape : tt_renumberdim idx shape IxNone = Err.
Proof. rewrite tt_renumberdim_bridge. reflexivity. Qed.

Theorem renumberdim_rejects_zero_step idx shape a b : tt_renumberdim idx shape (IxSlice (mkslice a b (Some 0))) = Err.
Proof. rewrite tt_renumberdim_bridge. reflexivity. Qed.

(* ------------------------------------------------------------------------------------------ *)
(* tt_renumber                                                                                  *)
(* ------------------------------------------------------------------------------------------ *)

Lemma foldM_id {X S} (step : X -> S -> res S) l s : (forall x, In x l -> step x s = Ok s) -> foldM step l s = Ok s.
Proof. induction l as [|x l IH]; intros H; [reflexivity|]. cbn. rewrite H by (left; reflexivity). cbn. apply IH. intros. apply H. right. assumption. Qed.

Definition full_slice : pyidx := IxSlice (mkslice None None None).

(* the key (:, :, ..., :) leaves subscripts and shape as they are *)
Theorem renumber_all_full (subs : mat) (shape : vec) (nrs : list pyidx) :
  length nrs = length shape -> Forall (fun r => r = full_slice) nrs ->
  tt_renumber subs shape nrs = Ok (subs, shape).
Proof.
  intros Hl Hf. destruct tt_renumber_bridge as (g & Hg & Eb). rewrite Eb. unfold H_renumber. rewrite H_renumber_loop_foldM.
  rewrite foldM_id; [reflexivity|].
  intros i Hi. apply in_np_arange in Hi. unfold H_renumber_step.
  assert (Ei : idx_ok nrs i = true) by (apply idx_ok_range; unfold zlen in *; lia).
  assert (Er : znth IxNone nrs i = full_slice).
  { rewrite znth_nonneg by lia. rewrite Forall_forall in Hf. apply Hf. apply nth_In. unfold zlen in Hi. lia. }
  rewrite Ei, Er, (Hg full_slice eq_refl). reflexivity.
Qed.

(* ------------------------------------------------------------------------------------------ *)
(* tt_irenumber                                                                                 *)
(* ------------------------------------------------------------------------------------------ *)

Theorem irenumber_empty t shape nrs : spt_nnz t = 0 -> tt_irenumber t shape nrs = Ok [].
Proof. intros H. rewrite tt_irenumber_bridge. unfold H_irenumber. rewrite H. reflexivity. Qed.

(* the step of a slice entry is never read (known finding C04-N04: S[0, 0:3:2] = <sparse> lands on 0, 1 instead of 0, 2) *)
Definition ix_forget_step (r : pyidx) : pyidx :=
  match r with IxSlice s => IxSlice (mkslice (sl_start s) (sl_stop s) None) | _ => r end.

Lemma irenumber_loop_forget shape nrs : forall k ns,
  H_irenumber_loop shape (np_enumerate k (map ix_forget_step nrs)) ns = H_irenumber_loop shape (np_enumerate k nrs) ns.
Proof.
  induction nrs as [|r nrs IH]; intros k ns; [reflexivity|].
  cbn [map np_enumerate H_irenumber_loop].
  assert (E : H_irenumber_step shape k (ix_forget_step r) ns = H_irenumber_step shape k r ns) by (destruct r; reflexivity).
  rewrite E. destruct (H_irenumber_step shape k r ns); cbn [bind]; [apply IH|reflexivity].
Qed.

Theorem irenumber_step_ignored t shape nrs : tt_irenumber t shape (map ix_forget_step nrs) = tt_irenumber t shape nrs.
Proof.
  rewrite !tt_irenumber_bridge. unfold H_irenumber. destruct (spt_nnz t =? 0); [reflexivity|]. apply irenumber_loop_forget.
Qed.

Lemma size2_singletons (col : vec) : np_size2 (map (fun x => [x]) col) = zlen col.
Proof.
  induction col as [|x col IH]; [reflexivity|].
  change (np_size2 (map (fun x => [x]) (x :: col))) with (zlen [x] + np_size2 (map (fun x => [x]) col)).
  rewrite IH. unfold zlen. cbn [length]. lia.
Qed.

(* the inclusive upper end of a slice entry: subscript x of the source lands on start + x, accepted up to x = stop - start
   (one past the slice), as the upstream test of tt_irenumber asserts *)
Theorem irenumber_slice_one_mode (col : vec) (vals shp : vec) (d a b : Z) st :
  col <> [] -> 0 < b -> 0 <= a -> (forall x, In x col -> 0 <= x <= b - a) ->
  tt_irenumber (mkspt (map (fun x => [x]) col) vals shp) [d] [IxSlice (mkslice (Some a) (Some b) st)]
  = Ok (map (fun x => [a + x]) col).
Proof.
  intros Hne Hb Ha Hr. rewrite tt_irenumber_bridge. unfold H_irenumber.
  assert (Hn : spt_nnz (mkspt (map (fun x => [x]) col) vals shp) =? 0 = false).
  { unfold spt_nnz. cbn [spt_subs]. destruct col as [|x col']; [congruence|].
    assert (Hs : np_size2 (map (fun x => [x]) (x :: col')) =? 0 = false).
    { apply Z.eqb_neq. rewrite size2_singletons. unfold zlen. cbn [length]. lia. }
    rewrite Hs. apply Z.eqb_neq. unfold np_nrows, zlen. cbn [map length]. lia. }
  rewrite Hn. cbn [spt_subs np_enumerate H_irenumber_loop H_irenumber_step sl_start sl_stop].
  assert (Et : opt_truthy (Some b) = true) by (unfold opt_truthy; apply negb_true_iff, Z.eqb_neq; lia).
  rewrite Et. cbn [orb].
  assert (Eb : opt_or (Some b) (znth 0 [d] 0) = b) by (unfold opt_or; destruct (Z.eqb_spec b 0); [lia|reflexivity]).
  rewrite Eb.
  set (s0 := opt_or (Some a) 0).
  assert (Hcol : np_col (map (fun x => [x]) col) 0 = col).
  { unfold np_col. rewrite map_map. rewrite <- (map_id col) at 2. apply map_ext. reflexivity. }
  assert (Hok : np_col_ok (map (fun x => [x]) col) 0 = true).
  { unfold np_col_ok. apply forallb_forall. intros r Hr'. apply in_map_iff in Hr' as (x & <- & _). reflexivity. }
  rewrite Hok, Hcol.
  assert (Hlen : zlen (np_arange s0 (b + 1)) = b + 1 - s0 \/ s0 = b /\ a = 0).
  { left. unfold zlen, np_arange. rewrite map_length, seq_length.
    assert (s0 <= b).
    { unfold s0, opt_or. destruct (Z.eqb_spec a 0); [lia|].
      destruct col as [|x col']; [congruence|]. specialize (Hr x (or_introl eq_refl)). lia. }
    lia. }
  assert (Hs0 : forall x, In x col -> a + x = s0 + x).
  { intros x Hx. unfold s0, opt_or. destruct (Z.eqb_spec a 0); lia. }
  assert (Hs0le : s0 <= a).
  { unfold s0, opt_or. destruct (Z.eqb_spec a 0); lia. }
  assert (Htk : np_take_ok (np_arange s0 (b + 1)) col = true).
  { apply np_take_ok_range. intros x Hx. specialize (Hr x Hx). destruct Hlen as [Hlen|[? ?]]; lia. }
  rewrite Htk. cbn [andb].
  assert (Hval : np_take 0 (np_arange s0 (b + 1)) col = map (fun x => a + x) col).
  { unfold np_take. apply map_ext_in. intros x Hx. specialize (Hr x Hx).
    rewrite znth_nonneg by lia. unfold np_arange.
    rewrite (nth_indep _ 0 (s0 + Z.of_nat 0)) by (rewrite map_length, seq_length; lia).
    rewrite (map_nth (fun k => s0 + Z.of_nat k)). rewrite seq_nth by lia. rewrite Hs0 by exact Hx. lia. }
  rewrite Hval.
  assert (Hsc : np_setcol_ok (map (fun x => [x]) col) 0 (map (fun x => a + x) col) = true).
  { unfold np_setcol_ok. rewrite Hok. cbn [andb]. apply orb_true_intro. left. apply Z.eqb_eq.
    unfold zlen. rewrite !map_length. reflexivity. }
  rewrite Hsc. cbn [bind]. f_equal.
  unfold np_setcol.
  assert (Hgen : forall l : vec, setcol_rows (map (fun x => [x]) l) 0 (map (fun x => a + x) l) = map (fun x => [a + x]) l).
  { induction l as [|x l IH]; [reflexivity|]. cbn [map setcol_rows]. rewrite IH. reflexivity. }
  destruct ((zlen (map (fun x => a + x) col) =? 1) && negb (zlen (map (fun x => [x]) col) =? 1)) eqn:Eb1; [|apply Hgen].
  exfalso. apply andb_true_iff in Eb1 as [E1 E2]. apply Z.eqb_eq in E1. apply negb_true_iff, Z.eqb_neq in E2.
  unfold zlen in *. rewrite map_length in *. lia.
Qed.

(* ------------------------------------------------------------------------------------------ *)
(* get_mttkrp_factors                                                                           *)
(* ------------------------------------------------------------------------------------------ *)

Lemma absorb_mode_neq n : absorb_mode n <> n.
Proof. unfold absorb_mode. destruct (Z.eqb_spec n 0); lia. Qed.

(* --- the column-count agreement check --- *)

Lemma np_unique_const (l : vec) c : (forall x, In x l -> x = c) -> np_unique l = [] \/ np_unique l = [c].
Proof.
  induction l as [|x l IH]; intros H; [left; reflexivity|]. right.
  assert (x = c) by (apply H; left; reflexivity). subst x.
  change (np_unique (c :: l)) with (ins_uniq c (np_unique l)).
  destruct IH as [E|E]; [intros y Hy; apply H; right; exact Hy| |]; rewrite E; cbn [ins_uniq]; [reflexivity|].
  rewrite Z.ltb_irrefl, Z.eqb_refl. reflexivity.
Qed.

Lemma in_others i n ndims : In i (others n ndims) <-> 0 <= i < ndims /\ i <> n.
Proof.
  unfold others. rewrite filter_In, in_np_arange. split.
  - intros [H1 H2]. split; [exact H1|]. apply negb_true_iff, Z.eqb_neq in H2. exact H2.
  - intros [H1 H2]. split; [exact H1|]. apply negb_true_iff, Z.eqb_neq. exact H2.
Qed.

Lemma accept_factors_ok (l : list mat) (n : Z) (c : Z) :
  0 <= n < zlen l -> (forall i, 0 <= i < zlen l -> i <> n -> np_ncols (znth [] l i) = c) ->
  accept_factors l n (zlen l) = Ok l.
Proof.
  intros Hn Hc. unfold accept_factors. rewrite Z.eqb_refl.
  assert (En : (0 <=? n) && (n <? zlen l) = true) by (apply andb_true_intro; split; [apply Z.leb_le|apply Z.ltb_lt]; lia).
  rewrite En. cbn [andb].
  assert (E1 : forallb (fun i => idx_ok l i) (others n (zlen l)) = true).
  { apply forallb_forall. intros i Hi. apply in_others in Hi as [Hi _]. apply idx_ok_range. exact Hi. }
  rewrite E1. unfold cols_agree.
  destruct (np_unique_const (map (fun i => np_ncols (znth [] l i)) (others n (zlen l))) c) as [E|E].
  - intros x Hx. apply in_map_iff in Hx as (i & <- & Hi). apply in_others in Hi as [Hi1 Hi2]. apply Hc; assumption.
  - rewrite E. reflexivity.
  - rewrite E. reflexivity.
Qed.

(* two factors other than the skipped one with different column counts: rejected *)
Lemma np_unique_two (l : vec) x y : In x l -> In y l -> x <> y -> zlen (np_unique l) >? 1 = true.
Proof.
  intros Hx Hy Hne. apply np_unique_in in Hx. apply np_unique_in in Hy.
  destruct (np_unique l) as [|a [|b r]] eqn:E.
  - destruct Hx.
  - destruct Hx as [<-|[]]. destruct Hy as [<-|[]]. congruence.
  - unfold zlen. cbn [length]. apply Z.gtb_lt. lia.
Qed.

Theorem mttkrp_factors_rejects_columns (l : list mat) (n i j : Z) :
  0 <= i < zlen l -> 0 <= j < zlen l -> i <> n -> j <> n -> np_ncols (znth [] l i) <> np_ncols (znth [] l j) ->
  get_mttkrp_factors (USeq l) n (zlen l) = Err.
Proof.
  intros Hi Hj Hin Hjn Hne. rewrite get_mttkrp_factors_bridge. cbn [H_mttkrp_factors]. unfold accept_factors.
  destruct ((zlen l =? zlen l) && ((0 <=? n) && (n <? zlen l))); [|reflexivity].
  destruct (forallb _ _); [|reflexivity]. unfold cols_agree.
  rewrite (np_unique_two _ (np_ncols (znth [] l i)) (np_ncols (znth [] l j))); [reflexivity| | |exact Hne].
  - apply in_map_iff. exists i. split; [reflexivity|]. apply in_others. split; assumption.
  - apply in_map_iff. exists j. split; [reflexivity|]. apply in_others. split; assumption.
Qed.

Definition scale_cols (w : vec) (m : mat) : mat := map (fun row => zmap2 Z.mul row w) m.

Lemma zmap2_zlen (a b : vec) : zlen a = zlen b -> zlen (zmap2 Z.mul a b) = zlen a.
Proof.
  unfold zlen. revert b. induction a as [|x a IH]; intros [|y b] H; cbn [length zmap2] in *; try lia.
  rewrite !Nat2Z.inj_succ in *. rewrite IH by lia. reflexivity.
Qed.

(* a well-formed ktensor (every factor has at least one row and one entry per weight in every row): the weights are absorbed
   into mode 1 when n = 0 and into mode 0 otherwise — never into the skipped mode n; every other factor (in particular
   factor n) is returned as it is *)
Theorem mttkrp_factors_kt (k : ktz) (n : Z) :
  (forall F, In F (kt_factors k) -> F <> [] /\ forall row, In row F -> zlen row = zlen (kt_weights k)) ->
  2 <= zlen (kt_factors k) -> 0 <= n < zlen (kt_factors k) ->
  exists fs, get_mttkrp_factors (UKt k) n (zlen (kt_factors k)) = Ok fs /\ zlen fs = zlen (kt_factors k) /\
    znth [] fs (absorb_mode n) = scale_cols (kt_weights k) (znth [] (kt_factors k) (absorb_mode n)) /\
    (forall m, 0 <= m < zlen (kt_factors k) -> m <> absorb_mode n -> znth [] fs m = znth [] (kt_factors k) m) /\
    znth [] fs n = znth [] (kt_factors k) n.
Proof.
  intros Hwf HN Hn. rewrite get_mttkrp_factors_bridge. unfold H_mttkrp_factors.
  assert (Hj : 0 <= absorb_mode n < zlen (kt_factors k)) by (unfold absorb_mode; destruct (n =? 0); lia).
  assert (Eok : kt_redistribute_ok k (absorb_mode n) = true).
  { unfold kt_redistribute_ok. apply andb_true_intro. split; [apply Z.leb_le|apply Z.ltb_lt]; lia. }
  rewrite Eok. unfold kt_redistribute. cbn [kt_factors].
  rewrite np_set_nonneg by lia.
  set (fs' := upd (kt_factors k) (Z.to_nat (absorb_mode n))
                (map (fun row => zmap2 Z.mul row (kt_weights k)) (znth [] (kt_factors k) (absorb_mode n)))).
  assert (Hlen : zlen fs' = zlen (kt_factors k)) by (unfold fs', zlen; rewrite upd_length; reflexivity).
  assert (Hother : forall m, 0 <= m < zlen (kt_factors k) -> m <> absorb_mode n -> znth [] fs' m = znth [] (kt_factors k) m).
  { intros m Hm Hne. unfold fs'. rewrite !znth_nonneg by lia. apply upd_nth_other. intros E. apply Hne. apply Z2Nat.inj in E; lia. }
  assert (Hlt : (Z.to_nat (absorb_mode n) < length (kt_factors k))%nat).
  { destruct Hj as [Hj0 Hj1]. unfold zlen in Hj1. apply Nat2Z.inj_lt. rewrite Z2Nat.id by exact Hj0. exact Hj1. }
  assert (Hself : znth [] fs' (absorb_mode n) = scale_cols (kt_weights k) (znth [] (kt_factors k) (absorb_mode n))).
  { destruct Hj as [Hj0 _]. unfold fs'. rewrite (znth_nonneg [] _ _ Hj0). rewrite upd_nth_same by exact Hlt. reflexivity. }
  assert (Hin : forall m, 0 <= m < zlen (kt_factors k) -> In (znth [] (kt_factors k) m) (kt_factors k)).
  { intros m [Hm0 Hm1]. rewrite (znth_nonneg [] _ _ Hm0). apply nth_In. unfold zlen in Hm1. apply Nat2Z.inj_lt. rewrite Z2Nat.id by exact Hm0. exact Hm1. }
  assert (Hcols : forall m, 0 <= m < zlen fs' -> m <> n -> np_ncols (znth [] fs' m) = zlen (kt_weights k)).
  { intros m Hm _. rewrite Hlen in Hm. destruct (Z.eq_dec m (absorb_mode n)) as [->|Hne].
    - rewrite Hself. destruct (Hwf _ (Hin _ Hj)) as [Hne' Hrows].
      destruct (znth [] (kt_factors k) (absorb_mode n)) as [|row F]; [congruence|].
      cbn [scale_cols map np_ncols]. rewrite zmap2_zlen; apply Hrows; left; reflexivity.
    - rewrite (Hother m Hm Hne). destruct (Hwf _ (Hin _ Hm)) as [Hne' Hrows].
      destruct (znth [] (kt_factors k) m) as [|row F]; [congruence|]. cbn [np_ncols]. apply Hrows. left. reflexivity. }
  rewrite <- Hlen. rewrite (accept_factors_ok fs' n (zlen (kt_weights k))); [|rewrite Hlen; exact Hn|exact Hcols].
  exists fs'. split; [reflexivity|]. split; [reflexivity|]. split; [exact Hself|]. split; [rewrite Hlen; exact Hother|].
  apply Hother; [exact Hn|apply not_eq_sym, absorb_mode_neq].
Qed.

(* a list of matrices whose factors other than the skipped one have one common column count is returned as it is *)
Theorem mttkrp_factors_seq (l : list mat) (n c : Z) :
  0 <= n < zlen l -> (forall i, 0 <= i < zlen l -> i <> n -> np_ncols (znth [] l i) = c) ->
  get_mttkrp_factors (USeq l) n (zlen l) = Ok l.
Proof.
  intros Hn Hc. rewrite get_mttkrp_factors_bridge. cbn [H_mttkrp_factors]. apply (accept_factors_ok l n c Hn Hc).
Qed.

(* rejected: a mode outside [0, ndims) or a factor count different from ndims (both argument kinds) *)
Theorem mttkrp_factors_rejects (U : kt_or_seq) (n ndims : Z) :
  ~ (0 <= n < ndims) \/ zlen (match U with UKt k => kt_factors k | USeq l => l end) <> ndims ->
  get_mttkrp_factors U n ndims = Err.
Proof.
  intros H. rewrite get_mttkrp_factors_bridge. unfold H_mttkrp_factors.
  assert (E : forall fs : list mat, zlen fs = zlen (match U with UKt k => kt_factors k | USeq l => l end) ->
              accept_factors fs n ndims = Err).
  { intros fs Hfs. unfold accept_factors.
    assert (E0 : (zlen fs =? ndims) && ((0 <=? n) && (n <? ndims)) = false).
    { destruct H as [H|H].
      - apply andb_false_intro2. destruct (Z.leb_spec 0 n); cbn [andb]; [|reflexivity]. apply Z.ltb_ge. lia.
      - apply andb_false_intro1. apply Z.eqb_neq. lia. }
    rewrite E0. reflexivity. }
  destruct U as [k|l].
  - destruct (kt_redistribute_ok k (absorb_mode n)) eqn:Eok; [|reflexivity].
    apply E. unfold kt_redistribute. cbn [kt_factors]. unfold np_set, zlen. rewrite upd_length. reflexivity.
  - apply E. reflexivity.
Qed.

(* a one-mode ktensor has no factor other than the skipped one to take the weights: rejected *)
Theorem mttkrp_factors_one_mode (w : vec) (f : mat) : get_mttkrp_factors (UKt (mkkt w [f])) 0 1 = Err.
Proof. reflexivity. Qed.

(* ------------------------------------------------------------------------------------------ *)
(* checks                                                                                       *)
(* ------------------------------------------------------------------------------------------ *)

Lemma forallb_map {A B} (f : A -> B) (p : B -> bool) l : forallb p (map f l) = forallb (fun x => p (f x)) l.
Proof. induction l; cbn; congruence. Qed.

Lemma forallb_true {A} (l : list A) : forallb (fun _ => true) l = true.
Proof. induction l; cbn; auto. Qed.

Definition int_array (shp : vec) (l : vec) : ndarr := mknd shp DInt (map NFin l).

(* a tuple of ints: a valid shape iff every entry is positive (the empty tuple is valid) *)
Theorem size_ok_ints (l : vec) : size_ok (int_array [zlen l] l) = forallb (fun z => z >? 0) l.
Proof.
  unfold size_ok, int_array, nd_ndim, nd_size, ndb_all, nd_isfinite, nd_gt_s, nd_is_integer, np_all.
  cbn [nd_shape nd_kind nd_data ndb_data]. rewrite !map_map, !forallb_map. cbn [num_finite num_gt].
  rewrite forallb_true. change (zlen [zlen l] =? 1) with true. cbn [andb zprod fold_right].
  destruct (forallb (fun z => z >? 0) l) eqn:E; cbn [orb]; [reflexivity|].
  destruct l as [|x l']; [discriminate|]. apply Z.eqb_neq. unfold zlen. cbn [length]. lia.
Qed.

(* a 2-d integer array: valid subscripts iff it is empty or every entry is non-negative *)
Theorem subs_ok_ints (r c : Z) (l : vec) : subs_ok (int_array [r; c] l) = (r * c =? 0) || forallb (fun z => z >=? 0) l.
Proof.
  unfold subs_ok, int_array, nd_ndim, nd_size, ndb_all, nd_isfinite, nd_ge_s, nd_is_integer, np_all.
  cbn [nd_shape nd_kind nd_data ndb_data]. rewrite !map_map, !forallb_map. cbn [num_finite num_ge].
  rewrite forallb_true. change (zlen [r; c] =? 2) with true. cbn [andb zprod fold_right].
  replace (r * (c * 1)) with (r * c) by lia. reflexivity.
Qed.

(* not an integer array, or an array of another rank: never valid subscripts unless empty *)
Theorem subs_ok_float shp d : nd_size (mknd shp DFloat d) <> 0 -> subs_ok (mknd shp DFloat d) = false.
Proof.
  intros H. unfold subs_ok. apply Z.eqb_neq in H. rewrite H. cbn [orb nd_is_integer nd_kind].
  rewrite andb_false_r. reflexivity.
Qed.

Theorem vals_ok_2d (r c : Z) k d : vals_ok (mknd [r; c] k d) = (r * c =? 0) || (c =? 1).
Proof.
  unfold vals_ok, nd_size, nd_ndim. cbn [nd_shape zprod fold_right]. replace (r * (c * 1)) with (r * c) by lia.
  change (zlen [r; c] =? 2) with true. change (znth 0 [r; c] 1) with c. reflexivity.
Qed.

(* the three checks in assert mode (nargout = False) raise exactly on the invalid arguments, and answer otherwise *)
Theorem checks_spec (a : ndarr) (nargout : bool) :
  tt_sizecheck a nargout = check_result (size_ok a) nargout /\
  tt_subscheck a nargout = check_result (subs_ok a) nargout /\
  tt_valscheck a nargout = check_result (vals_ok a) nargout.
Proof. split; [apply tt_sizecheck_bridge|split; [apply tt_subscheck_bridge|apply tt_valscheck_bridge]]. Qed.

Theorem check_result_spec ok nargout :
  check_result ok nargout = if ok then Ok true else if nargout then Ok false else Err.
Proof. destruct ok, nargout; reflexivity. Qed.

(* ------------------------------------------------------------------------------------------ *)
(* get_index_variant                                                                            *)
(* ------------------------------------------------------------------------------------------ *)

Theorem index_variant_table :
  (forall k, get_index_variant (KInt k) = Ok LINEAR) /\
  (forall s, get_index_variant (KSlice s) = Ok LINEAR) /\
  (forall a, get_index_variant (KArr a) = Ok (if nd_ndim a =? 1 then LINEAR else SUBSCRIPTS)) /\
  (forall l, get_index_variant (KTuple l) = Ok SUBTENSOR) /\
  (forall k l, get_index_variant (KList (EInt k :: l)) = if forallb elem_is_int l then Ok LINEAR else Err) /\
  (forall r l, get_index_variant (KList (EList r :: l)) = Ok UNKNOWN) /\
  get_index_variant (KList []) = Err /\
  get_index_variant KNone = Ok UNKNOWN.
Proof. repeat split; intros; rewrite get_index_variant_bridge; reflexivity. Qed.

(* isrow / isvector / islogical in terms of the shape alone *)
Theorem predicates_spec (a : ndarr) :
  isrow a = Ok (H_isrow a) /\ isvector a = Ok (H_isvector a) /\ islogical a = Ok false.
Proof. split; [apply isrow_bridge|split; [apply isvector_bridge|apply islogical_bridge]]. Qed.

(* ------------------------------------------------------------------------------------------ *)
(* tt_renumber, all modes: the result is assembled mode by mode from tt_renumberdim             *)
(* ------------------------------------------------------------------------------------------ *)

Lemma np_set_length {A} (l : list A) i x : length (np_set l i x) = length l.
Proof. unfold np_set. apply upd_length. Qed.

Lemma np_set_nth (l : vec) (j : nat) x i : (j < length l)%nat ->
  nth i (np_set l (Z.of_nat j) x) 0 = if (i =? j)%nat then x else nth i l 0.
Proof.
  intros Hj. rewrite np_set_nonneg by lia. rewrite Nat2Z.id.
  destruct (Nat.eqb_spec i j) as [->|Hne]; [apply upd_nth_same; exact Hj|apply upd_nth_other; exact Hne].
Qed.

Lemma setcol_rows_length m j : forall c, length (setcol_rows m j c) = length m.
Proof. induction m as [|r m IH]; intros [|x c]; cbn; auto. Qed.

Lemma setcol_rows_nth m j : forall c, length c = length m -> forall row, (row < length m)%nat ->
  nth row (setcol_rows m j c) [] = np_set (nth row m []) j (nth row c 0).
Proof.
  induction m as [|r m IH]; intros [|x c] Hl row Hrow; cbn in *; try lia.
  destruct row; [reflexivity|]. apply IH; lia.
Qed.

Lemma np_setcol_eq m j c : length c = length m -> np_setcol m j c = setcol_rows m j c.
Proof.
  intros Hl. unfold np_setcol.
  destruct ((zlen c =? 1) && negb (zlen m =? 1)) eqn:E; [|reflexivity].
  exfalso. apply andb_true_iff in E as [E1 E2]. apply Z.eqb_eq in E1. apply negb_true_iff, Z.eqb_neq in E2.
  unfold zlen in *. lia.
Qed.

(* what tt_renumber does in one mode of size d with stored column col and key entry r: the renumbered column (None: the
   column is left as it is) and the size of the renumbered mode *)
Definition mode_outcome (subs : mat) (d : Z) (col : vec) (r : pyidx) : res (option vec * Z) :=
  if ix_is_fullslice r then Ok (None, d)
  else if np_size2 subs =? 0 then bind (H_empty_size (Ok d) r) (fun n => Ok (None, n))
  else bind (tt_renumberdim col d r) (fun cn => Ok (Some (fst cn), snd cn)).

Definition rn_inv (N rows : nat) (subs : mat) (shape : vec) (outs : list (option vec * Z)) (j : nat) (st : vec * mat) : Prop :=
  length (fst st) = N /\ length (snd st) = rows /\
  (forall i, (i < N)%nat -> nth i (fst st) 0 = if (i <? j)%nat then snd (nth i outs (None, 0)) else nth i shape 0) /\
  (forall row, (row < rows)%nat -> length (nth row (snd st) []) = N /\
     forall i, (i < N)%nat -> nth i (nth row (snd st) []) 0 =
        if (i <? j)%nat then match fst (nth i outs (None, 0)) with Some c => nth row c 0 | None => nth i (nth row subs []) 0 end
        else nth i (nth row subs []) 0).

Section RenumberModes.
  Variables (subs : mat) (shape : vec) (nrs : list pyidx) (outs : list (option vec * Z)).
  Variable g : pyidx -> bool.
  Hypothesis Hg : forall r, ix_eq_ok r = true -> g r = true.
  Let N := length shape.
  Let rows := length subs.
  Hypothesis Hnrs : length nrs = N.
  Hypothesis Hrect : forall r, In r subs -> length r = N.
  Hypothesis Heq : forall i, (i < N)%nat -> ix_eq_ok (nth i nrs IxNone) = true.
  Hypothesis Hout : forall i, (i < N)%nat ->
    mode_outcome subs (nth i shape 0) (np_col subs (Z.of_nat i)) (nth i nrs IxNone) = Ok (nth i outs (None, 0)).
  Hypothesis Hcol : forall i c, (i < N)%nat -> fst (nth i outs (None, 0)) = Some c -> length c = rows.

  Lemma renumber_step_inv j st : (j < N)%nat -> rn_inv N rows subs shape outs j st ->
    exists st', H_renumber_step g H_renumberdim subs shape nrs (Z.of_nat j) st = Ok st' /\ rn_inv N rows subs shape outs (S j) st'.
  Proof.
    intros Hj (Hl1 & Hl2 & Hsh & Hsu). unfold H_renumber_step.
    assert (E1 : idx_ok nrs (Z.of_nat j) = true) by (rewrite idx_ok_nat; apply Nat.ltb_lt; lia).
    assert (Er : znth IxNone nrs (Z.of_nat j) = nth j nrs IxNone) by apply znth_nat.
    rewrite E1, Er, (Hg _ (Heq j Hj)). cbn [andb].
    specialize (Hout j Hj). unfold mode_outcome in Hout.
    destruct (ix_is_fullslice (nth j nrs IxNone)) eqn:Ef.
    - (* full slice: nothing changes *)
      exists st. split; [reflexivity|]. injection Hout as Ho. split; [exact Hl1|]. split; [exact Hl2|]. split.
      + intros i Hi. rewrite (Hsh i Hi). destruct (Nat.ltb_spec i j), (Nat.ltb_spec i (S j)); try lia; try reflexivity.
        assert (i = j) by lia. subst i. rewrite <- Ho. reflexivity.
      + intros row Hrow. destruct (Hsu row Hrow) as [Hlr He]. split; [exact Hlr|]. intros i Hi. rewrite (He i Hi).
        destruct (Nat.ltb_spec i j), (Nat.ltb_spec i (S j)); try lia; try reflexivity.
        assert (i = j) by lia. subst i. rewrite <- Ho. reflexivity.
    - assert (E2 : idx_ok shape (Z.of_nat j) = true) by (rewrite idx_ok_nat; apply Nat.ltb_lt; exact Hj).
      assert (E3 : idx_ok (fst st) (Z.of_nat j) = true) by (rewrite idx_ok_nat; apply Nat.ltb_lt; lia).
      assert (Ed : znth 0 shape (Z.of_nat j) = nth j shape 0) by apply znth_nat.
      destruct (np_size2 subs =? 0) eqn:Es.
      + (* nothing stored: only the size is set *)
        rewrite E2, Ed. destruct (H_empty_size (Ok (nth j shape 0)) (nth j nrs IxNone)) as [n|]; cbn [bind] in *; [|discriminate].
        injection Hout as Ho. rewrite E3. eexists. split; [reflexivity|]. unfold rn_inv. cbn [fst snd].
        split; [rewrite np_set_length; exact Hl1|]. split; [exact Hl2|]. split.
        * intros i Hi. rewrite np_set_nth by lia.
          destruct (Nat.eqb_spec i j) as [->|Hne].
          -- destruct (Nat.ltb_spec j (S j)); [rewrite <- Ho; reflexivity|lia].
          -- rewrite (Hsh i Hi). destruct (Nat.ltb_spec i j), (Nat.ltb_spec i (S j)); try lia; reflexivity.
        * intros row Hrow. destruct (Hsu row Hrow) as [Hlr He]. split; [exact Hlr|]. intros i Hi. rewrite (He i Hi).
          destruct (Nat.ltb_spec i j), (Nat.ltb_spec i (S j)); try lia; try reflexivity.
          assert (i = j) by lia. subst i. rewrite <- Ho. reflexivity.
      + (* stored subscripts: column j is replaced *)
        assert (E4 : np_col_ok subs (Z.of_nat j) = true).
        { unfold np_col_ok. apply forallb_forall. intros r Hr. rewrite idx_ok_nat. apply Nat.ltb_lt. rewrite (Hrect r Hr). exact Hj. }
        rewrite E4, E2, Ed. cbn [andb]. rewrite <- tt_renumberdim_bridge.
        destruct (tt_renumberdim (np_col subs (Z.of_nat j)) (nth j shape 0) (nth j nrs IxNone)) as [[c n]|]; cbn [bind fst snd] in *; [|discriminate].
        injection Hout as Ho.
        assert (Hc : length c = rows) by (apply (Hcol j c Hj); rewrite <- Ho; reflexivity).
        assert (E5 : np_setcol_ok (snd st) (Z.of_nat j) c = true).
        { unfold np_setcol_ok. apply andb_true_intro. split.
          - unfold np_col_ok. apply forallb_forall. intros r Hr. rewrite idx_ok_nat. apply Nat.ltb_lt.
            destruct (In_nth _ _ [] Hr) as (row & Hrow & <-). rewrite Hl2 in Hrow. destruct (Hsu row Hrow) as [-> _]. exact Hj.
          - apply orb_true_intro. left. apply Z.eqb_eq. unfold zlen. lia. }
        rewrite E5, E3. cbn [andb]. eexists. split; [reflexivity|]. unfold rn_inv. cbn [fst snd].
        rewrite np_setcol_eq by lia.
        split; [rewrite np_set_length; exact Hl1|]. split; [rewrite setcol_rows_length; exact Hl2|]. split.
        * intros i Hi. rewrite np_set_nth by lia.
          destruct (Nat.eqb_spec i j) as [->|Hne].
          -- destruct (Nat.ltb_spec j (S j)); [rewrite <- Ho; reflexivity|lia].
          -- rewrite (Hsh i Hi). destruct (Nat.ltb_spec i j), (Nat.ltb_spec i (S j)); try lia; reflexivity.
        * intros row Hrow. destruct (Hsu row Hrow) as [Hlr He].
          rewrite setcol_rows_nth by lia. split; [rewrite np_set_length; exact Hlr|].
          intros i Hi. rewrite np_set_nth by lia.
          destruct (Nat.eqb_spec i j) as [->|Hne].
          -- destruct (Nat.ltb_spec j (S j)); [|lia]. rewrite <- Ho. reflexivity.
          -- rewrite (He i Hi). destruct (Nat.ltb_spec i j), (Nat.ltb_spec i (S j)); try lia; reflexivity.
  Qed.

  Lemma renumber_loop_inv : forall c j st, (j + c = N)%nat -> rn_inv N rows subs shape outs j st ->
    exists st', foldM (H_renumber_step g H_renumberdim subs shape nrs) (map Z.of_nat (seq j c)) st = Ok st' /\
                rn_inv N rows subs shape outs N st'.
  Proof.
    induction c as [|c IH]; intros j st Hjc Hinv.
    - exists st. split; [reflexivity|]. assert (Ej : j = N) by lia. rewrite Ej in Hinv. exact Hinv.
    - cbn [seq map foldM]. destruct (renumber_step_inv j st) as (st1 & E & Hinv1); [lia|exact Hinv|].
      rewrite E. cbn [bind]. apply IH; [lia|exact Hinv1].
  Qed.

  Theorem renumber_modes_H :
    exists ns nsh, H_renumber g subs shape nrs = Ok (ns, nsh) /\ length nsh = N /\ length ns = rows /\
      (forall i, (i < N)%nat -> nth i nsh 0 = snd (nth i outs (None, 0))) /\
      (forall row, (row < rows)%nat -> length (nth row ns []) = N /\
         forall i, (i < N)%nat -> nth i (nth row ns []) 0 =
           match fst (nth i outs (None, 0)) with Some c => nth row c 0 | None => nth i (nth row subs []) 0 end).
  Proof.
    unfold H_renumber. rewrite H_renumber_loop_foldM.
    replace (zlen shape) with (Z.of_nat N) by reflexivity. rewrite np_arange_0.
    destruct (renumber_loop_inv N 0%nat (shape, subs)) as ([nsh ns] & E & (Hl1 & Hl2 & Hsh & Hsu)); [lia| |].
    - split; [reflexivity|]. split; [reflexivity|]. split.
      + intros i Hi. reflexivity.
      + intros row Hrow. split; [apply Hrect, nth_In; exact Hrow|]. intros i Hi. reflexivity.
    - rewrite E. cbn [bind fst snd] in *. exists ns, nsh. split; [reflexivity|]. split; [exact Hl1|]. split; [exact Hl2|]. split.
      + intros i Hi. rewrite (Hsh i Hi). destruct (Nat.ltb_spec i N); [reflexivity|lia].
      + intros row Hrow. destruct (Hsu row Hrow) as [Hlr He]. split; [exact Hlr|]. intros i Hi. rewrite (He i Hi).
        destruct (Nat.ltb_spec i N); [reflexivity|lia].
  Qed.
End RenumberModes.

Theorem renumber_modes (subs : mat) (shape : vec) (nrs : list pyidx) (outs : list (option vec * Z)) :
  length nrs = length shape ->
  (forall r, In r subs -> length r = length shape) ->
  (forall i, (i < length shape)%nat -> ix_eq_ok (nth i nrs IxNone) = true) ->
  (forall i, (i < length shape)%nat ->
     mode_outcome subs (nth i shape 0) (np_col subs (Z.of_nat i)) (nth i nrs IxNone) = Ok (nth i outs (None, 0))) ->
  (forall i c, (i < length shape)%nat -> fst (nth i outs (None, 0)) = Some c -> length c = length subs) ->
  exists ns nsh, tt_renumber subs shape nrs = Ok (ns, nsh) /\ length nsh = length shape /\ length ns = length subs /\
    (forall i, (i < length shape)%nat -> nth i nsh 0 = snd (nth i outs (None, 0))) /\
    (forall row, (row < length subs)%nat -> length (nth row ns []) = length shape /\
       forall i, (i < length shape)%nat -> nth i (nth row ns []) 0 =
         match fst (nth i outs (None, 0)) with Some c => nth row c 0 | None => nth i (nth row subs []) 0 end).
Proof.
  intros H1 H2 H3 H4 H5. destruct tt_renumber_bridge as (g & Hg & Eb). rewrite Eb.
  exact (renumber_modes_H subs shape nrs outs g Hg H1 H2 H3 H4 H5).
Qed.

(* ------------------------------------------------------------------------------------------ *)
(* tt_irenumber with index lists / arrays in every mode: subscript x of mode i lands on l_i[x]   *)
(* ------------------------------------------------------------------------------------------ *)

Lemma nth_map_lt {A B} (f : A -> B) l d d' i : (i < length l)%nat -> nth i (map f l) d = f (nth i l d').
Proof. intros H. rewrite (nth_indep _ d (f d')) by (rewrite map_length; exact H). apply map_nth. Qed.

Definition ix_items (r : pyidx) : option vec := match r with IxSeq l | IxArr l => Some l | _ => None end.

Definition ir_inv (k rows : nat) (subs : mat) (ls : list vec) (j : nat) (ns : mat) : Prop :=
  length ns = rows /\
  forall row, (row < rows)%nat -> length (nth row ns []) = k /\
    forall i, (i < k)%nat -> nth i (nth row ns []) 0 =
      if (i <? j)%nat then znth 0 (nth i ls []) (nth i (nth row subs []) 0) else nth i (nth row subs []) 0.

Lemma ix_take_items r l v : ix_items r = Some l -> ix_take (ix_asarray r) v = np_take 0 l v /\ ix_take_ok (ix_asarray r) v = np_take_ok l v.
Proof. destruct r; cbn; intros H; try discriminate; injection H as ->; split; reflexivity. Qed.

Lemma irenumber_lists_loop (shape : vec) (subs : mat) (ls : list vec) (k : nat) :
  length ls = k -> (forall r, In r subs -> length r = k) ->
  (forall row i, (row < length subs)%nat -> (i < k)%nat -> 0 <= nth i (nth row subs []) 0 < zlen (nth i ls [])) ->
  forall (suffix : list pyidx) (j : nat) (ns : mat), (j + length suffix = k)%nat ->
    (forall p, (p < length suffix)%nat -> ix_items (nth p suffix IxNone) = Some (nth (j + p) ls [])) ->
    ir_inv k (length subs) subs ls j ns ->
    exists ns', H_irenumber_loop shape (np_enumerate (Z.of_nat j) suffix) ns = Ok ns' /\ ir_inv k (length subs) subs ls k ns'.
Proof.
  intros Hls Hrect Hrange. induction suffix as [|r suffix IH]; intros j ns Hj Hit Hinv.
  - exists ns. split; [reflexivity|]. cbn [length] in Hj. assert (Ej : j = k) by lia. rewrite Ej in Hinv. exact Hinv.
  - cbn [np_enumerate H_irenumber_loop]. cbn [length] in Hj.
    destruct Hinv as (Hl & Hrows).
    assert (Hr : ix_items r = Some (nth j ls [])) by (specialize (Hit 0%nat); cbn [length nth] in Hit; rewrite Nat.add_0_r in Hit; apply Hit; lia).
    assert (Hjk : (j < k)%nat) by lia.
    assert (Ecol : np_col_ok ns (Z.of_nat j) = true).
    { unfold np_col_ok. apply forallb_forall. intros row Hrow. rewrite idx_ok_nat. apply Nat.ltb_lt.
      destruct (In_nth _ _ [] Hrow) as (p & Hp & <-). rewrite Hl in Hp. destruct (Hrows p Hp) as [-> _]. exact Hjk. }
    assert (Hcolv : forall row, (row < length subs)%nat -> nth row (np_col ns (Z.of_nat j)) 0 = nth j (nth row subs []) 0).
    { intros row Hrow. unfold np_col. rewrite (nth_map_lt _ _ 0 []) by (rewrite Hl; exact Hrow). rewrite znth_nat.
      destruct (Hrows row Hrow) as [_ He]. rewrite (He j Hjk). destruct (Nat.ltb_spec j j); [lia|reflexivity]. }
    assert (Hcollen : length (np_col ns (Z.of_nat j)) = length subs) by (unfold np_col; rewrite map_length; exact Hl).
    assert (Etk : np_take_ok (nth j ls []) (np_col ns (Z.of_nat j)) = true).
    { apply np_take_ok_range. intros x Hx. destruct (In_nth _ _ 0 Hx) as (p & Hp & <-). rewrite Hcollen in Hp.
      rewrite (Hcolv p Hp). apply Hrange; assumption. }
    assert (Estep : H_irenumber_step shape (Z.of_nat j) r ns
                    = Ok (np_setcol ns (Z.of_nat j) (np_take 0 (nth j ls []) (np_col ns (Z.of_nat j))))).
    { destruct (ix_take_items r _ (np_col ns (Z.of_nat j)) Hr) as [E1 E2].
      assert (Esc : np_setcol_ok ns (Z.of_nat j) (np_take 0 (nth j ls []) (np_col ns (Z.of_nat j))) = true).
      { unfold np_setcol_ok. rewrite Ecol. cbn [andb]. apply orb_true_intro. left. apply Z.eqb_eq. unfold zlen, np_take.
        rewrite map_length, Hcollen, Hl. reflexivity. }
      destruct r; cbn [ix_items] in Hr; try discriminate; unfold H_irenumber_step; rewrite Ecol, E2, Etk, E1, Esc; reflexivity. }
    rewrite Estep. cbn [bind].
    replace (Z.of_nat j + 1) with (Z.of_nat (S j)) by lia.
    apply IH.
    + lia.
    + intros p Hp. specialize (Hit (S p)). cbn [length nth] in Hit. replace (S j + p)%nat with (j + S p)%nat by lia. apply Hit. lia.
    + rewrite np_setcol_eq by (unfold np_take; rewrite map_length, Hcollen, Hl; reflexivity).
      split; [rewrite setcol_rows_length; exact Hl|].
      intros row Hrow. destruct (Hrows row Hrow) as [Hlr He].
      rewrite setcol_rows_nth by (try (unfold np_take; rewrite map_length, Hcollen, Hl; reflexivity); lia).
      split; [rewrite np_set_length; exact Hlr|].
      intros i Hi. rewrite np_set_nth by lia.
      destruct (Nat.eqb_spec i j) as [->|Hne].
      * destruct (Nat.ltb_spec j (S j)); [|lia]. unfold np_take.
        rewrite (nth_map_lt _ _ 0 0) by (rewrite Hcollen; exact Hrow). rewrite (Hcolv row Hrow). reflexivity.
      * rewrite (He i Hi). destruct (Nat.ltb_spec i j), (Nat.ltb_spec i (S j)); try lia; reflexivity.
Qed.

Theorem irenumber_lists (t : sptz) (shape : vec) (nrs : list pyidx) (ls : list vec) :
  spt_subs t <> [] -> length nrs <> 0%nat -> length ls = length nrs ->
  (forall r, In r (spt_subs t) -> length r = length nrs) ->
  (forall i, (i < length nrs)%nat -> ix_items (nth i nrs IxNone) = Some (nth i ls [])) ->
  (forall row i, (row < length (spt_subs t))%nat -> (i < length nrs)%nat ->
     0 <= nth i (nth row (spt_subs t) []) 0 < zlen (nth i ls [])) ->
  exists ns, tt_irenumber t shape nrs = Ok ns /\ length ns = length (spt_subs t) /\
    forall row, (row < length (spt_subs t))%nat -> length (nth row ns []) = length nrs /\
      forall i, (i < length nrs)%nat ->
        nth i (nth row ns []) 0 = znth 0 (nth i ls []) (nth i (nth row (spt_subs t) []) 0).
Proof.
  intros Hne Hk Hls Hrect Hit Hrange. rewrite tt_irenumber_bridge. unfold H_irenumber.
  assert (Hn : spt_nnz t =? 0 = false).
  { unfold spt_nnz. destruct (spt_subs t) as [|r m] eqn:E; [congruence|].
    assert (Hlr : length r = length nrs) by (apply Hrect; left; reflexivity).
    assert (Hs : np_size2 (r :: m) =? 0 = false).
    { apply Z.eqb_neq. change (np_size2 (r :: m)) with (zlen r + np_size2 m).
      assert (0 <= np_size2 m) by (clear; induction m as [|x m IH]; [cbn; lia|
        change (np_size2 (x :: m)) with (zlen x + np_size2 m); unfold zlen; lia]).
      unfold zlen. lia. }
    rewrite Hs. apply Z.eqb_neq. unfold np_nrows, zlen. cbn [length]. lia. }
  rewrite Hn.
  destruct (irenumber_lists_loop shape (spt_subs t) ls (length nrs) Hls Hrect Hrange nrs 0%nat (spt_subs t)) as (ns & E & Hl & Hrows).
  - reflexivity.
  - intros p Hp. apply Hit. exact Hp.
  - split; [reflexivity|]. intros row Hrow. split; [apply Hrect, nth_In; exact Hrow|]. intros i Hi. reflexivity.
  - change (Z.of_nat 0) with 0 in E. rewrite E. exists ns. split; [reflexivity|]. split; [exact Hl|].
    intros row Hrow. destruct (Hrows row Hrow) as [Hlr He]. split; [exact Hlr|]. intros i Hi. rewrite (He i Hi).
    destruct (Nat.ltb_spec i (length nrs)); [reflexivity|lia].
Qed.

(* ------------------------------------------------------------------------------------------ *)
(* tt_renumber on a well-formed region: every mode selects distinct in-range indices that contain *)
(* all stored subscripts of that mode                                                           *)
(* ------------------------------------------------------------------------------------------ *)

Lemma np_col_nth (m : mat) (i row : nat) : (row < length m)%nat -> nth row (np_col m (Z.of_nat i)) 0 = nth i (nth row m []) 0.
Proof. intros H. unfold np_col. rewrite (nth_map_lt _ _ 0 []) by exact H. apply znth_nat. Qed.

Lemma fullslice_selection d r : ix_is_fullslice r = true -> 0 <= d -> H_selection d r = Ok (np_arange 0 d, zlen (np_arange 0 d)).
Proof.
  intros H Hd. destruct r as [| [[|] [|] [|]] | | |]; try discriminate. cbn [H_selection slice_ok sl_step].
  assert (E : py_slice 0 (np_arange 0 d) (mkslice None None None) = np_arange 0 d).
  { unfold py_slice, slice_indices. cbn [sl_start sl_stop sl_step]. cbn [Z.ltb Z.compare].
    set (n := zlen (np_arange 0 d)).
    assert (Hn : 0 <= n) by apply zlen_nonneg.
    unfold slice_len. cbn [Z.ltb Z.compare].
    destruct (Z.ltb_spec 0 n).
    - replace ((n - 0 - 1) / 1 + 1) with n by (rewrite Z.div_1_r; lia).
      apply (nth_ext _ _ 0 0).
      + rewrite map_length, seq_length. unfold n, zlen. rewrite Nat2Z.id. reflexivity.
      + intros i Hi. rewrite map_length, seq_length in Hi. unfold n, zlen in Hi. rewrite Nat2Z.id in Hi.
        rewrite (nth_map_lt _ _ 0 0%nat) by (rewrite seq_length; unfold n, zlen; rewrite Nat2Z.id; exact Hi).
        rewrite seq_nth by (unfold n, zlen; rewrite Nat2Z.id; exact Hi).
        replace (0 + Z.of_nat (0 + i) * 1) with (Z.of_nat i) by lia. apply znth_nat.
    - assert (n = 0) by lia. cbn [Z.to_nat seq map]. unfold n, zlen in H1. destruct (np_arange 0 d); [reflexivity|cbn in H1; lia]. }
  rewrite E. reflexivity.
Qed.

(* For every mode i: sel_i is what the key entry selects (H_selection), its entries are distinct and inside the mode, and
   they contain every stored subscript of the mode.  Then the renumbered array has the shape (len sel_0, ..., len sel_{N-1})
   and every new subscript is the position of the old one inside the selection: sel_i[new[row][i]] = old[row][i]. *)
Theorem renumber_wellformed (subs : mat) (shape : vec) (nrs : list pyidx) (sels : list vec) :
  subs <> [] -> length nrs = length shape -> length sels = length shape ->
  (forall r, In r subs -> length r = length shape) ->
  (forall i, (i < length shape)%nat ->
     ix_eq_ok (nth i nrs IxNone) = true /\ 0 <= nth i shape 0 /\
     H_selection (nth i shape 0) (nth i nrs IxNone) = Ok (nth i sels [], zlen (nth i sels [])) /\
     NoDup (nth i sels []) /\ (forall x, In x (nth i sels []) -> 0 <= x < nth i shape 0) /\
     (forall row, (row < length subs)%nat -> In (nth i (nth row subs []) 0) (nth i sels []))) ->
  exists ns nsh, tt_renumber subs shape nrs = Ok (ns, nsh) /\ length nsh = length shape /\ length ns = length subs /\
    (forall i, (i < length shape)%nat -> nth i nsh 0 = zlen (nth i sels [])) /\
    (forall row, (row < length subs)%nat -> length (nth row ns []) = length shape /\
       forall i, (i < length shape)%nat ->
         0 <= nth i (nth row ns []) 0 < zlen (nth i sels []) /\
         znth 0 (nth i sels []) (nth i (nth row ns []) 0) = nth i (nth row subs []) 0).
Proof.
  intros Hne Hl1 Hl2 Hrect Hwf.
  (* per-mode outcomes *)
  assert (Hsz : length shape <> 0%nat -> np_size2 subs =? 0 = false).
  { intros HN. destruct subs as [|r m]; [congruence|]. apply Z.eqb_neq.
    change (np_size2 (r :: m)) with (zlen r + np_size2 m).
    assert (0 <= np_size2 m) by (clear; induction m as [|x m IH]; [cbn; lia|
      change (np_size2 (x :: m)) with (zlen x + np_size2 m); unfold zlen; lia]).
    assert (length r = length shape) by (apply Hrect; left; reflexivity). unfold zlen. lia. }
  assert (Hmode : forall i, (i < length shape)%nat -> exists c,
            tt_renumberdim (np_col subs (Z.of_nat i)) (nth i shape 0) (nth i nrs IxNone) = Ok (c, zlen (nth i sels [])) /\
            length c = length subs /\
            forall row, (row < length subs)%nat -> 0 <= nth row c 0 < zlen (nth i sels []) /\
              znth 0 (nth i sels []) (nth row c 0) = nth i (nth row subs []) 0).
  { intros i Hi. destruct (Hwf i Hi) as (_ & Hd & Hsel & Hnd & Hr & Hin).
    destruct (renumberdim_positions (np_col subs (Z.of_nat i)) _ _ _ Hsel Hd Hnd Hr) as (c & E & Hlc & Hc).
    - intros x Hx. destruct (In_nth _ _ 0 Hx) as (row & Hrow & <-).
      assert (Hrow' : (row < length subs)%nat) by (unfold np_col in Hrow; rewrite map_length in Hrow; exact Hrow).
      rewrite np_col_nth by exact Hrow'. apply Hin. exact Hrow'.
    - exists c. split; [exact E|]. assert (Hlen : length (np_col subs (Z.of_nat i)) = length subs) by (unfold np_col; apply map_length).
      split; [lia|]. intros row Hrow. destruct (Hc row) as [H1 H2]; [lia|]. split; [exact H1|].
      rewrite H2. apply np_col_nth. exact Hrow. }
  (* the list of outcomes *)
  set (outs := map (fun i : nat =>
         if ix_is_fullslice (nth i nrs IxNone) then (@None vec, nth i shape 0)
         else match tt_renumberdim (np_col subs (Z.of_nat i)) (nth i shape 0) (nth i nrs IxNone) with
              | Ok cn => (Some (fst cn), snd cn) | Err => (None, 0) end) (seq 0 (length shape))).
  assert (Houts : forall i, (i < length shape)%nat -> nth i outs (None, 0) =
            if ix_is_fullslice (nth i nrs IxNone) then (@None vec, nth i shape 0)
            else match tt_renumberdim (np_col subs (Z.of_nat i)) (nth i shape 0) (nth i nrs IxNone) with
                 | Ok cn => (Some (fst cn), snd cn) | Err => (None, 0) end).
  { intros i Hi. unfold outs. rewrite (nth_map_lt _ _ (None, 0) 0%nat) by (rewrite seq_length; exact Hi).
    rewrite seq_nth by exact Hi. reflexivity. }
  destruct (renumber_modes subs shape nrs outs Hl1 Hrect) as (ns & nsh & E & Hln & Hls & Hsh & Hrows).
  - intros i Hi. apply (Hwf i Hi).
  - intros i Hi. rewrite (Houts i Hi). unfold mode_outcome.
    destruct (ix_is_fullslice (nth i nrs IxNone)); [reflexivity|].
    rewrite Hsz by lia. destruct (Hmode i Hi) as (c & Ec & _). rewrite Ec. reflexivity.
  - intros i c Hi Hc. rewrite (Houts i Hi) in Hc.
    destruct (ix_is_fullslice (nth i nrs IxNone)); [discriminate|].
    destruct (Hmode i Hi) as (c' & Ec & Hlc & _). rewrite Ec in Hc. cbn [fst] in Hc. injection Hc as <-. exact Hlc.
  - exists ns, nsh. split; [exact E|]. split; [exact Hln|]. split; [exact Hls|]. split.
    + intros i Hi. rewrite (Hsh i Hi), (Houts i Hi).
      destruct (ix_is_fullslice (nth i nrs IxNone)) eqn:Ef.
      * destruct (Hwf i Hi) as (_ & Hd & Hsel & _). rewrite (fullslice_selection _ _ Ef Hd) in Hsel.
        injection Hsel as Hs _. rewrite <- Hs. cbn [snd]. unfold zlen, np_arange. rewrite map_length, seq_length. lia.
      * destruct (Hmode i Hi) as (c & Ec & _). rewrite Ec. reflexivity.
    + intros row Hrow. destruct (Hrows row Hrow) as [Hlr He]. split; [exact Hlr|]. intros i Hi. rewrite (He i Hi), (Houts i Hi).
      destruct (ix_is_fullslice (nth i nrs IxNone)) eqn:Ef.
      * cbn [fst]. destruct (Hwf i Hi) as (_ & Hd & Hsel & _ & _ & Hin). rewrite (fullslice_selection _ _ Ef Hd) in Hsel.
        injection Hsel as Hs _. rewrite <- Hs.
        specialize (Hin row Hrow). rewrite <- Hs in Hin. apply in_np_arange in Hin.
        split; [unfold zlen, np_arange; rewrite map_length, seq_length; lia|].
        rewrite znth_nonneg by lia. unfold np_arange.
        rewrite (nth_map_lt _ _ 0 0%nat) by (rewrite seq_length; lia). rewrite seq_nth by lia. lia.
      * destruct (Hmode i Hi) as (c & Ec & _ & Hc). rewrite Ec. cbn [fst]. apply Hc. exact Hrow.
Qed.
