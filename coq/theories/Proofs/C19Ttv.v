(* Proofs/C19Ttv.v — tensor.ttv over the generated tt_dimscheck: out-of-range modes are rejected (by the Python
   index check on self.shape[dims[i]], since tt_dimscheck has no upper bound). *)
From Coq Require Import List ZArith Bool Lia Permutation.
From PV Require Import Np.NpZ Gen.GenUtils Proofs.NpZProofs Proofs.UtilsProofs Model.C19Guards Proofs.C19Proofs.
Import ListNotations.
Local Open Scope Z_scope.

Lemma dimscheck_some_form N M d :
  tt_dimscheck N (Some M) (Some d) None =
  if np_any (np_lt_s d 0) then Err
  else if M >? N then Err
  else if negb ((M =? N) || (M =? zlen d)) then Err
  else if zlen d =? M then Ok (np_sort d, Some (np_argsort d))
  else Ok (np_sort d, Some (np_sort d)).
Proof. rewrite tt_dimscheck_bridge. unfold H_dimscheck, H_dims. cbn [bind]. reflexivity. Qed.

Lemma in_combine_r_ex {A B} (l : list A) (l' : list B) y :
  length l = length l' -> In y l' -> exists x, In (x, y) (combine l l').
Proof.
  revert l. induction l' as [|b l' IH]; intros [|a l] Hl Hin; cbn in *; try discriminate; try contradiction.
  destruct Hin as [->|Hin]; [exists a; now left|].
  destruct (IH l) as [x Hx]; auto. exists x. now right.
Qed.

Lemma ttv_sizes_err s vlens sd vidx x :
  length vidx = length sd -> In x sd -> ndim s <= x -> guard_ttv_sizes s vlens sd vidx = Err.
Proof.
  intros Hl Hin Hx. destruct (guard_ttv_sizes s vlens sd vidx) as [[]|] eqn:E; [|reflexivity]. exfalso.
  apply (f_equal is_ok) in E. unfold guard_ttv_sizes in E. rewrite is_ok_chk_all in E. cbn in E.
  rewrite forallb_forall in E. destruct (in_combine_r_ex vidx sd x Hl Hin) as [v Hv].
  specialize (E _ Hv). cbn in E. rewrite !is_ok_andthen, !is_ok_chk in E.
  apply andb_true_iff in E as [_ E]. apply andb_true_iff in E as [E _].
  unfold np_idx_ok in E. apply andb_true_iff in E as [_ E]. apply Z.ltb_lt in E. lia.
Qed.

Theorem tensor_ttv_rejects_out_of_range s vlens d x :
  In x d -> ndim s <= x -> guard_tensor_ttv s vlens (Some d) None = Err.
Proof.
  intros Hin Hx. unfold guard_tensor_ttv. rewrite dimscheck_some_form.
  assert (Hs : In x (np_sort d)) by (apply (Permutation_in _ (Permutation_sym (np_sort_perm d))); exact Hin).
  assert (Ls : length (np_sort d) = length d) by (apply Permutation_length, np_sort_perm).
  destruct (np_any (np_lt_s d 0)); [reflexivity|]. destruct (zlen vlens >? ndim s); [reflexivity|].
  destruct (negb _); [reflexivity|]. destruct (zlen d =? zlen vlens).
  - rewrite (ttv_sizes_err s vlens (np_sort d) (np_argsort d) x); auto. now rewrite np_argsort_length.
  - rewrite (ttv_sizes_err s vlens (np_sort d) (np_sort d) x); auto.
Qed.
