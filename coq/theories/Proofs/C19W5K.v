(* Proofs/C19W5K.v — wave 5: ktensor.update(modes, data) as GENERATED from pyttb/ktensor.py after b9311d6 (Gen/GenKtensor4.v; bridge
   update_bridge of Proofs/W4KtensorVec.v, w5-translator): on EVERY Kruskal record the generated method raises exactly when the guard
   model of Model/C19Guards.v rejects, i.e. exactly when the precondition fails.  The point of the repair: the validation pass
   decides alone — once it has passed, the in-place pass (which repeats the tests block by block) cannot raise, so no request is
   rejected after a block has been overwritten (update_second_pass_total).  An edit of ktensor.update in /repo changes the
   generated text and breaks update_bridge or these proofs. *)
From Coq Require Import List ZArith Arith Bool Lia.
From PV Require Import Np.NpZ Np.NpZ2 Np.NpZ3 Np.NpZ3c Np.NpZ3d Np.NpZ3e Np.NpZ4 Gen.GenKtensor4 Model.W4Ktensor Model.W4KtensorVec
  Proofs.NpZProofs Proofs.W4Loops Proofs.W4Slices Proofs.W3Laws Proofs.W4KtensorVec Model.C19Guards Proofs.C19W4.
Import ListNotations.
Local Open Scope Z_scope.

Lemma asc_strict l : asc l = strict_asc l.
Proof.
  induction l as [|x l IH]; [reflexivity|]. destruct l as [|y t]; [reflexivity|].
  change (asc (x :: y :: t)) with ((x <? y) && asc (y :: t)).
  change (strict_asc (x :: y :: t)) with ((x <? y) && strict_asc (y :: t)). now rewrite IH.
Qed.

(* two records with the same dimensions: as many weights, the same row counts factor by factor *)
Definition same_dims (a b : ktz) : Prop :=
  zlen (kt_weights a) = zlen (kt_weights b) /\ map np_nrows (kt_factors a) = map np_nrows (kt_factors b).

Lemma same_dims_nfactors a b : same_dims a b -> zlen (kt_factors a) = zlen (kt_factors b).
Proof. intros [_ H]. apply (f_equal (@length Z)) in H. rewrite !map_length in H. unfold zlen. lia. Qed.

Lemma same_dims_nrows a b k : same_dims a b -> np_nrows (znth [] (kt_factors a) k) = np_nrows (znth [] (kt_factors b) k).
Proof.
  intros [_ H]. rewrite <- !(znth_map0 np_nrows [] _ k eq_refl). now rewrite H.
Qed.

(* pass 1 = upd_validate of the guard model on (shape, number of components) *)
Lemma needed_validate (k : ktz) modes n : H_needed k modes n = upd_validate (kt_shape k) (kt_ncomponents k) modes n.
Proof.
  revert n. induction modes as [|m ms IH]; intros n; cbn [H_needed upd_validate]; [reflexivity|].
  unfold H_need_step. destruct (m =? -1); cbn [bind]; [apply IH|].
  replace (ndim (kt_shape k)) with (zlen (kt_factors k)) by (unfold ndim, kt_shape, zlen; now rewrite map_length).
  destruct ((0 <=? m) && (m <? zlen (kt_factors k))); cbn [bind]; [|reflexivity].
  rewrite IH. unfold sz, kt_shape, kt_ncomponents. now rewrite (znth_map0 np_nrows [] (kt_factors k) m eq_refl).
Qed.

Lemma needed_mono (k : ktz) modes a n : H_needed k modes a = Ok n -> a <= n.
Proof.
  revert a. induction modes as [|m ms IH]; intros a; cbn [H_needed]; [intros H; inversion H; lia|].
  unfold H_need_step. pose proof (zlen_nonneg (kt_weights k)) as HR.
  destruct (m =? -1); cbn [bind]; [intros H; apply IH in H; lia|].
  destruct ((0 <=? m) && (m <? zlen (kt_factors k))); cbn [bind]; [|discriminate].
  intros H. apply IH in H. pose proof (zlen_nonneg (znth [] (kt_factors k) m)) as Hm. unfold np_nrows in *. nia.
Qed.

Lemma map_upd_same {A B} (f : A -> B) (d : A) : forall l n x, f x = f (nth n l d) -> map f (upd l n x) = map f l.
Proof.
  induction l as [|a l IH]; intros [|n] x H; cbn in *; try reflexivity; [now rewrite H|f_equal; now apply IH].
Qed.

Lemma chunk_len (data : vec) (a b : Z) : 0 <= a <= b -> b <= zlen data -> zlen (H_chunk data a b) = b - a.
Proof.
  intros H1 H2. unfold H_chunk. rewrite py_slice_in by assumption. unfold zlen in *.
  rewrite firstn_length, skipn_length. lia.
Qed.

Lemma nrows_reshape2 o v m R : 0 <= m -> np_nrows (np_reshape2 o v m R) = m.
Proof. intros H. unfold np_nrows, np_reshape2, zlen. rewrite map_length. fold (zlen (np_arange 0 m)). now apply zlen_arange. Qed.

(* pass 2 cannot raise once pass 1 has accepted the rest of the request and the data vector is long enough *)
Lemma loop_total (data : vec) (k0 : ktz) : forall modes s loc n,
  same_dims s k0 -> 0 <= loc -> H_needed k0 modes loc = Ok n -> n <= zlen data ->
  exists st, H_update_loop data modes (s, loc) = Ok st.
Proof.
  induction modes as [|m ms IH]; intros s loc n Hs Hloc Hn Hlen; cbn [H_update_loop]; [eexists; reflexivity|].
  cbn [H_needed] in Hn. unfold H_need_step in Hn. unfold H_update_step. cbn [fst snd].
  pose proof (zlen_nonneg (kt_weights k0)) as HR. destruct Hs as [HsW HsF]. pose proof (conj HsW HsF : same_dims s k0) as Hs.
  destruct (m =? -1); cbn [bind] in Hn.
  - pose proof (needed_mono _ _ _ _ Hn) as Hmono. rewrite HsW.
    replace (zlen data <? loc + zlen (kt_weights k0)) with false by (symmetry; apply Z.ltb_ge; lia). cbn [bind].
    apply (IH _ _ n); try assumption; try lia.
    split; [|exact HsF]. unfold kt_set_weights. cbn [kt_weights]. rewrite chunk_len by lia. lia.
  - destruct ((0 <=? m) && (m <? zlen (kt_factors k0))) eqn:Hm; cbn [bind] in Hn; [|discriminate].
    apply andb_true_iff in Hm as [Hm0 Hm1]. apply Z.leb_le in Hm0. apply Z.ltb_lt in Hm1.
    pose proof (needed_mono _ _ _ _ Hn) as Hmono.
    rewrite (same_dims_nfactors _ _ Hs). replace (m <? zlen (kt_factors k0)) with true by (symmetry; apply Z.ltb_lt; lia).
    replace (idx_ok (kt_factors s) m) with true
      by (symmetry; unfold idx_ok; rewrite (same_dims_nfactors _ _ Hs); apply andb_true_iff; split; [apply Z.leb_le|apply Z.ltb_lt]; lia).
    rewrite (same_dims_nrows _ _ m Hs), HsW.
    set (rows := np_nrows (znth [] (kt_factors k0) m)) in *. set (R := zlen (kt_weights k0)) in *.
    assert (Hrows : 0 <= rows) by (unfold rows, np_nrows; apply zlen_nonneg).
    assert (Hprod : 0 <= rows * R) by nia.
    replace (zlen data <? loc + rows * R) with false by (symmetry; apply Z.ltb_ge; lia).
    replace (np_reshape2_ok (H_chunk data loc (loc + rows * R)) rows R) with true.
    2:{ symmetry. unfold np_reshape2_ok. rewrite chunk_len by lia. apply andb_true_iff. split; [apply andb_true_iff; split; apply Z.leb_le; lia|apply Z.eqb_eq; lia]. }
    cbn [bind]. apply (IH _ _ n); try assumption; try lia.
    split; [exact HsW|]. unfold kt_set_factor. cbn [kt_factors]. rewrite <- HsF.
    rewrite np_set_nonneg by lia. apply (map_upd_same np_nrows []).
    rewrite nrows_reshape2 by assumption. unfold rows. rewrite <- (same_dims_nrows _ _ m Hs). now rewrite znth_nonneg' by lia.
Qed.

Theorem update_second_pass_total (k : ktz) (modes data : vec) (n : Z) :
  H_needed k modes 0 = Ok n -> n <= zlen data -> exists st, H_update_loop data modes (k, 0) = Ok st.
Proof. intros H1 H2. apply (loop_total data k modes k 0 n); try assumption; [split; reflexivity|lia]. Qed.

(* ---- the generated method raises exactly when the guard rejects = exactly when the precondition fails ---- *)
Theorem update_gen_guard (k : ktz) (modes data : vec) :
  okres (ktensor_update k modes data) = guard_ktensor_update (kt_shape k) (kt_ncomponents k) modes (zlen data) /\
  okres (ktensor_update k modes data) = decide (pre_ktensor_update (kt_shape k) (kt_ncomponents k) modes (zlen data)).
Proof.
  rewrite <- ktensor_update_decides. split; [|].
  all: rewrite update_bridge; unfold H_update, guard_ktensor_update; rewrite strict_asc_combine, asc_strict;
    destruct (strict_asc modes); cbn [chk andthen okres]; [|reflexivity];
    rewrite <- needed_validate; destruct (H_needed k modes 0) as [n|] eqn:Hn; cbn [bind okres]; [|reflexivity];
    destruct (Z.ltb_spec (zlen data) n) as [Hlt|Hge]; cbn [negb chk okres]; [reflexivity|];
    destruct (update_second_pass_total k modes data n Hn Hge) as [st Hst]; rewrite Hst; reflexivity.
Qed.

(* a rejected request leaves the receiver as it was: in the functional model the receiver is the argument `k`, a rejected call
   returns Err and no record at all — the in-place reading is: every assignment of the generated text happens in pass 2, and pass 2
   is entered only by requests that are answered *)
Theorem update_rejected_before_first_assignment (k : ktz) (modes data : vec) :
  ktensor_update k modes data = Err ->
  asc modes = false \/ H_needed k modes 0 = Err \/ exists n, H_needed k modes 0 = Ok n /\ zlen data < n.
Proof.
  rewrite update_bridge. unfold H_update. destruct (asc modes); [|now left]. right.
  destruct (H_needed k modes 0) as [n|] eqn:Hn; [|now left]. right. exists n. split; [reflexivity|].
  cbn [bind] in H. destruct (Z.ltb_spec (zlen data) n) as [Hlt|Hge]; [assumption|].
  destruct (update_second_pass_total k modes data n Hn Hge) as [st Hst]. rewrite Hst in H. discriminate.
Qed.

(* ---- ktensor.from_vector as GENERATED (Gen/GenKtensor4b.v; bridge from_vector_bridge of Proofs/W4FromVector.v): whatever the guard
   model of Model/C19Guards.v rejects, the generated classmethod rejects ---- *)
From PV Require Import Np.NpZ4c Gen.GenKtensor4b Model.W4FromVector Proofs.W4FromVector Proofs.C19W5.
Theorem from_vector_gen_rejects (data shape : vec) (cw : bool) :
  guard_from_vector (zlen data) shape cw = Err -> ktensor_from_vector tt data shape cw = Err.
Proof.
  rewrite from_vector_bridge. unfold guard_from_vector, H_from_vector. cbv zeta.
  change (C19Guards.zsum shape) with (NpZ3c.zsum shape).
  destruct (_ =? 0); cbn [andthen]; [reflexivity|]. destruct (negb _); [reflexivity|discriminate].
Qed.
(* ... and an answered request had the precondition *)
Theorem from_vector_gen_answered_pre (data shape : vec) (cw : bool) (k : ktz) :
  ktensor_from_vector tt data shape cw = Ok k -> pre_from_vector (zlen data) shape cw = true.
Proof.
  intros H. destruct (pre_from_vector (zlen data) shape cw) eqn:E; [reflexivity|].
  pose proof (from_vector_decides (zlen data) shape cw) as D. rewrite E in D. cbn [decide] in D.
  rewrite (from_vector_gen_rejects _ _ _ D) in H. discriminate.
Qed.
