(* Proofs/C09NormalForm.v — the NORMAL FORM produced by the final `M.arrange()` of pyttb.cp_als
   (pyttb/ktensor.py: arrange -> normalize(); p = argsort(weights)[::-1]; gather weights and columns).

   Model: the executable Kruskal model [k_arrange ... None K] of Model/C08Kruskal.v (default branch of arrange:
   k_normalize_cols, k_fix_neg, k_gather (srt weights)).  Values: ANY commutative ring V with an inverse oracle;
   everything that is not a ring operation is an oracle constrained only by the contracts stated as Hypotheses:
     nrm   np.linalg.norm of a column:  nrm l * nrm l = <l,l>,  not (nrm l > 0) -> l = 0
     pos / neg   x > 0 / x < 0 :        pos x -> x <> 0,   neg x -> not neg (-x)
     vinv  1/x :                        x <> 0 -> x * vinv x = 1
     srt   np.argsort(w)[::-1] :        a permutation of 0..len-1 whose gathered values are descending for [vle]
   Theorem [normal_form_arrange]: for every ktensor K with at least one factor matrix, K' = arrange(K) has
     (a) the rank and the shape of K,
     (b) every column of every factor matrix of 2-norm^2 = 1, or identically zero,
     (c) no negative weight,
     (d) weights in descending order.

   ADJUSTMENT w.r.t. the requested formulation (reported): the hypothesis [wf_k K] (every factor row has length
   krank K) turned out to be UNNECESSARY for all four parts, because the model reads matrix entries with
   [nth _ _ v0] and v0 is absorbing for vmul; the separately named lemmas and [normal_form_arrange_nowf] are
   therefore stated WITHOUT it (strictly stronger), and [normal_form_arrange] keeps the requested signature
   (with [wf_k K]) as an immediate corollary.  [kfactors K <> []] is needed for (c) only (with no factor matrix
   the model's k_fix_neg is the identity, so a negative weight would survive) and is implied by [n < length (kfactors K)] in (b). *)
From Coq Require Import List Arith Lia Bool Permutation Ring ZArith.
From PV Require Import Base.Index Base.Perm Base.Sum Np.Array Model.Sparse Model.Repr Model.C08Kruskal Proofs.C08Proofs.
Import ListNotations.
Local Open Scope nat_scope.

Section NormalForm.
Variable V : Type.
Variables (v0 v1 : V) (vadd vmul vsub : V -> V -> V) (vopp vinv : V -> V).
Hypothesis Vring : ring_theory v0 v1 vadd vmul vsub vopp (@eq V).
Add Ring Vr9nf : Vring.

Notation mat := (list (list V)).
Notation zipm := (zipmul vmul).
Notation scols := (scale_cols vmul).
Notation dt := (dot v0 vadd vmul).
Notation cl := (col v0).
Notation allzero := (Forall (fun y : V => y = v0)).

(* ------------------------------------------------------------------------------------------------ *)
(* generic list / column facts                                                                      *)
(* ------------------------------------------------------------------------------------------------ *)
Lemma nth_upd_nth_same {A} n (f : A -> A) (l : list A) d : n < length l -> nth n (upd_nth n f l) d = f (nth n l d).
Proof.
  revert n; induction l as [|x l IH]; intros n Hn; cbn in Hn; [lia|].
  destruct n as [|n]; cbn [upd_nth nth]; auto. apply IH. lia.
Qed.

Lemma nth_upd_nth_other {A} m n (f : A -> A) (l : list A) d : m <> n -> nth n (upd_nth m f l) d = nth n l d.
Proof.
  revert m n; induction l as [|x l IH]; intros m n Hmn.
  - destruct m; reflexivity.
  - destruct m as [|m], n as [|n]; cbn [upd_nth nth]; auto; try lia.
Qed.

(* column r of A @ diag(cs): no length side condition, v0 is absorbing *)
Lemma col_scale_cols cs (A : mat) r : cl (scols cs A) r = map (fun y => vmul y (nth r cs v0)) (cl A r).
Proof.
  unfold col, scale_cols. rewrite !map_map. apply map_ext. intros row.
  apply (nth_zipmul V v0 v1 vadd vmul vsub vopp Vring).
Qed.

(* column r of A[:, p] *)
Lemma col_gather p (A : mat) r : r < length p -> cl (map (pick v0 p) A) r = cl A (nth r p 0).
Proof.
  intros Hr. unfold col. rewrite map_map. apply map_ext. intros row. now apply nth_pick.
Qed.

Lemma dot_map_scale c l :
  dt (map (fun y => vmul y c) l) (map (fun y => vmul y c) l) = vmul (dt l l) (vmul c c).
Proof.
  unfold dot. induction l as [|x l IH]; cbn [map zipmul sumv]; [ring|]. rewrite IH. ring.
Qed.

Lemma allzero_map_scale c l : allzero l -> allzero (map (fun y => vmul y c) l).
Proof.
  induction 1 as [|x l Hx _ IH]; cbn [map]; constructor; auto. subst x. ring.
Qed.

(* ------------------------------------------------------------------------------------------------ *)
(* "unit or zero" columns                                                                           *)
(* ------------------------------------------------------------------------------------------------ *)
Definition unitcol (c : list V) : Prop := dt c c = v1 \/ allzero c.

(* multiplying a unit-or-zero column by a sign keeps it unit-or-zero *)
Lemma unitcol_scale_sign s c : vmul s s = v1 -> unitcol c -> unitcol (map (fun y => vmul y s) c).
Proof.
  intros Hs [H|H]; [left|right; now apply allzero_map_scale].
  rewrite dot_map_scale, H, Hs. ring.
Qed.

Section Oracles.
Variables (nrm : list V -> V) (pos neg : V -> bool) (root : V -> V) (srt : list V -> list nat).
Variable vle : V -> V -> Prop.
(* the norm-oracle contract of C08 ... *)
Hypothesis vinv_r : forall x, x <> v0 -> vmul x (vinv x) = v1.
Hypothesis pos_nz : forall x, pos x = true -> x <> v0.
Hypothesis nrm_pos : forall l, pos (nrm l) = false -> allzero l.
(* ... plus: the oracle returns the 2-norm (its square is the sum of squares) *)
Hypothesis nrm_spec : forall l, vmul (nrm l) (nrm l) = dt l l.
Hypothesis neg_opp : forall x, neg x = true -> neg (vopp x) = false.
(* the sort-oracle contract: a permutation, and the gathered values are descending *)
Hypothesis srt_perm : forall l, is_perm (srt l) (length l).
Hypothesis srt_desc : forall l r, S r < length l -> vle (nth (nth (S r) (srt l) 0) l v0) (nth (nth r (srt l) 0) l v0).

Notation nmode := (k_normalize_mode v0 v1 vmul vinv nrm pos).
Notation ncols := (k_normalize_cols v0 v1 vmul vinv nrm pos).
Notation fixneg := (k_fix_neg v1 vmul vopp neg).
Notation arrange := (k_arrange v0 v1 vmul vopp vinv nrm pos neg root srt).

(* all columns r < krank K of factor n are unit or zero *)
Definition unit_factor (n : nat) (K : ktensor V) : Prop :=
  forall r, r < krank K -> unitcol (cl (nth n (kfactors K) []) r).

(* dividing a column by its norm makes it a unit column (or leaves a zero column alone) *)
Lemma unitcol_normalized c : unitcol (map (fun y => vmul y (inv_pos v1 vinv pos (nrm c))) c).
Proof.
  unfold inv_pos. destruct (pos (nrm c)) eqn:Ep.
  - left. rewrite dot_map_scale, <- nrm_spec.
    pose proof (vinv_r _ (pos_nz _ Ep)) as Hinv.
    transitivity (vmul (vmul (nrm c) (vinv (nrm c))) (vmul (nrm c) (vinv (nrm c)))); [ring|].
    rewrite Hinv. ring.
  - right. apply allzero_map_scale. now apply nrm_pos.
Qed.

(* step 1: normalize(mode = n) makes factor n unit ... *)
Lemma normalize_mode_same n K : n < length (kfactors K) -> unit_factor n (nmode n K).
Proof.
  intros Hn r Hr. rewrite krank_normalize_mode in Hr.
  unfold k_normalize_mode. cbn [kfactors].
  rewrite nth_upd_nth_same by exact Hn. rewrite col_scale_cols.
  set (A := nth n (kfactors K) []).
  assert (Ec : nth r (map (inv_pos v1 vinv pos) (col_norms v0 nrm A (krank K))) v0
               = inv_pos v1 vinv pos (nrm (cl A r))).
  { unfold col_norms. rewrite map_map. now rewrite nth_map_seq. }
  rewrite Ec. apply unitcol_normalized.
Qed.

(* ... and does not touch the other factors *)
Lemma normalize_mode_other m n K : m <> n -> nth n (kfactors (nmode m K)) [] = nth n (kfactors K) [].
Proof. intros Hmn. unfold k_normalize_mode. cbn [kfactors]. now apply nth_upd_nth_other. Qed.

Lemma unit_factor_normalize_mode m n K : m < length (kfactors K) ->
  (m = n \/ unit_factor n K) -> unit_factor n (nmode m K).
Proof.
  intros Hm H. destruct (Nat.eq_dec m n) as [->|Hne]; [now apply normalize_mode_same|].
  destruct H as [H|H]; [contradiction|].
  intros r Hr. rewrite krank_normalize_mode in Hr. rewrite normalize_mode_other by exact Hne. now apply H.
Qed.

(* step 2: the loop over the modes; invariant: a mode that is still to come, or is already unit, ends unit *)
Lemma normalize_fold_unit l : forall K n, (forall m, In m l -> m < length (kfactors K)) ->
  (In n l \/ unit_factor n K) -> unit_factor n (fold_left (fun K n => nmode n K) l K).
Proof.
  induction l as [|m l IH]; intros K n Hl H; cbn [fold_left].
  - destruct H as [[]|H]; exact H.
  - apply IH.
    + intros m' Hm'. rewrite nfactors_normalize_mode. apply Hl. now right.
    + destruct H as [[->|H]|H].
      * right. apply unit_factor_normalize_mode; [apply Hl; now left|now left].
      * now left.
      * right. apply unit_factor_normalize_mode; [apply Hl; now left|now right].
Qed.

Lemma normalize_cols_unit K n : n < length (kfactors K) -> unit_factor n (ncols K).
Proof.
  intros Hn. unfold k_normalize_cols. apply normalize_fold_unit.
  - intros m Hm. apply in_seq in Hm. lia.
  - left. apply in_seq. lia.
Qed.

(* step 3: the sign step multiplies the columns of factor 0 by +-1 *)
Lemma fix_neg_unit K n : unit_factor n K -> unit_factor n (fixneg K).
Proof.
  intros H r Hr.
  destruct (fix_neg_props V v0 v1 vadd vmul vsub vopp Vring neg K) as (_ & R2 & _ & _).
  rewrite R2 in Hr. specialize (H r Hr). revert H.
  unfold k_fix_neg. destruct (kfactors K) as [|A0 As] eqn:E; [now rewrite E|]. cbn [kfactors].
  destruct n as [|n]; cbn [nth]; [|auto].
  intros H. rewrite col_scale_cols. apply unitcol_scale_sign; [|exact H].
  rewrite (nth_map_in V v0 _ _ r v0) by exact Hr.
  apply (sgn_neg_sq V v0 v1 vadd vmul vsub vopp Vring).
Qed.

(* ------------------------------------------------------------------------------------------------ *)
(* the four parts                                                                                    *)
(* ------------------------------------------------------------------------------------------------ *)
Lemma arrange_unfold K :
  arrange None K = k_gather v0 (srt (kweights (fixneg (ncols K)))) (fixneg (ncols K)).
Proof. reflexivity. Qed.

(* rank / shape / number of factors of the normalised tensor *)
Lemma normalized_props K :
  kshape (fixneg (ncols K)) = kshape K /\ krank (fixneg (ncols K)) = krank K /\
  length (kfactors (fixneg (ncols K))) = length (kfactors K).
Proof.
  destruct (normalize_cols_props V v0 v1 vadd vmul vsub vopp vinv Vring nrm pos vinv_r pos_nz nrm_pos K)
    as (S1 & R1 & L1 & _).
  destruct (fix_neg_props V v0 v1 vadd vmul vsub vopp Vring neg (ncols K)) as (S2 & R2 & L2 & _).
  repeat split; congruence.
Qed.

Lemma srt_length_normalized K : length (srt (kweights (fixneg (ncols K)))) = krank K.
Proof.
  destruct (normalized_props K) as (_ & R & _).
  rewrite (is_perm_length _ _ (srt_perm _)). exact R.
Qed.

Lemma srt_nth_lt K r : r < krank K -> nth r (srt (kweights (fixneg (ncols K)))) 0 < krank (fixneg (ncols K)).
Proof.
  intros Hr. apply (is_perm_In _ _ _ (srt_perm (kweights (fixneg (ncols K))))).
  apply nth_In. now rewrite srt_length_normalized.
Qed.

(* (a) *)
Lemma normal_form_rank_shape K :
  krank (arrange None K) = krank K /\ kshape (arrange None K) = kshape K.
Proof.
  rewrite arrange_unfold, krank_gather, kshape_gather. split; [apply srt_length_normalized|].
  now destruct (normalized_props K) as (S & _ & _).
Qed.

(* (b): needs neither wf_k nor kfactors K <> [] (n < length (kfactors K) implies the latter) *)
Lemma normal_form_unit_cols K : forall n r, n < length (kfactors K) -> r < krank K ->
  let c := cl (nth n (kfactors (arrange None K)) []) r in
  dt c c = v1 \/ allzero c.
Proof.
  intros n r Hn Hr. cbv zeta. rewrite arrange_unfold. unfold k_gather. cbn [kfactors].
  set (K2 := fixneg (ncols K)). set (p := srt (kweights K2)).
  assert (E : nth n (map (map (pick v0 p)) (kfactors K2)) [] = map (pick v0 p) (nth n (kfactors K2) [])).
  { change (@nil (list V)) with (map (pick v0 p) []) at 1. apply map_nth. }
  unfold matrix in *. rewrite E. rewrite col_gather by (unfold p, K2; now rewrite srt_length_normalized).
  apply (fix_neg_unit (ncols K) n (normalize_cols_unit K n Hn)).
  now apply srt_nth_lt.
Qed.

(* (c) *)
Lemma normal_form_nonneg K : kfactors K <> [] -> forall r, r < krank K ->
  neg (nth r (kweights (arrange None K)) v0) = false.
Proof.
  intros Hne r Hr. rewrite arrange_unfold. unfold k_gather. cbn [kweights].
  rewrite nth_pick by (now rewrite srt_length_normalized).
  destruct (normalize_cols_props V v0 v1 vadd vmul vsub vopp vinv Vring nrm pos vinv_r pos_nz nrm_pos K)
    as (_ & R1 & L1 & _).
  destruct (fix_neg_props V v0 v1 vadd vmul vsub vopp Vring neg (ncols K)) as (_ & R2 & _ & _).
  apply (fix_neg_nonneg V v0 v1 vadd vmul vsub vopp Vring neg (ncols K)).
  - exact neg_opp.
  - intros E. apply Hne. apply length_zero_iff_nil. rewrite <- L1, E. reflexivity.
  - rewrite <- R2. now apply srt_nth_lt.
Qed.

(* (d) *)
Lemma normal_form_descending K : forall r, S r < krank K ->
  vle (nth (S r) (kweights (arrange None K)) v0) (nth r (kweights (arrange None K)) v0).
Proof.
  intros r Hr. rewrite arrange_unfold. unfold k_gather. cbn [kweights].
  rewrite !nth_pick by (rewrite srt_length_normalized; lia).
  apply srt_desc. destruct (normalized_props K) as (_ & R & _). unfold krank in *. lia.
Qed.

(* the conjunction, without the (unnecessary) row-length hypothesis *)
Theorem normal_form_arrange_nowf K : kfactors K <> [] ->
  let K' := arrange None K in
  (krank K' = krank K /\ kshape K' = kshape K) /\
  (forall n r, n < length (kfactors K) -> r < krank K ->
     let c := cl (nth n (kfactors K') []) r in dt c c = v1 \/ allzero c) /\
  (forall r, r < krank K -> neg (nth r (kweights K') v0) = false) /\
  (forall r, S r < krank K -> vle (nth (S r) (kweights K') v0) (nth r (kweights K') v0)).
Proof.
  intros Hne. cbv zeta. split; [apply normal_form_rank_shape|].
  split; [apply normal_form_unit_cols|].
  split; [now apply normal_form_nonneg|apply normal_form_descending].
Qed.

(* the requested signature *)
Theorem normal_form_arrange K : wf_k K -> kfactors K <> [] ->
  let K' := arrange None K in
  (krank K' = krank K /\ kshape K' = kshape K) /\
  (forall n r, n < length (kfactors K) -> r < krank K ->
     let c := cl (nth n (kfactors K') []) r in dt c c = v1 \/ allzero c) /\
  (forall r, r < krank K -> neg (nth r (kweights K') v0) = false) /\
  (forall r, S r < krank K -> vle (nth (S r) (kweights K') v0) (nth r (kweights K') v0)).
Proof. intros _. apply normal_form_arrange_nowf. Qed.

End Oracles.
End NormalForm.

(* ------------------------------------------------------------------------------------------------ *)
(* concrete run (a test of the executable model, not a theorem): rank 3, order 2 (3 x 3 and 4 x 3), *)
(* columns with a single +-1 entry, weights [2; -5; 3].  After the sign step the weights are         *)
(* [2; 5; 3] (column 1 of factor 0 negated) and argsort(w)[::-1] = [1; 2; 0] is a 3-CYCLE            *)
(* (not an involution): gathering with p and with its inverse [2; 0; 1] give different answers       *)
(* ([5;3;2] versus [3;2;5]), so the example pins the direction of the gather.                        *)
(* Oracles over Z: nrm = sum of absolute values (= the 2-norm on such columns), vinv = identity     *)
(* (only ever applied to 1), pos/neg the strict comparisons with 0, srt = the stable descending      *)
(* argsort of Model/C08Kruskal.v.                                                                    *)
(* ------------------------------------------------------------------------------------------------ *)
Section ExampleZ.
Local Open Scope Z_scope.
Definition nfz_nrm (l : list Z) : Z := fold_right (fun x a => Z.abs x + a) 0 l.
Definition nfz_arrange : ktensor Z -> ktensor Z :=
  k_arrange 0 1 Z.mul Z.opp (fun x => x) nfz_nrm (fun x => 0 <? x) (fun x => x <? 0) (fun x => x)
            (argsort_desc Z.leb) None.
Definition nfz_K : ktensor Z :=
  mkK [2; -5; 3]
      [ [[1; 0; 0]; [0; -1; 0]; [0; 0; 1]];
        [[0; 1; 0]; [-1; 0; 0]; [0; 0; 0]; [0; 0; -1]] ].

Example normal_form_arrange_run :
  argsort_desc Z.leb [2; 5; 3] = [1; 2; 0]%nat /\
  nfz_arrange nfz_K =
  mkK [5; 3; 2]
      [ [[0; 0; 1]; [1; 0; 0]; [0; 1; 0]];
        [[1; 0; 0]; [0; 0; -1]; [0; 0; 0]; [0; -1; 0]] ].
Proof. vm_compute. split; reflexivity. Qed.
End ExampleZ.

Print Assumptions normal_form_arrange.
