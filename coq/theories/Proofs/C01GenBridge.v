(* Proofs/C01GenBridge.v — tie of C01's hand model of gather_wrap_dims (Model/C01Conv.v, over nat) to the function the
   translator GENERATES from pyttb/pyttb_utils.py on every run (Gen/GenUtils2.v, over Z): for every request the generated
   code answers exactly what the hand model answers. An edit of gather_wrap_dims in /repo changes Gen/GenUtils2.v and breaks
   the closed forms of Proofs/GenWrapDims.v this proof rests on. *)
From Coq Require Import List ZArith Arith Lia Bool.
From PV Require Import Base.Index Base.Perm Np.NpZ Np.NpZ2 Proofs.NpZProofs Gen.GenUtils Proofs.UtilsProofs Gen.GenUtils2
  Proofs.GenWrapDims Model.C01Conv.
Import ListNotations.

(* numpy integer vectors of the mode lists / the cdims_cyclic strings of the nat-valued model *)
Definition zv (l : list nat) : vec := map Z.of_nat l.
Definition cyc_gen (c : C01Conv.cyc) : NpZ2.cyclic :=
  match c with C01Conv.CycT => NpZ2.CycT | C01Conv.CycFC => NpZ2.CycFC | C01Conv.CycBC => NpZ2.CycBC end.

Lemma seq_as_map a n : seq a n = map (Nat.add a) (seq 0 n).
Proof.
  revert a; induction n as [|n IH]; intros a; [reflexivity|]. cbn [seq map]. rewrite Nat.add_0_r. f_equal.
  rewrite <- (seq_shift n 0), map_map, (IH (S a)). apply map_ext. intros k. lia.
Qed.

Lemma zv_seq a n : zv (seq a n) = np_arange (Z.of_nat a) (Z.of_nat (a + n)).
Proof.
  unfold np_arange, zv. replace (Z.to_nat (Z.of_nat (a + n) - Z.of_nat a)) with n by lia.
  rewrite seq_as_map, map_map. apply map_ext. intros k. lia.
Qed.

Lemma zv_range_up a b : zv (range_up a b) = np_arange (Z.of_nat a) (Z.of_nat b).
Proof.
  unfold range_up. destruct (le_lt_dec a b) as [H|H].
  - rewrite zv_seq. do 2 f_equal. lia.
  - replace (b - a) with 0 by lia. unfold np_arange. replace (Z.to_nat (Z.of_nat b - Z.of_nat a)) with 0%nat by lia. reflexivity.
Qed.

Lemma zmem_zv k d : zmem (Z.of_nat k) (zv d) = existsb (Nat.eqb k) d.
Proof.
  unfold zmem, zv. induction d as [|x d IH]; [reflexivity|]. cbn [map existsb]. rewrite IH. f_equal.
  destruct (Nat.eqb_spec k x) as [->|Hne]; [apply Z.eqb_refl|]. apply Z.eqb_neq. lia.
Qed.

Lemma filter_map_comm {A B} (f : A -> B) (p : B -> bool) (l : list A) : filter p (map f l) = map f (filter (fun x => p (f x)) l).
Proof. induction l as [|x l IH]; [reflexivity|]. cbn [map filter]. destruct (p (f x)); cbn [map]; now rewrite IH. Qed.

Lemma zv_setdiff N d : zv (setdiff_modes N d) = complement (Z.of_nat N) (zv d).
Proof.
  unfold complement, setdiff_modes.
  assert (E : np_arange 0 (Z.of_nat N) = map Z.of_nat (seq 0 N)) by (fold (zv (seq 0 N)); rewrite zv_seq; reflexivity).
  rewrite E, filter_map_comm. unfold zv. f_equal. apply filter_ext. intros k. fold (zv d). now rewrite zmem_zv.
Qed.

Lemma zv_rev_seq a n : zv (rev (seq a n)) = np_arange_down (Z.of_nat (a + n) - 1) (Z.of_nat a - 1).
Proof.
  unfold np_arange_down. replace (Z.to_nat (Z.of_nat (a + n) - 1 - (Z.of_nat a - 1))) with n by lia.
  revert a; induction n as [|n IH]; intros a; [reflexivity|].
  rewrite (seq_S n 0), map_app. change (seq a (S n)) with (a :: seq (S a) n). cbn [rev]. unfold zv in *.
  rewrite map_app, IH. cbn [map]. f_equal.
  - apply map_ext. intros k. lia.
  - f_equal. lia.
Qed.

Lemma zv_range_down a b : zv (range_down_excl a b) = np_arange_down (Z.of_nat a) (Z.of_nat b).
Proof.
  unfold range_down_excl. destruct (le_lt_dec a b) as [H|H].
  - replace (a - b) with 0 by lia. unfold np_arange_down. replace (Z.to_nat (Z.of_nat a - Z.of_nat b)) with 0%nat by lia. reflexivity.
  - rewrite zv_rev_seq. f_equal; lia.
Qed.

Lemma zv_app a b : zv (a ++ b) = zv a ++ zv b.
Proof. apply map_app. Qed.

Lemma zv_rev_seq0 m : zv (rev (seq 0 m)) = np_arange_down (Z.of_nat m - 1) (-1).
Proof. rewrite zv_rev_seq. reflexivity. Qed.

(* the generated gather_wrap_dims computes what the hand model computes — every request form, every N *)
Theorem gather_wrap_dims_generated N rd cd cy :
  GenUtils2.gather_wrap_dims (Z.of_nat N) (option_map zv rd) (option_map zv cd) (option_map cyc_gen cy)
  = match C01Conv.gather_wrap_dims N rd cd cy with
    | Some (r, c) => Ok (zv r, zv c)
    | None => Err
    end.
Proof.
  destruct rd as [r|], cd as [c|]; cbn [option_map C01Conv.gather_wrap_dims].
  - apply gwd_both.
  - assert (Hrows : forall cy', cy' = None \/ length (zv r) <> 1%nat ->
              GenUtils2.gather_wrap_dims (Z.of_nat N) (Some (zv r)) None cy' = Ok (zv r, zv (setdiff_modes N r))).
    { intros cy' H. rewrite gwd_rows by exact H. now rewrite zv_setdiff. }
    destruct r as [|m [|m' r]].
    + destruct cy as [[| |]|]; cbn [option_map]; apply Hrows; right; cbn; lia.
    + destruct cy as [[| |]|]; cbn [option_map cyc_gen].
      * change (zv [m]) with [Z.of_nat m]. rewrite gwd_t. change [Z.of_nat m] with (zv [m]). now rewrite zv_setdiff.
      * change (zv [m]) with [Z.of_nat m]. rewrite gwd_fc, zv_app, !zv_range_up. repeat f_equal; lia.
      * change (zv [m]) with [Z.of_nat m]. rewrite gwd_bc, zv_app, zv_rev_seq0, zv_range_down.
        destruct N as [|N'].
        -- cbn [Nat.sub]. unfold np_arange_down. replace (Z.to_nat (Z.of_nat 0 - Z.of_nat m)) with 0%nat by lia.
           replace (Z.to_nat (Z.of_nat 0 - 1 - Z.of_nat m)) with 0%nat by lia. reflexivity.
        -- repeat f_equal; lia.
      * apply Hrows. now left.
    + destruct cy as [[| |]|]; cbn [option_map]; apply Hrows; right; cbn; lia.
  - rewrite gwd_cols. now rewrite zv_setdiff.
  - apply gwd_none.
Qed.

(* ------------------------------------------------------------------------------------------------------------------
   sptensor.to_sptenmat / sptenmat.to_sptensor call tt_sub2ind / tt_ind2sub per side. The GENERATED functions
   (Gen/GenUtils.v; contracts in Proofs/UtilsProofs.v) compute exactly the row / column indices of the hand model
   (Model/C01Conv.v to_sptenmat: tm_pos) and the per-side subscripts its way back uses (stm_row_to_sub). *)
From PV Require Import Model.Sparse Proofs.C07Index Proofs.C01Proofs.

Section SparseSides.
Context {V : Type}.

(* q = the row modes (side 0) or the column modes (side 1) of an ordered partition; non-empty, as the code calls the
   helper only then (`rsize.size == 0` / `csize.size == 0` are separate branches) *)
Theorem to_sptenmat_side_generated (S : sparse V) r c M side : is_perm (r ++ c) (length (sshape S)) ->
  Forall (fun j => inb (sshape S) j = true) (ssubs S) -> to_sptenmat S r c = Some M ->
  let q := nth side [r; c] [] in q <> [] -> (side < 2)%nat ->
  GenUtils.tt_sub2ind (zs (pick 0%nat q (sshape S))) (zm (map (pick 0%nat q) (ssubs S))) OrdF
    = Ok (map (fun rc => Z.of_nat (nth side rc 0%nat)) (stm_subs M)).
Proof.
  intros Hp Hb E q Hq Hside. unfold to_sptenmat in E. rewrite (proj2 (is_permb_spec _ _) Hp) in E. inversion E; subst M; clear E.
  cbn [stm_subs].
  assert (Hqlt : forall k, In k q -> (k < length (sshape S))%nat).
  { intros k Hk. apply (perm_app_lt r c); auto. destruct side as [|[|side]]; [left|right|lia]; exact Hk. }
  rewrite tt_sub2ind_spec.
  - f_equal. rewrite !map_map. apply map_ext. intros i. unfold tm_pos. destruct side as [|[|side]]; [reflexivity|reflexivity|lia].
  - intros Hn. apply Hq. apply (f_equal (@length nat)) in Hn. rewrite pick_length in Hn. now destruct q.
  - intros i Hi. apply in_map_iff in Hi as (j & <- & Hj). rewrite Forall_forall in Hb. apply inb_pick_sub; auto.
Qed.

Theorem sptenmat_back_side_generated (M : sptenmat V) side :
  Forall (fun rc => inb (stm_shape M) rc = true) (stm_subs M) -> (side < 2)%nat ->
  let q := nth side [stm_r M; stm_c M] [] in
  GenUtils.tt_ind2sub (zs (pick 0%nat q (stm_tshape M))) (zs (map (fun rc => nth side rc 0%nat) (stm_subs M))) OrdF
    = Ok (map (fun rc => zs (ind2sub (pick 0%nat q (stm_tshape M)) (nth side rc 0%nat))) (stm_subs M)).
Proof.
  intros Hb Hside q. rewrite tt_ind2sub_spec; [now rewrite map_map|].
  intros k Hk. apply in_map_iff in Hk as (rc & <- & Hrc). rewrite Forall_forall in Hb. specialize (Hb rc Hrc).
  unfold stm_shape in Hb. destruct rc as [|a [|b [|z rc]]]; cbn [inb] in Hb; try discriminate;
    try (rewrite !andb_false_r in Hb; discriminate).
  rewrite andb_true_r in Hb. apply andb_true_iff in Hb as [Ha Hb']. apply Nat.ltb_lt in Ha, Hb'.
  destruct side as [|[|side]]; [exact Ha|exact Hb'|lia].
Qed.

End SparseSides.
