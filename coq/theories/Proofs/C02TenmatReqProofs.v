(* Proofs/C02TenmatReqProofs.v — tensor.ttt as called, with both matricisations resolved by the GENERATED gather_wrap_dims, is the
   transliteration impl_ttt_dense (whose equality with the defining sum is C02_ttt_dense): an edit of gather_wrap_dims in /repo that
   changes the complement convention breaks this proof. *)
From Coq Require Import List ZArith Arith Bool Lia Permutation.
From PV Require Import Base.Index Base.Perm Base.Sum Np.NpZ Np.NpZ2 Np.Array Model.Sparse Model.Repr Model.C02Spec Model.C02Dense
                       Model.C02Modes Model.C02Tenmat Model.C02TenmatReq Gen.GenUtils Gen.GenUtils2
                       Proofs.NpZProofs Proofs.UtilsProofs Proofs.GenWrapDims Proofs.C02TenmatProofs.
Import ListNotations.

Lemma map_filter_map {A B} (F : A -> B) (G : B -> A) (P : B -> bool) (Q : A -> bool) : forall l,
  (forall k, G (F k) = k) -> (forall k, P (F k) = Q k) -> map G (filter P (map F l)) = filter Q l.
Proof.
  intros l HG HP. induction l as [|k l IH]; [reflexivity|]. cbn [map filter]. rewrite HP.
  destruct (Q k); cbn [map]; now rewrite ?HG, IH.
Qed.

Lemma existsb_nats k (c : vec) : (forall x, In x c -> (0 <= x)%Z) ->
  existsb (Z.eqb (0 + Z.of_nat k)) c = existsb (Nat.eqb k) (nats c).
Proof.
  induction c as [|y c IH]; intros H; [reflexivity|]. cbn [existsb nats map].
  unfold nats in IH. rewrite IH by (intros; apply H; cbn; auto). f_equal.
  assert (0 <= y)%Z by (apply H; cbn; auto).
  destruct (Z.eqb_spec (0 + Z.of_nat k) y); destruct (Nat.eqb_spec k (Z.to_nat y)); auto; lia.
Qed.

(* the complement convention of the generated helper (sorted modes not listed) is compl *)
Lemma nats_complement N (c : vec) : (forall x, In x c -> (0 <= x)%Z) ->
  nats (complement (Z.of_nat N) c) = compl N (nats c).
Proof.
  intros H. unfold complement, compl, nats, np_arange, zmem.
  rewrite Z.sub_0_r, Nat2Z.id.
  apply map_filter_map.
  - intros k. lia.
  - intros k. f_equal. now apply existsb_nats.
Qed.

Section P.
Variable V : Type.
Variables (v0 v1 : V) (vadd vmul : V -> V -> V).

Theorem impl_ttt_req_eq (X Y : dense V) (sd od : vec) :
  (forall x, In x sd -> (0 <= x)%Z) -> (forall x, In x od -> (0 <= x)%Z) ->
  impl_ttt_req v0 vadd vmul X Y sd od = Ok (impl_ttt_dense v0 vadd vmul X Y (nats sd) (nats od)).
Proof.
  intros Hs Ho. unfold impl_ttt_req, impl_to_tenmat_req.
  rewrite gwd_cols. rewrite gwd_rows by (left; reflexivity).
  rewrite !nats_complement by assumption. reflexivity.
Qed.

(* to_tenmat with both mode lists given (collapse: (remdims, dims); scale: (dims, remdims)) takes them as they are *)
Theorem impl_to_tenmat_req_both (X : dense V) (r c : vec) :
  impl_to_tenmat_req v0 X (Some r) (Some c) = Ok (impl_to_tenmat v0 X (nats r) (nats c), (nats r, nats c)).
Proof. unfold impl_to_tenmat_req. now rewrite gwd_both. Qed.

(* factor.to_tenmat(arange(ndims)) in tensor.scale: the column modes are the (empty) complement *)
Theorem impl_to_tenmat_req_rows_all (X : dense V) :
  impl_to_tenmat_req v0 X (Some (np_arange 0 (Z.of_nat (length (dshape X))))) None =
  Ok (impl_to_tenmat v0 X (seq 0 (length (dshape X))) (compl (length (dshape X)) (seq 0 (length (dshape X)))),
      (seq 0 (length (dshape X)), compl (length (dshape X)) (seq 0 (length (dshape X))))).
Proof.
  unfold impl_to_tenmat_req. rewrite gwd_rows by (left; reflexivity).
  assert (E : nats (np_arange 0 (Z.of_nat (length (dshape X)))) = seq 0 (length (dshape X))).
  { unfold nats, np_arange. rewrite Z.sub_0_r, Nat2Z.id, map_map. rewrite <- (map_id (seq 0 _)) at 2.
    apply map_ext. intros k. lia. }
  rewrite nats_complement.
  - now rewrite E.
  - intros x Hx. apply in_np_arange in Hx. lia.
Qed.

End P.
