(* Model/C02Dense.v — executable transliterations of the dense kernels of pyttb/tensor.py
   (ttv, ttm, mttkrp, innerprod, norm^2, collapse, contract, scale) and of pyttb/khatrirao.py, written against the
   tabulate-style numpy primitives of Np/Array.v.  Definitions only; proofs in Proofs/C02DenseProofs.v. *)
From Coq Require Import List Arith Lia Bool.
From PV Require Import Base.Index Base.Perm Base.Sum Np.Array Model.Sparse Model.Repr Model.C02Spec.
Import ListNotations.

Section Dense.
Context {V : Type} (v0 v1 : V) (vadd vmul : V -> V -> V).
Local Notation "x + y" := (vadd x y).
Local Notation "x * y" := (vmul x y).
Local Notation den := (den_dense v0).

(* c.dot(v) for a 2-d F-ordered array c of shape (A, B): out[a] = Σ_b c[a,b] v[b] *)
Definition matvec (c : dense V) (v : list V) : dense V :=
  let A := nth 0 (dshape c) 0 in let B := nth 1 (dshape c) 0 in
  mkDense [A] (map (fun a => sum_n v0 vadd B (fun b => nth (a + A * b)%nat (ddata c) v0 * nth b v v0)) (seq 0 A)).

(* A @ B for 2-d F-ordered arrays *)
Definition matmul (a b : dense V) : dense V :=
  let m := nth 0 (dshape a) 0 in let k := nth 1 (dshape a) 0 in let n := nth 1 (dshape b) 0 in
  tabulate [m; n] (fun ij => sum_n v0 vadd k (fun l => den a [nth 0 ij 0; l] * den b [l; nth 1 ij 0])).

(* a factor matrix (list of rows) with m rows, n columns as a 2-d array; its transpose *)
Definition of_matrix (U : @matrix V) (m n : nat) : dense V := tabulate [m; n] (fun ij => mget v0 U (nth 0 ij 0) (nth 1 ij 0)).
Definition of_matrixT (U : @matrix V) (m n : nat) : dense V := tabulate [n; m] (fun ij => mget v0 U (nth 1 ij 0) (nth 0 ij 0)).
Definition np_T (a : dense V) : dense V := np_transpose v0 a [1; 0].

(* ---- tensor.ttv (tensor.py:1723): dims sorted ascending, vs[i] = vector[vidx[i]] (after tt_dimscheck) ---- *)
Fixpoint ttv_loop (c : dense V) (sz : list nat) (vs_rev : list (list V)) : dense V * list nat :=
  match vs_rev with
  | [] => (c, sz)
  | v :: r =>
      let c2 := np_reshapeF v0 c [size (removelast sz); last sz 0] in      (* np.reshape(c, (prod(sz[0:n-1]), sz[n-1]), "F") *)
      ttv_loop (matvec c2 v) (removelast sz) r                              (* c = c.dot(vector[vidx[i]]); n -= 1 *)
  end.

Definition impl_ttv_dense (X : dense V) (dims : list nat) (vs : list (list V)) : dense V :=
  let N := length (dshape X) in
  let remdims := compl N dims in
  let c := if 1 <? N then np_transpose v0 X (remdims ++ dims) else X in
  let sz := pick 0 (remdims ++ dims) (dshape X) in
  let '(c', sz') := ttv_loop c sz (rev vs) in
  np_reshapeF v0 c' sz'.                       (* ttb.tensor(c, sz[0:n]); the scalar result is entry 0 of shape [] *)

(* ---- tensor.innerprod / norm()^2 (tensor.py:722, 1152): x.dot(y) on the F-order ravel ---- *)
Fixpoint dotv (x y : list V) : V :=
  match x, y with a :: x', b :: y' => a * b + dotv x' y' | _, _ => v0 end.
Definition impl_innerprod_dense (X Y : dense V) : V := dotv (ddata X) (ddata Y).
Definition impl_normsq_dense (X : dense V) : V := dotv (ddata X) (ddata X).

(* ---- tensor.ttm, single mode n (tensor.py:1532, "old version"): permute n to the front, reshape to a matrix,
        multiply, reshape, permute back with argsort(order) ---- *)
Definition ttm_order (N n : nat) : list nat := n :: seq 0 n ++ seq (S n) (N - S n).
Definition impl_ttm_dense (X : dense V) (n : nat) (U : @matrix V) (J : nat) (tr : bool) : dense V :=
  let s := dshape X in
  let N := length s in
  let order := ttm_order N n in
  let newdata := np_transpose v0 X order in                                   (* self.permute(order).data *)
  let second_dim := size (remove_at n s) in
  let m2 := np_reshapeF v0 newdata [nth n s 0; second_dim] in
  let Um := if tr then of_matrixT U (nth n s 0) J else of_matrix U J (nth n s 0) in   (* matrix.T  /  matrix *)
  let prod := matmul Um m2 in
  let newshape := J :: remove_at n s in
  let Y := np_reshapeF v0 prod newshape in
  np_transpose v0 Y (invperm order).                                           (* np.transpose(Y, np.argsort(order)) *)

(* ---- khatrirao with reverse=True (khatrirao.py): P starts as the LAST matrix; each step P[a + I*b, r] = M[a,r] * P[b,r]
        with M the next matrix towards the front, so the first matrix's row index runs fastest ---- *)
Fixpoint zipmul (a b : list V) : list V :=
  match a, b with x :: a', y :: b' => x * y :: zipmul a' b' | _, _ => [] end.
Definition kr2 (M P : @matrix V) : @matrix V := flat_map (fun pr => map (fun mr => zipmul mr pr) M) P.
Fixpoint kr_rev (Us : list (@matrix V)) : @matrix V :=
  match Us with
  | [] => []
  | [U] => U
  | U :: Us' => kr2 U (kr_rev Us')
  end.

(* ---- tensor.mttkrp (tensor.py:1008), factor list, the three branches ---- *)
Definition impl_mttkrp_dense (X : dense V) (Us : list (@matrix V)) (n R : nat) : dense V :=
  let s := dshape X in
  let N := length s in
  let szl := size (firstn n s) in
  let szr := size (skipn (S n) s) in
  let szn := nth n s 0 in
  if Nat.eqb n 0 then
    let Ur := kr_rev (skipn 1 Us) in
    let Y := np_reshapeF v0 X [szn; szr] in
    matmul Y (of_matrix Ur szr R)                                            (* Y @ Ur *)
  else if Nat.eqb n (N - 1) then
    let Ul := kr_rev (firstn (N - 1) Us) in
    let Y := np_reshapeF v0 X [szl; szn] in
    matmul (np_T Y) (of_matrix Ul szl R)                                     (* Y.T @ Ul *)
  else
    let Ul := kr_rev (skipn (S n) Us) in
    let Ur := np_reshapeF v0 (of_matrix (kr_rev (firstn n Us)) szl R) [szl; 1; R] in
    let Y := np_reshapeF v0 X [(szl * szn)%nat; szr] in
    let Y2 := matmul Y (of_matrix Ul szr R) in
    let Y3 := np_reshapeF v0 Y2 [szl; szn; R] in
    tabulate [szn; R] (fun xr =>                                             (* V[:, [r]] = Y[:, :, r].T @ Ur[:, :, r] *)
      sum_n v0 vadd szl (fun l => den Y3 [l; nth 0 xr 0; nth 1 xr 0] * den Ur [l; 0; nth 1 xr 0])).

End Dense.
