(* Proofs/C07Gen.v — bridge: sptensor.reshape over the GENERATED tt_sub2ind / tt_ind2sub (Model/C07Gen.v) computes exactly
   the hand model reshape_sp (Model/C07Ops.v); consequently the subset-reshape theorems hold for the transliteration that
   calls the generated helpers.  An edit of tt_sub2ind / tt_ind2sub in pyttb_utils.py changes Gen/GenUtils.v and breaks
   tt_sub2ind_spec / tt_ind2sub_spec (Proofs/UtilsProofs.v) or this bridge. *)
From Coq Require Import List ZArith Arith Bool Lia.
From PV Require Import Base.Index Base.Perm Np.NpZ Proofs.NpZProofs Gen.GenUtils Proofs.UtilsProofs Model.Sparse
  Model.C07Ops Model.C07Gen Proofs.C07Index Proofs.C07Proofs Proofs.C07Reshape.
Import ListNotations.

Lemma to_nat_zs l : map Z.to_nat (zs l) = l.
Proof. unfold zs. rewrite map_map. rewrite <- (map_id l) at 2. apply map_ext. intros; apply Nat2Z.id. Qed.

Lemma hcat_map {A B} (f g : A -> list B) l : hcat (map f l) (map g l) = map (fun x => f x ++ g x) l.
Proof. induction l as [|x l IH]; cbn; [reflexivity|now rewrite IH]. Qed.

Lemma pick_nonnil {A} (d : A) p l : p <> [] -> pick d p l <> [].
Proof. destruct p; [congruence|discriminate]. Qed.

Section Bridge.
Context {V : Type}.

Theorem reshape_sp_gen_bridge (S : sparse V) s' old :
  old <> [] -> Forall (fun k => k < length (sshape S)) old ->
  Forall (fun j => inb (sshape S) j = true) (ssubs S) -> length (svals S) = length (ssubs S) ->
  res_opt (reshape_sp_gen S s' old) = reshape_sp S s' old.
Proof.
  intros Hne Hold Hin Hlen. unfold reshape_sp_gen, reshape_sp.
  rewrite Forall_forall in Hold, Hin.
  destruct (Nat.eqb (size s') (size (pick 0 old (sshape S)))) eqn:E; cbn [negb]; [|reflexivity].
  destruct (ssubs S) as [|j0 subs] eqn:Esubs.
  - cbn [length Nat.eqb res_opt map]. destruct (svals S); [reflexivity|discriminate].
  - cbn [length Nat.eqb]. rewrite <- Esubs in *.
    set (s := sshape S) in *. set (so := pick 0 old s).
    rewrite (tt_sub2ind_spec so (map (pick 0 old) (ssubs S))).
    2:{ apply pick_nonnil; exact Hne. }
    2:{ intros i Hi. apply in_map_iff in Hi as (j & <- & Hj). apply inb_pick_sub; auto. }
    cbn [bind]. rewrite map_map.
    rewrite <- (map_map (fun j => sub2ind so (pick 0 old j)) Z.of_nat).
    fold (zs (map (fun j => sub2ind so (pick 0 old j)) (ssubs S))).
    rewrite tt_ind2sub_spec.
    2:{ intros k Hk. apply in_map_iff in Hk as (j & <- & Hj). apply Nat.eqb_eq in E. rewrite E.
        apply sub2ind_lt. apply inb_pick_sub; auto. }
    cbn [bind res_opt]. do 2 f_equal.
    rewrite !map_map. rewrite hcat_map. apply map_ext. intros j. unfold reshape_row.
    now rewrite to_nat_zs.
Qed.

End Bridge.

(* the index law of the subset reshape, stated for the transliteration over the generated helpers *)
Section Law.
Context {V : Type} (v0 : V) (isz : V -> bool).

Theorem reshape_sp_gen_correct (S : sparse V) s' old :
  old <> [] -> Forall (fun k => k < length (sshape S)) old -> NoDup old -> size s' = size (pick 0 old (sshape S)) ->
  Forall (fun j => inb (sshape S) j = true) (ssubs S) -> length (svals S) = length (ssubs S) ->
  let s := sshape S in
  let keep := keep_modes (length s) old in
  exists R, reshape_sp_gen S s' old = Ok R /\ sshape R = pick 0 keep s ++ s' /\ svals R = svals S /\ nnz R = nnz S /\
    (forall i, inb s i = true -> inb (sshape R) (reshape_row s s' old i) = true /\
                                 den_sp v0 R (reshape_row s s' old i) = den_sp v0 S i) /\
    (forall j, den_sp v0 R j = if inb (sshape R) j then den_sp v0 S (unreshape_row s s' old j) else v0) /\
    (forall i, inb s i = true -> unreshape_row s s' old (reshape_row s s' old i) = i) /\
    (forall j, inb (sshape R) j = true -> reshape_row s s' old (unreshape_row s s' old j) = j).
Proof.
  intros Hne Hold Hnd Hsz Hin Hlen s keep.
  pose proof (reshape_sp_gen_bridge S s' old Hne Hold Hin Hlen) as B.
  destruct (reshape_sparse_correct v0 isz S s' old Hold Hsz Hin) as (R & HR & Hsh & Hv & Hn & _ & Hfw & _).
  destruct (reshape_sparse_subset_bijection v0 isz S s' old Hold Hnd Hsz Hin) as (R' & HR' & _ & Hbij & Hleft & Hden & _).
  rewrite HR in HR'. injection HR' as <-.
  exists R. rewrite HR in B. destruct (reshape_sp_gen S s' old) as [R0|]; [|discriminate].
  cbn in B. injection B as ->.
  repeat split; auto.
  - apply Hfw; auto.
  - apply Hfw; auto.
  - intros j Hj. apply (Hbij j Hj).
Qed.

End Law.
