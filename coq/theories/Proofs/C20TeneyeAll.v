(* Proofs/C20TeneyeAll.v — wave 4: the GENERAL closed entry formula of teneye (every even order, every subscript):
     teneye_count i = teneye_formula i
   i.e. the number of the m! rearrangements of the subscript i whose (rotated) consecutive pairs are equal is
   2^(m/2) (m/2)! prod_v (c_v - 1)!! when every value occurs an even number c_v of times, and 0 otherwise.
   Route: (A) the enumeration [perms] decomposes, as a multiset, by its FIRST element and by its LAST element
   (perms_head / perms_last), hence is closed under rotation; (B) the count M of consecutively matched rearrangements
   obeys M(l) = sum over ordered pairs of equal-valued positions of M(l minus the pair); (C) the closed form obeys
   |x :: r| * sum_{t : r_t = x} F(r - t) = F(x :: r) and is invariant under rearrangement; (D) strong induction. *)
From Coq Require Import List Arith Lia Bool Permutation.
From PV Require Import Base.Index Base.Perm Model.C20Gen Proofs.C20Proofs Proofs.C20TeneyeGen Proofs.C20TeneyeEntry.
Import ListNotations.

Local Notation cnt := (count_occ Nat.eq_dec).

(* ================================================================ generic list facts *)
Lemma flat_map_flat_map {A B C} (f : B -> list C) (g : A -> list B) l :
  flat_map f (flat_map g l) = flat_map (fun a => flat_map f (g a)) l.
Proof. induction l as [|a l IH]; cbn; [reflexivity|]. now rewrite flat_map_app, IH. Qed.

Lemma flat_map_map' {A B C} (f : B -> list C) (g : A -> B) l : flat_map f (map g l) = flat_map (fun a => f (g a)) l.
Proof. induction l as [|a l IH]; cbn; [reflexivity|]. now rewrite IH. Qed.

Lemma map_flat_map' {A B C} (f : B -> C) (g : A -> list B) l : map f (flat_map g l) = flat_map (fun a => map f (g a)) l.
Proof. induction l as [|a l IH]; cbn; [reflexivity|]. now rewrite map_app, IH. Qed.

Lemma flat_map_cons_split {A B} (a : A -> B) (b : A -> list B) L :
  Permutation (flat_map (fun q => a q :: b q) L) (map a L ++ flat_map b L).
Proof.
  induction L as [|x L IH]; cbn; [constructor|]. constructor. rewrite IH. apply Permutation_app_swap_app.
Qed.

Lemma flat_map_snoc_split {A B} (a : A -> B) (b : A -> list B) L :
  Permutation (flat_map (fun q => b q ++ [a q]) L) (map a L ++ flat_map b L).
Proof.
  induction L as [|x L IH]; cbn; [constructor|]. rewrite IH.
  rewrite <- app_assoc. etransitivity; [apply Permutation_app_swap_app|]. cbn. constructor. apply Permutation_app_swap_app.
Qed.

Lemma flat_map_app_split {A B} (f g : A -> list B) L :
  Permutation (flat_map (fun e => f e ++ g e) L) (flat_map f L ++ flat_map g L).
Proof.
  induction L as [|x L IH]; cbn; [constructor|]. rewrite IH, <- !app_assoc. apply Permutation_app_head.
  apply Permutation_app_swap_app.
Qed.

Lemma flat_map_perm_ext {A B} (f g : A -> list B) L :
  (forall e, Permutation (f e) (g e)) -> Permutation (flat_map f L) (flat_map g L).
Proof. intros H. induction L as [|x L IH]; cbn; [constructor|]. now apply Permutation_app. Qed.

Lemma count_perm {A} (f : A -> bool) L L' : Permutation L L' -> length (filter f L) = length (filter f L').
Proof.
  induction 1 as [|x l l' H IH|x y l|l l' l'' H1 IH1 H2 IH2]; cbn.
  - reflexivity.
  - destruct (f x); cbn; congruence.
  - destruct (f x), (f y); reflexivity.
  - congruence.
Qed.

(* ================================================================ (A) perms by first / last element *)
(* every way of taking one element out of a list: (the element, the rest in order) *)
Fixpoint sel (l : list nat) : list (nat * list nat) :=
  match l with
  | [] => []
  | x :: r => (x, r) :: map (fun e => (fst e, x :: snd e)) (sel r)
  end.

Definition hd_block (e : nat * list nat) : list (list nat) := map (cons (fst e)) (perms (snd e)).
Definition snoc (z : nat) (q : list nat) : list nat := q ++ [z].
Definition last_block (e : nat * list nat) : list (list nat) := map (snoc (fst e)) (perms (snd e)).

Lemma insert_all_snoc x z q : insert_all x (snoc z q) = map (snoc z) (insert_all x q) ++ [snoc x (snoc z q)].
Proof.
  unfold snoc. induction q as [|y q IH]; [reflexivity|].
  cbn [app insert_all map]. rewrite IH. rewrite map_app, !map_map. cbn [map app]. reflexivity.
Qed.

Lemma perms_head l : l <> [] -> Permutation (perms l) (flat_map hd_block (sel l)).
Proof.
  induction l as [|x r IH]; [congruence|]. intros _. destruct r as [|x' r0]; [apply Permutation_refl|].
  set (r := x' :: r0) in *. assert (IH' : Permutation (perms r) (flat_map hd_block (sel r))) by (apply IH; discriminate).
  clear IH. change (perms (x :: r)) with (flat_map (insert_all x) (perms r)).
  etransitivity; [apply Permutation_flat_map, IH'|]. rewrite flat_map_flat_map.
  transitivity (flat_map (fun e => map (cons x) (hd_block e) ++ hd_block (fst e, x :: snd e)) (sel r)).
  { apply flat_map_perm_ext. intros [y r']. unfold hd_block. cbn [fst snd].
    rewrite flat_map_map'. cbn [insert_all].
    rewrite flat_map_cons_split. apply Permutation_app.
    - rewrite map_map. apply Permutation_refl.
    - change (perms (x :: r')) with (flat_map (insert_all x) (perms r')). rewrite map_flat_map'. apply Permutation_refl. }
  rewrite flat_map_app_split. cbn [sel flat_map]. apply Permutation_app.
  - unfold hd_block at 2. cbn [fst snd]. rewrite <- map_flat_map'. apply Permutation_map. now symmetry.
  - rewrite flat_map_map'. apply Permutation_refl.
Qed.

Lemma perms_last l : l <> [] -> Permutation (perms l) (flat_map last_block (sel l)).
Proof.
  induction l as [|x r IH]; [congruence|]. intros _. destruct r as [|x' r0]; [apply Permutation_refl|].
  set (r := x' :: r0) in *. assert (IH' : Permutation (perms r) (flat_map last_block (sel r))) by (apply IH; discriminate).
  clear IH. change (perms (x :: r)) with (flat_map (insert_all x) (perms r)).
  etransitivity; [apply Permutation_flat_map, IH'|]. rewrite flat_map_flat_map.
  transitivity (flat_map (fun e => map (snoc x) (last_block e) ++ last_block (fst e, x :: snd e)) (sel r)).
  { apply flat_map_perm_ext. intros [y r']. unfold last_block. cbn [fst snd].
    rewrite flat_map_map'.
    transitivity (flat_map (fun q => map (snoc y) (insert_all x q) ++ [snoc x (snoc y q)]) (perms r')).
    { apply flat_map_perm_ext. intros q. rewrite insert_all_snoc. apply Permutation_refl. }
    rewrite flat_map_snoc_split. apply Permutation_app.
    - rewrite map_map. apply Permutation_refl.
    - change (perms (x :: r')) with (flat_map (insert_all x) (perms r')). rewrite map_flat_map'. apply Permutation_refl. }
  rewrite flat_map_app_split. cbn [sel flat_map]. apply Permutation_app.
  - unfold last_block at 2. cbn [fst snd]. rewrite <- map_flat_map'. apply Permutation_map. now symmetry.
  - rewrite flat_map_map'. apply Permutation_refl.
Qed.

(* rotation by one: the last element comes first *)
Definition rot (p : list nat) : list nat :=
  match p with [] => [] | _ => last p 0 :: removelast p end.

Lemma rot_snoc z q : rot (snoc z q) = z :: q.
Proof.
  unfold rot, snoc. destruct (q ++ [z]) eqn:E; [now destruct q|]. rewrite <- E.
  now rewrite last_last, removelast_last.
Qed.

(* the enumeration is closed under rotation (as a multiset) *)
Lemma perms_rot l : Permutation (map rot (perms l)) (perms l).
Proof.
  destruct l as [|x r]; [apply Permutation_refl|].
  etransitivity; [apply Permutation_map, perms_last; discriminate|].
  etransitivity; [|symmetry; apply perms_head; discriminate].
  rewrite map_flat_map'. apply flat_map_perm_ext. intros [z r']. unfold last_block, hd_block. cbn [fst snd].
  rewrite map_map. erewrite map_ext; [apply Permutation_refl|]. intros q. apply rot_snoc.
Qed.

(* pyttb's pairing (last with first, then consecutive) is the consecutive pairing of the rotated list *)
Lemma map_nth_seq_app (q r : list nat) : map (fun k => nth k (q ++ r) 0) (seq 0 (length q)) = q.
Proof.
  induction q as [|a q IH]; [reflexivity|]. cbn [length seq map app nth]. f_equal.
  rewrite <- seq_shift, map_map. exact IH.
Qed.

Lemma pick_rho_rot p : p <> [] -> pick 0 (rho (length p)) p = rot p.
Proof.
  intros H. destruct (exists_last H) as (q & z & ->). change (q ++ [z]) with (snoc z q). rewrite rot_snoc.
  unfold snoc, rho, pick. rewrite app_length. cbn [length]. replace (length q + 1 - 1) with (length q) by lia.
  cbn [map]. rewrite nth_middle, map_nth_seq_app. reflexivity.
Qed.

(* ================================================================ (B) the count of consecutively matched rearrangements *)
Definition M (l : list nat) : nat := length (filter cmatch (perms l)).

Lemma count_flat_map {A B} (f : B -> bool) (g : A -> list B) L :
  length (filter f (flat_map g L)) = list_sum (map (fun e => length (filter f (g e))) L).
Proof. induction L as [|a L IH]; cbn; [reflexivity|]. now rewrite filter_app, app_length, IH. Qed.

Lemma count_map {A B} (f : B -> bool) (g : A -> B) L : length (filter f (map g L)) = length (filter (fun a => f (g a)) L).
Proof. induction L as [|a L IH]; cbn; [reflexivity|]. destruct (f (g a)); cbn; now rewrite IH. Qed.

Lemma teneye_count_M i : 2 <= length i -> Nat.even (length i) = true -> teneye_count i = M i.
Proof.
  intros Hm He. unfold teneye_count, M.
  rewrite <- (count_perm cmatch _ _ (perms_rot i)), count_map. f_equal. apply filter_ext_in. intros p Hp.
  apply perms_perm in Hp. pose proof (Permutation_length Hp) as HL.
  rewrite pairs_match_rot by (rewrite HL; auto). rewrite pick_rho_rot; [reflexivity|].
  intros ->. cbn in HL. lia.
Qed.

Definition M1 (y : nat) (r : list nat) : nat := length (filter (fun q => cmatch (y :: q)) (perms r)).

Lemma M_head l : l <> [] -> M l = list_sum (map (fun e => M1 (fst e) (snd e)) (sel l)).
Proof.
  intros H. unfold M. rewrite (count_perm cmatch _ _ (perms_head l H)), count_flat_map.
  f_equal. apply map_ext. intros e. unfold hd_block. now rewrite count_map.
Qed.

Lemma M1_head y r : M1 y r = list_sum (map (fun e => if y =? fst e then M (snd e) else 0) (sel r)).
Proof.
  destruct r as [|x r]; [reflexivity|]. unfold M1.
  rewrite (count_perm _ _ _ (perms_head (x :: r) ltac:(discriminate))), count_flat_map.
  f_equal. apply map_ext. intros e. unfold hd_block. rewrite count_map. cbn [cmatch].
  destruct (y =? fst e); cbn [andb]; [reflexivity|]. induction (perms (snd e)); auto.
Qed.

(* ================================================================ facts about [sel] *)
Lemma sel_length l : length (sel l) = length l.
Proof. induction l as [|x r IH]; [reflexivity|]. cbn. now rewrite map_length, IH. Qed.

Lemma sel_perm l e : In e (sel l) -> Permutation (fst e :: snd e) l.
Proof.
  revert e. induction l as [|x r IH]; intros e H; [contradiction|]. cbn in H. destruct H as [<-|H]; [apply Permutation_refl|].
  apply in_map_iff in H as (e' & <- & H'). cbn [fst snd]. rewrite perm_swap. constructor. now apply IH.
Qed.

Lemma sel_count x r : length (filter (fun e => x =? fst e) (sel r)) = cnt r x.
Proof.
  induction r as [|y r IH]; [reflexivity|]. cbn [sel filter fst count_occ].
  destruct (Nat.eq_dec y x) as [->|Hne].
  - rewrite Nat.eqb_refl. cbn [length]. rewrite count_map. cbn [fst]. now rewrite IH.
  - destruct (Nat.eqb_spec x y); [congruence|]. rewrite count_map. cbn [fst]. exact IH.
Qed.

Lemma list_sum_scale {A} c (f : A -> nat) L : c * list_sum (map f L) = list_sum (map (fun e => c * f e) L).
Proof. unfold list_sum. induction L as [|a L IH]; cbn [map fold_right]; [lia|]. rewrite <- IH. lia. Qed.

Lemma list_sum_const {A} (L : list A) T : list_sum (map (fun _ => T) L) = length L * T.
Proof. unfold list_sum. induction L as [|a L IH]; cbn [map fold_right length]; [reflexivity|]. rewrite IH. lia. Qed.

Lemma sum_if_const {A} (g : A -> bool) (f : A -> nat) c T L :
  (forall e, In e L -> g e = true -> c * f e = T) ->
  c * list_sum (map (fun e => if g e then f e else 0) L) = length (filter g L) * T.
Proof.
  unfold list_sum. induction L as [|a L IH]; intros H; cbn [map fold_right filter length]; [lia|].
  assert (IH' := IH (fun e He => H e (or_intror He))). clear IH.
  destruct (g a) eqn:E; cbn [length]; [|rewrite <- IH'; lia].
  rewrite Nat.mul_add_distr_l, IH', (H a (or_introl eq_refl) E). lia.
Qed.

(* ================================================================ (C) the closed form *)
Definition prodl (l : list nat) : nat := fold_right Nat.mul 1 l.

Lemma prodl_perm l l' : Permutation l l' -> prodl l = prodl l'.
Proof. unfold prodl. induction 1; cbn; try lia. Qed.

Lemma forallb_perm {A} (f : A -> bool) l l' : Permutation l l' -> forallb f l = forallb f l'.
Proof.
  induction 1 as [|x l l' H IH|x y l|l l' l'' H1 IH1 H2 IH2]; cbn; try congruence.
  destruct (f x), (f y); reflexivity.
Qed.

(* the closed form depends on the multiset of the subscript's values only *)
Lemma teneye_formula_perm l l' : Permutation l l' -> teneye_formula l = teneye_formula l'.
Proof.
  intros H. unfold teneye_formula. cbv zeta.
  assert (Hc : forall v, cnt l v = cnt l' v) by (now apply Permutation_count_occ).
  assert (Hn : Permutation (nodup Nat.eq_dec l) (nodup Nat.eq_dec l')).
  { apply NoDup_Permutation; try apply NoDup_nodup. intros v. rewrite !nodup_In. split; apply Permutation_in; auto. now symmetry. }
  rewrite (Permutation_length H).
  rewrite (forallb_perm _ _ _ Hn).
  rewrite (forallb_ext_in (fun v => Nat.even (cnt l v)) (fun v => Nat.even (cnt l' v))) by (intros v _; now rewrite Hc).
  destruct (forallb _ _); [|reflexivity]. f_equal.
  fold (prodl (map (fun v => oddfact (cnt l v)) (nodup Nat.eq_dec l))).
  fold (prodl (map (fun v => oddfact (cnt l' v)) (nodup Nat.eq_dec l'))).
  rewrite (prodl_perm _ _ (Permutation_map _ Hn)). f_equal. apply map_ext. intros v. now rewrite Hc.
Qed.

Lemma prodl_update (h h' : nat -> nat) x a vs : NoDup vs -> In x vs ->
  (forall v, v <> x -> h' v = h v) -> h' x = a * h x -> prodl (map h' vs) = a * prodl (map h vs).
Proof.
  intros Hn Hin Hne Hx. induction vs as [|v0 vs IH]; [contradiction|].
  inversion Hn as [|? ? Hv0 Hn']; subst. unfold prodl in *. cbn [map fold_right].
  destruct (Nat.eq_dec v0 x) as [->|Hd].
  - rewrite Hx. rewrite (map_ext_in h' h); [lia|]. intros v Hv. apply Hne. intros ->. contradiction.
  - destruct Hin as [E|Hin]; [congruence|]. rewrite (Hne v0 Hd), (IH Hn' Hin). lia.
Qed.

Lemma even_SS n : Nat.even (S (S n)) = Nat.even n.
Proof. reflexivity. Qed.

(* two more copies of a value x: the factor (|l| + 2) (c_x + 1) *)
Lemma teneye_formula_pair x l : Nat.even (length l) = true ->
  teneye_formula (x :: x :: l) = (length l + 2) * (cnt l x + 1) * teneye_formula l.
Proof.
  intros He. unfold teneye_formula. cbv zeta.
  set (g := fun v => cnt l v). set (g' := fun v => cnt (x :: x :: l) v).
  assert (Hg'x : g' x = S (S (g x))).
  { unfold g', g. cbn [count_occ]. destruct (Nat.eq_dec x x); [reflexivity|congruence]. }
  assert (Hg'ne : forall v, v <> x -> g' v = g v).
  { intros v Hv. unfold g', g. cbn [count_occ]. destruct (Nat.eq_dec x v); [congruence|reflexivity]. }
  change (length (x :: x :: l)) with (S (S (length l))). rewrite div2_SS.
  apply Nat.even_spec in He as [k Hk]. rewrite Hk. replace (2 * k / 2) with k by (rewrite Nat.mul_comm, Nat.div_mul; lia).
  change (fun v => Nat.even (cnt (x :: x :: l) v)) with (fun v => Nat.even (g' v)).
  change (fun v => oddfact (cnt (x :: x :: l) v)) with (fun v => oddfact (g' v)).
  change (fun v => Nat.even (cnt l v)) with (fun v => Nat.even (g v)).
  change (fun v => oddfact (cnt l v)) with (fun v => oddfact (g v)).
  fold (prodl (map (fun v => oddfact (g' v)) (nodup Nat.eq_dec (x :: x :: l)))).
  fold (prodl (map (fun v => oddfact (g v)) (nodup Nat.eq_dec l))).
  assert (Hnd : nodup Nat.eq_dec (x :: x :: l) = if in_dec Nat.eq_dec x l then nodup Nat.eq_dec l else x :: nodup Nat.eq_dec l).
  { cbn [nodup]. destruct (in_dec Nat.eq_dec x (x :: l)) as [_|H]; [reflexivity|]. exfalso. apply H. now left. }
  rewrite Hnd. clear Hnd.
  assert (Hpow : 2 ^ S k * fact (S k) = (2 * k + 2) * (2 ^ k * fact k)) by (cbn [Nat.pow fact]; nia).
  destruct (in_dec Nat.eq_dec x l) as [Hin|Hout].
  - (* x occurs in l *)
    rewrite (forallb_ext_in (fun v => Nat.even (g' v)) (fun v => Nat.even (g v))).
    2:{ intros v _. destruct (Nat.eq_dec v x) as [->|Hv]; [now rewrite Hg'x, even_SS|now rewrite Hg'ne]. }
    destruct (forallb _ _); [|lia].
    rewrite (prodl_update (fun v => oddfact (g v)) (fun v => oddfact (g' v)) x (g x + 1)).
    + change (g x) with (cnt l x). rewrite Hpow. lia.
    + apply NoDup_nodup.
    + now apply nodup_In.
    + intros v Hv. now rewrite Hg'ne.
    + rewrite Hg'x. cbn [oddfact]. lia.
  - (* x is new *)
    assert (Hg0 : g x = 0) by (unfold g; now apply count_occ_not_In).
    cbn [forallb map]. rewrite Hg'x, Hg0. cbn [Nat.even andb oddfact].
    rewrite (forallb_ext_in (fun v => Nat.even (g' v)) (fun v => Nat.even (g v))).
    2:{ intros v Hv. apply nodup_In in Hv. rewrite Hg'ne; [reflexivity|]. intros ->. contradiction. }
    destruct (forallb _ _); [|lia].
    rewrite (map_ext_in (fun v => oddfact (g' v)) (fun v => oddfact (g v))).
    2:{ intros v Hv. apply nodup_In in Hv. rewrite Hg'ne; [reflexivity|]. intros ->. contradiction. }
    unfold prodl at 1. cbn [fold_right]. fold (prodl (map (fun v => oddfact (g v)) (nodup Nat.eq_dec l))).
    rewrite Hpow. lia.
Qed.

(* the recursion of the closed form over the partner of the first element *)
Lemma teneye_formula_partner x r : Nat.even (length (x :: r)) = true ->
  length (x :: r) * list_sum (map (fun e => if x =? fst e then teneye_formula (snd e) else 0) (sel r)) = teneye_formula (x :: r).
Proof.
  intros He. set (S0 := list_sum _).
  assert (Hs : length (x :: r) * cnt r x * S0 = cnt r x * teneye_formula (x :: r)).
  { unfold S0.
    rewrite (sum_if_const (fun e => x =? fst e) (fun e => teneye_formula (snd e))
               (length (x :: r) * cnt r x) (teneye_formula (x :: r)) (sel r)); [now rewrite sel_count|].
    intros e Hin E. apply Nat.eqb_eq in E. pose proof (sel_perm r e Hin) as Hp. destruct e as [y r']. cbn [fst snd] in *. subst y.
    rewrite (teneye_formula_perm (x :: r) (x :: x :: r')) by (constructor; now symmetry).
    pose proof (Permutation_length Hp) as HL. cbn [length] in HL, He |- *.
    rewrite teneye_formula_pair.
    - rewrite (proj1 (Permutation_count_occ Nat.eq_dec _ _) (Permutation_sym Hp) x).
      cbn [count_occ]. destruct (Nat.eq_dec x x); [|congruence]. rewrite <- HL. lia.
    - rewrite <- HL in He. exact He. }
  destruct (Nat.eq_dec (cnt r x) 0) as [H0|Hpos].
  - (* x occurs once: both sides vanish *)
    rewrite (teneye_formula_odd (x :: r) x).
    2:{ cbn [count_occ]. destruct (Nat.eq_dec x x); [|congruence]. now rewrite H0. }
    assert (S0 = 0); [|lia]. unfold S0. rewrite (map_ext_in _ (fun _ => 0)); [rewrite list_sum_const; lia|].
    intros e Hin. destruct (Nat.eqb_spec x (fst e)) as [E|]; [|reflexivity]. exfalso.
    pose proof (sel_perm r e Hin) as Hp. apply (count_occ_not_In Nat.eq_dec) in H0. apply H0.
    apply (Permutation_in _ Hp). left. now symmetry.
  - apply (Nat.mul_cancel_l _ _ (cnt r x) Hpos). rewrite <- Hs. lia.
Qed.

(* ================================================================ (D) the general entry formula *)
Lemma M_formula n : forall l, length l = 2 * n -> M l = teneye_formula l.
Proof.
  induction n as [|n IH]; intros l HL.
  - destruct l; [reflexivity|discriminate].
  - assert (Hne : l <> []) by (intros ->; discriminate).
    assert (Hev : Nat.even (length l) = true) by (rewrite HL; apply Nat.even_spec; now exists (S n)).
    assert (Hpos : length l <> 0) by lia.
    apply (Nat.mul_cancel_l _ _ (length l) Hpos).
    rewrite (M_head l Hne), list_sum_scale.
    rewrite (map_ext_in _ (fun _ => teneye_formula l)); [now rewrite list_sum_const, sel_length|].
    intros e Hin. pose proof (sel_perm l e Hin) as Hp. pose proof (Permutation_length Hp) as HLe. cbn [length] in HLe.
    rewrite M1_head.
    rewrite (map_ext_in _ (fun e' => if fst e =? fst e' then teneye_formula (snd e') else 0)).
    2:{ intros e' Hin'. cbv beta. unfold idx in *. destruct (fst e =? fst e'); [|reflexivity]. apply IH.
        pose proof (Permutation_length (sel_perm _ e' Hin')) as HLe'. cbn [length] in HLe'. lia. }
    rewrite <- (teneye_formula_perm _ _ Hp).
    replace (length l) with (length (fst e :: snd e)) by (cbn [length]; lia).
    apply teneye_formula_partner. cbn [length]. rewrite HLe. exact Hev.
Qed.

(* THE GENERAL ENTRY FORMULA: for every subscript of every even order, pyttb's count of matching rearrangements is the
   closed form (teneye_entry_formula_stmt of Proofs/C20TeneyeEntry.v, now proved) *)
Theorem teneye_entry_formula : teneye_entry_formula_stmt.
Proof.
  intros i He. destruct i as [|a [|b r]]; [reflexivity|discriminate|].
  rewrite teneye_count_M by (cbn [length]; auto; lia).
  apply Nat.even_spec in He as [k Hk]. now apply (M_formula k).
Qed.

(* the structure of the enumeration behind it: as a multiset, the rearrangements of a non-empty list are those of every
   "one element taken out" with that element put first - or put last -, hence the enumeration is closed under rotation *)
Theorem perms_structure (l : list nat) :
  (l <> [] -> Permutation (perms l) (flat_map hd_block (sel l)) /\ Permutation (perms l) (flat_map last_block (sel l))) /\
  Permutation (map rot (perms l)) (perms l).
Proof. split; [intros H; split; [now apply perms_head|now apply perms_last]|apply perms_rot]. Qed.

(* order 6 by the closed form: the three multiplicity patterns (6), (4,2), (2,2,2) and an odd one *)
Example teneye_formula_order6 :
  map teneye_formula [[3; 3; 3; 3; 3; 3]; [0; 1; 0; 0; 1; 0]; [2; 0; 1; 1; 2; 0]; [2; 0; 1; 1; 2; 1]] = [720; 144; 48; 0] /\
  map teneye_count [[3; 3; 3; 3; 3; 3]; [0; 1; 0; 0; 1; 0]; [2; 0; 1; 1; 2; 0]; [2; 0; 1; 1; 2; 1]] = [720; 144; 48; 0].
Proof. split; vm_compute; reflexivity. Qed.

From Coq Require QArith Qcanon.
From PV Require Model.C20Harness.
Import Model.C20Harness.
(* the entry itself: pyttb's A[i] = teneye_count i / m! IS the closed form teneye_formula i / m! *)
Theorem teneye_entry_closed (m : nat) (i : idx) : Nat.even (length i) = true -> teneye_entry m i = teneye_entry_f m i.
Proof. intros He. unfold teneye_entry, teneye_entry_f. now rewrite (teneye_entry_formula i He). Qed.

