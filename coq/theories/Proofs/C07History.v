(* Proofs/C07History.v — histories (Model/C07Req.v run_d / run_sp): any list of admissible permute / reshape / squeeze steps run
   on a sparse holder and on the dense holder of the same data stay holders of the same data after EVERY step — the sparse
   result expands to the dense result, the shapes follow step_shape, and a history that ends in a scalar ends in the same scalar. *)
From Coq Require Import List Arith Lia Bool.
From PV Require Import Base.Index Base.Perm Np.Array Model.Sparse Model.Repr Model.C07Ops Model.C07Req
  Proofs.C07Index Proofs.C07Proofs Proofs.C07Compose.
Import ListNotations.

Section History.
Context {V : Type} (v0 : V).

(* the dense tensor of the entries of a coordinate list *)
Definition expand (S : sparse V) : dense V := tabulate (sshape S) (den_sp v0 S).

(* stored subscripts in range, every mode size positive *)
Definition ok_sp (S : sparse V) : Prop :=
  Forall (fun j => inb (sshape S) j = true) (ssubs S) /\ forallb (Nat.ltb 0) (sshape S) = true.

Lemma pos_pick p s : is_perm p (length s) -> forallb (Nat.ltb 0) s = true -> forallb (Nat.ltb 0) (pick 0 p s) = true.
Proof.
  intros Hp Hs. apply forallb_forall. intros x Hx. unfold pick in Hx. apply in_map_iff in Hx as (k & <- & Hk).
  rewrite forallb_forall in Hs. apply Hs. apply nth_In. now apply (is_perm_In p (length s) k Hp).
Qed.

Lemma pos_sqz s : forallb (Nat.ltb 0) s = true -> forallb (Nat.ltb 0) (sqz s s) = true.
Proof.
  induction s as [|d s IH]; [reflexivity|]. cbn [forallb sqz]. intros H. apply andb_true_iff in H as [Hd Hs].
  destruct (1 <? d) eqn:E; [cbn [forallb]; now rewrite Hd, IH|now apply IH].
Qed.

Lemma size_pos s : forallb (Nat.ltb 0) s = true -> 0 < size s.
Proof.
  induction s as [|d s IH]; [cbn; lia|]. cbn [forallb]. intros H. apply andb_true_iff in H as [Hd Hs].
  apply Nat.ltb_lt in Hd. rewrite size_cons. specialize (IH Hs). nia.
Qed.

(* one step: the sparse step expands to the dense step *)
Lemma step_commute (S : sparse V) st : ok_sp S -> step_okb (sshape S) st = true ->
  match step_sp v0 S st with
  | Some (SqT S') => step_d v0 (expand S) st = Some (SqT (expand S')) /\ ok_sp S' /\ sshape S' = step_shape (sshape S) st /\
                     ends_scalar (sshape S) st = false
  | Some (SqScalar v) => step_d v0 (expand S) st = Some (SqScalar v)
  | None => False
  end.
Proof.
  intros [Hsub Hpos] Hok. set (s := sshape S) in *.
  assert (WE : wf_dense (expand S)) by apply wf_tabulate.
  destruct st as [p|s'|]; cbn [step_okb step_sp step_d step_shape ends_scalar] in *.
  - (* permute *)
    apply is_permb_spec in Hok.
    assert (HL : Forall (fun j => length j = length s) (ssubs S)).
    { eapply Forall_impl; [|exact Hsub]. intros j Hj. now apply inb_length. }
    destruct (permute_sparse_correct v0 (fun _ => false) S p Hok HL) as (R & E & HsR & _ & _ & Hden & _ & _).
    rewrite E. cbn [lift_sq]. split; [|split].
    + rewrite (permute_d_perm v0 (expand S) p WE Hok). cbn [lift_sq]. do 2 f_equal.
      apply (dense_ext v0); [apply wf_tabulate|apply wf_tabulate| |].
      * unfold np_transpose, expand. now rewrite !dshape_tabulate, HsR.
      * unfold np_transpose at 1. rewrite dshape_tabulate. unfold expand at 1. rewrite dshape_tabulate. fold s.
        intros i Hi. pose proof (inb_length _ _ Hi) as HiL. rewrite pick_length in HiL.
        rewrite (is_perm_length _ _ Hok) in HiL.
        unfold np_transpose. rewrite den_tabulate by exact Hi.
        unfold expand at 2. rewrite den_tabulate by (now rewrite HsR).
        rewrite (Hden i HiL).
        rewrite (inb_pick_inv s i p Hok HiL) in Hi. unfold expand. now rewrite den_tabulate.
    + split.
      * unfold permute_sp in E. fold s in E. rewrite (proj2 (is_permb_spec p (length s)) Hok) in E. injection E as <-.
        cbn [ssubs sshape]. apply Forall_forall. intros j Hj. apply in_map_iff in Hj as (j0 & <- & Hj0).
        rewrite Forall_forall in Hsub. specialize (Hsub j0 Hj0).
        rewrite (inb_pick s j0 p Hok (inb_length _ _ Hsub)). exact Hsub.
      * rewrite HsR. now apply pos_pick.
    + split; [exact HsR|reflexivity].
  - (* reshape of all modes *)
    apply andb_true_iff in Hok as [Hsz Hpos']. apply Nat.eqb_eq in Hsz.
    destruct (reshape_sparse_all_correct v0 (fun _ => false) S s' Hsz Hsub) as (R & E & HsR & _ & _ & _ & Hden & _ & HsubR & _).
    rewrite E. cbn [lift_sq]. split; [|split].
    + unfold reshape_d. unfold expand at 1. rewrite dshape_tabulate. fold s. rewrite <- Hsz, Nat.eqb_refl. cbn [lift_sq].
      do 2 f_equal. apply (dense_ext v0); [apply wf_tabulate|apply wf_tabulate| |].
      * unfold np_reshapeF, expand. now rewrite !dshape_tabulate, HsR.
      * unfold np_reshapeF at 1. rewrite dshape_tabulate. intros i Hi.
        unfold np_reshapeF. rewrite den_tabulate by exact Hi.
        unfold expand at 2. rewrite den_tabulate by (now rewrite HsR).
        rewrite (Hden i Hi). unfold expand. fold s.
        apply nth_tabulate. rewrite <- Hsz. now apply sub2ind_lt.
    + split; [now rewrite HsR|now rewrite HsR].
    + split; [exact HsR|reflexivity].
  - (* squeeze *)
    pose proof (squeeze_sparse_correct v0 (fun _ => false) S Hsub) as HS. fold s in HS.
    unfold squeeze_sp in *. fold s in HS.
    rewrite (squeeze_d_pos_eq v0 (expand S)) by (unfold expand; rewrite dshape_tabulate; exact Hpos).
    unfold squeeze_d_pos, expand. rewrite !dshape_tabulate. fold s.
    destruct (forallb (Nat.ltb 1) s) eqn:Hall.
    + split; [reflexivity|]. split; [split; assumption|split; reflexivity].
    + destruct (sqz s s) as [|d s2] eqn:Hq.
      * do 2 f_equal.
        pose proof (size_pos s Hpos) as Hsz.
        rewrite (nth_tabulate v0 s (den_sp v0 S) 0 Hsz). f_equal.
        apply (sqz_nil_zero s); [exact Hq|now apply inb_ind2sub].
      * cbv beta iota in HS. destruct HS as (HsR & _ & _ & _ & Hden). cbn [sshape] in HsR, Hden.
        assert (Hsize : size (d :: s2) = size s) by (rewrite <- Hq; now apply sqz_size).
        split; [|split].
        -- do 2 f_equal. unfold expand, tabulate. cbn [sshape ddata]. f_equal. rewrite Hsize.
           apply map_ext_in. intros k Hk. apply in_seq in Hk.
           assert (Hin : inb s (ind2sub s k) = true) by (apply inb_ind2sub; lia).
           destruct (Hden _ Hin) as [_ Hd]. rewrite <- Hd. f_equal.
           rewrite <- Hq. now apply sqz_ind2sub.
        -- split.
           ++ cbn [ssubs sshape]. apply Forall_forall. intros j Hj. apply in_map_iff in Hj as (j0 & <- & Hj0).
              rewrite Forall_forall in Hsub. now destruct (Hden _ (Hsub j0 Hj0)) as [Hi _].
           ++ cbn [sshape]. rewrite <- Hq. now apply pos_sqz.
        -- split; reflexivity.
Qed.

(* expand is sptensor.full() (Model/Sparse.v full: scatter of the stored entries into a zero buffer) *)
Lemma expand_full (S : sparse V) : Forall (fun j => inb (sshape S) j = true) (ssubs S) -> full v0 S = expand S.
Proof.
  intros Hb. apply (dense_ext v0); [apply wf_full|apply wf_tabulate|reflexivity|].
  intros i Hi. cbn [full dshape] in Hi. rewrite (den_full v0 S i Hb). unfold expand. now rewrite den_tabulate.
Qed.

(* histories: every admissible step list *)
Theorem history_agree (l : list step) : forall S : sparse V, ok_sp S -> steps_okb (sshape S) l = true ->
  match run_sp v0 S l with
  | Some (SqT S') => run_d v0 (expand S) l = Some (SqT (expand S')) /\ ok_sp S'
  | Some (SqScalar v) => run_d v0 (expand S) l = Some (SqScalar v)
  | None => False
  end.
Proof.
  induction l as [|st l IH]; intros S HS Hok.
  - cbn. auto.
  - cbn [steps_okb] in Hok. apply andb_true_iff in Hok as [H1 H2].
    pose proof (step_commute S st HS H1) as HC. cbn [run_sp run_d].
    destruct (step_sp v0 S st) as [[S'|v]|]; [| |contradiction].
    + destruct HC as (ED & HS' & Hshape & Hends). rewrite ED. apply IH; [exact HS'|].
      rewrite Hends in H2. cbn [orb] in H2. now rewrite Hshape.
    + now rewrite HC.
Qed.

(* the same with pyttb's own expansion: full() of the sparse result is the dense result on full() of the argument *)
Theorem history_agree_full (l : list step) (S : sparse V) : ok_sp S -> steps_okb (sshape S) l = true ->
  match run_sp v0 S l with
  | Some (SqT S') => run_d v0 (full v0 S) l = Some (SqT (full v0 S')) /\ ok_sp S'
  | Some (SqScalar v) => run_d v0 (full v0 S) l = Some (SqScalar v)
  | None => False
  end.
Proof.
  intros HS Hok. pose proof (history_agree l S HS Hok) as H. rewrite (expand_full S (proj1 HS)).
  destruct (run_sp v0 S l) as [[S'|v]|]; auto. destruct H as [H1 H2]. split; [|exact H2].
  now rewrite (expand_full S' (proj1 H2)).
Qed.

End History.
