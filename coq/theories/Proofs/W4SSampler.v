(* Proofs/W4SSampler.v — bridge between the GENERATED skeleton of GCPSampler.__init__ / _prepare_function_sampler /
   _prepare_gradient_sampler (Gen/GenSampler.v, instantiated in Model/W4SHarnessSampler.v) and the hand-written decision table
   Alg/C13Config.v (fn_config_o / gr_config_o), for EVERY ceil oracle; plus statements that hold for every instantiation of the
   kernels (rejected requests, the correction range). *)
From Coq Require Import List Bool ZArith Lia.
From PV Require Import Model.W4SPrelude Model.W4SPreludeZ Gen.GenSampler Model.W4SHarnessSampler Alg.C13Config.
Import ListNotations.
Local Open Scope Z_scope.

(* ---- the two vocabularies ---- *)
Definition kind_of (s : Samplers) : skind :=
  match s with Samplers_UNIFORM => Uniform | Samplers_SEMISTRATIFIED => Semistratified | Samplers_STRATIFIED => Stratified end.
Definition dyn_of (r : sreq) : sk_dyn StratifiedCount :=
  match r with
  | RNone => SkNone | RInt n => SkInt n
  | RStrat nz z => SkObj {| StratifiedCount_num_zeros := z; StratifiedCount_num_nonzeros := nz |}
  end.
(* a configuration of the table as what the constructor stores; CError = the constructor raises.  The Poisson row stores the two
   float quotients  n * nnz / size  and  n * (size - nnz) / size  *)
Definition to_gen (c : sconf) : option gconf :=
  match c with
  | CUniform n => Some (GUniform (SkInt n))
  | CStratified nz z => Some (GStratified nz z)
  | CSemistrat nz z => Some (GSemistrat nz z)
  | CPoisson n size nnz => Some (GPoisson (n * nnz, size) (n * (size - nnz), size))
  | CError => None
  end.

Section Bridge.
Variable cd : Z -> Z -> Z.

(* _prepare_function_sampler, called the way __init__ calls it (num_zeros = size - nnz) *)
Lemma fn_bridge sparse size nnz k req :
  zs_fn cd (sparse, size, nnz) k (size - nnz) nnz tt (dyn_of req) = to_gen (fn_config_o cd sparse size nnz (Some (kind_of k)) req).
Proof. destruct k, req, sparse; reflexivity. Qed.

(* _prepare_gradient_sampler.  The uniform gradient sampler of SPARSE data divides by the number of entries: a tensor with a
   zero-length mode makes the source raise ZeroDivisionError there, a row the hand table does not have — excluded by Hsize *)
Lemma gr_bridge crng0 sparse size nnz k req max_iters :
  (sparse = true -> k = Samplers_UNIFORM -> size <> 0) ->
  zs_gr cd crng0 (sparse, size, nnz) k (size - nnz) nnz tt (dyn_of req) max_iters =
  match to_gen (gr_config_o cd sparse size nnz max_iters (Some (kind_of k)) req) with
  | None => None
  | Some g => Some (g, match g with GSemistrat nz _ => nz | _ => crng0 end)
  end.
Proof.
  intros Hsize.
  destruct k, req, sparse; cbn;
    try (unfold sk_ceildiv; destruct (max_iters =? 0); cbn);
    try reflexivity;
    try (unfold sk_fdiv; destruct (size =? 0) eqn:E; [apply Z.eqb_eq in E; exfalso; now apply Hsize | reflexivity]).
Qed.
(* the excluded row: the source raises *)
Lemma gr_zero_size crng0 nnz req max_iters :
  zs_gr cd crng0 (true, 0, nnz) Samplers_UNIFORM (0 - nnz) nnz tt req max_iters = None.
Proof.
  destruct req; cbn; try reflexivity. unfold sk_ceildiv. destruct (max_iters =? 0); reflexivity.
Qed.

(* GCPSampler.__init__ *)
Lemma init_bridge sparse size nnz fk freq gk greq max_iters :
  (sparse = true -> gk = Some Samplers_UNIFORM -> size <> 0) ->
  zs_init cd (sparse, size, nnz) fk (dyn_of freq) gk (dyn_of greq) max_iters tt =
  match to_gen (fn_config_o cd sparse size nnz (option_map kind_of fk) freq),
        to_gen (gr_config_o cd sparse size nnz max_iters (option_map kind_of gk) greq) with
  | Some f, Some g => Some (f, g, crng_len (gr_config_o cd sparse size nnz max_iters (option_map kind_of gk) greq))
  | _, _ => None
  end.
Proof.
  intros Hsize. unfold zs_init, sampler_init. cbn [zd_sparse zd_size zd_nnz fst snd].
  set (fk' := match fk with None => if sparse then Samplers_STRATIFIED else Samplers_UNIFORM | Some s => s end).
  set (gk' := match gk with None => if sparse then Samplers_STRATIFIED else Samplers_UNIFORM | Some s => s end).
  assert (Ef : fn_config_o cd sparse size nnz (option_map kind_of fk) freq = fn_config_o cd sparse size nnz (Some (kind_of fk')) freq).
  { unfold fn_config_o, fk'. destruct fk as [s|]; [reflexivity|]. destruct sparse; reflexivity. }
  assert (Eg : gr_config_o cd sparse size nnz max_iters (option_map kind_of gk) greq = gr_config_o cd sparse size nnz max_iters (Some (kind_of gk')) greq).
  { unfold gr_config_o, gk'. destruct gk as [s|]; [reflexivity|]. destruct sparse; reflexivity. }
  rewrite Ef, Eg.
  pose proof (fn_bridge sparse size nnz fk' freq) as Bf. unfold zs_fn in Bf. rewrite Bf. clear Bf.
  destruct (to_gen (fn_config_o cd sparse size nnz (Some (kind_of fk')) freq)) as [f|]; [|reflexivity].
  assert (Hs' : sparse = true -> gk' = Samplers_UNIFORM -> size <> 0).
  { intros Hs Hk. unfold gk' in Hk. destruct gk as [s|]; [subst s; now apply Hsize|]. rewrite Hs in Hk. discriminate. }
  pose proof (gr_bridge 0 sparse size nnz gk' greq max_iters Hs') as Bg. unfold zs_gr in Bg. rewrite Bg. clear Bg.
  destruct (gr_config_o cd sparse size nnz max_iters (Some (kind_of gk')) greq); reflexivity.
Qed.

(* ---- the table theorems of Alg/C13Config.v over the generated constructor ---- *)
Definition gen_feasible (size nnz : Z) (g : gconf) : Prop :=
  match g with
  | GUniform (SkInt n) => 0 <= n <= size
  | GUniform _ => False
  | GStratified nz z | GSemistrat nz z => 0 <= nz <= nnz /\ 0 <= z <= size - nnz /\ z <= nz
  | GPoisson _ _ => True
  end.

(* all defaults (no kinds, no counts): the constructor never raises on a tensor with 0 <= nnz <= size and max_iters > 0, the
   configured counts never exceed what the tensor holds, the correction range is empty — however the float ceilings are rounded *)
Lemma init_defaults_feasible sparse size nnz max_iters :
  0 <= nnz <= size -> 0 < max_iters ->
  exists f g, zs_init cd (sparse, size, nnz) None SkNone None SkNone max_iters tt = Some (f, g, 0) /\
              gen_feasible size nnz f /\ gen_feasible size nnz g.
Proof.
  intros H Hm.
  pose proof (init_bridge sparse size nnz None RNone None RNone max_iters) as B. cbn [dyn_of option_map] in B.
  rewrite B by (intros _ E; discriminate). clear B.
  pose proof (fn_default_feasible cd sparse size nnz None H) as Ff.
  pose proof (gr_default_feasible cd sparse size nnz max_iters None H Hm) as Fg.
  unfold fn_config_o, gr_config_o in *. cbn [default_kind] in *.
  replace (max_iters =? 0) with false in * by (symmetry; apply Z.eqb_neq; lia).
  destruct sparse; cbn [negb to_gen crng_len] in *.
  - eexists; eexists; split; [reflexivity|]. split; [apply Ff | apply Fg]; discriminate.
  - eexists; eexists; split; [reflexivity|]. split; [apply Ff | apply Fg]; discriminate.
Qed.

(* small tensors: the defaults take every nonzero (and as many zeros, capped) resp. every entry *)
Lemma init_defaults_small size nnz max_iters :
  0 <= nnz <= size -> 0 < max_iters ->
  (nnz <= 1000 -> zs_init cd (true, size, nnz) None SkNone None SkNone max_iters tt =
                  Some (GStratified nnz (Z.min nnz (size - nnz)), GStratified nnz (Z.min nnz (size - nnz)), 0)) /\
  (size <= 1000 -> zs_init cd (false, size, nnz) None SkNone None SkNone max_iters tt =
                   Some (GUniform (SkInt size), GUniform (SkInt size), 0)).
Proof.
  intros H Hm.
  destruct (fn_default_small cd size nnz H) as [F1 F2]. destruct (gr_default_small cd size nnz max_iters H Hm) as [G1 G2].
  split; intros Hs.
  - pose proof (init_bridge true size nnz None RNone None RNone max_iters) as B. cbn [dyn_of option_map] in B.
    rewrite B by (intros _ E; discriminate). rewrite F1 by lia. rewrite G1 by lia. reflexivity.
  - pose proof (init_bridge false size nnz None RNone None RNone max_iters) as B. cbn [dyn_of option_map] in B.
    rewrite B by (intros E; discriminate). rewrite F2 by lia. rewrite G2 by lia. reflexivity.
Qed.
End Bridge.

(* ---- statements for EVERY instantiation of the kernels ---- *)
Section Generic.
Variables T_Data T_Rate T_Idx T_Fl T_Sampler T_Crng : Type.
Variable k_is_sptensor : T_Data -> bool.
Variable k_ceil_div : Z -> Z -> Z.
Variable k_sorted_nz_idx : T_Data -> T_Idx.
Variable k_partial_stratified : Z -> Z -> T_Idx -> T_Rate -> T_Sampler.
Variable k_tensor_size : T_Data -> Z.
Variable k_partial_uniform : sk_dyn StratifiedCount -> T_Sampler.
Variable k_partial_semistrat : Z -> Z -> T_Sampler.
Variable k_arange : Z -> T_Crng.
Variable k_fdiv : Z -> Z -> T_Fl.
Variable k_poisson_sampler : T_Idx -> T_Fl -> T_Fl -> T_Rate -> T_Sampler.
Variable k_empty_crng : T_Crng.
Variable k_nnz : T_Data -> Z.

Notation g_fn := (prepare_function_sampler T_Data T_Rate T_Idx T_Sampler k_is_sptensor k_ceil_div k_sorted_nz_idx k_partial_stratified
                    k_tensor_size k_partial_uniform).
Notation g_gr := (prepare_gradient_sampler T_Data T_Rate T_Idx T_Fl T_Sampler T_Crng k_is_sptensor k_ceil_div k_sorted_nz_idx
                    k_partial_stratified k_tensor_size k_partial_uniform k_partial_semistrat k_arange k_fdiv k_poisson_sampler).
Notation g_init := (sampler_init T_Data T_Rate T_Idx T_Fl T_Sampler T_Crng k_is_sptensor k_ceil_div k_sorted_nz_idx
                    k_partial_stratified k_tensor_size k_partial_uniform k_partial_semistrat k_arange k_fdiv k_poisson_sampler
                    k_empty_crng k_nnz).

(* a count that is neither None, an int nor a StratifiedCount is rejected by both sides, whatever the sampler kind *)
Lemma other_request_rejected data k nz nnz rate crng0 max_iters :
  g_fn data k nz nnz rate SkOther = None /\ g_gr crng0 data k nz nnz rate SkOther max_iters = None.
Proof.
  split.
  - unfold prepare_function_sampler. destruct k; cbn; try reflexivity. destruct (k_is_sptensor data); reflexivity.
  - unfold prepare_gradient_sampler. destruct k; cbn; reflexivity.
Qed.

(* rejected kinds: stratified sampling of data that is not an sptensor (both sides), a semi-stratified FUNCTION sampler, a
   StratifiedCount for the uniform sampler (both sides) *)
Lemma rejected_rows data nz nnz rate crng0 max_iters req c :
  (k_is_sptensor data = false -> g_fn data Samplers_STRATIFIED nz nnz rate req = None) /\
  (k_is_sptensor data = false -> g_gr crng0 data Samplers_STRATIFIED nz nnz rate req max_iters = None) /\
  g_fn data Samplers_SEMISTRATIFIED nz nnz rate req = None /\
  g_fn data Samplers_UNIFORM nz nnz rate (SkObj c) = None /\
  g_gr crng0 data Samplers_UNIFORM nz nnz rate (SkObj c) max_iters = None.
Proof.
  repeat split; try reflexivity.
  - intros E. unfold prepare_function_sampler. cbn. rewrite E. reflexivity.
  - intros E. unfold prepare_gradient_sampler. cbn. rewrite E.
    destruct req; cbn; try reflexivity. destruct (sk_ceildiv _ _ _); reflexivity.
Qed.

(* the correction range: written only by the semi-stratified gradient sampler, and then it is arange(num_nonzeros) of the
   configured count; otherwise the empty range of __init__ survives *)
Lemma crng_rule data k nz nnz rate crng0 max_iters req g c :
  g_gr crng0 data k nz nnz rate req max_iters = Some (g, c) ->
  (k = Samplers_SEMISTRATIFIED -> exists n z, c = k_arange n /\ g = k_partial_semistrat n z) /\
  (k <> Samplers_SEMISTRATIFIED -> c = crng0).
Proof.
  unfold prepare_gradient_sampler. intros H. split.
  - intros ->. cbn in H. destruct req as [|n|o|]; cbn in H; try discriminate.
    + destruct (sk_ceildiv _ _ _); [|discriminate]. inversion H. eauto.
    + inversion H. eauto.
    + inversion H. eauto.
  - intros Hk. destruct k; [| congruence |]; cbn in H.
    + destruct req as [|n|o|]; cbn in H; try discriminate.
      * destruct (sk_ceildiv _ _ _); [|discriminate]. cbn in H.
        destruct (k_is_sptensor data); cbn in H.
        -- destruct (sk_fdiv _ _ _); [|discriminate].
           destruct (sk_fdiv _ _ _); [|discriminate]. now inversion H.
        -- now inversion H.
      * destruct (k_is_sptensor data); cbn in H.
        -- destruct (sk_fdiv _ _ _); [|discriminate].
           destruct (sk_fdiv _ _ _); [|discriminate]. now inversion H.
        -- now inversion H.
    + destruct req as [|n|o|]; cbn in H; try discriminate.
      * destruct (sk_ceildiv _ _ _); [|discriminate]. destruct (k_is_sptensor data); cbn in H; [now inversion H | discriminate].
      * destruct (k_is_sptensor data); cbn in H; [now inversion H | discriminate].
      * destruct (k_is_sptensor data); cbn in H; [now inversion H | discriminate].
Qed.

(* __init__ hands num_zeros = tensor_size - nnz to both sides and starts from the empty correction range *)
Lemma init_unfold data fk freq gk greq max_iters rate :
  let dk := fun k : option Samplers => match k with None => if k_is_sptensor data then Samplers_STRATIFIED else Samplers_UNIFORM | Some s => s end in
  g_init data fk freq gk greq max_iters rate =
  match g_fn data (dk fk) (k_tensor_size data - k_nnz data) (k_nnz data) rate freq with
  | None => None
  | Some f => match g_gr k_empty_crng data (dk gk) (k_tensor_size data - k_nnz data) (k_nnz data) rate greq max_iters with
              | None => None
              | Some (g, c) => Some (f, g, c)
              end
  end.
Proof. reflexivity. Qed.
End Generic.
