(* Proofs/C01GenKr.v — fourth wave: ktensor.full tied to the translator.
   ktensor.full (pyttb/ktensor.py) calls `ttb.khatrirao( *factor_matrices[:i], reverse=True)` and
   `ttb.khatrirao( *factor_matrices[i:], reverse=True)`. Gen/GenKernels.v holds the function GENERATED from the current
   pyttb/khatrirao.py on every run (over numpy integer matrices). Here:
     * khatrirao_generated_c01   — on non-empty integer matrices with R >= 1 columns the generated khatrirao(reverse=True)
                                   returns exactly what the hand model `khatrirao_rev` of Model/C01Conv.v (the one all
                                   Kruskal theorems of C01 are about) returns;
     * khatrirao_generated_rank0 — on matrices WITHOUT columns the generated function raises (numpy cannot infer the -1
                                   of the reshape): the reason for N-C01-1 and for the `ncomponents == 0` branch of /repo d9f07bf;
     * ktensor_full_gen          — ktensor.full with the generated khatrirao in place of the hand model;
       ktensor_full_gen_correct  — it returns the specified dense tensor for every N >= 1, every rank (0 included), every
                                   integer Kruskal tensor whose modes have size >= 1;
       ktensor_full_gen_norank0  — without the rank-0 branch the same route answers None for R = 0, N >= 2.
   Route: generated khatrirao --(Proofs/GenKhatriRao.v khatrirao_bridge)--> fold model of Proofs/KhatriRao.v --(here)--> kr2 fold
   of Model/C01Conv.v. An edit of pyttb/khatrirao.py in /repo changes Gen/GenKernels.v and breaks gen_kr_shape / this file. *)
From Coq Require Import List ZArith Arith Bool Lia Ring.
From PV Require Import Base.Index Base.Perm Base.Sum Np.Array Model.Sparse Model.Repr Model.C07Ops Model.C01Conv Model.C01W3
  Np.NpZ Np.NpZ2 Gen.GenKernels Proofs.KhatriRao Proofs.GenKhatriRao Proofs.C01Kruskal Proofs.C01W3.
Import ListNotations.
Local Open Scope nat_scope.

(* ------------------------------------------------------------------ the two hand models coincide *)
Section Fold.
Variable V : Type.
Variable vmul : V -> V -> V.
Notation mat := (list (list V)).

Lemma map2_vmul2 (a b : list V) : KhatriRao.map2 V vmul a b = vmul2 vmul a b.
Proof. revert b. induction a as [|x a IH]; intros [|y b]; cbn; auto. unfold vmul2 in IH. now rewrite IH. Qed.

Lemma kr_step_kr2 (P M : mat) : kr_step V vmul P M = kr2 vmul P M.
Proof. unfold kr_step, kr2. apply flat_map_ext. intros pr. apply map_ext. intros mr. apply map2_vmul2. Qed.

Lemma fold_kr_step_kr2 (rest : list mat) : forall A, fold_left (kr_step V vmul) rest A = fold_left (kr2 vmul) rest A.
Proof. induction rest as [|M rest IH]; intros A; cbn [fold_left]; [reflexivity|]. now rewrite kr_step_kr2, IH. Qed.

Lemma ncols_ok_rows R (As : list mat) : As <> [] -> Forall (fun B => B <> [] /\ Forall (fun row => length row = R) B) As ->
  ncols_ok V As = true.
Proof.
  intros Hne HW. destruct As as [|A As']; [congruence|]. unfold ncols_ok.
  assert (HR : ncols A = R).
  { inversion HW as [|? ? [HA HAc] _]; subst. destruct A as [|row A]; [congruence|]. cbn. now inversion HAc. }
  rewrite HR. apply forallb_forall. intros B HB. rewrite Forall_forall in HW. destruct (HW B HB) as [_ HBc].
  apply forallb_forall. intros row Hrow. apply Nat.eqb_eq. rewrite Forall_forall in HBc. auto.
Qed.

(* the model of Proofs/KhatriRao.v is khatrirao of Model/C01Conv.v on admissible lists *)
Lemma hand_kr_fwd R (l : list mat) : l <> [] -> Forall (fun B => B <> [] /\ Forall (fun row => length row = R) B) l ->
  KhatriRao.khatrirao V vmul false l = C01Conv.khatrirao vmul l /\ C01Conv.khatrirao vmul l <> None.
Proof.
  intros Hne HW. unfold KhatriRao.khatrirao, C01Conv.khatrirao. rewrite (ncols_ok_rows R l Hne HW).
  destruct l as [|A rest]; [congruence|]. rewrite fold_kr_step_kr2. split; [reflexivity|discriminate].
Qed.

Lemma hand_kr_c01 R (Ms : list mat) : Ms <> [] -> Forall (fun B => B <> [] /\ Forall (fun row => length row = R) B) Ms ->
  KhatriRao.khatrirao V vmul true Ms = khatrirao_rev vmul Ms /\ khatrirao_rev vmul Ms <> None.
Proof.
  intros Hne HW.
  assert (Hne' : rev Ms <> []).
  { intros E. apply (f_equal (@rev _)) in E. rewrite rev_involutive in E. cbn in E. congruence. }
  assert (HW' : Forall (fun B => B <> [] /\ Forall (fun row => length row = R) B) (rev Ms)).
  { apply Forall_forall. intros B HB. apply in_rev in HB. rewrite Forall_forall in HW. auto. }
  exact (hand_kr_fwd R (rev Ms) Hne' HW').
Qed.
End Fold.

(* ------------------------------------------------------------------ the generated khatrirao *)
Definition mats_ok (R : nat) (Ms : list (list (list Z))) : Prop :=
  Forall (fun B => B <> [] /\ Forall (fun row => length row = R) B) Ms.

Lemma first_ncols R (Ms : list (list (list Z))) A rest : mats_ok R Ms -> rev Ms = A :: rest -> np_ncols A = Z.of_nat R.
Proof.
  intros HW E. assert (HA : In A Ms) by (apply in_rev; rewrite E; now left).
  unfold mats_ok in HW. rewrite Forall_forall in HW. destruct (HW A HA) as [HAne HAc].
  rewrite np_ncols_nat. f_equal. destruct A as [|row A']; [congruence|]. cbn. now inversion HAc.
Qed.

Theorem khatrirao_generated_c01 (R : nat) (Ms : list (list (list Z))) : Ms <> [] -> 1 <= R -> mats_ok R Ms ->
  exists P, khatrirao_rev Z.mul Ms = Some P /\ GenKernels.khatrirao Ms true = Ok P.
Proof.
  intros Hne HR HW.
  destruct (hand_kr_c01 Z Z.mul R Ms Hne HW) as [Eh Hsome].
  destruct (khatrirao_rev Z.mul Ms) as [P|] eqn:EP; [|congruence]. exists P. split; [reflexivity|].
  rewrite khatrirao_bridge by (intros B HB; unfold mats_ok in HW; rewrite Forall_forall in HW; now destruct (HW B HB)).
  rewrite Eh.
  assert (H : forall l : list (list (list Z)), l = rev Ms ->
            match l with [] => Err | A0 :: _ => if (np_ncols A0 =? 0)%Z then Err else Ok P end = Ok P).
  { intros [|A rest] ER.
    - symmetry in ER. apply (f_equal (@rev _)) in ER. rewrite rev_involutive in ER. cbn in ER. congruence.
    - rewrite (first_ncols R Ms A rest HW (eq_sym ER)). destruct (Z.eqb_spec (Z.of_nat R) 0%Z); [lia|reflexivity]. }
  exact (H _ eq_refl).
Qed.

(* matrices without columns: the generated function raises *)
Theorem khatrirao_generated_rank0 (Ms : list (list (list Z))) : mats_ok 0 Ms -> GenKernels.khatrirao Ms true = Err.
Proof.
  intros HW.
  rewrite khatrirao_bridge by (intros B HB; unfold mats_ok in HW; rewrite Forall_forall in HW; now destruct (HW B HB)).
  assert (H : forall (X : Type) (y : res X) (l : list (list (list Z))), l = rev Ms ->
            match l with [] => Err | A0 :: _ => if (np_ncols A0 =? 0)%Z then Err else y end = Err).
  { intros X y [|A rest] ER; [reflexivity|]. now rewrite (first_ncols 0 Ms A rest HW (eq_sym ER)). }
  exact (H _ _ _ eq_refl).
Qed.

(* ------------------------------------------------------------------ ktensor.full over the generated khatrirao *)
Definition res_opt {A} (r : res A) : option A := match r with Ok a => Some a | Err => None end.

(* the split route with the generated function *)
Definition ktensor_full_at_gen (K : ktensor Z) (isplit : nat) : option (dense Z) :=
  match res_opt (GenKernels.khatrirao (firstn isplit (kfactors K)) true),
        res_opt (GenKernels.khatrirao (skipn isplit (kfactors K)) true) with
  | Some L, Some Rm =>
      let M := matmul_t 0%Z Z.add Z.mul (scale_cols Z.mul L (kweights K)) Rm in
      Some (np_reshapeF 0%Z (matrix_to_dense 0%Z M (length L) (length Rm)) (kshape K))
  | _, _ => None
  end.
Definition ktensor_full_gen_norank0 (K : ktensor Z) : option (dense Z) :=
  match kfactors K with
  | [A] => Some (ktensor_full_1way 0%Z Z.add Z.mul K A)
  | _ => match min_split_dims (kshape K) with
         | Some i => ktensor_full_at_gen K i
         | None => None
         end
  end.
Definition ktensor_full_gen (K : ktensor Z) : option (dense Z) :=
  if krank K =? 0 then Some (dense_zeros 0%Z (kshape K)) else ktensor_full_gen_norank0 K.

Lemma mats_ok_of_rows (K : ktensor Z) : rows_ok Z (krank K) (kfactors K) -> Forall (fun A => A <> []) (kfactors K) ->
  mats_ok (krank K) (kfactors K).
Proof.
  unfold rows_ok, mats_ok. intros H1 H2. rewrite Forall_forall in *. intros B HB. split; [now apply H2|]. now apply H1.
Qed.

Lemma mats_ok_firstn R Ms k : mats_ok R Ms -> mats_ok R (firstn k Ms).
Proof. unfold mats_ok. intros H. rewrite <- (firstn_skipn k Ms) in H. now apply Forall_app in H. Qed.
Lemma mats_ok_skipn R Ms k : mats_ok R Ms -> mats_ok R (skipn k Ms).
Proof. unfold mats_ok. intros H. rewrite <- (firstn_skipn k Ms) in H. now apply Forall_app in H. Qed.

Lemma firstn_nonempty {A} (l : list A) k : 0 < k -> l <> [] -> firstn k l <> [].
Proof. destruct k; [lia|]. destruct l; [congruence|]. discriminate. Qed.
Lemma skipn_nonempty {A} (l : list A) k : k < length l -> skipn k l <> [].
Proof. intros H E. pose proof (skipn_length k l) as HL. rewrite E in HL. cbn in HL. lia. Qed.

(* with R >= 1 the generated route is the hand route at every admissible split point *)
Lemma ktensor_full_at_gen_eq (K : ktensor Z) isplit : 1 <= krank K -> mats_ok (krank K) (kfactors K) ->
  0 < isplit < length (kfactors K) ->
  ktensor_full_at_gen K isplit = ktensor_full_at 0%Z Z.add Z.mul K isplit.
Proof.
  intros HR HW Hsp. unfold ktensor_full_at_gen, ktensor_full_at.
  assert (N0 : kfactors K <> []) by (intros E; rewrite E in Hsp; cbn in Hsp; lia).
  destruct (khatrirao_generated_c01 (krank K) (firstn isplit (kfactors K))) as (L & EL & GL);
    [apply firstn_nonempty; [exact (proj1 Hsp)|exact N0]|exact HR|now apply mats_ok_firstn|].
  destruct (khatrirao_generated_c01 (krank K) (skipn isplit (kfactors K))) as (Rm & ER & GR);
    [apply skipn_nonempty; exact (proj2 Hsp)|exact HR|now apply mats_ok_skipn|].
  rewrite GL, GR, EL, ER. reflexivity.
Qed.

Theorem ktensor_full_gen_correct (K : ktensor Z) :
  rows_ok Z (krank K) (kfactors K) -> Forall (fun A => A <> []) (kfactors K) -> 1 <= length (kfactors K) ->
  ktensor_full_gen K = ktensor_full_code 0%Z Z.add Z.mul K /\
  ktensor_full_gen K = Some (ktensor_full_spec 0%Z 1%Z Z.add Z.mul K).
Proof.
  intros Hok Hne HN.
  assert (E : ktensor_full_gen K = ktensor_full_code 0%Z Z.add Z.mul K).
  { unfold ktensor_full_gen, ktensor_full_code. destruct (Nat.eqb_spec (krank K) 0) as [HR|HR]; [reflexivity|].
    unfold ktensor_full_gen_norank0, ktensor_full_impl.
    destruct (kfactors K) as [|A [|B rest]] eqn:EA; [cbn in HN; lia|reflexivity|].
    destruct (min_split_dims (kshape K)) as [i|] eqn:Ei; [|reflexivity].
    apply min_split_dims_range in Ei.
    assert (HL : length (kshape K) = length (kfactors K)) by (unfold kshape; apply map_length).
    rewrite HL in Ei. rewrite <- EA in Hok, Hne.
    apply ktensor_full_at_gen_eq; [lia|now apply mats_ok_of_rows|exact Ei]. }
  split; [exact E|]. rewrite E.
  destruct (ktensor_full_code_correct Z 0%Z 1%Z Z.add Z.mul Z.sub Z.opp Zth K Hok HN) as (D & ED & _ & _ & _ & HD).
  now rewrite ED, HD.
Qed.

(* without the rank-0 branch (the code before /repo d9f07bf) a Kruskal tensor without components and N >= 2 modes gets no
   answer: both Khatri-Rao products raise *)
Theorem ktensor_full_gen_norank0_fails (K : ktensor Z) :
  krank K = 0 -> rows_ok Z 0 (kfactors K) -> Forall (fun A => A <> []) (kfactors K) -> 2 <= length (kfactors K) ->
  ktensor_full_gen_norank0 K = None.
Proof.
  intros HR Hok Hne HN. unfold ktensor_full_gen_norank0.
  destruct (kfactors K) as [|A [|B rest]] eqn:EA; [cbn in HN; lia|cbn in HN; lia|].
  destruct (min_split_dims (kshape K)) as [i|]; [|reflexivity].
  unfold ktensor_full_at_gen. rewrite EA.
  rewrite (khatrirao_generated_rank0 (firstn i (A :: B :: rest))); [reflexivity|].
  apply mats_ok_firstn. unfold rows_ok, mats_ok in *. rewrite Forall_forall in *. intros M HM. split; auto.
Qed.

Example ktensor_full_gen_example :
  let K := mkK [2; 3]%Z [[[1; 2]; [3; 4]]; [[5; 6]; [7; 8]; [9; 1]]; [[1; 0]; [2; 1]; [0; 3]; [1; 1]]]%Z in
  ktensor_full_gen K = Some (ktensor_full_spec 0%Z 1%Z Z.add Z.mul K) /\
  GenKernels.khatrirao [[[1; 2]; [3; 4]]; [[5; 6]; [7; 8]; [9; 1]]]%Z true = Ok [[5; 12]; [15; 24]; [7; 16]; [21; 32]; [9; 2]; [27; 4]]%Z /\
  ktensor_full_gen (mkK [] [[[]; []; []]; [[]; []]]) = Some (mkDense [3; 2] [0; 0; 0; 0; 0; 0]%Z) /\
  ktensor_full_gen_norank0 (mkK [] [[[]; []; []]; [[]; []]]) = None.
Proof. timeout 60 (vm_compute; repeat split; reflexivity). Qed.
