(* Props/C02w5c.v — property C02, wave 5 / 6: ttensor.reconstruct with index-list samples AS CALLED (request test and row selection included), and the
   data-dependent container switch of sptensor.ttv / sptensor.contract ("sparse result kept sparse vs. densified at 50% fill") as a function of
   the denoted array alone.  Only statements, `exact`, Print Assumptions (and closed Examples).
   Proofs: Proofs/C02ReconstructProofs.v, Proofs/C02SwitchProofs.v. *)
From Coq Require Import List Arith Bool ZArith Ring.
From PV Require Import Base.Index Base.Perm Base.Sum Np.Array Model.Sparse Model.Repr Model.C02Spec Model.C02Dense Model.C02SpMore Model.C02Tucker
                       Model.C02TuckerFull Model.C02Reconstruct Model.C02Switch Proofs.C02ReconstructProofs Proofs.C02SwitchProofs.
Import ListNotations.

Section C02w5c.
Variable V : Type.
Variables (v0 v1 : V) (vadd vmul vsub : V -> V -> V) (vopp : V -> V).
Hypothesis Vring : ring_theory v0 v1 vadd vmul vsub vopp (@eq V).
Variable isz : V -> bool.

(* ttensor.reconstruct(samples, modes), index-list samples, AS CALLED (request test of 9d2314a included: Model/C02Reconstruct.v impl_reconstruct_req).
   An answered request pairs samples and modes one to one, with DISTINCT modes of [0, ndims); then full_samples is the table mode_j -> sample_j (empty
   at every mode not named; an empty sample keeps the whole factor), rows of the factors are selected (any order, repetitions allowed) and
   ttensor(core, new_u).full() is returned: entry i of the result is the entry of the denoted array at the subscript whose k-th component is
   sample_k[i_k]. *)
Theorem C02_reconstruct_tucker : forall (T : ttensor V) (modes : list Z) (samples : list (list nat)) (Y : dense V),
  wf_dense (tcore T) -> length (dshape (tcore T)) = length (tfactors T) ->
  impl_reconstruct_req v0 vadd vmul T modes samples = Some Y ->
  let N := length (tfactors T) in
  let fs := full_samples N (map Z.to_nat modes) samples in
  rows_ok (tfactors T) fs ->
  (length samples = length modes /\ NoDup modes /\ forall m, In m modes -> (0 <= m < Z.of_nat N)%Z) /\
  (forall j, j < length modes -> nth (Z.to_nat (nth j modes 0%Z)) fs [] = nth j samples []) /\
  (forall k, ~ In (Z.of_nat k) modes -> nth k fs [] = []) /\
  dshape Y = map (@nrows V) (new_factors (tfactors T) fs) /\ wf_dense Y /\
  forall i, inb (dshape Y) i = true -> den_dense v0 Y i = den_t v0 v1 vadd vmul T (sample_idx fs i).
Proof. exact (impl_reconstruct_req_correct V v0 v1 vadd vmul vsub vopp Vring). Qed.

(* every request inside the domain is answered ... *)
Theorem C02_reconstruct_accepts : forall (T : ttensor V) (modes : list Z) (samples : list (list nat)),
  length samples = length modes -> NoDup modes -> (forall m, In m modes -> (0 <= m < Z.of_nat (length (tfactors T)))%Z) ->
  impl_reconstruct_req v0 vadd vmul T modes samples = Some (impl_reconstruct v0 vadd vmul T (map Z.to_nat modes) samples).
Proof. exact (impl_reconstruct_req_accepts V v0 vadd vmul). Qed.

(* ... and a negative, an out-of-range or a REPEATED mode (or unequally long lists) is rejected: no "later sample wins", no wrap-around *)
Theorem C02_reconstruct_rejects : forall (T : ttensor V) (modes : list Z) (samples : list (list nat)),
  (length samples <> length modes \/ ~ NoDup modes \/ exists m, In m modes /\ ~ (0 <= m < Z.of_nat (length (tfactors T)))%Z) ->
  impl_reconstruct_req v0 vadd vmul T modes samples = None.
Proof. exact (impl_reconstruct_req_rejects V v0 vadd vmul). Qed.

(* the 50% switch: sptensor.ttv / sptensor.contract return a dense tensor exactly when more than half of the entries of the DEFINING SUM are
   nonzero — a function of the array the operand denotes, not of its stored order or stored count *)
Theorem C02_switch_ttv_sparse : forall (S : sparse V) dims vs, wf_sp isz S ->
  NoDup dims -> (forall x, In x dims -> x < length (sshape S)) -> length vs = length dims ->
  densify isz (ttv_shape (sshape S) dims) (impl_ttv_sp v0 v1 vadd vmul S dims vs) =
  densify isz (ttv_shape (sshape S) dims) (spec_ttv v0 vadd vmul (den_sp v0 S) (sshape S) dims vs).
Proof. exact (switch_ttv_sparse V v0 v1 vadd vmul vsub vopp Vring isz). Qed.

Theorem C02_switch_contract_sparse : forall (S : sparse V) i1 i2, wf_sp isz S ->
  i1 <> i2 -> i1 < length (sshape S) -> i2 < length (sshape S) -> nth i1 (sshape S) 0 = nth i2 (sshape S) 0 ->
  densify isz (ttv_shape (sshape S) [i1; i2]) (impl_contract_sp v0 vadd S i1 i2) =
  densify isz (ttv_shape (sshape S) [i1; i2]) (spec_contract v0 vadd (den_sp v0 S) (sshape S) i1 i2).
Proof. exact (switch_contract_sparse V v0 v1 vadd vmul vsub vopp Vring isz). Qed.

Theorem C02_switch_repr_indep : forall (S S' : sparse V) dims vs, wf_sp isz S -> wf_sp isz S' -> sshape S = sshape S' ->
  (forall i, den_sp v0 S i = den_sp v0 S' i) ->
  NoDup dims -> (forall x, In x dims -> x < length (sshape S)) -> length vs = length dims ->
  densify isz (ttv_shape (sshape S) dims) (impl_ttv_sp v0 v1 vadd vmul S dims vs) =
  densify isz (ttv_shape (sshape S') dims) (impl_ttv_sp v0 v1 vadd vmul S' dims vs).
Proof. exact (switch_repr_indep V v0 v1 vadd vmul vsub vopp Vring isz). Qed.
End C02w5c.
Print Assumptions C02_reconstruct_tucker.
Print Assumptions C02_reconstruct_accepts.
Print Assumptions C02_reconstruct_rejects.
Print Assumptions C02_switch_ttv_sparse.
Print Assumptions C02_switch_contract_sparse.
Print Assumptions C02_switch_repr_indep.

Local Open Scope Z_scope.
(* core [[2 -1]] (1 x 2), factors [[1]; [2]] (2 x 1), [[1 0]; [0 1]; [1 1]] (3 x 2): full = [[2 -1 1]; [4 -2 2]].
   modes [1; 0], samples [[2; 2; 1]; []]: rows 2, 2, 1 of mode 1, mode 0 (empty sample) kept whole: [[1 1 -1]; [2 2 -2]];
   modes [1; 0; 1] (mode 1 named twice), [-1] (negative), [2] (out of range): rejected *)
Example C02_ex_reconstruct :
  let T := mkT (mkDense [1; 2]%nat [2; -1]) [[[1]; [2]]; [[1; 0]; [0; 1]; [1; 1]]] in
  impl_reconstruct_req 0 Z.add Z.mul T [1; 0] [[2; 2; 1]; []]%nat = Some (mkDense [2; 3]%nat [1; 2; 1; 2; -1; -2]) /\
  impl_reconstruct_req 0 Z.add Z.mul T [1; 0; 1] [[0]; []; [2; 2; 1]]%nat = None /\
  impl_reconstruct_req 0 Z.add Z.mul T [-1] [[0]]%nat = None /\
  impl_reconstruct_req 0 Z.add Z.mul T [2] [[0]]%nat = None.
Proof. cbv zeta. repeat split; reflexivity. Qed.
(* S (2 x 3 x 2) stores (1,2,1) -> 5, (0,1,0) -> 7, (1,0,0) -> 2; ttv in mode 0 with [1; 1] leaves 3 nonzeros of 6 entries: kept sparse;
   ttv in modes 0, 2 with [1; 1], [1; 1] leaves [2; 7; 5]: 3 of 3 nonzero: densified *)
Example C02_ex_switch :
  densify (fun v => v =? 0) [3; 2]%nat (impl_ttv_sp 0 1 Z.add Z.mul (mkSp [2; 3; 2]%nat [[1; 2; 1]; [0; 1; 0]; [1; 0; 0]]%nat [5; 7; 2]) [0%nat] [[1; 1]]) = false /\
  densify (fun v => v =? 0) [3%nat] (impl_ttv_sp 0 1 Z.add Z.mul (mkSp [2; 3; 2]%nat [[1; 2; 1]; [0; 1; 0]; [1; 0; 0]]%nat [5; 7; 2]) [0; 2]%nat [[1; 1]; [1; 1]]) = true.
Proof. split; reflexivity. Qed.
