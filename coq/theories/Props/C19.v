(* Props/C19.v — ill-formed requests are rejected, not answered.
   For each operation: guard_<op> (the checks the code performs, Model/C19Guards.v) = decide (pre_<op>), i.e.
   pre = false -> Err and pre = true -> Ok tt; where the code is weaker: the full statement is refuted by a
   witness and the partial statement is proved.  Only statements, `exact`, Print Assumptions. *)
From Coq Require Import List ZArith Bool.
From PV Require Import Np.NpZ Gen.GenUtils Model.C19Guards Proofs.C19Proofs.
Import ListNotations.
Local Open Scope Z_scope.

(* generic: what "guard = decide pre" means, and that a rejected mutating request leaves the receiver unchanged *)
Theorem C19_decide_rejects : forall (g : res unit) p, g = decide p -> p = false -> g = Err.
Proof. exact decide_rejects. Qed.
Print Assumptions C19_decide_rejects.
Theorem C19_decide_accepts : forall (g : res unit) p, g = decide p -> p = true -> g = Ok tt.
Proof. exact decide_accepts. Qed.
Print Assumptions C19_decide_accepts.
Theorem C19_receiver_unchanged : forall S (g : res unit) (upd : S -> S) (s : S), g = Err -> run_mut g upd s = (s, false).
Proof. exact @run_mut_rejected. Qed.
Print Assumptions C19_receiver_unchanged.

(* ---- tensor ---- *)
Theorem C19_tensor_ctor : forall dshape shape, guard_tensor_ctor dshape shape = decide (pre_tensor_ctor dshape shape).
Proof. exact tensor_ctor_decides. Qed.
Print Assumptions C19_tensor_ctor.
Example C19_tensor_ctor_ex : guard_tensor_ctor [2; 3] (Some [3; 3]) = Err /\ guard_tensor_ctor [2; 3] (Some [3; 2]) = Ok tt.
Proof. split; reflexivity. Qed.

Theorem C19_tensor_reshape : forall s new, guard_tensor_reshape s new = decide (pre_tensor_reshape s new).
Proof. exact tensor_reshape_decides. Qed.
Print Assumptions C19_tensor_reshape.

Theorem C19_tensor_innerprod : forall s u, guard_tensor_innerprod s u = decide (pre_tensor_innerprod s u).
Proof. exact tensor_innerprod_decides. Qed.
Print Assumptions C19_tensor_innerprod.

Theorem C19_tensor_permute_refuted : ~ tensor_permute_stmt.
Proof. exact tensor_permute_refuted. Qed.
Print Assumptions C19_tensor_permute_refuted.
Theorem C19_tensor_permute_partial : forall s order,
  all_ones order = false -> (forall x, In x order -> 0 <= x) ->
  guard_tensor_permute s order = decide (pre_tensor_permute s order).
Proof. exact tensor_permute_partial. Qed.
Print Assumptions C19_tensor_permute_partial.
Example C19_tensor_permute_ex : guard_tensor_permute [2; 3; 4] [2; 0; 1] = Ok tt /\ guard_tensor_permute [2; 3; 4] [2; 0; 0] = Err.
Proof. split; reflexivity. Qed.

Theorem C19_tensor_binop_refuted : ~ tensor_binop_stmt.
Proof. exact tensor_binop_refuted. Qed.
Print Assumptions C19_tensor_binop_refuted.
Theorem C19_tensor_binop_accepts : forall s u, pre_tensor_binop s u = true -> guard_tensor_binop s u = Ok tt.
Proof. exact tensor_binop_accepts. Qed.
Print Assumptions C19_tensor_binop_accepts.
Theorem C19_tensor_binop_rejects_partial : forall s u,
  length s = length u -> forallb (fun x => negb (x =? 1)) s = true -> forallb (fun x => negb (x =? 1)) u = true ->
  pre_tensor_binop s u = false -> guard_tensor_binop s u = Err.
Proof. exact tensor_binop_rejects_partial. Qed.
Print Assumptions C19_tensor_binop_rejects_partial.

Theorem C19_tensor_contract_refuted : ~ tensor_contract_stmt.
Proof. exact tensor_contract_refuted. Qed.
Print Assumptions C19_tensor_contract_refuted.
Theorem C19_tensor_contract_rejects_partial : forall s i1 i2, 0 <= i1 -> 0 <= i2 ->
  pre_tensor_contract s i1 i2 = false -> guard_tensor_contract s i1 i2 = Err.
Proof. exact tensor_contract_rejects_partial. Qed.
Print Assumptions C19_tensor_contract_rejects_partial.
