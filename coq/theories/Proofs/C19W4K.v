(* Proofs/C19W4K.v — wave 4: the argument checks of ktensor.permute / ktensor.arrange(permutation=p) / ktensor.extract(idx) stated
   over the WHOLE METHODS that the translator generates from pyttb/ktensor.py (Gen/GenKtensor4.v, w4-translator; bridges to closed
   forms in Proofs/W4Ktensor.v): on a well-formed Kruskal tensor the generated method raises exactly when the guard model of
   Model/C19Guards.v rejects, i.e. exactly when the precondition fails.  An edit of one of these methods in /repo changes the
   generated text and breaks these proofs (or the bridge they use). *)
From Coq Require Import List ZArith Bool Lia Permutation.
From PV Require Import Np.NpZ Np.NpZ2 Np.NpZ3 Np.NpZ3c Np.NpZ3d Np.NpZ3e Np.NpZ4 Gen.GenKtensor4 Model.W4Ktensor Proofs.NpZProofs
  Proofs.W4Loops Proofs.W4Ktensor Model.C19Guards Proofs.C19Proofs Proofs.C19Ttv Proofs.C19More Proofs.C19W3 Proofs.C19W4.
Import ListNotations.
Local Open Scope Z_scope.

(* a Kruskal tensor as pyttb holds it, in the row-list model: at least one factor, every factor has at least one row, every row has
   one entry per weight *)
Definition kt_rows_ok (k : ktz) : Prop := forall F, In F (kt_factors k) -> forall row, In row F -> zlen row = zlen (kt_weights k).
Definition kt_wf (k : ktz) : Prop := kt_factors k <> [] /\ (forall F, In F (kt_factors k) -> F <> []) /\ kt_rows_ok k.

Lemma ncols_wf k F : kt_wf k -> In F (kt_factors k) -> np_ncols F = zlen (kt_weights k).
Proof.
  intros (_ & Hne & Hr) HF. specialize (Hne F HF). destruct F as [|r F']; [congruence|]. cbn [np_ncols]. apply (Hr _ HF). now left.
Qed.

Lemma shape_zlist a b : shape_eqb a b = zlist_eqb b a.
Proof.
  destruct (shape_eqb a b) eqn:E.
  - apply shape_eqb_eq in E. subst. symmetry. now apply zlist_eqb_eq.
  - destruct (zlist_eqb b a) eqn:F; [|reflexivity]. apply zlist_eqb_eq in F. subst. now rewrite shape_eqb_refl in E.
Qed.

Lemma zlist_eqb_sym a b : zlist_eqb a b = zlist_eqb b a.
Proof.
  destruct (zlist_eqb a b) eqn:E.
  - apply zlist_eqb_eq in E. subst. symmetry. now apply zlist_eqb_eq.
  - destruct (zlist_eqb b a) eqn:F; [|reflexivity]. apply zlist_eqb_eq in F. subst.
    assert (zlist_eqb a a = true) by now apply zlist_eqb_eq. congruence.
Qed.

Lemma sorted_range_len (l : vec) n : 0 <= n -> np_sort l = np_arange 0 n -> zlen l = n.
Proof.
  intros Hn E. pose proof (Permutation_length (np_sort_perm l)) as L. rewrite E, np_arange_len in L by assumption. unfold zlen. lia.
Qed.

Lemma take_ok_range {A} (a : list A) (p : vec) : (forall x, In x p -> 0 <= x < zlen a) -> np_take_ok a p = true.
Proof. intros H. unfold np_take_ok. apply forallb_forall. intros x Hx. apply w4_idx_ok_range. auto. Qed.

Lemma gather_ok_range k p : kt_rows_ok k -> (forall x, In x p -> 0 <= x < zlen (kt_weights k)) -> H_gather_ok k p = true.
Proof.
  intros Hr Hp. unfold H_gather_ok. apply andb_true_intro. split; [now apply take_ok_range|].
  apply forallb_forall. intros F HF. unfold np_cols_ok. apply forallb_forall. intros row Hrow.
  apply take_ok_range. intros x Hx. rewrite (Hr F HF row Hrow). auto.
Qed.

(* ---- ktensor.permute(order) ---- *)
Theorem permute_gen_guard (k : ktz) (order : vec) : kt_wf k ->
  okres (ktensor_permute k order) = guard_sorted_perm (kt_shape k) order /\
  okres (ktensor_permute k order) = decide (pre_perm (kt_shape k) order).
Proof.
  intros Hwf. rewrite <- sorted_perm_decides. split; [|].
  all: rewrite permute_bridge; unfold H_permute, guard_sorted_perm, ndim, kt_shape; unfold zlen at 2; rewrite map_length;
    fold (zlen (kt_factors k)); rewrite shape_zlist;
    destruct (zlist_eqb (np_arange 0 (zlen (kt_factors k))) (np_sort order)) eqn:E; [|reflexivity];
    apply zlist_eqb_eq in E; symmetry in E;
    assert (HN : 0 <= zlen (kt_factors k)) by (unfold zlen; lia);
    pose proof (sorted_is_range_in order _ E) as Hin; pose proof (sorted_range_len order _ HN E) as Hlen;
    destruct Hwf as (Hne & Hne2 & Hr);
    (assert (Ho : order <> []) by (intros ->; destruct (kt_factors k); [congruence|unfold zlen in Hlen; cbn in Hlen; lia]));
    destruct order as [|x o]; [congruence|]; cbn [np_take map kt_make_ok];
    (assert (Hall : forall y, In y (x :: o) -> np_ncols (znth [] (kt_factors k) y) = zlen (kt_weights k))
      by (intros y Hy; apply ncols_wf; [repeat split; assumption|apply znth_In; auto]));
    (replace (forallb (fun f : mat => np_ncols f =? np_ncols (znth [] (kt_factors k) x)) (znth [] (kt_factors k) x :: map (znth [] (kt_factors k)) o)) with true
      by (symmetry; apply forallb_forall; intros f Hf; change (In f (map (znth [] (kt_factors k)) (x :: o))) in Hf;
          apply in_map_iff in Hf as (y & <- & Hy); rewrite (Hall y Hy), (Hall x (or_introl eq_refl)); apply Z.eqb_refl));
    rewrite (Hall x (or_introl eq_refl)), Z.eqb_refl; reflexivity.
Qed.

(* ---- ktensor.arrange(permutation = p) (a list or an array) ---- *)
Theorem arrange_gen_guard (nz : ktz -> res ktz) (k : ktz) (p : vec) : kt_rows_ok k ->
  okres (ktensor_arrange nz k None (IxSeq p)) = guard_ktensor_arrange (kt_ncomponents k) p /\
  okres (ktensor_arrange nz k None (IxArr p)) = guard_ktensor_arrange (kt_ncomponents k) p /\
  guard_ktensor_arrange (kt_ncomponents k) p = decide (pre_ktensor_arrange (kt_ncomponents k) p).
Proof.
  intros Hr. split; [|split; [|apply ktensor_arrange_decides]].
  all: rewrite arrange_bridge; unfold H_arrange, guard_ktensor_arrange, kt_ncomponents;
    cbn [ix_is_none ix_is_list ix_is_arr ix_seq is_some negb andb orb];
    destruct (zlen p =? zlen (kt_weights k)); cbn [chk andthen okres]; [|reflexivity];
    rewrite shape_zlist, (zlist_eqb_sym (np_arange 0 (zlen (kt_weights k))) (np_sort p));
    destruct (zlist_eqb (np_sort p) (np_arange 0 (zlen (kt_weights k)))) eqn:E; [|reflexivity];
    apply zlist_eqb_eq in E; rewrite (gather_ok_range k p Hr (sorted_is_range_in p _ E)); reflexivity.
Qed.

(* ---- ktensor.extract(idx) with a list of component indices ---- *)
Theorem extract_gen_guard (k : ktz) (idx : vec) : kt_wf k ->
  okres (ktensor_extract k (IxSeq idx)) = guard_ktensor_extract (kt_ncomponents k) idx /\
  okres (ktensor_extract k (IxArr idx)) = guard_ktensor_extract (kt_ncomponents k) idx /\
  guard_ktensor_extract (kt_ncomponents k) idx = decide (pre_ktensor_extract (kt_ncomponents k) idx).
Proof.
  intros Hwf. split; [|split; [|apply ktensor_extract_decides]].
  all: rewrite extract_bridge; unfold H_extract, H_components, guard_ktensor_extract, kt_ncomponents;
    rewrite Z.gtb_ltb;
    destruct ((zlen idx =? 0) || (zlen (kt_weights k) <? zlen idx)) eqn:E0; cbn [negb chk andthen okres]; [reflexivity|];
    change (forallb (fun x : Z => (0 <=? x) && (x <? zlen (kt_weights k))) idx) with (forallb (in_range (zlen (kt_weights k))) idx);
    destruct (forallb (in_range (zlen (kt_weights k))) idx) eqn:E1; cbn [negb chk okres]; [|reflexivity];
    destruct Hwf as (Hne & Hne2 & Hr);
    (assert (Hin : forall x, In x idx -> 0 <= x < zlen (kt_weights k))
      by (intros x Hx; rewrite forallb_forall in E1; specialize (E1 x Hx); unfold in_range in E1;
          apply andb_true_iff in E1 as [A B]; apply Z.leb_le in A; apply Z.ltb_lt in B; lia));
    rewrite (gather_ok_range k idx Hr Hin); cbn [negb];
    unfold H_gather; cbn [kt_factors kt_weights];
    destruct (kt_factors k) as [|F0 fs] eqn:EF; [congruence|]; cbn [map kt_make_ok];
    (assert (Hnc : forall F, In F (F0 :: fs) -> np_ncols (np_cols F idx) = zlen idx)
      by (intros F HF; specialize (Hne2 F HF); destruct F as [|r F']; [congruence|];
          cbn [np_cols map np_ncols]; unfold np_take, zlen; now rewrite map_length));
    (replace (forallb (fun f : mat => np_ncols f =? np_ncols (np_cols F0 idx)) (np_cols F0 idx :: map (fun f : mat => np_cols f idx) fs)) with true
      by (symmetry; apply forallb_forall; intros f Hf; change (In f (map (fun f : mat => np_cols f idx) (F0 :: fs))) in Hf;
          apply in_map_iff in Hf as (F & <- & HF); rewrite (Hnc F HF), (Hnc F0 (or_introl eq_refl)); apply Z.eqb_refl));
    rewrite (Hnc F0 (or_introl eq_refl)); unfold np_take at 1, zlen at 1; rewrite map_length; fold (zlen idx); rewrite Z.eqb_refl; reflexivity.
Qed.
