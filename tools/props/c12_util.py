"""helpers of the C12 check: an evaluator of the generated Gallina text of Gen/GenHandles.v (independent of the
translator), point grids for the ten losses, and the brute-force oracle for the tensor-level operations."""
import math
import os
import re
from fractions import Fraction

HERE = os.path.dirname(os.path.abspath(__file__))
GEN = os.path.join(HERE, "..", "..", "coq", "theories", "Gen", "GenHandles.v")

# python handle name -> (Gallina loss, Gallina grad, python loss, python grad, extra parameter name | None)
HANDLES = {
    "gaussian": ("gaussian", "gaussian_grad", None),
    "bernoulli_odds": ("bernoulli_odds", "bernoulli_odds_grad", None),
    "bernoulli_logit": ("bernoulli_logit", "bernoulli_logit_grad", None),
    "poisson": ("poisson", "poisson_grad", None),
    "poisson_log": ("poisson_log", "poisson_log_grad", None),
    "rayleigh": ("rayleigh", "rayleigh_grad", None),
    "gamma": ("gamma_", "gamma_grad", None),
    "huber": ("huber", "huber_grad", "threshold"),
    "negative_binomial": ("negative_binomial", "negative_binomial_grad", "num_trials"),
    "beta": ("beta_", "beta_grad", "b"),
}


def grid(name, rng, n):
    """points (data, model[, extra]) inside the loss's domain; rationals with small denominators"""
    pts = []
    q = lambda lo, hi: Fraction(rng.randint(lo * 8, hi * 8), 8)
    for k in range(n):
        if name in ("gaussian",):
            p = [q(-4, 4), q(-4, 4)]
        elif name in ("bernoulli_odds",):
            p = [Fraction(rng.randint(0, 1)), q(0, 5) if k else Fraction(0)]
        elif name in ("bernoulli_logit",):
            p = [Fraction(rng.randint(0, 1)), q(-4, 4)]
        elif name in ("poisson",):
            p = [Fraction(rng.randint(0, 6)), q(0, 5) if k else Fraction(0)]
        elif name in ("poisson_log",):
            p = [Fraction(rng.randint(0, 6)), q(-3, 3)]
        elif name in ("rayleigh", "gamma"):
            p = [q(0, 5) + Fraction(1, 8), q(0, 5) if k else Fraction(0)]
        elif name == "huber":
            t = Fraction(rng.randint(1, 12), 4)
            x = q(-4, 4)
            side = k % 4      # inside, outside, on the upper kink, on the lower kink
            m = x + [t / 2, 2 * t, t, -t][side] * rng.choice([1, -1] if side < 2 else [1])
            p = [x, m, t]
        elif name == "negative_binomial":
            p = [Fraction(rng.randint(0, 6)) + (0 if k % 2 else Fraction(1, 2)), q(0, 5) if k else Fraction(0), Fraction(rng.randint(1, 5))]
        elif name == "beta":
            b = rng.choice([Fraction(1, 2), Fraction(3, 2), Fraction(2), Fraction(-1, 2), Fraction(3)])
            p = [q(0, 5) + Fraction(1, 8), q(0, 5) + (Fraction(1, 8) if b < 2 else 0), b]
        pts.append(p)
    return pts


def run_handles(name, pts):
    """pyttb's own values [loss, grad] at the points (arrays of length 1, like the library calls them)"""
    import numpy as np
    from pyttb.gcp import handles
    out = []
    fl, gl, extra = HANDLES[name]
    pf = getattr(handles, name)
    pg = getattr(handles, name + "_grad")
    for p in pts:
        p = [float(Fraction(v)) for v in p]
        d, m = np.array([p[0]]), np.array([p[1]])
        kw = {extra: p[2]} if extra else {}
        out.append([float(pf(d.copy(), m.copy(), **kw)[0]), float(pg(d.copy(), m.copy(), **kw)[0])])
    return out


# ------------------------------------------------------------------ Gallina text evaluator
_tok = re.compile(r"\s*(?:(\d+\.?\d*)|([A-Za-z_][A-Za-z_0-9']*)|(:=|[-+*/^()]))")


def _tokens(s):
    out, pos = [], 0
    s = s.strip()
    while pos < len(s):
        m = _tok.match(s, pos)
        if not m:
            raise ValueError("cannot tokenise Gallina at: " + s[pos:pos + 30])
        out.append(m.group(1) or m.group(2) or m.group(3))
        pos = m.end()
    return out


PRIMS = {
    "ln": math.log, "exp": math.exp, "Rabs": abs, "negb": lambda b: not b,
    "Rltb": lambda x, y: x < y, "bsel": lambda b, x: x if b else 0.0,
    "sgnR": lambda x: 1.0 if x > 0 else (-1.0 if x < 0 else 0.0),
    "rpow": lambda a, b: math.exp(b * math.log(a)), "sqrt": math.sqrt,
}
ARITY = {"ln": 1, "exp": 1, "Rabs": 1, "negb": 1, "Rltb": 2, "bsel": 2, "sgnR": 1, "rpow": 2, "sqrt": 1}


class _P:
    def __init__(self, toks, env, defs):
        self.t, self.i, self.env, self.defs = toks, 0, env, defs

    def peek(self):
        return self.t[self.i] if self.i < len(self.t) else None

    def next(self):
        self.i += 1
        return self.t[self.i - 1]

    def expr(self):
        if self.peek() == "let":
            self.next()
            name = self.next()
            assert self.next() == ":="
            v = self.arith()
            assert self.next() == "in", "let without in"
            old = self.env.get(name)
            self.env[name] = v
            r = self.expr()
            if old is None:
                del self.env[name]
            else:
                self.env[name] = old
            return r
        return self.arith()

    def arith(self):      # level 50: + -
        v = self.term()
        while self.peek() in ("+", "-"):
            op = self.next()
            w = self.term()
            v = v + w if op == "+" else v - w
        return v

    def term(self):       # level 40: * /
        v = self.unary()
        while self.peek() in ("*", "/"):
            op = self.next()
            w = self.unary()
            v = v * w if op == "*" else v / w
        return v

    def unary(self):      # level 35: - x
        if self.peek() == "-":
            self.next()
            return -self.unary()
        return self.power()

    def power(self):      # level 30, right associative; exponent is a nat literal in the generated text
        b = self.app()
        if self.peek() == "^":
            self.next()
            e = self.unary()
            return b ** int(e) if float(e) == int(e) else math.nan
        return b

    def app(self):
        tok = self.peek()
        if tok in ARITY or tok in self.defs:
            self.next()
            n = ARITY[tok] if tok in ARITY else len(self.defs[tok][0])
            args = [self.atom() for _ in range(n)]
            if tok in ARITY:
                return PRIMS[tok](*args)
            return call(self.defs, tok, args)
        return self.atom()

    def atom(self):
        tok = self.next()
        if tok == "(":
            v = self.expr()
            assert self.next() == ")", "unbalanced"
            return v
        if tok == "PI":
            return math.pi
        if tok in ("true", "false"):
            return tok == "true"
        if re.fullmatch(r"\d+\.?\d*", tok):
            return float(tok)
        if tok in self.env:
            return self.env[tok]
        if tok in self.defs and not self.defs[tok][0]:
            return call(self.defs, tok, [])
        raise ValueError("unknown identifier in generated Gallina: " + tok)


def load_defs(path=GEN):
    txt = open(path).read()
    txt = re.sub(r"\(\*.*?\*\)", "", txt, flags=re.S)
    defs = {}
    for m in re.finditer(r"Definition\s+([A-Za-z_0-9']+)\s*(\(([^)]*):\s*R\s*\))?\s*:\s*R\s*:=(.*?)\.\s*(?=Definition|\Z)", txt, re.S):
        name, params, body = m.group(1), (m.group(3) or "").split(), m.group(4)
        defs[name] = (params, _tokens(body))
    return defs


def call(defs, name, args):
    params, toks = defs[name]
    p = _P(toks, dict(zip(params, args)), defs)
    v = p.expr()
    if p.peek() is not None:
        raise ValueError(f"trailing tokens in {name}: {p.t[p.i:]}")
    return v


def _close(a, b, tol=1e-9):
    if a != a or b != b:
        return False
    return abs(a - b) <= tol * max(1.0, abs(b))


def compare_handles(name, pts, vals, against_derivative=False):
    """None when the generated Gallina text (evaluated here) agrees with pyttb's values at every point;
    with against_derivative: None when pyttb's gradient values agree with a central difference of pyttb's loss."""
    fl, gl, extra = HANDLES[name]
    if against_derivative:
        h = 1e-6
        bad = []
        for p, (fv, gv) in zip(pts, vals):
            pf = [Fraction(v) for v in p]
            lo, hi = [list(pf), list(pf)]
            lo[1] -= Fraction(1, 10 ** 6)
            hi[1] += Fraction(1, 10 ** 6)
            if pf[1] == 0:
                continue
            (f1, _), (f2, _) = run_handles(name, [lo, hi])
            num = (f2 - f1) / (2 * h)
            if name == "huber" and abs(abs(float(pf[0] - pf[1])) - float(pf[2])) < 1e-3:
                continue
            if not _close(gv, num, 1e-4):
                bad.append((p, gv, num))
        return None if not bad else f"{name}_grad is not the derivative of {name}: (point, gradient value, central difference) = {bad[:2]}"
    defs = load_defs()
    for p, (fv, gv) in zip(pts, vals):
        args = [float(Fraction(v)) for v in p]
        try:
            mf = call(defs, fl, args)
            mg = call(defs, gl, args)
        except Exception as ex:
            return f"generated text of {fl}/{gl} cannot be evaluated at {p}: {type(ex).__name__}: {ex}"
        if not _close(fv, mf) or not _close(gv, mg):
            return f"{name} at {p}: pyttb ({fv}, {gv}) vs generated Gallina ({mf}, {mg})"
    return None


# ------------------------------------------------------------------ brute-force oracle for tensor-level operations
def _all_subs(shape):
    import itertools
    return [list(x)[::-1] for x in itertools.product(*[range(d) for d in shape[::-1]])]


PF = [lambda d, m: (m - d) * (m - d), lambda d, m: m * m * m - 3 * d * m, lambda d, m: d * m * m + m, lambda d, m: m]
PG = [lambda d, m: 2 * (m - d), lambda d, m: 3 * m * m - 3 * d, lambda d, m: 2 * d * m + 1, lambda d, m: 1]


def _prod_skip(fac, i, r, k):
    p = 1
    for l, A in enumerate(fac):
        if l != k:
            p *= A[i[l]][r]
    return p


def oracle_tensor(op, a, o):
    shp, R, fac = a["shape"], a["R"], a["factors"]
    subs_all = _all_subs(shp)
    N = len(shp)
    if op == "mttkrps":
        want = [[[sum(a["data"][n] * _prod_skip(fac, i, r, k) for n, i in enumerate(subs_all) if i[k] == j)
                  for r in range(R)] for j in range(shp[k])] for k in range(N)]
        if o["G"] != want:
            return f"mttkrps returned {o['G']} but the per-mode definition gives {want}"
        if o["one"] != want:
            return "mttkrp(U, k) differs from the definition"
        return None
    lam = a.get("lam", [1] * R)
    f, g = PF[a["fid"]], PG[a["fid"]]

    def mval(i):
        return sum(lam[r] * _prod_skip(fac, i, r, -1) for r in range(R))
    if op in ("evaluate", "estimate_full"):
        w = a.get("w") or [1] * len(subs_all)
        F = sum(w[n] * f(a["data"][n], mval(i)) for n, i in enumerate(subs_all))
        # exact partial derivative of F in A_k[j, r]: chain rule through m_i = sum_r lam_r prod_l A_l[i_l, r]
        G = [[[sum(w[n] * g(a["data"][n], mval(i)) * lam[r] * _prod_skip(fac, i, r, k)
                   for n, i in enumerate(subs_all) if i[k] == j) for r in range(R)] for j in range(shp[k])] for k in range(N)]
        if o["F"] != F:
            return f"objective {o['F']} is not the weighted sum of the loss over all entries ({F})"
        if o["G"] != G:
            return f"gradients {o['G']} are not the partial derivatives of the objective ({G})"
        if op == "estimate_full" and (o["F2"] != F or o["G2"] != G):
            return "exact evaluation differs from the definition"
        return None
    if op == "estimate":
        crng = set(a["crng"] or [])
        ms = [sum(_prod_skip(fac, i, r, -1) for r in range(R)) for i in a["subs"]]
        F = sum(wq * (f(x, m) - (f(0, m) if q in crng else 0)) for q, (x, wq, m) in enumerate(zip(a["xs"], a["ws"], ms)))
        Y = [wq * (g(x, m) - (g(0, m) if q in crng else 0)) for q, (x, wq, m) in enumerate(zip(a["xs"], a["ws"], ms))]
        G = [[[sum(Y[q] * _prod_skip(fac, i, r, k) for q, i in enumerate(a["subs"]) if i[k] == j)
               for r in range(R)] for j in range(shp[k])] for k in range(N)]
        if o["F"] != F or o["G"] != G:
            return f"sampled estimate ({o['F']}, {o['G']}) differs from the weighted sample sums ({F}, {G})"
        return None
    return None
