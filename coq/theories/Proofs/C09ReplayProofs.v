(* Proofs/C09ReplayProofs.v — wave 4: the column scaling used by the forward replay (Model/C09Replay.v replay_scale: cp_als.py's
   max(max|.|, 1) rule for the sweeps after the first, no scaling in sweep 0) meets, for EVERY matrix with rows of R entries, the
   scaling clauses of the code-level update contract (Proofs/C09Holders.v update_code_contract: R weights, row count kept,
   weights[r] * scaled[j,r] = A[j,r] for all j, r) — the weights of the max rule are >= 1, so the division is always defined. *)
From Coq Require Import List Arith Lia Bool ZArith QArith Qabs Qcanon.
From PV Require Import Base.Index Base.Sum Np.Array Model.Sparse Model.Repr Model.Harness Model.C09Als Model.C09Loop Model.C09Exec
  Model.C09Replay Model.W4SPrelude Gen.GenCpAls Proofs.C09GenSweep.
Import ListNotations.
Local Open Scope Qc_scope.

Lemma zipw_length f : forall a b, length (zipw f a b) = Nat.min (length a) (length b).
Proof. induction a as [|x a IH]; intros [|y b]; cbn; auto. Qed.

Lemma zipw_nth f : forall a b r, (r < length a)%nat -> (r < length b)%nat ->
  nth r (zipw f a b) q0 = f (nth r a q0) (nth r b q0).
Proof.
  induction a as [|x a IH]; intros [|y b] [|r] Ha Hb; cbn in *; try lia; auto. apply IH; lia.
Qed.

Lemma q1_neq_0 : q1 <> q0.
Proof. intro H. apply (f_equal this) in H. discriminate H. Qed.

Lemma qmax_q1_neq_0 m : qmax m q1 <> q0.
Proof.
  unfold qmax. destruct (qleb m q1) eqn:E; [exact q1_neq_0|].
  intro H. rewrite H in E. vm_compute in E. discriminate E.
Qed.

Lemma qmax_q1_ge m : qleb q1 (qmax m q1) = true.
Proof.
  unfold qmax. destruct (qleb m q1) eqn:E; [reflexivity|].
  unfold qleb in *. destruct (Qle_bool q1 m) eqn:E2; [reflexivity|].
  exfalso. assert (H1 : ~ (m <= q1)%Q) by (intro H; apply Qle_bool_iff in H; congruence).
  assert (H2 : ~ (q1 <= m)%Q) by (intro H; apply Qle_bool_iff in H; congruence).
  apply Qnot_le_lt in H1. apply H2. apply Qlt_le_weak. exact H1.
Qed.

Lemma maxnorm_weights_length R A : length (maxnorm_weights R A) = R.
Proof. unfold maxnorm_weights. now rewrite map_length, seq_length. Qed.

Lemma maxnorm_weights_nth R A r : (r < R)%nat -> nth r (maxnorm_weights R A) q0 = qmax (qmaxl (qcol A r)) q1.
Proof.
  intros Hr. unfold maxnorm_weights.
  rewrite (nth_indep _ q0 ((fun r => qmax (qmaxl (qcol A r)) q1) 0%nat)) by (now rewrite map_length, seq_length).
  rewrite (map_nth (fun r => qmax (qmaxl (qcol A r)) q1)), seq_nth by auto. reflexivity.
Qed.

Lemma mget_div_cols A w j r : mget q0 (div_cols A w) j r = nth r (zipw Qcdiv (nth j A []) w) q0.
Proof.
  unfold mget, div_cols. f_equal.
  transitivity (nth j (map (fun row => zipw Qcdiv row w) A) ((fun row => zipw Qcdiv row w) [])); [reflexivity|].
  apply (map_nth (fun row => zipw Qcdiv row w)).
Qed.

Lemma mget_overflow (A : qmx) R j r : Forall (fun row => length row = R) A -> (R <= r)%nat -> mget q0 A j r = q0.
Proof.
  intros HA Hr. unfold mget. destruct (Nat.lt_ge_cases j (length A)) as [Hj|Hj].
  - rewrite Forall_forall in HA. apply nth_overflow. rewrite (HA (nth j A [])) by (now apply nth_In). exact Hr.
  - rewrite (nth_overflow A) by exact Hj. now destruct r.
Qed.

(* the max rule: R weights, all >= 1, the row count is kept and weights[r] * scaled[j,r] = A[j,r] for ALL j, r *)
Theorem maxnorm_scale_contract R (A : qmx) : Forall (fun row => length row = R) A ->
  let wa := maxnorm_scale R A in
  length (fst wa) = R /\ nrows (snd wa) = nrows A /\ Forall (fun w => qleb q1 w = true) (fst wa) /\
  forall j r, nth r (fst wa) q0 * mget q0 (snd wa) j r = mget q0 A j r.
Proof.
  intros HA. cbn [maxnorm_scale fst snd]. split; [apply maxnorm_weights_length|].
  split; [unfold nrows, div_cols; now rewrite map_length|]. split.
  - unfold maxnorm_weights. apply Forall_forall. intros w Hw. apply in_map_iff in Hw. destruct Hw as (r & <- & _). apply qmax_q1_ge.
  - intros j r. rewrite mget_div_cols.
    destruct (Nat.lt_ge_cases r R) as [Hr|Hr].
    + destruct (Nat.lt_ge_cases j (length A)) as [Hj|Hj].
      * assert (HL : length (nth j A []) = R) by (rewrite Forall_forall in HA; apply HA; now apply nth_In).
        rewrite zipw_nth by (rewrite ?maxnorm_weights_length; lia).
        rewrite maxnorm_weights_nth by exact Hr. unfold mget.
        apply Qcmult_div_r. apply qmax_q1_neq_0.
      * rewrite (nth_overflow A) by exact Hj. cbn [zipw]. unfold mget. rewrite (nth_overflow A) by exact Hj.
        destruct r; cbn [nth]; unfold q0; ring.
    + rewrite (nth_overflow (maxnorm_weights R A)) by (now rewrite maxnorm_weights_length).
      rewrite (mget_overflow A R j r HA Hr). unfold q0; ring.
Qed.

Lemma nth_ones R r : nth r (ones R) q0 = if Nat.ltb r R then q1 else q0.
Proof.
  unfold ones. revert r. induction R as [|R IH]; intros [|r]; cbn [repeat nth]; auto.
  rewrite IH. reflexivity.
Qed.

(* the scaling of the replay in EVERY sweep meets the scaling clauses of update_code_contract *)
Theorem replay_scale_contract R it (A : qmx) : Forall (fun row => length row = R) A ->
  let wa := replay_scale R it A in
  length (fst wa) = R /\ nrows (snd wa) = nrows A /\
  forall j r, nth r (fst wa) q0 * mget q0 (snd wa) j r = mget q0 A j r.
Proof.
  intros HA. destruct it as [|it].
  - cbn [replay_scale noscale fst snd]. split; [unfold ones; apply repeat_length|]. split; [reflexivity|].
    intros j r. rewrite nth_ones. destruct (Nat.ltb r R) eqn:E; [unfold q1; ring|].
    apply Nat.ltb_ge in E. rewrite (mget_overflow A R j r HA E). unfold q0; ring.
  - destruct (maxnorm_scale_contract R A HA) as (H1 & H2 & _ & H4). cbn [replay_scale]. auto.
Qed.

(* what the exact solver hands to the scaling always has rows of R entries *)
Lemma tabmx_rows I R (f : nat -> nat -> Qc) : Forall (fun row => length row = R) (tabmx I R f).
Proof.
  unfold tabmx. apply Forall_forall. intros row H. apply in_map_iff in H. destruct H as (j & <- & _).
  now rewrite map_length, seq_length.
Qed.

Theorem qsolve_rows R (Y P A : qmx) : qsolve_opt R Y P = Some A -> Forall (fun row => length row = R) A.
Proof.
  unfold qsolve_opt. destruct (all_zero Y); [intros H; injection H as <-; apply tabmx_rows|].
  match goal with |- context [gj ?a ?b ?c] => destruct (gj a b c) end; [|discriminate].
  intros H; injection H as <-. apply tabmx_rows.
Qed.

(* ---------------------------------------------------------------- the replayed sweep IS the generated loop (sweeps after the first) *)
Lemma als_sweep_ext (mk : list qmx -> nat -> qmx) (solve1 solve2 : qmx -> qmx -> qmx) (scale1 scale2 : nat -> qmx -> list Qc * qmx) R it :
  (forall Y P, solve1 Y P = solve2 Y P) -> (forall A, scale1 it A = scale2 it A) ->
  forall xs st, als_sweep q0 q1 Qcplus Qcmult mk solve1 scale1 R it xs st = als_sweep q0 q1 Qcplus Qcmult mk solve2 scale2 R it xs st.
Proof.
  intros H1 H2. unfold als_sweep. induction xs as [|x xs IH]; intros st; cbn [fold_left]; [reflexivity|].
  rewrite IH. f_equal. unfold als_update. now rewrite H1, H2.
Qed.

Definition q_zeros_like (R : nat) (P : qmx) : qmx := tabmx (length P) R (fun _ _ => q0).

Lemma code_solve_qsolve R Y P : code_solve Qc all_zero (q_zeros_like R) (qsolve R) Y P = qsolve R Y P.
Proof.
  unfold code_solve, qsolve, qsolve_opt, q_zeros_like. destruct (all_zero Y); reflexivity.
Qed.

Lemma maxnorm_weights_not_all_zero R A : (0 < R)%nat -> forallb qisz (maxnorm_weights R A) = false.
Proof.
  intros HR. destruct R as [|R]; [lia|]. unfold maxnorm_weights. cbn [seq map forallb].
  apply andb_false_iff. left. unfold qisz.
  destruct (Qc_eq_bool (qmax (qmaxl (qcol A 0)) q1) (Q2Qc 0)) eqn:E; [|reflexivity].
  apply Qc_eq_bool_correct in E. exfalso. exact (qmax_q1_neq_0 _ E).
Qed.

Lemma code_scale_replay R it norm2 A : (0 < R)%nat ->
  code_scale Qc norm2 (maxnorm_weights R) (forallb qisz) div_cols (S it) A = replay_scale R (S it) A.
Proof.
  intros HR. unfold code_scale, replay_scale, maxnorm_scale. cbn [Nat.eqb].
  now rewrite (maxnorm_weights_not_all_zero R A HR).
Qed.

(* For every sweep after the first, every rank R > 0, data denotation, factor list and mode list: the loop GENERATED from
   cp_als.py — kernels instantiated with the exact ones of the replay (MTTKRP of the denotation, Gram-Hadamard matrix, the
   `(Y == 0).all()` guard, Gauss-Jordan solve, max(max|.|, 1) weights, the `(weights == 0).all()` guard, column division; the 2-norm
   kernel is not used after sweep 0 and stays arbitrary) — returns without raising exactly the factor list and weights that
   Model/C09Replay.v q_sweep computes, i.e. what the generated correspondence cases compare with pyttb's recorded factor lists *)
Theorem gen_sweep_replay (s : shape) (X : idx -> Qc) (R N : nat) (dimorder : list nat) (it : nat) (norm2 : qmx -> list Qc) :
  (0 < R)%nat -> dimorder <> [] ->
  forall (xs : list nat) (U : list qmx) (Um : qmx) (n0 : option nat) (w0 : option (list Qc)),
  (forall x, In x xs -> (x < length U)%nat) ->
  let st' := q_sweep s X R (S it) xs U in
  exists Um' n',
    GenCpAls.cp_als_main_loop3 qmx (list qmx) (list Qc) unit (g_set_gram Qc) (fun _ U n => q_mttkrp_mat s X U n R)
      (g_hadamard_others Qc q0 q1 Qcplus Qcmult R) all_zero (q_zeros_like R) (qsolve R) norm2 (maxnorm_weights R) (forallb qisz) div_cols
      N dimorder tt (S it) xs (U, Um, U, n0, w0)
    = Some (st_U st', Um', st_U st', n', match xs with [] => w0 | _ :: _ => Some (st_w st') end).
Proof.
  intros HR Hne xs U Um n0 w0 Hin st'.
  destruct (gen_sweep_bridge Qc q0 q1 Qcplus Qcmult unit R (fun _ U n => q_mttkrp_mat s X U n R) all_zero (q_zeros_like R) (qsolve R)
              norm2 (maxnorm_weights R) (forallb qisz) div_cols tt N dimorder (S it) Hne xs U Um n0 w0 (ones R) [] Hin) as (Um' & n' & EQ).
  exists Um', n'. subst st'.
  assert (ES : als_sweep q0 q1 Qcplus Qcmult (fun U n => q_mttkrp_mat s X U n R)
                 (code_solve Qc all_zero (q_zeros_like R) (qsolve R))
                 (code_scale Qc norm2 (maxnorm_weights R) (forallb qisz) div_cols) R (S it) xs (mkAls (ones R) U [])
               = q_sweep s X R (S it) xs U).
  { unfold q_sweep, q_state.
    apply (als_sweep_ext (fun U n => q_mttkrp_mat s X U n R) _ (qsolve R) _ (replay_scale R) R (S it)
             (code_solve_qsolve R) (fun A => code_scale_replay R it norm2 A HR)). }
  rewrite <- ES. exact EQ.
Qed.

(* non-vacuity: a 2 x 2 matrix, first column scaled by its largest absolute value 3, second column (all entries below 1) untouched *)
Example maxnorm_scale_example :
  let wa := maxnorm_scale 2 [[Q2Qc (-3 # 1); Q2Qc (1 # 2)]; [Q2Qc (2 # 1); Q2Qc (-1 # 4)]] in
  qlist_eqb (fst wa) [Q2Qc (3 # 1); q1] && qmx_eqb (snd wa) [[Q2Qc (-1 # 1); Q2Qc (1 # 2)]; [Q2Qc (2 # 3); Q2Qc (-1 # 4)]] = true.
Proof. vm_compute. reflexivity. Qed.
