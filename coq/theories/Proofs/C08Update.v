(* Proofs/C08Update.v — wave 5: ktensor.update as a state machine on the receiver (Model/C08Update.v, /repo after b9311d6).
   Main results, every value type, every ktensor record (no well-formedness needed), every mode list, every data length:
     py_update_loop_after_validate   once pass 1 has answered, the assigning loop cannot stop half way
     py_update_rejected_unchanged    a REJECTED update leaves the receiver exactly as it was
     py_update_accepts_iff           accepted  <->  strictly ascending modes, all in {-1} + [0, ndims), enough data
     py_update_accepted_model        an accepted update leaves the functional hand model k_update (Model/C08Kruskal.v)
     py_update_spec                  both at once
     py_update_keeps_rank_shape      rank and shape of the receiver never change
     py_update_all_modes             modes = [-1, 0 .. ndims-1] with exactly R * (sum(shape) + 1) numbers is accepted and is from_vector
   and the regression of the repaired defect: the one-pass loop (update before b9311d6) leaves a partly rewritten receiver. *)
From Coq Require Import List ZArith Arith Lia Bool.
From PV Require Import Base.Index Model.Repr Model.C08Kruskal Model.C08Update Proofs.C08Vec.
Import ListNotations.
Local Open Scope nat_scope.

Section U8.
Variable V : Type.
Variable v0 : V.
Notation mat := (list (list V)).

(* ---------------------------------------------------------------- pass 1 *)
Lemma py_needed_ext (K K' : ktensor V) : krank K = krank K' -> kshape K = kshape K' ->
  forall ms n, py_needed K ms n = py_needed K' ms n.
Proof.
  intros HR HS.
  assert (HN : length (kfactors K) = length (kfactors K')).
  { unfold kshape in HS. apply (f_equal (@length nat)) in HS. now rewrite !map_length in HS. }
  induction ms as [|k ms IH]; intros n; cbn [py_needed]; [reflexivity|].
  rewrite HR, HS, HN. destruct (k =? -1)%Z; [apply IH|].
  destruct (_ && _); [apply IH|reflexivity].
Qed.

Lemma py_needed_mono (K : ktensor V) : forall ms n tot, py_needed K ms n = Some tot -> n <= tot.
Proof.
  induction ms as [|k ms IH]; intros n tot E; cbn [py_needed] in E.
  - injection E as <-. lia.
  - destruct (k =? -1)%Z; [apply IH in E; lia|].
    destruct (_ && _); [apply IH in E; lia|discriminate].
Qed.

(* pass 1 answers only when every mode is -1 or a mode of the receiver *)
Lemma py_needed_modes (K : ktensor V) : forall ms n tot, py_needed K ms n = Some tot ->
  forall k, In k ms -> (k = -1 \/ 0 <= k < Z.of_nat (length (kfactors K)))%Z.
Proof.
  induction ms as [|k ms IH]; intros n tot E j Hj; [destruct Hj|]. cbn [py_needed] in E.
  destruct (Z.eqb_spec k (-1)) as [E1|E1].
  - destruct Hj as [<-|Hj]; [now left|exact (IH _ _ E j Hj)].
  - destruct (Z.leb_spec 0 k) as [H0|]; [|discriminate]. destruct (Z.ltb_spec k (Z.of_nat (length (kfactors K)))) as [H1|]; [|discriminate].
    cbn [andb] in E. destruct Hj as [<-|Hj]; [right; lia|exact (IH _ _ E j Hj)].
Qed.

Lemma py_index_nonneg (n : nat) (k : Z) : (0 <= k < Z.of_nat n)%Z -> py_index n k = Some (Z.to_nat k).
Proof.
  intros H. unfold py_index. replace (k <? 0)%Z with false by (symmetry; apply Z.ltb_ge; lia).
  replace (0 <=? k)%Z with true by (symmetry; apply Z.leb_le; lia).
  replace (k <? Z.of_nat n)%Z with true by (symmetry; apply Z.ltb_lt; lia). reflexivity.
Qed.

(* ---------------------------------------------------------------- one assignment keeps rank and shape *)
Lemma nrows_unvec (m R : nat) (d : list V) : nrows (unvec_factor v0 m R d) = m.
Proof. unfold nrows, unvec_factor. now rewrite map_length, seq_length. Qed.

Lemma map_nrows_upd (fs : list mat) : forall (j : nat) (X : mat), nrows X = nth j (map (@nrows V) fs) 0 ->
  map (@nrows V) (upd_nth j (fun _ => X) fs) = map (@nrows V) fs.
Proof.
  induction fs as [|f fs IH]; intros [|j] X H; cbn [upd_nth map nth] in *; try reflexivity.
  - now rewrite H.
  - f_equal. now apply IH.
Qed.

Lemma upd_nth_length {A} (f : A -> A) : forall (l : list A) j, length (upd_nth j f l) = length l.
Proof. induction l as [|x l IH]; intros [|j]; cbn [upd_nth length]; auto. Qed.

Lemma set_weights_rank (K : ktensor V) (data : list V) loc : loc + krank K <= length data ->
  krank (mkK (firstn (krank K) (skipn loc data)) (kfactors K)) = krank K.
Proof. intros H. unfold krank at 1. cbn [kweights]. rewrite firstn_length, skipn_length. lia. Qed.

Lemma set_factor_shape (K : ktensor V) j (d : list V) :
  kshape (mkK (kweights K) (upd_nth j (fun _ => unvec_factor v0 (nth j (kshape K) 0) (krank K) d) (kfactors K))) = kshape K.
Proof. unfold kshape at 1. cbn [kfactors]. apply map_nrows_upd. now rewrite nrows_unvec. Qed.

(* ---------------------------------------------------------------- pass 2 after pass 1 *)
Lemma py_update_loop_after_validate (data : list V) : forall ms (K0 K : ktensor V) loc tot,
  krank K = krank K0 -> kshape K = kshape K0 ->
  py_needed K0 ms loc = Some tot -> tot <= length data ->
  fst (py_update_loop v0 ms data loc K) = true.
Proof.
  induction ms as [|k ms IH]; intros K0 K loc tot HR HS E Hlen; [reflexivity|].
  rewrite <- (py_needed_ext K K0 HR HS) in E. cbn [py_needed] in E. cbn [py_update_loop].
  destruct (Z.eqb_spec k (-1)) as [E1|E1].
  - pose proof (py_needed_mono _ _ _ _ E) as Hm.
    destruct (Nat.ltb_spec (length data) (loc + krank K)) as [Hlt|Hge]; [lia|].
    apply (IH K _ _ tot); [apply set_weights_rank; exact Hge|reflexivity|exact E|exact Hlen].
  - destruct (Z.leb_spec 0 k) as [H0|]; [|discriminate].
    destruct (Z.ltb_spec k (Z.of_nat (length (kfactors K)))) as [H1|]; [|discriminate]. cbn [andb] in E.
    rewrite py_index_nonneg by lia.
    pose proof (py_needed_mono _ _ _ _ E) as Hm.
    destruct (Nat.ltb_spec (length data) (loc + nth (Z.to_nat k) (kshape K) 0 * krank K)) as [Hlt|Hge]; [lia|].
    apply (IH K _ _ tot); [reflexivity|apply set_factor_shape|exact E|exact Hlen].
Qed.

(* ---------------------------------------------------------------- a finished loop = the functional model *)
Lemma skipn_plus {A} (l : list A) : forall a b, skipn b (skipn a l) = skipn (a + b) l.
Proof.
  intros a. revert l. induction a as [|a IH]; intros l b; [reflexivity|].
  destruct l as [|x l]; cbn [Nat.add skipn]; [now destruct b|apply IH].
Qed.

Lemma py_update_loop_model (data : list V) : forall ms (K K' : ktensor V) loc,
  (forall k, In k ms -> (-1 <= k)%Z) ->
  py_update_loop v0 ms data loc K = (true, K') ->
  K' = k_update_loop v0 (map mopt ms) (skipn loc data) K.
Proof.
  induction ms as [|k ms IH]; intros K K' loc Hms E; cbn [py_update_loop map k_update_loop] in *.
  - now injection E as <-.
  - assert (Hk : (-1 <= k)%Z) by (apply Hms; now left).
    assert (Hms' : forall k, In k ms -> (-1 <= k)%Z) by (intros; apply Hms; now right).
    unfold mopt at 1. destruct (Z.eqb_spec k (-1)) as [E1|E1].
    + destruct (length data <? loc + krank K); [discriminate|].
      rewrite (IH _ _ _ Hms' E). rewrite skipn_plus. reflexivity.
    + destruct (Z.ltb_spec k (Z.of_nat (length (kfactors K)))) as [H1|]; [|discriminate].
      rewrite py_index_nonneg in E by lia.
      destruct (length data <? _); [discriminate|].
      rewrite (IH _ _ _ Hms' E). rewrite skipn_plus. reflexivity.
Qed.

(* the loop never changes rank or shape when it assigns (whether it finishes or stops) — needed data present at each assignment *)
Lemma py_update_loop_rank_shape (data : list V) : forall ms (K : ktensor V) loc,
  krank (snd (py_update_loop v0 ms data loc K)) = krank K /\ kshape (snd (py_update_loop v0 ms data loc K)) = kshape K.
Proof.
  induction ms as [|k ms IH]; intros K loc; cbn [py_update_loop]; [split; reflexivity|].
  destruct (k =? -1)%Z.
  - destruct (Nat.ltb_spec (length data) (loc + krank K)) as [|Hge]; [split; reflexivity|].
    destruct (IH (mkK (firstn (krank K) (skipn loc data)) (kfactors K)) (loc + krank K)) as [A B].
    rewrite A, B. split; [apply set_weights_rank; exact Hge|reflexivity].
  - destruct (k <? _)%Z; [|split; reflexivity].
    destruct (py_index _ k) as [j|]; [|split; reflexivity].
    destruct (length data <? _); [split; reflexivity|].
    match goal with |- context [py_update_loop v0 ms data ?l ?K1] => destruct (IH K1 l) as [A B] end.
    rewrite A, B. split; [reflexivity|apply set_factor_shape].
Qed.

(* ---------------------------------------------------------------- update *)
Theorem py_update_accepts_iff (ms : list Z) (data : list V) (K : ktensor V) :
  fst (py_update v0 ms data K) = py_strict_asc ms && py_validate K ms data.
Proof.
  unfold py_update. destruct (py_strict_asc ms); [|reflexivity]. cbn [andb].
  destruct (py_validate K ms data) eqn:EV; [|reflexivity].
  unfold py_validate in EV. destruct (py_needed K ms 0) as [tot|] eqn:EN; [|discriminate].
  apply Nat.leb_le in EV. exact (py_update_loop_after_validate data ms K K 0 tot eq_refl eq_refl EN EV).
Qed.

Theorem py_update_rejected_unchanged (ms : list Z) (data : list V) (K : ktensor V) :
  fst (py_update v0 ms data K) = false -> snd (py_update v0 ms data K) = K.
Proof.
  intros H. rewrite py_update_accepts_iff in H. unfold py_update.
  destruct (py_strict_asc ms); [|reflexivity]. cbn [andb] in H. now rewrite H.
Qed.

Theorem py_update_accepted_model (ms : list Z) (data : list V) (K : ktensor V) :
  fst (py_update v0 ms data K) = true -> snd (py_update v0 ms data K) = k_update v0 (map mopt ms) data K.
Proof.
  intros H. pose proof H as H'. rewrite py_update_accepts_iff in H'. apply andb_true_iff in H' as [HA HV].
  unfold py_update in *. rewrite HA, HV in *.
  unfold py_validate in HV. destruct (py_needed K ms 0) as [tot|] eqn:EN; [|discriminate].
  destruct (py_update_loop v0 ms data 0 K) as [b K'] eqn:EL. cbn [fst snd] in *. subst b.
  apply (py_update_loop_model data ms K K' 0); [|exact EL].
  intros k Hk. destruct (py_needed_modes K ms 0 tot EN k Hk); lia.
Qed.

Theorem py_update_spec (ms : list Z) (data : list V) (K : ktensor V) :
  py_update v0 ms data K =
  if py_strict_asc ms && py_validate K ms data then (true, k_update v0 (map mopt ms) data K) else (false, K).
Proof.
  pose proof (py_update_accepts_iff ms data K) as HA.
  destruct (py_strict_asc ms && py_validate K ms data).
  - rewrite (surjective_pairing (py_update v0 ms data K)), HA. f_equal. now apply py_update_accepted_model.
  - rewrite (surjective_pairing (py_update v0 ms data K)), HA. f_equal. now apply py_update_rejected_unchanged.
Qed.

Theorem py_update_keeps_rank_shape (ms : list Z) (data : list V) (K : ktensor V) :
  krank (snd (py_update v0 ms data K)) = krank K /\ kshape (snd (py_update v0 ms data K)) = kshape K.
Proof.
  unfold py_update. destruct (py_strict_asc ms); [|split; reflexivity].
  destruct (py_validate K ms data); [apply py_update_loop_rank_shape|split; reflexivity].
Qed.

(* ---------------------------------------------------------------- all modes, weights first *)
Definition all_modes (N : nat) : list Z := (-1)%Z :: map Z.of_nat (seq 0 N).

Lemma strict_asc_seq : forall n a, py_strict_asc (map Z.of_nat (seq a n)) = true.
Proof.
  induction n as [|n IH]; intros a; [reflexivity|]. cbn [seq map]. specialize (IH (S a)).
  destruct n as [|n]; [reflexivity|]. cbn [seq map] in *. cbn [py_strict_asc] in *. rewrite IH.
  replace (Z.of_nat a <? Z.of_nat (S a))%Z with true by (symmetry; apply Z.ltb_lt; lia). reflexivity.
Qed.

Lemma strict_asc_all N : py_strict_asc (all_modes N) = true.
Proof.
  unfold all_modes. pose proof (strict_asc_seq N 0) as H. destruct N as [|N]; [reflexivity|].
  cbn [seq map] in *. cbn [py_strict_asc] in *. rewrite H. reflexivity.
Qed.

Lemma py_needed_factors (K : ktensor V) : forall n a acc, a + n <= length (kfactors K) ->
  py_needed K (map Z.of_nat (seq a n)) acc = Some (acc + krank K * sum_nat (firstn n (skipn a (kshape K)))).
Proof.
  induction n as [|n IH]; intros a acc H; cbn [seq map py_needed].
  - cbn [firstn sum_nat fold_right]. f_equal. lia.
  - destruct (Z.eqb_spec (Z.of_nat a) (-1)); [lia|].
    replace (0 <=? Z.of_nat a)%Z with true by (symmetry; apply Z.leb_le; lia).
    replace (Z.of_nat a <? Z.of_nat (length (kfactors K)))%Z with true by (symmetry; apply Z.ltb_lt; lia). cbn [andb].
    rewrite Nat2Z.id, IH by lia. f_equal.
    assert (Ha : a < length (kshape K)) by (unfold kshape; rewrite map_length; lia).
    assert (ES : skipn a (kshape K) = nth a (kshape K) 0 :: skipn (S a) (kshape K)).
    { clear -Ha. revert a Ha. induction (kshape K) as [|x l IHl]; intros [|a] Ha; cbn [length] in Ha; try lia; [reflexivity|].
      cbn [skipn nth]. apply IHl. lia. }
    rewrite ES. cbn [firstn sum_nat fold_right]. fold (sum_nat (firstn n (skipn (S a) (kshape K)))). lia.
Qed.

Lemma mopt_all_modes N : map mopt (all_modes N) = None :: map Some (seq 0 N).
Proof.
  unfold all_modes. cbn [map]. f_equal. rewrite map_map. apply map_ext. intros j. unfold mopt.
  destruct (Z.eqb_spec (Z.of_nat j) (-1)); [lia|]. now rewrite Nat2Z.id.
Qed.

Theorem py_update_all_modes (v1 : V) (K : ktensor V) (data : list V) :
  length data = krank K * (sum_nat (kshape K) + 1) ->
  py_update v0 (all_modes (length (kfactors K))) data K = (true, k_from_vector v0 v1 data (kshape K) true).
Proof.
  intros HL. rewrite py_update_spec, strict_asc_all. cbn [andb].
  assert (EV : py_validate K (all_modes (length (kfactors K))) data = true).
  { unfold py_validate, all_modes. cbn [py_needed]. rewrite py_needed_factors by lia. cbn [skipn].
    replace (length (kfactors K)) with (length (kshape K)) by (unfold kshape; apply map_length).
    rewrite firstn_all. apply Nat.leb_le. lia. }
  rewrite EV, mopt_all_modes. f_equal. exact (update_all_modes V v0 v1 K data HL).
Qed.

End U8.

(* ---------------------------------------------------------------- examples (non-vacuity, regression of the repaired defect) *)
Local Open Scope Z_scope.
Definition exU8 : ktensor Z := mkK [1; 1] [[[0; 0]; [0; 0]]; [[0; 0]; [0; 0]; [0; 0]]].

(* accepted: weights and factor 1 replaced *)
Example ex_py_update_accepted :
  py_update 0 [-1; 1] [11; 12; 5; 6; 7; 8; 9; 10] exU8 = (true, mkK [11; 12] [[[0; 0]; [0; 0]]; [[5; 8]; [6; 9]; [7; 10]]]).
Proof. reflexivity. Qed.

(* the witnesses of the repaired defect (C19-N25): invalid LATER mode / data too short for the SECOND block / repeated mode —
   rejected, receiver untouched; the one-pass loop (before b9311d6) had already overwritten factor 0 / the weights *)
Example ex_py_update_rejected :
  py_update 0 [0; 5] [1; 2; 3; 4; 5; 6] exU8 = (false, exU8) /\
  py_update 0 [-1; 0] [7; 8; 9] exU8 = (false, exU8) /\
  py_update 0 [0; 0] [1; 2; 3; 4; 5; 6; 7; 8] exU8 = (false, exU8) /\
  py_update 0 [-2] [1; 2; 3; 4; 5; 6] exU8 = (false, exU8) /\
  py_update 0 [1; -1] [5; 6; 7; 8; 9; 10; 11; 12] exU8 = (false, exU8).
Proof. repeat split; reflexivity. Qed.

Example ex_one_pass_not_atomic :
  py_update_one_pass 0 [0; 5] [1; 2; 3; 4; 5; 6] exU8 = (false, mkK [1; 1] [[[1; 3]; [2; 4]]; [[0; 0]; [0; 0]; [0; 0]]]) /\
  py_update_one_pass 0 [-1; 0] [7; 8; 9] exU8 = (false, mkK [7; 8] [[[0; 0]; [0; 0]]; [[0; 0]; [0; 0]; [0; 0]]]) /\
  (* a negative mode other than -1 indexed from the end: [-2] silently rewrote factor 0 *)
  py_update_one_pass 0 [-2] [1; 2; 3; 4] exU8 = (true, mkK [1; 1] [[[1; 3]; [2; 4]]; [[0; 0]; [0; 0]; [0; 0]]]).
Proof. repeat split; reflexivity. Qed.
