(* Props/C10Loop.v — control flow of hosvd and tucker_als (Model/C10Loop.v: transliteration of hosvd.py / tucker_als.py with the
   numerics as arbitrary oracles).  Only statements, `exact`, Print Assumptions. *)
From Coq Require Import List Arith Bool Permutation.
From PV Require Import Model.Sparse Model.C10Tucker Model.C10Loop Proofs.C10LoopProofs.
Import ListNotations.

(* `tuple(range(d)) != tuple(sorted(dimorder))` rejects exactly the lists that are not a permutation of range(d) *)
Theorem C10_dimorder_validation : forall (d : nat) (o : list nat), dimorder_ok d o = true <-> Permutation o (seq 0 d).
Proof. exact dimorder_ok_iff. Qed.
Print Assumptions C10_dimorder_validation.

Section C10_hosvd_loop.
Variables T Fac V : Type.
Variables (v0 : V) (vadd : V -> V -> V) (vltb : V -> V -> bool).
Variable eigvals : T -> nat -> list V.
Variable leading : T -> nat -> nat -> Fac.
Variable ttm_t : T -> Fac -> nat -> T.
Variable ttm_all_t : T -> list Fac -> T.
Variable fac0 : Fac.
Variable sequential : bool.
Variable thresh : V.
Notation run := (hosvd_run T Fac V v0 vadd vltb eigvals leading ttm_t ttm_all_t fac0 sequential thresh).
Notation seenT := (seen T Fac ttm_t fac0 sequential).
Notation decided := (rank_decided T V v0 vadd vltb eigvals thresh).

(* a ranks vector of the wrong length and a dimorder that is not a permutation are rejected (ValueError), in this order *)
Theorem C10_hosvd_rejects : forall X d ranks_arg dimorder_arg,
  (match ranks_arg with Some r => length r <> d | None => False end -> run X d ranks_arg dimorder_arg = HErr ErrRanksLen) /\
  (match ranks_arg with Some r => length r = d | None => True end ->
   match dimorder_arg with Some o => ~ Permutation o (seq 0 d) | None => False end ->
   run X d ranks_arg dimorder_arg = HErr ErrDimorder).
Proof. exact (hosvd_run_rejects T Fac V v0 vadd vltb eigvals leading ttm_t ttm_all_t fac0 sequential thresh). Qed.

(* an accepted request: d factors; every mode k is treated exactly once, at its position in dimorder, on the tensor seen there
   (the original one, or the one shrunk by the FINAL factors of the modes before it when sequential); its factor is the leading
   block for the final ranks[k], which is the requested entry when that is non-zero and the rank rule's value otherwise;
   the core is the fully shrunk tensor (sequential) or X multiplied by all transposed factors (non-sequential) *)
Theorem C10_hosvd_bookkeeping : forall X d ranks_arg dimorder_arg G Us ranks',
  run X d ranks_arg dimorder_arg = HOk (G, Us, ranks') ->
  let ranks := match ranks_arg with None => repeat 0 d | Some r => r end in
  let dimorder := match dimorder_arg with None => seq 0 d | Some o => o end in
  length ranks = d /\ Permutation dimorder (seq 0 d) /\
  length Us = d /\ length ranks' = d /\
  (forall k, k < d -> exists pre post, dimorder = pre ++ k :: post /\
      let Yk := seenT Us pre X in
      nth k Us fac0 = leading Yk k (nth k ranks' 0) /\ decided (nth k ranks 0) Yk k (nth k ranks' 0)) /\
  G = (if sequential then fold_left (shrink T Fac ttm_t fac0 Us) dimorder X else ttm_all_t X Us).
Proof. exact (hosvd_run_ok T Fac V v0 vadd vltb eigvals leading ttm_t ttm_all_t fac0 sequential thresh). Qed.
End C10_hosvd_loop.
Print Assumptions C10_hosvd_rejects.
Print Assumptions C10_hosvd_bookkeeping.

Section C10_tals_loop.
Variables Fac Ut Core F : Type.
Variable project : list Fac -> nat -> Ut.
Variable nvecs : Ut -> nat -> nat -> Fac.
Variable core_of : Ut -> list Fac -> nat -> Core.
Variable normres_of : Core -> F.
Variable fit_of : F -> F.
Variable fchange_lt : F -> F -> F -> bool.
Variable fit0 : F.
Variable rank : list nat.
Variable dimorder : list nat.
Variable stoptol : F.
Variable printitn : nat.
Notation run := (tals_run Fac Ut Core F project nvecs core_of normres_of fit_of fchange_lt fit0 rank dimorder stoptol printitn).
Notation iterU := (iter_sweep Fac Ut project nvecs rank dimorder).
Notation fitat := (fit_at Fac Ut Core F project nvecs core_of normres_of fit_of rank dimorder).
Notation fitbefore := (fit_before Fac Ut Core F project nvecs core_of normres_of fit_of fit0 rank dimorder).

(* maxiters = 0 passes the argument checks but `core` is never bound: no result (UnboundLocalError in pyttb: known finding C10-N01, kept by design decision) *)
Theorem C10_tals_maxiters_zero : forall Uinit, run Uinit 0 = None.
Proof. exact (tals_run_zero Fac Ut Core F project nvecs core_of normres_of fit_of fchange_lt fit0 rank dimorder stoptol printitn). Qed.

Theorem C10_tals_total : forall m Uinit, dimorder <> [] -> 0 < m -> exists r, run Uinit m = Some r.
Proof. exact (tals_run_total Fac Ut Core F project nvecs core_of normres_of fit_of fchange_lt fit0 rank dimorder stoptol printitn). Qed.

(* iteration count, fit trace, returned factors and init, and the stopping rule *)
Theorem C10_tals_bookkeeping : forall m Uinit r, dimorder <> [] -> run Uinit m = Some r ->
  0 < m /\ tr_iters _ _ _ r < m /\
  tr_init _ _ _ r = Uinit /\
  length (tr_U _ _ _ r) = length Uinit /\
  tr_U _ _ _ r = iterU (S (tr_iters _ _ _ r)) Uinit /\
  length (tr_trace _ _ _ r) = S (tr_iters _ _ _ r) /\
  nth_error (tr_trace _ _ _ r) (tr_iters _ _ _ r) = Some (tr_fit _ _ _ r) /\
  (forall i, i <= tr_iters _ _ _ r -> nth_error (tr_trace _ _ _ r) i = fitat Uinit i) /\
  (forall i, i < tr_iters _ _ _ r -> exists fo fi, fitbefore Uinit i = Some fo /\ fitat Uinit i = Some fi /\
                                                     fchange_lt fo fi stoptol = false) /\
  (tr_iters _ _ _ r < m - 1 -> exists fo, fitbefore Uinit (tr_iters _ _ _ r) = Some fo /\
                                          fchange_lt fo (tr_fit _ _ _ r) stoptol = true).
Proof. exact (tals_run_spec Fac Ut Core F project nvecs core_of normres_of fit_of fchange_lt fit0 rank dimorder stoptol printitn). Qed.
End C10_tals_loop.
Print Assumptions C10_tals_maxiters_zero.
Print Assumptions C10_tals_total.
Print Assumptions C10_tals_bookkeeping.

(* non-vacuity *)
Example C10_example_hosvd_loop :
  ex_hosvd true [] 3 (Some [0; 2; 0]) (Some [2; 0; 1]) =
    HOk ([1; 0; 2], [(0, 2, [2]); (1, 2, [0; 2]); (2, 3, [])], [2; 2; 3]) /\
  ex_hosvd false [] 3 None None = HOk ([99], [(0, 2, []); (1, 2, []); (2, 3, [])], [2; 2; 3]) /\
  ex_hosvd true [] 3 (Some [1; 1]) None = HErr ErrRanksLen /\
  ex_hosvd true [] 3 None (Some [0; 1; 1]) = HErr ErrDimorder /\
  hosvd_run (list nat) (nat * nat * list nat) nat 0 Nat.add Nat.ltb ex_eig ex_lead ex_ttm (fun Y _ => Y) (7, 7, []) true 100
            [] 2 None None = HErr ErrIndex.
Proof. exact hosvd_run_example. Qed.
Example C10_example_tals_loop :
  ex_tals 1 0 0 = None /\
  option_map (fun r => (tr_iters _ _ _ r, tr_trace _ _ _ r, tr_fit _ _ _ r, tr_init _ _ _ r, tr_log _ _ _ r)) (ex_tals 1 10 2) =
    Some (2, [79; 100; 100], 100, [5; 6], [TEvHeader nat; TEvIter nat 0 79 0; TEvIter nat 2 100 100]) /\
  option_map (fun r => (tr_iters _ _ _ r, tr_trace _ _ _ r)) (ex_tals 1 2 0) = Some (1, [79; 100]) /\
  option_map (fun r => tr_U _ _ _ r) (ex_tals 1 1 0) = Some [20; 14].
Proof. exact tals_run_example. Qed.
