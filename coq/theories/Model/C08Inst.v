(* Model/C08Inst.v — Z and Qc instances of the Kruskal models (Model/C08Kruskal.v) with EXACT oracles, and the
   boolean comparers used by the generated correspondence cases of C08 (and the Kruskal part of C15).
   Oracles over Qc: 1-norm = sum of |x|; 2-norm = exact square root (the generators only produce columns whose
   sum of squares is a perfect square of a rational); N-th root = exact root of a perfect N-th power. *)
From Coq Require Import List ZArith QArith Qabs Qcanon Bool Arith.
From PV Require Import Base.Index Base.Perm Base.Sum Np.Array Model.Sparse Model.Repr Model.Harness Model.C08Kruskal.
Import ListNotations.

(* ---------------------------------------------------------------- Z *)
Definition zk_eqb (A B : ktensor Z) : bool :=
  vec_eqb (kweights A) (kweights B) && list_eqb mat_eqb (kfactors A) (kfactors B).
Definition forall_idx (s : shape) (p : idx -> bool) : bool := forallb (fun k => p (ind2sub s k)) (seq 0 (size s)).
Definition zk_den_eqb (s : shape) (A B : ktensor Z) : bool :=
  nvec_eqb (kshape A) s && nvec_eqb (kshape B) s && forall_idx s (fun i => Z.eqb (zden_k A i) (zden_k B i)).
Definition zk_gather := @k_gather Z 0%Z.
Definition zk_permute := @k_permute Z.
Definition zk_redistribute := @k_redistribute Z 1%Z Z.mul.
Definition zk_add := @k_add Z.
Definition zk_sub := @k_sub Z Z.opp.
Definition zk_neg := @k_neg Z Z.opp.
Definition zk_scale := @k_scale Z Z.mul.
Definition zk_tovec := @k_tovec Z 0%Z.
Definition zk_from_vector := @k_from_vector Z 0%Z 1%Z.
Definition zk_update := @k_update Z 0%Z.
(* sign of the first entry of largest magnitude is -1 *)
Definition z_negcol (l : list Z) : bool :=
  let m := fold_left Z.max (map Z.abs l) 0%Z in
  match find (fun x => Z.eqb (Z.abs x) m) l with Some x => Z.ltb x 0 | None => false end.
Definition zk_fixsigns := @k_fixsigns Z 0%Z 1%Z Z.mul Z.opp z_negcol.
Definition zk_wfb (K : ktensor Z) : bool :=
  forallb (fun A => forallb (fun r => Nat.eqb (length r) (krank K)) A) (kfactors K).

(* ---------------------------------------------------------------- Qc *)
Definition qopp := Qcopp. Definition qinv := Qcinv.
Definition q_pos (x : Qc) : bool := negb (qleb x q0).
Definition q_neg (x : Qc) : bool := negb (qleb q0 x).
Definition q_sqrt (q : Qc) : Qc := Q2Qc (Z.sqrt (Qnum (this q)) # Pos.sqrt (Qden (this q))).
Definition q_norm (t : nat) (l : list Qc) : Qc :=
  if Nat.eqb t 1 then sumv q0 Qcplus (map qabs l) else q_sqrt (sumv q0 Qcplus (map (fun x => Qcmult x x) l)).
Definition z_root (N : nat) (n : Z) : Z :=
  match find (fun k => Z.eqb (Z.pow k (Z.of_nat N)) n) (map Z.of_nat (seq 0 400)) with Some k => k | None => 0%Z end.
Definition q_root (N : nat) (q : Qc) : Qc := Q2Qc (z_root N (Qnum (this q)) # Z.to_pos (z_root N (Zpos (Qden (this q))))).
Definition q_sgn (x : Qc) : Qc := if q_neg x then Qcopp q1 else if q_pos x then q1 else q0.
Definition q_is_one (x : Qc) : bool := Qc_eq_bool x q1.
Definition q_negcol (l : list Qc) : bool :=
  let m := fold_left qmax (map qabs l) q0 in
  match find (fun x => Qc_eq_bool (qabs x) m) l with Some x => q_neg x | None => false end.

Definition qk_close (A B : ktensor Qc) : bool :=
  qvec_close tol9 (kweights A) (kweights B) && list_eqb (list_eqb (qvec_close tol9)) (kfactors A) (kfactors B).
Definition qmats_close (A B : list (list (list Qc))) : bool := list_eqb (list_eqb (qvec_close tol9)) A B.
(* the array denoted by the observed result B is (within the float tolerance) the array denoted by A *)
Definition qk_den_close (s : shape) (A B : ktensor Qc) : bool :=
  nvec_eqb (kshape A) s && nvec_eqb (kshape B) s && forall_idx s (fun i => qclose tol9 (qden_k B i) (qden_k A i)).
Definition qk_den_eqb (s : shape) (A B : ktensor Qc) : bool :=
  nvec_eqb (kshape A) s && nvec_eqb (kshape B) s && forall_idx s (fun i => Qc_eq_bool (qden_k B i) (qden_k A i)).

(* t = normtype (1 | 2); N-th root with N = number of modes *)
Definition qk_normalize (t : nat) (wf : wfac) (sort : bool) (mode : option nat) (K : ktensor Qc) : ktensor Qc :=
  k_normalize q0 q1 Qcmult Qcopp Qcinv (q_norm t) q_pos q_neg (q_root (length (kfactors K))) (argsort_desc qleb) wf sort mode K.
Definition qk_arrange (wf : option nat) (K : ktensor Qc) : ktensor Qc :=
  k_arrange q0 q1 Qcmult Qcopp Qcinv (q_norm 2) q_pos q_neg (q_root (length (kfactors K))) (argsort_desc qleb) wf K.
Definition qk_gather := @k_gather Qc q0.
Definition qk_scale := @k_scale Qc Qcmult.
Definition qk_tolist_mode (n : nat) (K : ktensor Qc) :=
  k_tolist_mode q0 q1 Qcmult Qcopp Qcinv (q_norm 2) q_pos q_neg (q_root (length (kfactors K))) (argsort_desc qleb) n K.
Definition qk_tolist (K : ktensor Qc) :=
  k_tolist Qcmult (q_root (length (kfactors K))) q_sgn qabs q_is_one K.
Definition qk_fixsigns_other (A B : ktensor Qc) : ktensor Qc :=
  k_fixsigns_other_core q0 q1 Qcplus Qcmult Qcopp q_neg qleb
    (qk_normalize 2 WNone false None A) (qk_normalize 2 WNone false None B).
Definition qk_ones_k (fs : list (list (list Qc))) (R : nat) : ktensor Qc := mkK (repeat q1 R) fs.

(* sorting is pinned only up to the order of equal weights: O is SOME descending arrangement of M *)
Fixpoint insert_all (x : nat) (l : list nat) : list (list nat) :=
  match l with [] => [[x]] | y :: l' => (x :: l) :: map (cons y) (insert_all x l') end.
Fixpoint perms_of (l : list nat) : list (list nat) :=
  match l with [] => [[]] | x :: l' => flat_map (insert_all x) (perms_of l') end.
Fixpoint q_desc_exact (l : list Qc) : bool :=
  match l with x :: ((y :: _) as l') => qleb y x && q_desc_exact l' | _ => true end.
Definition qk_sorted_of (post : ktensor Qc -> ktensor Qc) (M O : ktensor Qc) : bool :=
  existsb (fun p => let G := qk_gather p M in q_desc_exact (kweights G) && qk_close (post G) O) (perms_of (seq 0 (krank M))).
Definition qk_redistribute := @k_redistribute Qc q1 Qcmult.

(* normal-form predicates evaluated on an OBSERVED result (within tolerance) *)
(* 1-norm, or the SQUARE of the 2-norm (no root needed on observed float data) *)
Definition q_normp (t : nat) (l : list Qc) : Qc :=
  if Nat.eqb t 1 then sumv q0 Qcplus (map qabs l) else sumv q0 Qcplus (map (fun x => Qcmult x x) l).
Definition qk_unit_cols (t : nat) (K : ktensor Qc) : bool :=
  forallb (fun A => forallb (fun r => let n := q_normp t (col q0 A r) in
                                      Qc_eq_bool n q0 || qclose tol6 n q1) (seq 0 (krank K))) (kfactors K).
Fixpoint q_desc (l : list Qc) : bool :=
  match l with x :: ((y :: _) as l') => qleb y x && q_desc l' | _ => true end.
Definition q_nonneg (l : list Qc) : bool := forallb (fun x => qleb q0 x) l.
Definition q_all_one (l : list Qc) : bool := forallb (fun x => qclose tol9 x q1) l.
(* a component with a zero column (in any factor) carries weight 0 *)
Definition q_zero_col (A : list (list Qc)) (r : nat) : bool := forallb (fun x => Qc_eq_bool x q0) (col q0 A r).
Definition qk_zero_weight (K : ktensor Qc) : bool :=
  forallb (fun r => negb (existsb (fun A => q_zero_col A r) (kfactors K)) || Qc_eq_bool (nth r (kweights K) q0) q0)
          (seq 0 (krank K)).
(* fixsigns(other), sign-agreement normal form evaluated on an observed result O: per component of the reference, no mode
   correlates negatively with the (normalised) reference when the number of negative correlations was even, at most one
   when it was odd *)
Definition qk_neg_scores (A B : ktensor Qc) (r : nat) : nat := length (filter q_neg (fso_scores q0 Qcplus Qcmult A B r)).
Definition qk_sign_nf (K L O : ktensor Qc) : bool :=
  let A := qk_normalize 2 WNone false None K in
  let B := qk_normalize 2 WNone false None L in
  forallb (fun r => let c := qk_neg_scores A B r in let c' := qk_neg_scores O B r in
                    if Nat.even c then Nat.eqb c' 0 else Nat.leb c' 1) (seq 0 (krank B)).
