(* Proofs/C12HandleNum.v — the numeric tie of the ten real GCP handles DECIDED IN COQ (audit A6).
   R is not computable, so the values pyttb's handles return at rational points cannot be compared with Gen/GenHandles.v by
   evaluation.  Here each generated handle is re-expressed as an arithmetic expression [hexp] (equality with the GENERATED
   definition proved, for all arguments), the expression is compiled to a straight-line program of the Interval library and
   evaluated with its verified floating-point interval evaluator (radix-2 floats over Coq's Z, no primitive floats / ints).
   Soundness theorem (for every handle, every rational point, every observed value, every tolerance):
       hnum_check ... = true  ->  | handle(data, model[, param]) - observed | <= tolerance        (over R)
   The correspondence stream evaluates hnum_check (a closed boolean, vm_compute) on pyttb's float results.
   Trusted: nothing beyond Coq + the Interval library's proofs (axioms: the ones of the stdlib Reals). *)
From Coq Require Import Reals List ZArith Lra Lia Bool.
From Interval Require Import Specific_stdz Specific_ops Float_full Interval Xreal Tree Prog Eval.
From PV Require Import Np.NpR Gen.GenHandles.
Import ListNotations.

Module HF := SpecificFloat StdZRadix2.
Module HI := FloatIntervalFull HF.
Module HA := IntervalAlgos HI.

(* ------------------------------------------------------------------------------------------------------------------ *)
(* expressions, their value over R, compilation to Interval's straight-line programs                                    *)
(* ------------------------------------------------------------------------------------------------------------------ *)
Inductive hexp : Set :=
  | HV (n : nat)
  | HU (o : unary_op) (e : hexp)
  | HB (o : binary_op) (a b : hexp).

Fixpoint heval (e : hexp) (vars : list R) : R :=
  match e with
  | HV n => nth n vars 0%R
  | HU o e => unary_real o (heval e vars)
  | HB o a b => binary_real o (heval a vars) (heval b vars)
  end.

(* k = number of temporaries already pushed in front of the variables *)
Fixpoint compile (e : hexp) (k : nat) : list term :=
  match e with
  | HV n => [Forward (n + k)]
  | HU o e => compile e k ++ [Unary o 0]
  | HB o a b =>
      let pa := compile a k in
      let pb := compile b (k + length pa) in
      pa ++ pb ++ [Binary o (length pb) 0]
  end.

Lemma eval_real_app p1 p2 l : eval_real (p1 ++ p2) l = eval_real p2 (eval_real p1 l).
Proof. unfold eval_real, eval_generic. apply fold_left_app. Qed.

Lemma compile_inv : forall e k tmp vars, length tmp = k ->
  exists tmp', eval_real (compile e k) (tmp ++ vars) = heval e vars :: tmp' ++ tmp ++ vars
               /\ S (length tmp') = length (compile e k).
Proof.
  induction e as [n|o e IH|o a IHa b IHb]; intros k tmp vars Hk; cbn [compile heval].
  - exists []. split; [|reflexivity].
    unfold eval_real, eval_generic. cbn [fold_left]. unfold eval_generic_body.
    f_equal. rewrite app_nth2 by lia. f_equal. lia.
  - destruct (IH k tmp vars Hk) as (t1 & E1 & L1).
    exists (heval e vars :: t1). split.
    + rewrite eval_real_app, E1. reflexivity.
    + rewrite app_length. cbn [length]. lia.
  - destruct (IHa k tmp vars Hk) as (ta & Ea & La).
    set (pa := compile a k) in *.
    assert (Hk2 : length ((heval a vars :: ta) ++ tmp) = k + length pa)
      by (rewrite app_length; cbn [length]; lia).
    destruct (IHb (k + length pa) ((heval a vars :: ta) ++ tmp) vars Hk2) as (tb & Eb & Lb).
    set (pb := compile b (k + length pa)) in *.
    exists (heval b vars :: tb ++ heval a vars :: ta). split.
    + rewrite !eval_real_app, Ea.
      replace (heval a vars :: ta ++ tmp ++ vars) with (((heval a vars :: ta) ++ tmp) ++ vars)
        by (rewrite <- app_assoc; reflexivity).
      rewrite Eb. unfold eval_real at 1, eval_generic. cbn [fold_left]. unfold eval_generic_body.
      f_equal.
      * f_equal.
        replace (heval b vars :: tb ++ ((heval a vars :: ta) ++ tmp) ++ vars)
          with ((heval b vars :: tb) ++ heval a vars :: (ta ++ tmp) ++ vars)
          by (cbn [app]; rewrite <- !app_assoc; reflexivity).
        rewrite app_nth2 by (cbn [length]; lia).
        replace (length pb - length (heval b vars :: tb))%nat with 0%nat by (cbn [length]; lia).
        reflexivity.
      * repeat (rewrite <- app_assoc || rewrite <- app_comm_cons). reflexivity.
    + rewrite !app_length. cbn [length]. rewrite app_length. cbn [length]. lia.
Qed.

Theorem compile_ok e vars : nth 0 (eval_real (compile e 0) vars) 0%R = heval e vars.
Proof.
  destruct (compile_inv e 0%nat [] vars eq_refl) as (t & E & _).
  cbn [app] in E. rewrite E. reflexivity.
Qed.

(* ------------------------------------------------------------------------------------------------------------------ *)
(* variables: integers (numerators / denominators / integer constants) followed by PI; interval enclosures                *)
(* ------------------------------------------------------------------------------------------------------------------ *)
Local Open Scope R_scope.
Definition hvars (zs : list Z) : list R := map IZR zs ++ [PI].
Definition hbounds (prec : Z) (zs : list Z) : list HI.type := map (HI.fromZ prec) zs ++ [HI.pi prec].

Lemma nth_map_d {A B} (f : A -> B) (l : list A) (n : nat) (dA : A) (dB : B) :
  (n < length l)%nat -> nth n (map f l) dB = f (nth n l dA).
Proof.
  revert n. induction l as [|a l IH]; intros [|n] H; cbn in *; try lia; [reflexivity|]. apply IH. lia.
Qed.

Lemma hbounds_ok prec zs : HA.contains_all (hbounds prec zs) (hvars zs).
Proof.
  split. { unfold hbounds, hvars. now rewrite !app_length, !map_length. }
  intros n. unfold hbounds, hvars.
  destruct (Nat.lt_ge_cases n (length zs)) as [H|H].
  - rewrite !app_nth1 by (now rewrite map_length).
    rewrite (nth_map_d (HI.fromZ prec) zs n 0%Z HI.nai H), (nth_map_d IZR zs n 0%Z 0 H).
    apply HI.fromZ_correct.
  - rewrite !app_nth2 by (now rewrite map_length). rewrite !map_length.
    destruct (n - length zs)%nat as [|[|q]]; cbn [nth].
    + apply HI.pi_correct.
    + unfold HI.nai. exact I.
    + unfold HI.nai. exact I.
Qed.

Definition hres (prec : Z) (e : hexp) (zs : list Z) : HI.type :=
  nth 0 (HA.BndValuator.eval prec (compile e 0) (hbounds prec zs)) HI.nai.

Lemma hres_ok prec e zs : contains (HI.convert (hres prec e zs)) (Xreal (heval e (hvars zs))).
Proof.
  unfold hres. rewrite <- compile_ok.
  apply HA.BndValuator.eval_correct'. apply hbounds_ok.
Qed.

(* value <= 0 / value < 0, decided by the interval evaluator *)
Definition hle0 (prec : Z) (e : hexp) (zs : list Z) : bool :=
  match HI.sign_large (hres prec e zs) with Xlt | Xeq => true | _ => false end.
Definition hlt0 (prec : Z) (e : hexp) (zs : list Z) : bool :=
  match HI.sign_strict (hres prec e zs) with Xlt => true | _ => false end.

Theorem hle0_sound prec e zs : hle0 prec e zs = true -> heval e (hvars zs) <= 0.
Proof.
  unfold hle0. intros H. pose proof (HI.sign_large_correct (hres prec e zs)) as S.
  pose proof (hres_ok prec e zs) as C.
  destruct (HI.sign_large (hres prec e zs)); try discriminate.
  - specialize (S _ C). injection S as S. rewrite S. lra.
  - destruct (S _ C) as [_ S']. exact S'.
Qed.

Theorem hlt0_sound prec e zs : hlt0 prec e zs = true -> heval e (hvars zs) < 0.
Proof.
  unfold hlt0. intros H. pose proof (HI.sign_strict_correct (hres prec e zs)) as S.
  pose proof (hres_ok prec e zs) as C.
  destruct (HI.sign_strict (hres prec e zs)); try discriminate.
  destruct (S _ C) as [_ S']. exact S'.
Qed.

(* ------------------------------------------------------------------------------------------------------------------ *)
(* the handles as expressions.  Variable layout (zs):                                                                   *)
(*   0 dn 1 dd   data = dn/dd        2 mn 3 md   model = mn/md       4 pn 5 pd   extra parameter = pn/pd                 *)
(*   6 on 7 od   observed = on/od    8 tn 9 td   tolerance = tn/td   10: 1   11: 2   12: 4   13: 10^10   14: PI          *)
(* ------------------------------------------------------------------------------------------------------------------ *)
Definition hzs (dn dd mn md pn pd on od tn td : Z) : list Z :=
  [dn; dd; mn; md; pn; pd; on; od; tn; td; 1; 2; 4; 10000000000]%Z.

Local Notation "a /' b" := (HB Div a b) (at level 40, left associativity).
Local Notation "a *' b" := (HB Mul a b) (at level 40, left associativity).
Local Notation "a +' b" := (HB Add a b) (at level 50, left associativity).
Local Notation "a -' b" := (HB Sub a b) (at level 50, left associativity).

Definition xd := HV 0 /' HV 1.
Definition xm := HV 2 /' HV 3.
Definition xp := HV 4 /' HV 5.
Definition xobs := HV 6 /' HV 7.
Definition xtol := HV 8 /' HV 9.
Definition x1 := HV 10.
Definition x2 := HV 11.
Definition x4 := HV 12.
Definition xeps := x1 /' HV 13.
Definition xpi := HV 14.
Definition xln e := HU Ln e.
Definition xexp e := HU Exp e.
Definition xpow e (n : Z) := HU (PowerInt n) e.
Definition xrpow a b := xexp (b *' xln a).
Definition xabs e := HU Abs e.
Definition xneg e := HU Neg e.

(* |e - observed| - tolerance *)
Definition xclose (e : hexp) : hexp := xabs (e -' xobs) -' xtol.

(* handle numbers: 2 * objective index (order of fg_setup: GAUSSIAN BERNOULLI_ODDS BERNOULLI_LOGIT POISSON POISSON_LOG RAYLEIGH
   GAMMA HUBER NEGATIVE_BINOMIAL BETA) + (0 = loss, 1 = gradient); HUBER (14, 15) has its own checker below *)
Definition hexp_of (id : nat) : hexp :=
  match id with
  | 0%nat => xpow (xm -' xd) 2
  | 1%nat => x2 *' (xm -' xd)
  | 2%nat => xln (xm +' x1) -' xd *' xln (xm +' xeps)
  | 3%nat => x1 /' (xm +' x1) -' xd /' (xm +' xeps)
  | 4%nat => xln (xexp xm +' x1) -' xd *' xm
  | 5%nat => xexp xm /' (xexp xm +' x1) -' xd
  | 6%nat => xm -' xd *' xln (xm +' xeps)
  | 7%nat => x1 -' xd /' (xm +' xeps)
  | 8%nat => xexp xm -' xd *' xm
  | 9%nat => xexp xm -' xd
  | 10%nat => x2 *' xln (xm +' xeps) +' (xpi /' x4) *' xpow (xd /' (xm +' xeps)) 2
  | 11%nat => x2 /' (xm +' xeps) -' ((xpi /' x2) *' xpow xd 2) /' xpow (xm +' xeps) 3
  | 12%nat => xd /' (xm +' xeps) +' xln (xm +' xeps)
  | 13%nat => xneg xd /' xpow (xm +' xeps) 2 +' x1 /' (xm +' xeps)
  | 16%nat => (xp +' xd) *' xln (xm +' x1) -' xd *' xln (xm +' xeps)
  | 17%nat => (xp +' x1) /' (x1 +' xm) -' xd /' (xm +' xeps)
  | 18%nat => (x1 /' xp) *' xrpow (xm +' xeps) xp -' ((x1 /' (xp -' x1)) *' xd) *' xrpow (xm +' xeps) (xp -' x1)
  | 19%nat => xrpow (xm +' xeps) (xp -' x1) -' xd *' xrpow (xm +' xeps) (xp -' x2)
  | _ => x1
  end.

(* the GENERATED handle with the same number *)
Definition hfun (id : nat) (d m p : R) : R :=
  match id with
  | 0%nat => gaussian d m | 1%nat => gaussian_grad d m
  | 2%nat => bernoulli_odds d m | 3%nat => bernoulli_odds_grad d m
  | 4%nat => bernoulli_logit d m | 5%nat => bernoulli_logit_grad d m
  | 6%nat => poisson d m | 7%nat => poisson_grad d m
  | 8%nat => poisson_log d m | 9%nat => poisson_log_grad d m
  | 10%nat => rayleigh d m | 11%nat => rayleigh_grad d m
  | 12%nat => gamma_ d m | 13%nat => gamma_grad d m
  | 14%nat => huber d m p | 15%nat => huber_grad d m p
  | 16%nat => negative_binomial d m p | 17%nat => negative_binomial_grad d m p
  | 18%nat => beta_ d m p | 19%nat => beta_grad d m p
  | _ => 1
  end.

Definition smooth_id (id : nat) : bool := (Nat.ltb id 20) && negb (Nat.eqb id 14) && negb (Nat.eqb id 15).

Section Point.
Variables dn dd mn md pn pd on od tn td : Z.
Let zs := hzs dn dd mn md pn pd on od tn td.
Let d := IZR dn / IZR dd.
Let m := IZR mn / IZR md.
Let p := IZR pn / IZR pd.
Let obs := IZR on / IZR od.
Let tol := IZR tn / IZR td.

(* the expression IS the generated handle, for all arguments *)
Lemma hexp_of_ok id : smooth_id id = true -> heval (hexp_of id) (hvars zs) = hfun id d m p.
Proof.
  intros H.
  do 20 (destruct id as [|id]; [try discriminate H; reflexivity|]).
  discriminate H.
Qed.

Lemma xclose_ok e : heval (xclose e) (hvars zs) = Rabs (heval e (hvars zs) - obs) - tol.
Proof. reflexivity. Qed.

Definition hnum_smooth (prec : Z) (id : nat) : bool := smooth_id id && hle0 prec (xclose (hexp_of id)) zs.

Theorem hnum_smooth_sound prec id : hnum_smooth prec id = true -> Rabs (hfun id d m p - obs) <= tol.
Proof.
  unfold hnum_smooth. intros H. apply andb_prop in H. destruct H as [Hs H].
  apply hle0_sound in H. rewrite xclose_ok, (hexp_of_ok id Hs) in H. lra.
Qed.

(* ---- huber: the branch (|data - model| < threshold or not) and, outside, the sign of data - model are HINTS that the checker
   verifies with the interval evaluator before it uses the branch's closed form (exact zero is recognised when the
   quotients are dyadic, which the grid's kink points are; otherwise the check fails closed) *)
Definition xad := xabs (xd -' xm).
Definition hub_below := xpow xad 2.
Definition hub_above := (x2 *' xp) *' xad -' xpow xp 2.
Definition hubg_below := xneg x2 *' (xd -' xm).
Definition hubg_above (pos : bool) := if pos then xneg (x2 *' xp) else x2 *' xp.

Definition hnum_huber (prec : Z) (grad below pos : bool) : bool :=
  if below then
    hlt0 prec (xad -' xp) zs && hle0 prec (xclose (if grad then hubg_below else hub_below)) zs
  else
    hle0 prec (xp -' xad) zs &&
    (if grad then (if pos then hlt0 prec (xm -' xd) zs else hlt0 prec (xd -' xm) zs) else true) &&
    hle0 prec (xclose (if grad then hubg_above pos else hub_above)) zs.

Lemma huber_below : Rabs (d - m) < p -> huber d m p = Rabs (d - m) ^ 2 /\ huber_grad d m p = - 2 * (d - m).
Proof.
  intros H. unfold huber, huber_grad. apply Rltb_true in H. rewrite H. cbn [negb bsel]. split; ring.
Qed.

Lemma huber_above : ~ Rabs (d - m) < p ->
  huber d m p = 2 * p * Rabs (d - m) - p ^ 2 /\
  (0 < d - m -> huber_grad d m p = - (2 * p)) /\ (d - m < 0 -> huber_grad d m p = 2 * p).
Proof.
  intros H. unfold huber, huber_grad. apply Rltb_false in H. rewrite H. cbn [negb bsel]. split; [ring|].
  unfold sgnR. split; intros S.
  - destruct (Rlt_dec 0 (d - m)); [ring|contradiction].
  - destruct (Rlt_dec 0 (d - m)); [lra|]. destruct (Rlt_dec (d - m) 0); [ring|contradiction].
Qed.

Theorem hnum_huber_sound prec grad below pos : hnum_huber prec grad below pos = true ->
  Rabs ((if grad then huber_grad d m p else huber d m p) - obs) <= tol.
Proof.
  unfold hnum_huber. destruct below.
  - intros H. apply andb_prop in H. destruct H as [Hb H].
    apply hlt0_sound in Hb. apply hle0_sound in H. rewrite xclose_ok in H.
    assert (B : Rabs (d - m) < p) by (change (heval (xad -' xp) (hvars zs)) with (Rabs (d - m) - p) in Hb; lra).
    destruct (huber_below B) as [E1 E2].
    destruct grad.
    + assert (V : heval hubg_below (hvars zs) = huber_grad d m p)
        by (rewrite E2; change (heval hubg_below (hvars zs)) with (- IZR 2 * (d - m)); ring).
      rewrite V in H. lra.
    + assert (V : heval hub_below (hvars zs) = huber d m p)
        by (rewrite E1; change (heval hub_below (hvars zs)) with (Rabs (d - m) ^ 2); ring).
      rewrite V in H. lra.
  - intros H. apply andb_prop in H. destruct H as [H Hc]. apply andb_prop in H. destruct H as [Hb Hs].
    apply hle0_sound in Hb. apply hle0_sound in Hc. rewrite xclose_ok in Hc.
    assert (B : ~ Rabs (d - m) < p) by (change (heval (xp -' xad) (hvars zs)) with (p - Rabs (d - m)) in Hb; lra).
    destruct (huber_above B) as (E1 & E2 & E3).
    destruct grad.
    + destruct pos.
      * apply hlt0_sound in Hs. change (heval (xm -' xd) (hvars zs)) with (m - d) in Hs.
        assert (V : heval (hubg_above true) (hvars zs) = huber_grad d m p)
          by (rewrite E2 by lra; change (heval (hubg_above true) (hvars zs)) with (- (IZR 2 * p)); ring).
        rewrite V in Hc. lra.
      * apply hlt0_sound in Hs. change (heval (xd -' xm) (hvars zs)) with (d - m) in Hs.
        assert (V : heval (hubg_above false) (hvars zs) = huber_grad d m p)
          by (rewrite E3 by lra; change (heval (hubg_above false) (hvars zs)) with (IZR 2 * p); ring).
        rewrite V in Hc. lra.
    + assert (V : heval hub_above (hvars zs) = huber d m p)
        by (rewrite E1; change (heval hub_above (hvars zs)) with (IZR 2 * p * Rabs (d - m) - p ^ 2); ring).
      rewrite V in Hc. lra.
Qed.

End Point.

(* ---- the checker the correspondence cases call: precision 100 bits ------------------------------------------------- *)
Definition hnum_check (id : nat) (below pos : bool) (dn dd mn md pn pd on od tn td : Z) : bool :=
  match id with
  | 14%nat => hnum_huber dn dd mn md pn pd on od tn td 100 false below pos
  | 15%nat => hnum_huber dn dd mn md pn pd on od tn td 100 true below pos
  | _ => hnum_smooth dn dd mn md pn pd on od tn td 100 id
  end.

Theorem hnum_check_sound : forall id below pos dn dd mn md pn pd on od tn td,
  hnum_check id below pos dn dd mn md pn pd on od tn td = true ->
  Rabs (hfun id (IZR dn / IZR dd) (IZR mn / IZR md) (IZR pn / IZR pd) - IZR on / IZR od) <= IZR tn / IZR td.
Proof.
  intros id below pos dn dd mn md pn pd on od tn td H. unfold hnum_check in H.
  destruct (Nat.eq_dec id 14) as [->|N14]; [exact (hnum_huber_sound _ _ _ _ _ _ _ _ _ _ _ false _ _ H)|].
  destruct (Nat.eq_dec id 15) as [->|N15]; [exact (hnum_huber_sound _ _ _ _ _ _ _ _ _ _ _ true _ _ H)|].
  apply (hnum_smooth_sound _ _ _ _ _ _ _ _ _ _ 100).
  do 16 (destruct id as [|id]; [try congruence; exact H|]). exact H.
Qed.

Lemma hfun_table :
  hfun 0 = (fun d m _ => gaussian d m) /\ hfun 1 = (fun d m _ => gaussian_grad d m) /\
  hfun 2 = (fun d m _ => bernoulli_odds d m) /\ hfun 3 = (fun d m _ => bernoulli_odds_grad d m) /\
  hfun 4 = (fun d m _ => bernoulli_logit d m) /\ hfun 5 = (fun d m _ => bernoulli_logit_grad d m) /\
  hfun 6 = (fun d m _ => poisson d m) /\ hfun 7 = (fun d m _ => poisson_grad d m) /\
  hfun 8 = (fun d m _ => poisson_log d m) /\ hfun 9 = (fun d m _ => poisson_log_grad d m) /\
  hfun 10 = (fun d m _ => rayleigh d m) /\ hfun 11 = (fun d m _ => rayleigh_grad d m) /\
  hfun 12 = (fun d m _ => gamma_ d m) /\ hfun 13 = (fun d m _ => gamma_grad d m) /\
  hfun 14 = huber /\ hfun 15 = huber_grad /\
  hfun 16 = negative_binomial /\ hfun 17 = negative_binomial_grad /\
  hfun 18 = beta_ /\ hfun 19 = beta_grad.
Proof. repeat split; reflexivity. Qed.

(* non-vacuity: pyttb-style values at (data, model) = (3/2, 5/8): rayleigh (transcendental: ln, PI), its gradient, huber on its
   kink, and a wrong value that is rejected *)
Example hnum_examples :
  (* gaussian(3/2, 5/8) = 49/64 *)
  hnum_check 0 false false 3 2 5 8 0 1 49 64 1 1000000000 = true /\
  hnum_check 0 false false 3 2 5 8 0 1 50 64 1 1000000000 = false /\
  (* rayleigh(3/2, 5/8) = 2 ln(5/8 + 1e-10) + (PI/4) (12/5)^2 approx 3.58388616... *)
  hnum_check 10 false false 3 2 5 8 0 1 35838862 10000000 1 1000000 = true /\
  hnum_check 10 false false 3 2 5 8 0 1 35838962 10000000 1 1000000 = false /\
  (* huber on the kink |3/2 - 5/8| = 7/8 = threshold: outside branch, 2 t |d - m| - t^2 = 49/64; gradient -(2 t) = -7/4 *)
  hnum_check 14 false true 3 2 5 8 7 8 49 64 0 1 = true /\
  hnum_check 14 true true 3 2 5 8 7 8 49 64 0 1 = false /\
  hnum_check 15 false true 3 2 5 8 7 8 (-7) 4 0 1 = true /\
  hnum_check 15 false false 3 2 5 8 7 8 (-7) 4 0 1 = false.
Proof. vm_compute. repeat split; reflexivity. Qed.
