(* Proofs/C10Budget.v — the rank rule run with a budget that is TOO SMALL (what hosvd does when ||X||^2 is formed in a wrapping
   integer dtype: finding C10-N02; Proofs/C10Stop.v wrapped_normsq_le shows the wrapped value never exceeds the true one, it may be
   zero or negative) still discards at most the true budget: the error bound survives, only minimality is lost. *)
From Coq Require Import List Arith Lia Bool Reals Lra.
From PV Require Import Base.Index Base.Sum Np.Array Np.NpR Model.Repr Model.C10Tucker Proofs.C10Proofs.
Import ListNotations.
Local Open Scope R_scope.

Theorem rank_choice_smaller_budget : forall (eig : list R) (t' t : R) (r : nat),
  t' <= t -> 0 <= t ->
  auto_rank 0 Rplus Rltb eig t' = Some r ->
  (0 < r <= length eig)%nat /\ sumR (skipn r eig) <= t.
Proof.
  intros eig t' t r Hle Ht H. unfold auto_rank, last_above, where_gt in H.
  destruct (last_opt _) as [rk|] eqn:E; [|discriminate]. inversion H; subst r. clear H.
  rewrite eigsum_suffix, suffix_sums_length in E.
  apply last_where_some in E. destruct E as (Hlt & Hk & Hafter).
  split; [lia|].
  destruct (Nat.lt_ge_cases (rk + 1) (length eig)) as [Hin|Hout].
  - specialize (Hafter (rk + 1)%nat ltac:(lia)). rewrite nth_suffix_sums in Hafter.
    apply Rltb_false in Hafter. lra.
  - rewrite skipn_all2 by lia. cbn. lra.
Qed.

(* a negative budget keeps every column *)
Example rank_choice_negative_budget : auto_rank 0 Rplus Rltb [9; 4; 1] (-5) = Some 3%nat.
Proof.
  unfold auto_rank, last_above. rewrite eigsum_suffix. cbn [suffix_sums sumR]. unfold where_gt. cbn [length seq filter nth].
  assert (H0 : Rltb (-5) (9 + (4 + (1 + 0))) = true) by (apply Rltb_true; lra).
  assert (H1 : Rltb (-5) (4 + (1 + 0)) = true) by (apply Rltb_true; lra).
  assert (H2 : Rltb (-5) (1 + 0) = true) by (apply Rltb_true; lra).
  rewrite H0, H1, H2. reflexivity.
Qed.
