(* Props/C18W4O.v — C18, wave 4: RELABELLING of cp_als requests with `optdims` (a subset of the modes optimised) and an explicit
   dimorder; DENSE vs SPARSE for the loop of cp_apr PDNR / PQNR (partial: row numerics are oracles; Proofs/C18ReprRows.v).  Only statements, `exact`, Print Assumptions; proofs and an example in Proofs/C18Optdims.v. *)
From Coq Require Import List Arith Bool Ring Permutation.
From PV Require Import Base.Index Base.Perm Base.Sum Np.Array Model.Sparse Model.Repr Model.C09Als Model.C14Nvecs Model.C11Apr
                       Model.C11Sparse Model.C11Rows Proofs.C18Optdims Proofs.C18ReprMu Proofs.C18ReprRows.
Import ListNotations.

(* cp_als.py: dimorder = [int(d) for d in dimorder if d in optdims].  The restriction of the user's sweep order to the optimised modes
   (in the user's sequence) commutes with relabelling: for dimorder mapped by q = p.index and optdims' = ANY list holding exactly the
   images of the optimised modes (in any order, e.g. sorted) the relabelled request sweeps the images of the original request's modes
   in the same sequence *)
Theorem C18_dimorder_optdims_relabel : forall (p : list nat) (N : nat) (dimorder optdims optdims' : list nat),
  is_perm p N -> Forall (fun d => d < N) dimorder -> Forall (fun d => d < N) optdims ->
  (forall d, In d optdims' <-> In d (map (fun m => index_of m p) optdims)) ->
  eff_order (map (fun m => index_of m p) dimorder) optdims' = map (fun m => index_of m p) (eff_order dimorder optdims).
Proof. exact eff_order_relabel. Qed.
Print Assumptions C18_dimorder_optdims_relabel.

Section C18_optdims.
Variable V : Type.
Variables (v0 v1 : V) (vadd vmul vsub : V -> V -> V) (vopp : V -> V).
Hypothesis Vring : ring_theory v0 v1 vadd vmul vsub vopp (@eq V).
Local Notation mx := (list (list V)).

(* C18_relabel for requests with optdims: the CP-ALS sweep model on X.permute(p), start permuted, dimorder mapped by q, optdims' as
   above, sweeping eff_order of its own request: after every number of sweeps the same weights, the same saved mttkrp and the permuted
   factor list - all shapes / ranks / values / oracles *)
Theorem C18_relabel_optdims : forall (s : shape) (X : idx -> V) (p : list nat) (solve : mx -> mx -> mx) (scale : nat -> mx -> list V * mx)
    (R k : nat) (dimorder optdims optdims' : list nat) (st : als_state V),
  is_perm p (length s) -> map (@nrows V) (st_U st) = s ->
  Forall (fun m => m < length s) dimorder -> Forall (fun m => m < length s) optdims ->
  (forall d, In d optdims' <-> In d (map (fun m => index_of m p) optdims)) ->
  let X' := fun i' => X (pick 0 (invperm p) i') in
  let st' := mkAls (st_w st) (pick [] p (st_U st)) (st_P st) in
  let r := als_iter v0 v1 vadd vmul (fun U n => mttkrp_mat v0 v1 vadd vmul s X U n R) solve scale R k (eff_order dimorder optdims) st in
  let r' := als_iter v0 v1 vadd vmul (fun U n => mttkrp_mat v0 v1 vadd vmul (pick 0 p s) X' U n R) solve scale R k
                     (eff_order (map (fun m => index_of m p) dimorder) optdims') st' in
  st_w r' = st_w r /\ st_U r' = pick [] p (st_U r) /\ st_P r' = st_P r.
Proof. exact (relabel_algorithm_optdims V v0 v1 vadd vmul vsub vopp Vring). Qed.
End C18_optdims.
Print Assumptions C18_relabel_optdims.

Section C18_repr_rows.
Variable V : Type.
Variables (v0 v1 : V) (vadd vmul : V -> V -> V) (vscale : V -> V -> V) (vabs : V -> V) (vmin vmax : V -> V -> V) (vgt0 : V -> bool)
          (vltb vleb : V -> V -> bool) (isz : V -> bool) (vdiv100 : V -> V) (stoptol tiny : V) (maxinner : nat) (inexact prestep : bool).
Variables (grad dir phi : @state V -> ctx -> list (list V) -> list V -> list V).
Variable alpha : @state V -> ctx -> list (list V) -> list V -> V.
Variable fallback : @state V -> ctx -> list (list V) -> list V -> bool.

(* the one place where the PDNR / PQNR loop looks at the data: "row jj of the mode-n unfolding is empty" (factor row zeroed, subproblem
   skipped).  Dense branch: every entry of the row is zero; sparse branch: no stored nonzero has subscript jj in mode n.  On a
   well-formed sptensor (no stored zero, no duplicate) the two tests agree for every row of every mode (the class of fixed finding A-33) *)
Theorem C18_row_empty_repr : forall (S : sparse V) (X : dense V) (n jj : nat),
  wf_sp isz S -> isz v0 = true -> dshape X = sshape S -> (forall i, den_dense v0 X i = den_sp v0 S i) ->
  n < length (sshape S) -> jj < nth n (sshape S) 0 ->
  row_empty v0 isz X n jj = row_empty_sp V S n jj.
Proof. exact (row_empty_repr V v0 isz). Qed.

(* PARTIAL (repr.cp_apr_pdnr / repr.cp_apr_pqnr stay correspondence-only): the loop model of C11 (Model/C11Rows.v; PDNR: prestep = false,
   PQNR: prestep = true) with the sparse emptiness test runs identically to the one with the dense test - final state, KKT trace,
   inner-iteration counts - WHENEVER the row oracles (gradient, direction, step length, fallback, 1 - grad) are the same functions for
   both holders; that the sparse code's row sums over stored nonzeros equal the dense ones is proved for the gradient's Phi row only
   (C18_phi_row_repr) and holds in exact arithmetic, not in floats (open finding C18-PQNR-TIE) *)
Theorem C18_repr_cp_apr_rows_partial : forall (S : sparse V) (X : dense V) (K : ktensor V) (maxiters : nat),
  wf_sp isz S -> isz v0 = true -> dshape X = sshape S -> (forall i, den_dense v0 X i = den_sp v0 S i) -> kshape K = sshape S ->
  cp_apr_rows_sp V v0 v1 vadd vmul vscale vabs vmin vmax vgt0 vltb vleb isz vdiv100 stoptol tiny maxinner inexact prestep
                 grad dir phi alpha fallback S K maxiters =
  cp_apr_rows v0 v1 vadd vmul vscale vabs vmin vmax vgt0 vltb vleb isz vdiv100 stoptol tiny maxinner inexact prestep
              grad dir phi alpha fallback X K maxiters.
Proof. exact (cp_apr_rows_repr V v0 v1 vadd vmul vscale vabs vmin vmax vgt0 vltb vleb isz vdiv100 stoptol tiny maxinner inexact prestep
                               grad dir phi alpha fallback). Qed.
End C18_repr_rows.
Print Assumptions C18_row_empty_repr.
Print Assumptions C18_repr_cp_apr_rows_partial.

Section C18_phi_row.
Variable V : Type.
Variables (v0 v1 : V) (vadd vmul vsub : V -> V -> V) (vopp : V -> V).
Hypothesis Vring : ring_theory v0 v1 vadd vmul vsub vopp (@eq V).
Variables (vdivmax : V -> V -> V) (isz : V -> bool).
(* Phi[n] with row jj of factor n replaced by the row iterate m (the row gradient is 1 - Phi[jj, :]): sparse branch = dense branch *)
Theorem C18_phi_row_repr : forall (S : sparse V) (X : dense V) (n jj : nat) (st : @state V) (m : list V),
  wf_sp isz S -> dshape X = sshape S -> (forall i, den_dense v0 X i = den_sp v0 S i) -> (forall v, vdivmax v0 v = v0) ->
  n < length (sshape S) -> rows_of V st = sshape S ->
  let st' := set_fac st n (upd (fac st n) jj m) in
  calc_phi_sp_code v0 v1 vadd vmul vdivmax S n st' = calc_phi v0 v1 vadd vmul vdivmax X n st'.
Proof. exact (phi_row_repr V v0 v1 vadd vmul vsub vopp Vring vdivmax isz). Qed.
End C18_phi_row.
Print Assumptions C18_phi_row_repr.
