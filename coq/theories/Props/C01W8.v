(* Props/C01W8.v — wave 8: C01's constructor guard models (Model/C01Unique.v tm_ctor / stm_ctor, Model/C01W3.v stm_ctor_nocopy)
   tied to the constructors the translator GENERATES from pyttb/tenmat.py and pyttb/sptenmat.py on every run
   (Gen/GenTenmat7.v tenmat_init, Gen/GenSptenmat7.v sptenmat_init).  The request of the nat-valued model is embedded:
   mode lists / shapes / subscripts as integer vectors (zv, zm), tshape of a tenmat as a tuple of Python ints, dense data as
   shape + F-order entries, numeric data.  tenmat: the WHOLE answer (rejected / empty object / stored fields) for every request.
   sptenmat (typed requests: subs an nnz x 2 array, vals nnz values): the WHOLE answer for copy=True (np.unique(axis=0,
   return_inverse) + accumarray(sum) + np.nonzero of the generated code = the sorted accumulator stm_norm) and for copy=False.
   Only statements, `exact`, Print Assumptions. *)
From Coq Require Import List ZArith Arith Bool.
From PV Require Import Base.Index Base.Perm Np.Array Np.NpZ Np.NpZ2 Np.NpZ3 Np.NpZ3b Np.NpZ7 Np.NpZ7b Proofs.NpZProofs
  Model.C01Conv Model.C01Unique Model.C01W3 Proofs.C01GenBridge Gen.GenTenmat7 Gen.GenSptenmat7 Model.W7Tenmat Model.W7Sptenmat
  Proofs.C01W8Tenmat Proofs.C01W8Sptenmat Proofs.C01W8SptenmatOk Proofs.C01W8SptenmatKeys Proofs.C01W8SptenmatFull Proofs.C01W8Cor.
From PV Require Proofs.C01Converse.
Import ListNotations.

(* ---------------------------------------------------------------- tenmat.__init__ *)
(* for EVERY request of the guard model the generated constructor answers the embedded answer of tm_ctor: Err exactly when
   tm_ctor rejects, the empty object exactly when tm_ctor answers the empty object, otherwise the object with the same
   tshape / rindices / cindices / data — whatever the layout test `mo` and the copy flag *)
Theorem C01_tenmat_generated : forall (mo : ndz -> bool) (data : option (dense Z)) (rd cd : option (list nat)) (ts : option shape)
    (copy : bool),
  tenmat_init mo (option_map emb_dense data) true (option_map zv rd) (option_map zv cd) (emb_oshape ts) copy
  = emb_tm_res (tm_ctor data rd cd ts).
Proof. exact tenmat_init_is_tm_ctor. Qed.
Print Assumptions C01_tenmat_generated.

Theorem C01_tenmat_generated_rejects_iff : forall (mo : ndz -> bool) (data : option (dense Z)) (rd cd : option (list nat))
    (ts : option shape) (copy : bool),
  tenmat_init mo (option_map emb_dense data) true (option_map zv rd) (option_map zv cd) (emb_oshape ts) copy = Err
  <-> tm_ctor data rd cd ts = CtorReject.
Proof. exact gen_tenmat_init_rejects_iff. Qed.
Print Assumptions C01_tenmat_generated_rejects_iff.

(* C01_tenmat_guard as a statement about generated code: an accepted call (data with entries) stores the embedding of an
   object M that tm_ctor accepts, with everything C01_tenmat_guard says about M (C01_tenmat_converse applies to the same M) *)
Theorem C01_tenmat_generated_guard : forall (mo : ndz -> bool) (D : dense Z) (rd cd : option (list nat)) (ts : option shape)
    (copy : bool) (Mz : tmz), wf_dense D -> size (dshape D) <> 0 ->
  tenmat_init mo (Some (emb_dense D)) true (option_map zv rd) (option_map zv cd) (emb_oshape ts) copy = Ok Mz ->
  exists M, Mz = emb_tm M /\ tm_ctor (Some D) rd cd ts = CtorOk M /\
    wf_dense (tm_data M) /\ ddata (tm_data M) = ddata D /\ length (dshape (tm_data M)) = 2 /\
    (length (dshape D) = 2 -> tm_data M = D) /\
    is_perm (tm_r M ++ tm_c M) (length (tm_tshape M)) /\ size (dshape (tm_data M)) = size (tm_tshape M) /\
    C01Conv.gather_wrap_dims (length (tm_tshape M)) rd cd None = Some (tm_r M, tm_c M) /\
    (forall t, ts = Some t -> tm_tshape M = t) /\ (ts = None -> tm_tshape M = dshape (tm_data M)).
Proof. exact gen_tenmat_init_accept_guard. Qed.
Print Assumptions C01_tenmat_generated_guard.

(* ---------------------------------------------------------------- sptenmat.__init__ *)
(* copy=True END TO END: for every typed request with rdims or cdims the generated constructor answers the embedded answer of
   stm_ctor — Err exactly when stm_ctor rejects, otherwise the SAME triples (sorted, duplicates summed in stored order, zero
   sums dropped), mode split and tshape *)
Theorem C01_sptenmat_generated : forall (subs : option (list idx)) (vals : option (list Z)) (rd cd : option (list nat)) (ts : shape),
  is_some rd || is_some cd = true -> stm_typed subs vals ->
  sptenmat_init (option_map zm subs) vals (option_map zv rd) (option_map zv cd) (zv ts) true
  = emb_stm_ctor_res (stm_ctor Z.add (Z.eqb 0) subs vals rd cd ts).
Proof. exact sptenmat_init_is_stm_ctor. Qed.
Print Assumptions C01_sptenmat_generated.

(* C01_sptenmat_guard / C01_sptenmat_converse as statements about generated code: what the generated constructor accepted is
   the embedding of an object M that stm_ctor answers, with everything C01_sptenmat_converse says about M *)
Theorem C01_sptenmat_generated_converse : forall (subs : option (list idx)) (vals : option (list Z)) (rd cd : option (list nat))
    (ts : shape) (Mz : stmz),
  is_some rd || is_some cd = true -> stm_typed subs vals ->
  sptenmat_init (option_map zm subs) vals (option_map zv rd) (option_map zv cd) (zv ts) true = Ok Mz ->
  exists M, Mz = emb_stm M /\ stm_ctor Z.add (Z.eqb 0) subs vals rd cd ts = Some M /\
    C01Converse.stm_converse_concl Z 0%Z Z.add (Z.eqb 0) (olist subs) (olist vals) ts M.
Proof. exact gen_sptenmat_init_accepts_model. Qed.
Print Assumptions C01_sptenmat_generated_converse.

(* copy=False: the whole answer of the generated constructor is the embedded answer of stm_ctor_nocopy (C01_sptenmat_nocopy) *)
Theorem C01_sptenmat_generated_nocopy : forall (subs : list idx) (vals : list Z) (rd cd : option (list nat)) (ts : shape),
  Forall (fun rc => length rc = 2) subs -> length subs = length vals ->
  sptenmat_init (Some (zm subs)) (Some vals) (option_map zv rd) (option_map zv cd) (zv ts) false
  = emb_stm_res (stm_ctor_nocopy subs vals rd cd ts).
Proof. exact sptenmat_init_nocopy_is_stm_ctor_nocopy. Qed.
Print Assumptions C01_sptenmat_generated_nocopy.

(* either copy flag: what stm_ctor rejects, the generated constructor rejects ... *)
Theorem C01_sptenmat_generated_rejects : forall (subs : option (list idx)) (vals : option (list Z))
    (rd cd : option (list nat)) (ts : shape) (copy : bool),
  is_some rd || is_some cd = true -> Forall (fun rc => length rc = 2) (olist subs) ->
  stm_ctor Z.add (Z.eqb 0) subs vals rd cd ts = None ->
  sptenmat_init (option_map zm subs) vals (option_map zv rd) (option_map zv cd) (zv ts) copy = Err.
Proof. exact sptenmat_init_rejects_as_stm_ctor. Qed.
Print Assumptions C01_sptenmat_generated_rejects.

(* ... and what the generated constructor accepts, stm_ctor accepts (so C01_sptenmat_guard / C01_sptenmat_converse speak about
   that request), with the same stored mode split and tshape *)
Theorem C01_sptenmat_generated_accepts : forall (subs : option (list idx)) (vals : option (list Z))
    (rd cd : option (list nat)) (ts : shape) (copy : bool) (Mz : stmz),
  is_some rd || is_some cd = true -> Forall (fun rc => length rc = 2) (olist subs) ->
  sptenmat_init (option_map zm subs) vals (option_map zv rd) (option_map zv cd) (zv ts) copy = Ok Mz ->
  exists M, stm_ctor Z.add (Z.eqb 0) subs vals rd cd ts = Some M /\
    stm7_rdims Mz = zv (stm_r M) /\ stm7_cdims Mz = zv (stm_c M) /\ stm7_tshape Mz = zv (stm_tshape M).
Proof. exact sptenmat_init_accept_as_stm_ctor. Qed.
Print Assumptions C01_sptenmat_generated_accepts.

(* typed requests (subs an nnz x 2 array, vals nnz values), either copy flag: the generated constructor accepts EXACTLY when
   stm_ctor accepts — np.unique / accumarray / np.nonzero of the generated code cannot fail on them *)
Theorem C01_sptenmat_generated_accepts_iff : forall (subs : option (list idx)) (vals : option (list Z))
    (rd cd : option (list nat)) (ts : shape) (copy : bool),
  is_some rd || is_some cd = true -> stm_typed subs vals ->
  (exists Mz, sptenmat_init (option_map zm subs) vals (option_map zv rd) (option_map zv cd) (zv ts) copy = Ok Mz)
  <-> (exists M, stm_ctor Z.add (Z.eqb 0) subs vals rd cd ts = Some M).
Proof. exact sptenmat_init_accepts_iff. Qed.
Print Assumptions C01_sptenmat_generated_accepts_iff.

(* the request without rdims and cdims *)
Theorem C01_sptenmat_generated_empty : forall (subs : option (list idx)) (vals : option (list Z)) (ts : shape) (copy : bool),
  sptenmat_init (option_map zm subs) vals None None (zv ts) copy
  = match stm_ctor Z.add (Z.eqb 0) subs vals None None ts with None => Err | Some _ => Ok H_stm_empty end.
Proof. exact sptenmat_init_empty_as_stm_ctor. Qed.
Print Assumptions C01_sptenmat_generated_empty.

(* ---------------------------------------------------------------- non-vacuity *)
Example C01_example_tenmat_generated :
  (* a 2 x 6 matrix as the (1 | 0, 2) unfolding of a 3 x 2 x 2 tensor: accepted, both sides; the same request with the
     non-partition (1 | 0, 0) and a 1-d data array without tshape: rejected, both sides *)
  let D := mkDense [2; 6] [1; 2; 3; 4; 5; 6; 7; 8; 9; 10; 11; 12]%Z in
  tm_ctor (Some D) (Some [1]) (Some [0; 2]) (Some [3; 2; 2]) = CtorOk (mkTM D [1] [0; 2] [3; 2; 2]) /\
  tenmat_init (fun _ => true) (Some (emb_dense D)) true (Some [1]%Z) (Some [0; 2]%Z) (Some (shp_of_ints [3; 2; 2]%Z)) true
    = Ok (mk_tmz [3; 2; 2]%Z [1]%Z [0; 2]%Z (mk_ndz [2; 6]%Z [1; 2; 3; 4; 5; 6; 7; 8; 9; 10; 11; 12]%Z)) /\
  tm_ctor (Some D) (Some [1]) (Some [0; 0]) (Some [3; 2; 2]) = CtorReject /\
  tenmat_init (fun _ => true) (Some (emb_dense D)) true (Some [1]%Z) (Some [0; 0]%Z) (Some (shp_of_ints [3; 2; 2]%Z)) true = Err /\
  tm_ctor (Some (mkDense [4] [1; 2; 3; 4]%Z)) (Some [0]) None None = CtorReject /\
  tenmat_init (fun _ => false) (Some (mk_ndz [4]%Z [1; 2; 3; 4]%Z)) true (Some [0]%Z) None None false = Err /\
  tm_ctor (@None (dense Z)) None None None = CtorEmpty /\
  tenmat_init (fun _ => true) None true None None None true = Ok H_tm_empty.
Proof. vm_compute. repeat split. Qed.

Example C01_example_sptenmat_generated :
  (* triples of a 2 x 6 unfolding (rows mode 1, columns modes 0, 2 of a 3 x 2 x 2 tensor): accepted by both; a column index 6
     out of range: rejected by both *)
  stm_ctor_nocopy [[1; 5]; [0; 2]] [7; 9]%Z (Some [1]) (Some [0; 2]) [3; 2; 2] = Some (mkSTM [[1; 5]; [0; 2]] [7; 9]%Z [1] [0; 2] [3; 2; 2]) /\
  sptenmat_init (Some [[1; 5]; [0; 2]]%Z) (Some [7; 9]%Z) (Some [1]%Z) (Some [0; 2]%Z) [3; 2; 2]%Z false
    = Ok (mk_stmz [[1; 5]; [0; 2]]%Z [7; 9]%Z [1]%Z [0; 2]%Z [3; 2; 2]%Z) /\
  stm_ctor Z.add (Z.eqb 0) (Some [[1; 6]; [0; 2]]) (Some [7; 9]%Z) (Some [1]) (Some [0; 2]) [3; 2; 2] = None /\
  sptenmat_init (Some [[1; 6]; [0; 2]]%Z) (Some [7; 9]%Z) (Some [1]%Z) (Some [0; 2]%Z) [3; 2; 2]%Z true = Err /\
  (exists Mz, sptenmat_init (Some [[1; 5]; [0; 2]; [1; 5]]%Z) (Some [7; 9; -7]%Z) (Some [1]%Z) (Some [0; 2]%Z) [3; 2; 2]%Z true = Ok Mz /\
     stm7_subs Mz = [[0; 2]]%Z /\ stm7_vals Mz = [9]%Z) /\
  stm_ctor Z.add (Z.eqb 0) (Some [[1; 5]; [0; 2]; [1; 5]]) (Some [7; 9; -7]%Z) (Some [1]) (Some [0; 2]) [3; 2; 2]
    = Some (mkSTM [[0; 2]] [9]%Z [1] [0; 2] [3; 2; 2]) /\
  stm_typed (Some [[1; 5]; [0; 2]; [1; 5]]) (Some [7; 9; -7]%Z).
Proof. unfold stm_typed. vm_compute. repeat split; try (eexists; repeat split); repeat constructor. Qed.
