"""W4S slice for C13, second part: the GCPSampler default-count table — to be INCLUDEd by tools/props/c13.py
(`INCLUDE = ["w4s_c13", "w4s_c13b"]`): generated unit GenSampler (GCPSampler.__init__, _prepare_function_sampler,
_prepare_gradient_sampler, class Samplers, class StratifiedCount of pyttb/gcp/samplers.py), theorem file Props/W4SC13b.v (bridge to
Alg/C13Config.v fn_config_o / gr_config_o + table theorems over the generated constructor), differential op sk_sampler."""
from props import w4s as _w

PROP = "W4S"
LEVEL = _w.LEVEL
GEN_UNITS = ['GenSampler']
COQ_TARGETS = ['Props/W4SC13b.vo'] + ['Model/W4SHarnessSampler.vo']
THEOREM_FILES = ['Props/W4SC13b.v']
COQ_IMPORTS = ("From Coq Require Import List ZArith Bool.\n"
               "From PV Require Import Model.W4SHarnessSampler Model.W4SPreludeZ Gen.GenSampler.\n")
RULE = _w.RULE
EXPLANATION = _w.EXPLANATION
CORRESPONDENCE_ONLY = []
TRUSTED_EXTRA = _w.TRUSTED_EXTRA
SHARD = _w.SHARD
_OPS = ('sk_sampler',)


def gen_cases(rng, tier):
    return _w._sampler_cases(rng, tier == "thorough")


run_impl = _w.run_impl
coq_check = _w.coq_check
oracle = _w.oracle
