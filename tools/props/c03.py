"""C03 — sparse element-wise arithmetic, logic and comparison match dense semantics (DESIGN §C03)."""
import itertools
import math

from vcheck import Case, gz, gzlist, gnlist, gnmat
import tgen
from props import c03_util as U

PROP = "C03"
LEVEL = "proof"
GEN_UNITS = ["GenUtils"]
COQ_TARGETS = ["Props/C03.vo", "Model/Harness.vo"]
THEOREM_FILES = ["Props/C03.v"]
COQ_IMPORTS = ("From Coq Require Import List ZArith Bool QArith Qcanon.\n"
               "From PV Require Import Base.Index Np.Array Model.Sparse Model.Repr Model.Harness Model.C03Ops.\n"
               # case indices >= 5000 are nat literals that make coqc print one warning each; the driver reads the pipe only
               # after the process ends, so the warnings must be silenced or the shard blocks on a full pipe
               'Set Warnings "-abstract-large-number".\n')
RULE = ("every binary operator (+ - * / and or xor == != < <= > >=) x right-hand side kind (scalar in {-1,0,2}, dense, sparse): "
        "ALL 4^cells zero-pattern pairs on the shapes (2,2), (3,), (2,1) [quick] / additionally (2,3), (2,2,2) [thorough], values from "
        "{-2,-1,1,2,3} with forced equal pairs, stored orders of both operands drawn independently from {sorted, reversed, random}; "
        "seeded random shapes <= 4 modes / 24 cells; unary neg/not/ones/elemfun over all patterns; non-trivial = more than one cell "
        "and at least one stored nonzero in some operand; distinct = distinct (op, args)")
CORRESPONDENCE_ONLY = []   # filled below
EXPLANATION = ("pyttb's raw result (sparse: shape/subs/vals lists; dense: F-order data) is compared in Coq against the executable "
               "element-wise specification spec_ew / spec_div (Model/C03Ops.v) evaluated on the literal operands; the theorems of "
               "Props/C03.v prove that the modelled sparse algorithms compute exactly that specification for all inputs. Tie A: "
               "the algorithms that pair or split stored entries (sparse*sparse, sparse==sparse, logical_not, < <= > >=, != scalar, "
               "/ scalar 0) are transliterated over tt_intersect_rows / tt_setdiff_rows / tt_ismember_rows as REGENERATED from "
               "pyttb_utils.py on every run; their index contracts on duplicate-free rows are theorems (C03_rows_*), so a change of a "
               "helper breaks the proof and the correspondence (operands in reversed/random stored order) finds the failing input. "
               "Finite clause of the property text: quick = ALL 4^cells zero-pattern pairs x EVERY binary operator x {sparse, dense} "
               "right-hand side for every shape of <= 4 cells used ((2,2), (3,), (2,1)); thorough adds all pattern pairs of (2,3) "
               "(6 cells, 3 operators per pair, rotating) and (2,2,2) (8 cells, 1 operator per pair, rotating): every pair of patterns up "
               "to 8 cells is run, not every operator on every 8-cell pair (1.7M cases); the general theorems cover all of them.")

VALS = (-2, -1, 1, 2, 3)
SCALARS = (-1, 0, 2)
ORDERS = ("sorted", "reversed", "random")


# ---------------------------------------------------------------------------------------------
# generation
# ---------------------------------------------------------------------------------------------
def order_entries(ent, rng, order):
    ent = list(ent)
    if order == "reversed":
        ent.reverse()
    elif order == "random":
        rng.shuffle(ent)
    return [list(e[0]) for e in ent], [e[1] for e in ent]


def sparse_from_pattern(shape, pat, rng, order, vals=None):
    """pat: 0/1 per cell (F order); returns (subs, vals) in the requested stored order"""
    subs = tgen.all_subs(shape)
    ent = []
    for k, (s, p) in enumerate(zip(subs, pat)):
        if p:
            ent.append((s, vals[k] if vals is not None else rng.choice(VALS)))
    return order_entries(ent, rng, order)


def pair_values(rng, pa, pb):
    """values for two patterns; where both are nonzero they are made equal with probability 0.4"""
    va, vb = [], []
    for x, y in zip(pa, pb):
        a = rng.choice(VALS) if x else 0
        b = rng.choice(VALS) if y else 0
        if x and y and rng.random() < 0.4:
            b = a
        va.append(a)
        vb.append(b)
    return va, vb


def binary_args(shape, pa, pb, rk, rng, oa=None, ob=None, c=None):
    va, vb = pair_values(rng, pa, pb)
    subs, vals = sparse_from_pattern(shape, pa, rng, oa or rng.choice(ORDERS), va)
    a = {"shape": list(shape), "subs": subs, "vals": vals, "rk": rk}
    if rk == "scalar":
        a["c"] = c
    elif rk == "dense":
        a["bd"] = vb
    else:
        bs, bv = sparse_from_pattern(shape, pb, rng, ob or rng.choice(ORDERS), vb)
        a["bsubs"], a["bvals"] = bs, bv
    return a


def nontrivial(a):
    return math.prod(a["shape"]) > 1 and (len(a["subs"]) > 0 or len(a.get("bsubs", [])) > 0 or any(a.get("bd", [])))


def ops_for(rk):
    if rk == "scalar":
        return U.BINOPS + ("rmul", "rdiv")
    return U.BINOPS


def gen_cases(rng, tier):
    big = tier == "thorough"
    cases = []

    def add(op, a):
        cases.append(Case(op, a, nontrivial(a)))

    # 1. exhaustive zero-pattern pairs, sparse and dense right-hand sides
    for shape in [(2, 2), (3,), (2, 1)]:
        n = math.prod(shape)
        for pa in itertools.product((0, 1), repeat=n):
            for pb in itertools.product((0, 1), repeat=n):
                for rk in ("sparse", "dense"):
                    for op in U.BINOPS:
                        add(op, binary_args(shape, pa, pb, rk, rng))
    if big:
        for shape, per in (((2, 3), 3), ((2, 2, 2), 1)):
            n = math.prod(shape)
            k = 0
            for pa in itertools.product((0, 1), repeat=n):
                for pb in itertools.product((0, 1), repeat=n):
                    for _ in range(per):
                        op = U.BINOPS[k % len(U.BINOPS)]
                        rk = ("sparse", "dense")[(k // len(U.BINOPS)) % 2]
                        k += 1
                        add(op, binary_args(shape, pa, pb, rk, rng))
    # 2. scalars: all patterns of the sparse operand
    for shape in [(2, 2), (3,), (1, 2)] + ([(2, 3), (2, 1, 2)] if big else []):
        n = math.prod(shape)
        for pa in itertools.product((0, 1), repeat=n):
            for c in SCALARS:
                for op in ops_for("scalar"):
                    add(op, binary_args(shape, pa, pa, "scalar", rng, c=c))
    # 3. unary operations over all patterns
    unary = ("neg", "not", "ones") + tuple("elemfun:" + k for k in U.ELEMFUNS)
    for shape in [(2, 2), (3,), (1, 2), (2, 1, 2)]:
        n = math.prod(shape)
        for pa in itertools.product((0, 1), repeat=n):
            if n > 4 and not big and rng.random() < 0.75:
                continue
            for op in unary:
                subs, vals = sparse_from_pattern(shape, pa, rng, rng.choice(ORDERS))
                add(op, {"shape": list(shape), "subs": subs, "vals": vals})
    # 4. seeded random larger shapes, fills {empty, one, some, full}
    for _ in range(160 if big else 36):
        shape = tuple(tgen.rand_shape(rng, maxn=4, maxcells=24))
        n = math.prod(shape)

        def rpat():
            mode = rng.choice(("empty", "one", "some", "some", "full"))
            if mode == "empty":
                return [0] * n
            if mode == "full":
                return [1] * n
            if mode == "one":
                p = [0] * n
                p[rng.randrange(n)] = 1
                return p
            f = rng.choice((0.3, 0.6))
            return [int(rng.random() < f) for _ in range(n)]
        for rk in ("sparse", "dense", "scalar"):
            for op in ops_for(rk):
                add(op, binary_args(shape, rpat(), rpat(), rk, rng, c=rng.choice(SCALARS)))
        for op in unary:
            subs, vals = sparse_from_pattern(shape, rpat(), rng, rng.choice(ORDERS))
            add(op, {"shape": list(shape), "subs": subs, "vals": vals})
    return cases


# ---------------------------------------------------------------------------------------------
# pyttb side
# ---------------------------------------------------------------------------------------------
def run_impl(c):
    return U.run_elementwise(c.op, c.args)


# ---------------------------------------------------------------------------------------------
# Coq side
# ---------------------------------------------------------------------------------------------
def gobs_sparse_z(o):
    return tgen.gsparse(o["shape"], o["subs"], o["vals"])


def gobs_sparse_x(o):
    return f"(mkSp {gnlist(o['shape'])} {gnmat(o['subs'])} {U.gxlist(o['vals'])})"


def raw_ok(o):
    """clauses that are decided on the raw observation before it is turned into a Gallina literal"""
    if o["kind"] == "dense":
        return True
    rows_ok = all(len(r) == len(o["shape"]) and all(x >= 0 for x in r) for r in o["subs"])
    return rows_ok and o.get("subs_integral", True) and o["nnz"] == len(o["subs"]) == len(o["vals"])


def coq_check(c, o):
    a = c.args
    op = c.op
    if "exc" in o or o.get("kind") not in ("sparse", "dense") or not raw_ok(o):
        return "false"
    A = U.gsp(a)
    if op in ("div", "rdiv"):
        spec = f"(spec_div {A} {U.grhs(a)})" if op == "div" else f"(spec_rdiv {gz(a['c'])} {A})"
        if o["kind"] == "sparse":
            return f"xsp_denotes {gobs_sparse_x(o)} {spec}"
        return f"xdense_close (mkDense {gnlist(o['shape'])} {U.gxlist(o['data'])}) {spec}"
    if op in U.COQ_F:
        spec = f"(spec_ew {U.COQ_F[op]} {A} {U.grhs(a)})"
    elif op == "neg":
        spec = f"(spec_un Z.opp {A})"
    elif op == "not":
        spec = f"(spec_un znot {A})"
    elif op == "ones":
        spec = f"(spec_un zones {A})"
    elif op.startswith("elemfun:"):
        spec = f"(spec_elemfun {U.ELEMFUNS[op.split(':')[1]][1]} {A})"
    else:
        raise ValueError(op)
    if o["kind"] == "sparse":
        if not tgen.all_int(o["vals"]):
            return "false"
        return f"sp_denotes3 {gobs_sparse_z(o)} {spec}"
    if not tgen.all_int(o["data"]):
        return "false"
    return f"dense_eqb {tgen.gdense(o['shape'], o['data'])} {spec}"


# ---------------------------------------------------------------------------------------------
# brute-force oracle (pure Python loops; shares nothing with pyttb or with the Coq model)
# ---------------------------------------------------------------------------------------------
def oracle(c, o):
    return U.judge(o, c.args["shape"], U.expected_dense(c.op, c.args), zeros_ok=True)


# ---------------------------------------------------------------------------------------------
# known findings: triggers (input classes on which a recorded defect manifests) and witnesses
# ---------------------------------------------------------------------------------------------
def _rk(c):
    return c.args.get("rk")


def _div_sparse_bad(c):
    """A-07: sparse / sparse is right only when both operands have the same support stored in aligned order"""
    a = c.args
    if c.op != "div" or _rk(c) != "sparse":
        return False
    sa = {tuple(s) for s in a["subs"]}
    sb = {tuple(s) for s in a["bsubs"]}
    return sa != sb or not U.common_aligned(a)


def _div_dense_00(c):
    a = c.args
    if c.op != "div" or _rk(c) != "dense":
        return False
    A = U.dense_of(a["shape"], a["subs"], a["vals"])
    return any(x == 0 and y == 0 for x, y in zip(A, a["bd"]))


TRIGGERS = {
    # only the OPEN findings keep a trigger (A-07 sparse/sparse division, C03-N5 sparse/dense division at common zeros)
    "div_sparse_supports_differ_or_misaligned": _div_sparse_bad,
    "div_dense_common_zero": _div_dense_00,
}


def _witness(op, args):
    def run():
        c = Case(op, args)
        return oracle(c, run_impl(c))
    return run


W22 = {"shape": [2, 2]}
WITNESS_INPUTS = {
    "A-07": ("div", dict(W22, subs=[[1, 0]], vals=[4], rk="sparse", bsubs=[[1, 1], [0, 0]], bvals=[3, 2])),
    "C03-N5": ("div", dict(W22, subs=[[1, 1], [0, 0]], vals=[3, 2], rk="dense", bd=[1, 0, 2, 3])),
}
WITNESSES = {k: _witness(*v) for k, v in WITNESS_INPUTS.items()}

CORRESPONDENCE_ONLY = [
    "__truediv__ with a SPARSE right-hand side: the code as it is (open finding A-07) is transliterated over the generated helpers, refuted "
    "(C03_div_sparse_asis_refuted) and proved right only for operands with identical stored subscript lists (C03_div_sparse_asis_partial); "
    "the correct quotient is checked against the executable IEEE specification spec_div only",
    "__truediv__ with a DENSE right-hand side at positions where both operands are 0 (open finding C03-N5: C03_div_dense_refuted / _partial)",
    "__rtruediv__ (scalar / sparse) and sparse (+ - or xor) scalar/dense: full() then the dense operator: proved generically "
    "(C03_dense_result_scalar / _dense for any element function), the dense operator itself is tensor.py's (C02)",
    "_compare groups 1 and 2 are written in the source with `opposite_operator`; the model states them with the operator itself "
    "(equal on the nonzero stored values they are applied to); tied by correspondence",
    "__eq__ (scalar, dense), __ne__ (sparse, dense): hand transliterations (tt_union_rows and boolean-mask scatter are not generated); proved = spec, tied by correspondence",
    "sparse * Kruskal, sparse / Kruskal (not generated)",
]
